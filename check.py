#!/venv/bin/python
"""check.py <ID> [--tier quick|thorough] [--replay file]

The single entry point of every registered check (see MANIFEST.json, DESIGN.md section 4).
"""
import argparse
import importlib
import os
import sys
import traceback
from pathlib import Path

sys.path.insert(0, str(Path(__file__).resolve().parent))
from vlib import common  # noqa: E402


def main():
    ap = argparse.ArgumentParser()
    ap.add_argument('id')
    ap.add_argument('--tier', default=os.environ.get('VERIF_TIER', 'quick'), choices=['quick', 'thorough'])
    ap.add_argument('--replay')
    a = ap.parse_args()
    mod = importlib.import_module(f'vlib.props.{a.id.lower()}')
    if a.replay:
        return mod.replay(a.replay) if hasattr(mod, 'replay') else common.generic_replay(a.replay)
    chk = common.Check(a.id, a.tier)
    # global watchdog: a check that hangs (e.g. a non-terminating computation under a changed tree) is an internal
    # error / timeout (exit 2), never a verdict
    import threading
    t = threading.Timer({'quick': 1500, 'thorough': 7200}[a.tier], lambda: (print(f'[{a.id}] TIMEOUT after the global time limit', flush=True), os._exit(2)))
    t.daemon = True
    t.start()
    drv = None
    try:
        drv = common.standard_build(chk, mod.GENS, mod.TARGETS, mod.THEOREMS, mod.PROP_FILES, getattr(mod, 'SRC', None))
        if a.tier == 'thorough':
            _src = getattr(mod, 'SRC', None)
            common.leanchecker(chk, list(mod.TARGETS) + [x['module'] for x in ([] if not _src else _src if isinstance(_src, (list, tuple)) else [_src])])
        if drv is not None:
            try:
                mod.correspondence(chk, drv)
            except Exception as e:  # the implementation (or the harness) failed in an unexpected way
                chk.oblige('corr:harness', 'correspondence', False, traceback.format_exc()[-1500:])
        chk.start_search(bool(chk.broken()))
        try:
            mod.search(chk, bool(chk.broken()))
        except (TypeError, AttributeError, KeyError, IndexError, NameError, ZeroDivisionError, RecursionError, AssertionError, OverflowError) as e:
            # an exception of a kind the library never documents, raised from INSIDE the package while the oracle exercised it: that is an
            # observation about the code (reported with the traceback as replay).  The same kinds raised by the harness itself, and the
            # library's documented exceptions escaping the harness, stay internal errors (exit 2).
            tb = traceback.extract_tb(e.__traceback__)
            if tb and '/py_ballisticcalc/' in tb[-1].filename:
                chk.failures.append(common.Failure('unexpected-exception:' + type(e).__name__,
                                                   f'{type(e).__name__}: {e} raised inside {tb[-1].filename.split("/py_ballisticcalc/")[-1]}:{tb[-1].lineno} '
                                                   f'({tb[-1].name}) while the property oracle exercised the library',
                                                   {'op': 'exception', 'traceback': traceback.format_exc()[-3000:]}))
            else:
                raise
    except Exception:
        traceback.print_exc()
        sys.exit(2)
    finally:
        if drv is not None:
            drv.close()
    common.finish(chk, mod.TRUSTED, mod.ASSUME, getattr(mod, 'RULE', mod.__doc__ or ''), mod.STATEMENTS)


if __name__ == '__main__':
    main()
