#!/usr/bin/env python3
"""Writes MANIFEST.json from the table below (kept as a script so the 20 entries stay consistent)."""
import json
from pathlib import Path

V = Path(__file__).resolve().parent
CLAIMED = {
    'C06': ('Theorems over the chains regenerated from unit.py on every run (all 41 units, every ordered pair/triple, all real '
            'magnitudes): SI ratio within 1e-6, exact affine temperature maps, tangent units, exact round trip and transitivity '
            'over R; and under the standard model of floating-point arithmetic (any rounding of relative error u after every operation and literal) the round trip over the multiplicative dimensions stays within (1+u)^4 - 1: the few-ulps clause as a theorem. Tie to code: translator re-run each time + the translated chains executed at Float against unit.py bit for bit.',
            'regenerated Lean model + theorems (cases/norm_num over R), bit-exact differential run of the translated chains',
            '5 C06'),
    'C17': ('Theorems over the hand model of calc_powder_sens/get_velocity_for_temp: disabled => identity; enabled => the affine law '
            'anchored at the stated point; calibration reproduces the second measurement with no ordering hypothesis. Tie: bit-exact '
            'correspondence of the Float interpretation with munition.py on random ammo incl. all four orderings.',
            'hand Lean model + theorems (field_simp/ring over R), bit-exact differential run, property-level search',
            '5 C17'),
    'C19': ('Theorems over the hand model of Sight: clicks = correction / effective click for FFP/SFP/LWIR separately for elevation '
            'and windage, linearity, sign, FFP independence of distance/magnification, constructor validation order. Tie: bit-exact '
            'correspondence (constructor outcomes and click counts) on random sights with h != v clicks in every angular unit.',
            'hand Lean model + theorems (ring over R), bit-exact differential run, property-level search',
            '5 C19'),
    'C13': ('Theorems over a heap model of quantity objects: magnitude/dimension invariant under every finite operation sequence '
            '(induction), reads stable, comparisons = comparisons of raw magnitudes, foreign units always error (over the regenerated '
            'chains), hash reads only the magnitude (regenerated read-set). Tie: op-by-op correspondence on random histories.',
            'hand Lean heap model + induction over op lists, regenerated read-sets, differential run of histories',
            '5 C13'),
    'C20': ('Theorems over the model of bisect_left and the helpers: for monotone conditions / non-decreasing keys (any length, '
            'repeats) the bisect searches equal the sequential scan; the nearest-time variant returns the earliest minimiser; the apex '
            'helper returns the peak of a single-peaked column. Tie: exact correspondence of integer answers on synthetic and real rows.',
            'hand Lean model + loop-invariant inductions, differential run, sequential-scan oracle',
            '5 C20'),
    'C16': ('Theorems over the model of danger_space for arbitrary row lists and heights: error iff out of range, bounds bracket the '
            'first row at the range, every row strictly inside is within half the height (both sides), each bound is first/last or at '
            'least half the height away, monotone in the height. Tie: exact correspondence of row indices on synthetic and real rows.',
            'hand Lean model + scan inductions, differential run, property-text oracle',
            '5 C16'),
    'C14': ('Theorems over the model of linear_interpolation (binary-search invariant), BCPoint and DragModelMultiBC: effective BC at '
            'every table Mach = clamped piecewise-linear interpolant of the sorted points, order independence for distinct Mach, single '
            'point = plain model. Input non-mutation is decided by deep snapshots in the harness (by-value model cannot express identity).',
            'hand Lean model + loop-invariant induction + sort lemmas, bit-exact differential run, snapshot oracle',
            '5 C14'),
    'C09': ('Theorems over the model of calculate_curve and the nearest-node binary search (any table of >= 3 strictly ascending points, '
            'every real Mach): value at nodes, parabola through consecutive points incl. both neighbours, last three points beyond the '
            'table; for the nine REGENERATED shipped tables a kernel-evaluated rational certificate lifted to all Mach: positive and within '
            '5% of the linear interpolant; tables = committed reference. Tie: tables regenerated each run; bit-exact correspondence at every '
            'node, both sides of every node and mid-point.',
            'hand Lean model + binary-search invariant, decide +kernel certificates over Q on regenerated tables, bit-exact differential run',
            '5 C09'),
    'C12': ('Theorems over the integrator model for an arbitrary environment: the step and (by induction) the whole state sequence '
            'commute with the left-right mirror; zero-speed winds are the zero vector; wind-sock invariant (one segment per step, in '
            'order); sort is order-independent; causality (lists agreeing on segments 0..k give identical states while in a segment '
            '<= k); cross-wind convexity step. Tie: bit-exact correspondence of whole trajectories with 0-4 wind segments.',
            'hand Lean model + induction over steps, bit-exact differential run of trajectories, metamorphic search on the real code',
            '5 C12'),
    'C04': ('Theorems over the loop model: the stated reason is the first violated limit and the last row is the row of the violating '
            'state; every state carried on respects the limits; limits never perturb earlier rows (one-step lemma + induction over '
            'iterations: prefix of the run without the limit); enumeration of all ways a run can end; a state below the maximum drop cannot be carried on. Termination is proved in PARTIAL form '
            '(hypothesis: a positive lower bound on the time step, i.e. a speed bound along the run): the height then falls below any floor after finitely many '
            'steps; the remaining gap is watched by a watchdog and a per-call time limit. Tie: bit-exact correspondence on limit configurations.',
            'hand Lean model + induction over iterations, bit-exact differential run, truthfulness/prefix oracle + watchdog on the real code',
            '5 C04'),
    'C05': ('Theorems over the row model: every column is the documented function (Mach, kinetic energy constant within 1e-4, OGW, sight-line '
            'geometry as signed distance, adjustments incl. zero at the muzzle, angle = direction of velocity, Litz spin drift with Miller '
            'stability). Tie: bit-exact correspondence of every field on random states fed straight into create_trajectory_row.',
            'hand Lean model + algebra over R, bit-exact differential run, independent-formula oracle on real rows',
            '5 C05'),
    'C07': ('Theorems over the REGENERATED table of every PreferredUnits.<slot>(arg) coercion site: no site replaces a bare 0 by a non-zero default '
            '(kernel-checked), and for every other idiom a bare x (0 included) is stored as x in the preferred unit = the explicit quantity; an explicit '
            'quantity keeps its raw magnitude whatever the slot prefers. Independence of results: the model never takes the settings, and the bit-exact '
            'correspondence runs under randomised assignments of all 15 slots. One open known finding (BCPoint(V=0)).',
            'regenerated site table + decide, small coercion model, bit-exact differential run under random preferred units, two-assignment search',
            '5 C07'),
    'C08': ('Theorems over the atmosphere model with regenerated constants: ISA temperature exact, pressure within 1e-4 over the troposphere '
            '(rpow/exp/log bounds), speed-of-sound constant within 1e-4, dry density within 5e-5 (compressibility bounded over the box), '
            'extrapolation law = barometric composition identity, shortcut, clamped pressure base, vacuum zero (also after the humidity setter), humidity normalisation. '
            'Density falls with humidity with Z and the enhancement factor live (polynomial bound over the box). Tie: bit-exact correspondence of constructor, humidity setter and altitude look-ups (also on the same object before/after the setter).',
            'hand Lean model + real-analysis bounds, regenerated constants, bit-exact differential run, ISA/grid oracle',
            '5 C08'),
    'C01': ('Theorems over the integrator model for an arbitrary environment: the loop body IS semi-implicit Euler for the stated vector field (air-relative '
            'velocity in speed and direction, density and sound speed at station altitude + y, BC in the denominator, wind of the active segment), initial '
            'state and barrel direction, and the exact closed form in a vacuum for any number of steps and any step sequence (error term (g/2) sum dt^2 <= '
            '|g|/2 calc_step t). Convergence is proved in PARTIAL form: a discrete Lax/Groenwall theorem (a (1+rho)-stable, eps-consistent one-step scheme is within '
            'eps n exp(rho n) after n steps; with rho = L h, eps = C h^2 first order in the maximum step) instantiated for the model\'s own step map; the Lipschitz and '
            'consistency constants of the real drag function stay hypotheses and are covered by the RK4-reference search. Tie: bit-exact trajectories.',
            'hand Lean model + induction over steps, bit-exact differential run, independent RK4 reference + step refinement on the real code',
            '5 C01'),
    'C02': ('Theorems over the zero-finder model, generic in the miss function: a returned elevation has its sampled miss (height of the '
            'trajectory interpolated at the zero distance minus the sight-line height there) within the accuracy; otherwise an error is raised '
            '(propagated unchanged, or ZeroFindingError above the accuracy with bounded iterations); the row at the aim point of the run fired with the returned zero is '
            'within accuracy x |cos look| of the sight line; the search starts on the sight line and, for un-canted shots, its outcome does not depend on the stored zero '
            'or hold-over; failed zero leaves the stored zero; PARTIAL convergence theorem (contraction is a hypothesis; one open known finding: zeroing within the last '
            'per cent of the maximum range). Tie: bit-exact correspondence of zero_angle incl. error payloads; fire-back oracle with failure classification on the real code.',
            'hand Lean model + induction over iterations, bit-exact differential run, fire-back oracle',
            '5 C02'),
    'C03': ('Theorem C03_rows_exact over the loop+filter model for EVERY state sequence (any physics) that moves forward with per-step advance <= '
            'min(calc_step, step): exactly the rows 0, step, ..., K*step, one each, all multiples up to the range, at most one integration step beyond, '
            'strictly increasing times, muzzle row first (loop invariant, induction over iterations); default step = 11 rows; time-step record rule. '
            'Tie: bit-exact correspondence of plain trajectories with head/tail/cross winds.',
            'hand Lean model + loop invariant for arbitrary state sequences, bit-exact differential run, row-count oracle incl. tail winds',
            '5 C03'),
    'C18': ('Theorems: configuration = override-else-default over the regenerated constants; induction over any history of set/reset/create: a '
            'calculator keeps the global step in force at its creation; non-positive step rejected; air-relative advance per step <= max step; and over '
            'the REGENERATED enumeration/alias tables, kernel-evaluated: every name and alias resolves to its unit (radian included), resolution is '
            'case-blind for all strings, a name never resolves to an unrelated unit, set() stores exactly the parsed unit. Tie: exhaustive exact '
            'correspondence of the parsers and configuration histories.',
            'regenerated tables + decide +kernel, induction over histories, exhaustive differential run of parsers, behavioural search',
            '5 C18'),
    'C10': ('Theorems: (regenerated from the current source, kernel-checked) every attribute the computations read is re-derived by _init_trajectory or set by the '
            'constructor, and the lists of global writers / foreign stores / self-mutators are exactly the documented ones; (abstract, for all histories and all '
            'schedules) a calculator with that frame property gives, in any history incl. failing calls and under any interleaving of calculators owned by distinct '
            'threads, the outcome of a fresh calculator. Tie: every call inside random histories on long-used calculators compared bit for bit with the '
            'history-free model (built from the construction-time configuration) + deep argument snapshots; every call repeated on a brand-new calculator; real threads are sampled only.',
            'regenerated read/write sets + decide, induction over histories and schedules, bit-exact differential histories, snapshot + thread sampling',
            '5 C10'),
    'C11': ('Theorems over the loop model: state/wind-sock/by-products after an iteration are those of the physical step alone (any flags, steps, '
            'filter state); by induction a completed run ends on the shot\'s physical state sequence, only the prefix length depends on the request; '
            'distance-trigger rows are the interpolant of two consecutive states; plain vs extra lifted by induction to whole runs (every plain row is in the extra-data output), '
            'with/without time step one-step simulation. '
            'Tie: bit-exact correspondence of whole trajectories; request pairs on the real code.',
            'hand Lean model + induction over the loop + filter normal form, bit-exact differential run, metamorphic request pairs',
            '5 C11'),
    'C15': ('Theorems over the event half of the filter fed with ARBITRARY state sequences: ZERO_UP/ZERO_DOWN raised at most once, exactly at the first '
            'state on the other side of the sight line (crossing within that step), pre-marking rule, MACH raised iff v/c passes from >1 to <=1, event '
            'row = the state or the same-step interpolant, rows in time order. Tie: bit-exact correspondence of extra-data trajectories.',
            'hand Lean model + induction over state sequences, bit-exact differential run, dense-trace oracle',
            '5 C15'),
}
NOT_APPLICABLE = {}
TODO_REASON = 'check not built yet in this round (planned, see DESIGN.md section 5)'

# properties whose model functions are additionally tied to the source by translator T7 (function bodies re-executed symbolically from
# /repo on every run, `Src.f = Model.f` proved in BC/Props/<id>Src.lean; DESIGN.md section 0.8)
SRC_TIES = {
    'C01': 'the loop-body statements of the integration step, the initial state, the Vector operators, Wind.vector, barrel elevation/azimuth, drag_by_mach',
    'C02': 'zero_angle in slices (start on the sight line, zero distance, loop condition, error and correction from the trial row, verdict)',
    'C03': 'THE WHOLE OF _integrate: the statements before the loop (= the initial loop state), the whole body of the while loop (= the model function iterate, for every loop state; the whole-run theorems of C01 C04 C11 C12 C15 are about the same function), the while condition and the row appended after the loop (= integrate); _TrajectoryDataFilter.__init__/should_record/check_next_time and the skip loop',
    'C04': 'the limit check (three limits, reason chain), the while condition and min_step of _integrate',
    'C05': 'create_trajectory_row with the _new_* constructors, get_correction, calculate_energy/ogw, spin_drift, calc_stability_coefficient',
    'C08': 'eleven Atmo functions incl. calculate_air_density and get_density_factor_and_mach_for_altitude',
    'C09': 'calculate_curve (first entry, loop body and bounds, closing entry) and the look-up _calculate_by_curve_and_mach_list (bracket, loop condition and body, selection, evaluation)',
    'C10': '_init_trajectory(shot_info): every scalar attribute it assigns is a function of the configuration and the raw values of the shot alone (= Run.ofShot)',
    'C11': 'should_record and clear_current_flag',
    'C12': '_WindSock.__init__/update_cache/vector_for_range/current_vector and Wind.vector',
    'C14': 'linear_interpolation in slices, sectional_density, BCPoint._machC and the Mach of a velocity point (DragModelMultiBC glue matched structurally)',
    'C15': 'setup_seen_zero, check_zero_crossing, check_mach_crossing, should_record',
    'C16': 'danger_space: half height and both scan tests (scan shapes matched structurally)',
    'C17': 'Ammo.get_velocity_for_temp and calc_powder_sens with its guard',
    'C19': 'Sight.get_adjustment with _adjust_sfp_reticle_steps per focal plane',
    'C20': 'helpers.py: apex bisection, the monotone conditions of the distance / strict-time look-ups, key, neighbour comparison and deviation test of the nearest-time look-up',
}

checks = []
for pid, (text, tech, ref) in sorted(CLAIMED.items()):
    if pid in SRC_TIES:
        text += (' SOURCE TIES: ' + SRC_TIES[pid] + ' are re-executed symbolically from the Python source on every run (translate/t_funcs.py) '
                 'and proved equal to the model functions these theorems are about (kernel-checked, generic number type).')
        tech += '; function bodies regenerated from the source by symbolic execution and proved equal to the model (source-tie theorems)'
    checks.append({
        'property_id': pid,
        'quick_cmd': f'./check.py {pid} --tier quick',
        'thorough_cmd': f'./check.py {pid} --tier thorough',
        'evidence_file': f'evidence/{pid}.json',
        'replay_cmd_template': f'./check.py {pid} --replay {{path}}',
        'engine': 'lean4-proof+correspondence',
        'level_claimed': {'category': 'proof', 'text': text, 'design_ref': f'DESIGN.md section {ref}'},
        'level_note': 'Trusted: Lean 4.33.0 kernel + Mathlib (axioms propext, Classical.choice, Quot.sound only; audited by '
                      '#print axioms on every run), the Python->Lean translators / the correspondence harness, CPython+glibc float '
                      'semantics. Theorems are about exact real arithmetic of the model; binary64 rounding is covered by the '
                      'bit-exact Float run of the same definitions against the implementation and by the property-level search.',
        'technique': tech,
    })
props = [json.loads(l)['id'] for l in (V / 'properties.jsonl').read_text().splitlines() if l.strip()]
na = [{'property_id': p, 'reason': NOT_APPLICABLE.get(p, TODO_REASON)} for p in props if p not in CLAIMED]
man = {
    'version': 1,
    'setup_cmd': 'cd lean && lake build BC bcdrv',
    'hooks': {'guard': 'PYBC_VERIF', 'enable': 'no source hooks are needed: the harness wraps objects of the imported package in-process',
              'baseline_off_cmd': 'cd /repo && /venv/bin/python -m pytest -ra -q -p no:cacheprovider --timeout=900 --continue-on-collection-errors',
              'source_commits': [], 'add_only': True},
    'engines': [{'name': 'lean4-proof+correspondence', 'path': 'check.py',
                 'serves_properties': sorted(CLAIMED),
                 'kind_free_text': 'Lean 4 theorems about a generic model (R for proofs, Float for execution); model tied to /repo by '
                                   'translators re-run on every check (data tables, constants, unit chains, read/write sets AND function bodies with '
                                   'source-tie theorems) and by a bit-exact differential run against the implementation; '
                                   'property-level search on the real code produces the replay when an obligation breaks'}],
    'checks': checks,
    'not_applicable': na,
    'notes': 'fix: commits made in /repo are listed in known_findings.json (status fixed:<commit>). See DESIGN.md.',
}
(V / 'MANIFEST.json').write_text(json.dumps(man, indent=1))
print('claimed', sorted(CLAIMED), 'unclaimed', len(na))
