-- This module serves as the root of the `BC` library.
-- Import modules here that should be built as part of the library.
import BC.Basic
