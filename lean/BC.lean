import BC.Num
import BC.Real
import BC.Gen.Units
import BC.Ref.SI
import BC.Props.C06
