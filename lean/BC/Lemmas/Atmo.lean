/-
  BC.Lemmas.Atmo — helper lemmas about `BC.Model.Atmo` read over ℝ (used by BC.Props.C08).
-/
import Mathlib.Tactic.Ring
import Mathlib.Tactic.FieldSimp
import Mathlib.Tactic.Linarith
import Mathlib.Tactic.NormNum
import Mathlib.Analysis.SpecialFunctions.Pow.Real
import Mathlib.Analysis.SpecialFunctions.Log.Basic
import Mathlib.Analysis.SpecialFunctions.Exp
import Mathlib.Analysis.Complex.Exponential
import BC.Real
import BC.Model.Atmo

namespace BC.Lemmas.Atmo
open BC BC.Model BC.Gen

/-! ### unit reads through the regenerated chains -/

theorem feetOf_eq (r : ℝ) : feetOf r = r / 12 := by
  norm_num [feetOf, getIn, fromRaw, Distance.fromRaw]
theorem meterOf_eq (r : ℝ) : meterOf r = r * 25.4 / 1000 := by
  norm_num [meterOf, getIn, fromRaw, Distance.fromRaw]
theorem celsiusOf_eq (r : ℝ) : celsiusOf r = (r - 32) * 5 / 9 := by
  norm_num [celsiusOf, getIn, fromRaw, Temperature.fromRaw]
theorem fpsOf_eq (r : ℝ) : fpsOf r = r * 3.2808399 := by
  norm_num [fpsOf, getIn, fromRaw, Velocity.fromRaw]
theorem hPaOf_eq (r : ℝ) : hPaOf r = r / 750.061683 * 1000 := by
  norm_num [hPaOf, getIn, fromRaw, Pressure.fromRaw]
theorem mkRaw_hPa_eq (r : ℝ) : mkRaw .Pressure r .hPa = r * 750.061683 / 1000 := by
  norm_num [mkRaw, toRaw, Pressure.toRaw]

/-- writing a pressure in hPa and reading it back in hPa is the identity -/
theorem hPaOf_mkRaw (x : ℝ) : hPaOf (mkRaw .Pressure x .hPa) = x := by
  rw [hPaOf_eq, mkRaw_hPa_eq]; norm_num; ring

theorem rpow_two' (x : ℝ) : x ^ (2:ℝ) = x ^ 2 := by exact_mod_cast Real.rpow_natCast x 2

/-! ### the station constructor -/

/-- a station built without pressure and powder temperature (`Atmo(altitude, None, temp, None, hum)`): the humidity
    was accepted and every field is the stated function of the altitude and the (optional) temperature. -/
theorem Atmo_new_ok {alt hum : ℝ} {temp : Option ℝ} {a : Atmo ℝ}
    (ha : Atmo.new alt none temp none hum = .ok a) :
    ∃ hh, normHumidity hum = .ok hh ∧
      a = ⟨alt, mkRaw .Pressure (standardPressureHPa alt) .hPa, temp.getD (standardTemperatureF alt),
           temp.getD (standardTemperatureF alt), feetOf alt, celsiusOf (temp.getD (standardTemperatureF alt)),
           standardPressureHPa alt, machF (temp.getD (standardTemperatureF alt)), hh,
           airDensity (celsiusOf (temp.getD (standardTemperatureF alt))) (standardPressureHPa alt) hh
             / cStandardDensityMetric⟩ := by
  unfold Atmo.new at ha
  cases hn : normHumidity hum with
  | error e => rw [hn] at ha; simp at ha
  | ok hh =>
    rw [hn] at ha
    refine ⟨hh, rfl, ?_⟩
    cases temp <;>
    · simp only [Except.ok.injEq, Option.getD_none, Option.getD_some, hPaOf_mkRaw] at ha ⊢
      exact ha.symm

/-! ### ISA temperature / pressure -/

/-- the standard temperature in °C is `15 − 0.0065·metres` -/
theorem isa_temperature (alt : ℝ) :
    celsiusOf (standardTemperatureF alt) = 15 - 0.0065 * meterOf alt := by
  rw [celsiusOf_eq, meterOf_eq]
  norm_num [standardTemperatureF, feetOf_eq, cStandardTemperatureF, cLapseRateImperial]
  ring

/-- barometric composition: the base at `z` relative to a station at `fa` is the quotient of the sea-level bases -/
theorem base_ratio (c T0 fa z : ℝ) (hT0 : T0 ≠ 0) (hTa : T0 - c * fa ≠ 0) :
    1 + (-c) * (z - fa) / (T0 - c * fa) = (1 - c * z / T0) / (1 - c * fa / T0) := by
  have : 1 - c * fa / T0 ≠ 0 := by
    intro h; apply hTa; field_simp at h; linarith
  field_simp
  ring

/-- for a base in [0.74, 1.02] and a tiny exponent, the power is within `0.72·|δ|` of 1 -/
theorem rpow_small_exp {b δ : ℝ} (hb1 : 0.74 ≤ b) (hb2 : b ≤ 1.02) (hδ : |δ| ≤ 1) :
    |b ^ δ - 1| ≤ 0.72 * |δ| := by
  have hbpos : 0 < b := by norm_num at hb1; linarith
  have hl1 : Real.log b ≤ 0.02 := by
    have := Real.log_le_sub_one_of_pos hbpos
    norm_num at hb2 ⊢; linarith
  have hl2 : -0.36 ≤ Real.log b := by
    have := Real.one_sub_inv_le_log_of_pos hbpos
    have h3 : b⁻¹ ≤ (0.74:ℝ)⁻¹ := inv_anti₀ (by norm_num) hb1
    norm_num at h3 ⊢; linarith
  have hl : |Real.log b| ≤ 0.36 := by
    rw [abs_le]; constructor
    · exact hl2
    · norm_num at hl1 ⊢; linarith
  rw [Real.rpow_def_of_pos hbpos]
  have hx : |Real.log b * δ| ≤ 0.36 * |δ| := by
    rw [abs_mul]; exact mul_le_mul_of_nonneg_right hl (abs_nonneg _)
  have hx1 : |Real.log b * δ| ≤ 1 := by
    norm_num at hx ⊢; nlinarith [abs_nonneg δ]
  have := Real.abs_exp_sub_one_le hx1
  norm_num at hx this ⊢
  linarith

/-- the standard pressure with its constants spelled out -/
theorem standardPressureHPa_eq (alt : ℝ) :
    standardPressureHPa alt = 1013.25 * (1 - 0.0065 * meterOf alt / 288.15) ^ (5.255876 : ℝ) := by
  simp only [standardPressureHPa, cStandardPressureMetric, cLapseRateMetric, cStandardTemperatureC, cDegreesCtoK,
    cPressureExponent, fn_pow]
  have : (1.0:ℝ) + (-0.0065) * meterOf alt / (15.0 + 273.15) = 1 - 0.0065 * meterOf alt / 288.15 := by
    norm_num; ring
  rw [this]

/-! ### dry-air density -/

/-- compressibility factor of dry air as coded (CIPM-2007 with `x_v = 0`) -/
noncomputable def dryZ (t p : ℝ) : ℝ :=
  1 - p / (t + 273.15) * (1.58123e-6 + (-2.9331e-8) * t + 1.1043e-10 * t ^ 2) + (p / (t + 273.15)) ^ 2 * 1.83e-11

/-- with humidity 0 the coded CIPM-2007 density is the ideal-gas density with compressibility `dryZ` -/
theorem airDensity_dry (t p : ℝ) :
    airDensity t p 0 = 100 * (p * 28.96546e-3 / (dryZ t p * 8.314472 * (t + 273.15))) := by
  simp only [airDensity, cDegreesCtoK, fn_pow, fn_exp, dryZ]
  norm_num

/-- over the tropospheric box the dry compressibility factor is within 2.4e-5 of 1 -/
theorem dryZ_bounds (t p : ℝ) (ht : -73.15 ≤ t ∧ t ≤ 46.85) (hp : 0 < p ∧ p ≤ 1100) :
    1 - 2.4e-5 ≤ dryZ t p ∧ dryZ t p ≤ 1 + 1e-9 := by
  obtain ⟨ht1, ht2⟩ := ht
  obtain ⟨hp1, hp2⟩ := hp
  have hT : 0 < t + 273.15 := by norm_num at ht1 ⊢; linarith
  set u := p / (t + 273.15) with hu
  have hu0 : 0 < u := div_pos hp1 hT
  have hu1 : u ≤ 5.5 := by
    rw [hu, div_le_iff₀ hT]; norm_num at ht1 hp2 ⊢; linarith
  set q : ℝ := 1.58123e-6 + (-2.9331e-8) * t + 1.1043e-10 * t ^ 2 with hq
  have hq0 : 0 ≤ q := by
    rw [hq]; norm_num at ht1 ht2 ⊢
    nlinarith [sq_nonneg (t - 46.85)]
  have hq1 : q ≤ 4.32e-6 := by
    rw [hq]; norm_num at ht1 ht2 ⊢
    nlinarith [mul_nonneg (sub_nonneg.2 ht1) (sub_nonneg.2 ht2)]
  have huq : u * q ≤ 5.5 * 4.32e-6 := mul_le_mul hu1 hq1 hq0 (by norm_num)
  have huq0 : 0 ≤ u * q := mul_nonneg hu0.le hq0
  have hu2 : u ^ 2 ≤ 5.5 ^ 2 := pow_le_pow_left₀ hu0.le hu1 2
  have hu20 : 0 ≤ u ^ 2 := sq_nonneg u
  unfold dryZ
  rw [← hu, ← hq]
  constructor
  · norm_num at huq hu2 ⊢; nlinarith
  · norm_num at huq hu2 ⊢; nlinarith

/-- ratio of the coded dry density to the ISA ideal-gas density for a compressibility factor close to 1 -/
theorem dry_ratio (p T Z : ℝ) (hp : 0 < p) (hT : 0 < T) (hZ1 : 1 - 2.4e-5 ≤ Z) (hZ2 : Z ≤ 1 + 1e-9) :
    |100 * (p * 28.96546e-3 / (Z * 8.314472 * T)) / (100 * p * 0.0289644 / (8.31432 * T)) - 1| ≤ 5e-5 := by
  have hZ : 0 < Z := by norm_num at hZ1 ⊢; linarith
  have e : 100 * (p * 28.96546e-3 / (Z * 8.314472 * T)) / (100 * p * 0.0289644 / (8.31432 * T))
      = (28.96546e-3 * 8.31432 / (8.314472 * 0.0289644)) / Z := by
    have := hp.ne'; have := hT.ne'; have := hZ.ne'
    norm_num
    field_simp
    norm_num
  rw [e, abs_le]
  constructor
  · rw [le_sub_iff_add_le, le_div_iff₀ hZ]; norm_num at hZ2 ⊢; linarith
  · rw [sub_le_iff_le_add, div_le_iff₀ hZ]; norm_num at hZ1 ⊢; linarith

end BC.Lemmas.Atmo
