/-
  BC.Lemmas.AtmoVapour — the coded CIPM-2007 density as a function of the vapour mole fraction, with the compressibility factor `Z`
  LIVE (it depends on the mole fraction through two of its terms): over the box −73.15 … 60 °C, 0 < p ≤ 1100 hPa the density falls
  as the mole fraction rises from 0 to 1, and the mole fraction is proportional to the humidity.  Used by `C08_density_falls_with_humidity`.
-/
import Mathlib.Tactic.Ring
import Mathlib.Tactic.FieldSimp
import Mathlib.Tactic.Linarith
import Mathlib.Tactic.NormNum
import Mathlib.Tactic.Positivity
import Mathlib.Analysis.SpecialFunctions.Exp
import BC.Real
import BC.Model.Atmo
import BC.Lemmas.Atmo
namespace BC.Lemmas.AtmoVapour
open BC BC.Model BC.Gen BC.Lemmas.Atmo
set_option linter.unusedVariables false

/-- compressibility as a function of the vapour mole fraction, abstract coefficients -/
def Zx (q A B C d e x : ℝ) : ℝ := 1 - q * (A + B * x + C * x ^ 2) + q ^ 2 * (d + e * x ^ 2)

/-- the algebraic heart: with `g x = 1 - k x`, the cross difference factors through `x' - x` -/
theorem cross_diff (q A B C d e k x x' : ℝ) :
    (1 - k * x) * Zx q A B C d e x' - (1 - k * x') * Zx q A B C d e x =
      (x' - x) * (k * Zx q A B C d e x + (1 - k * x) * (-(q * B) - q * C * (x' + x) + q ^ 2 * e * (x' + x))) := by
  unfold Zx; ring

theorem Zx_lower (q A B C d e x : ℝ) (hq0 : 0 ≤ q) (hq : q ≤ 5.5) (hA0 : 0 ≤ A) (hA : A ≤ 5e-6) (hB0 : 0 ≤ B) (hB : B ≤ 8e-6)
    (hC0 : 0 ≤ C) (hC : C ≤ 4e-4) (hd : 0 ≤ d) (he0 : e ≤ 0) (he : -1e-8 ≤ e) (hx0 : 0 ≤ x) (hx : x ≤ 1) :
    0.99 ≤ Zx q A B C d e x := by
  unfold Zx
  have hx2 : x ^ 2 ≤ 1 := by nlinarith
  have hx20 : 0 ≤ x ^ 2 := by positivity
  have h1 : A + B * x + C * x ^ 2 ≤ 5e-6 + 8e-6 + 4e-4 := by nlinarith
  have h1' : 0 ≤ A + B * x + C * x ^ 2 := by positivity
  have h2 : q * (A + B * x + C * x ^ 2) ≤ 5.5 * (5e-6 + 8e-6 + 4e-4) := by
    apply mul_le_mul hq h1 h1' (by norm_num)
  have hq2 : q ^ 2 ≤ 30.25 := by nlinarith
  have hq20 : 0 ≤ q ^ 2 := by positivity
  have h3 : -1e-8 ≤ d + e * x ^ 2 := by nlinarith
  have h4 : q ^ 2 * (d + e * x ^ 2) ≥ -(30.25 * 1e-8) := by nlinarith
  norm_num at h2 h4 ⊢
  linarith

/-- the density formula of `calculate_air_density` as a function of the vapour mole fraction `x` (everything else fixed) -/
noncomputable def rhoX (t p x : ℝ) : ℝ :=
  let T_K := t + 273.15
  let Z := Zx (p / T_K) (1.58123e-6 + (-2.9331e-8) * t + 1.1043e-10 * t ^ 2) (5.707e-6 + (-2.051e-8) * t)
              (1.9898e-4 + (-2.376e-6) * t) 1.83e-11 (-0.765e-8) x
  (p * 28.96546e-3) / (Z * 8.314472 * T_K) * (1 - x * (1 - 18.01528e-3 / 28.96546e-3))

theorem coeff_bounds (t : ℝ) (ht0 : -73.15 ≤ t) (ht1 : t ≤ 60) :
    0 ≤ 1.58123e-6 + (-2.9331e-8) * t + 1.1043e-10 * t ^ 2 ∧ 1.58123e-6 + (-2.9331e-8) * t + 1.1043e-10 * t ^ 2 ≤ 5e-6 ∧
    0 ≤ 5.707e-6 + (-2.051e-8) * t ∧ 5.707e-6 + (-2.051e-8) * t ≤ 8e-6 ∧
    0 ≤ 1.9898e-4 + (-2.376e-6) * t ∧ 1.9898e-4 + (-2.376e-6) * t ≤ 4e-4 := by
  refine ⟨?_, ?_, ?_, ?_, ?_, ?_⟩ <;> nlinarith [sq_nonneg t, sq_nonneg (t + 73.15), sq_nonneg (t - 60)]

/-- the bracket of `cross_diff` is non-negative under the coefficient bounds (pure arithmetic) -/
theorem bracket_nonneg (q B C k z x x' e : ℝ) (hq0 : 0 ≤ q) (hq : q ≤ 5.5) (hB0 : 0 ≤ B) (hB : B ≤ 8e-6) (hC0 : 0 ≤ C) (hC : C ≤ 4e-4)
    (hk1 : k ≤ 0.379) (hk2 : 0.377 ≤ k) (hz : 0.99 ≤ z) (hx0 : 0 ≤ x) (hxx : x ≤ x') (hx1 : x' ≤ 1) (he0 : e ≤ 0) (he : -1e-8 ≤ e) :
    0 ≤ k * z + (1 - k * x) * (-(q * B) - q * C * (x' + x) + q ^ 2 * e * (x' + x)) := by
  have hkx : k * x ≤ 0.379 * 1 := mul_le_mul hk1 (by linarith) hx0 (by norm_num)
  have hkx0 : 0 ≤ k * x := mul_nonneg (by linarith) hx0
  have hg0 : 0 ≤ 1 - k * x := by norm_num at hkx; linarith
  have hg1 : 1 - k * x ≤ 1 := by linarith
  have hs0 : 0 ≤ x' + x := by linarith
  have hs2 : x' + x ≤ 2 := by linarith
  have hqB : q * B ≤ 5.5 * 8e-6 := mul_le_mul hq hB hB0 (by norm_num)
  have hqB0 : 0 ≤ q * B := mul_nonneg hq0 hB0
  have hqC : q * C ≤ 5.5 * 4e-4 := mul_le_mul hq hC hC0 (by norm_num)
  have hqC0 : 0 ≤ q * C := mul_nonneg hq0 hC0
  have hqCs : q * C * (x' + x) ≤ 5.5 * 4e-4 * 2 := mul_le_mul hqC hs2 hs0 (by norm_num)
  have hqCs0 : 0 ≤ q * C * (x' + x) := mul_nonneg hqC0 hs0
  have hq2 : q ^ 2 ≤ 5.5 ^ 2 := pow_le_pow_left₀ hq0 hq 2
  have hq20 : 0 ≤ q ^ 2 := by positivity
  have hq2s : q ^ 2 * (x' + x) ≤ 5.5 ^ 2 * 2 := mul_le_mul hq2 hs2 hs0 (by norm_num)
  have hq2s0 : 0 ≤ q ^ 2 * (x' + x) := mul_nonneg hq20 hs0
  have he' : q ^ 2 * e * (x' + x) = e * (q ^ 2 * (x' + x)) := by ring
  have hE : -(1e-8 * (5.5 ^ 2 * 2)) ≤ e * (q ^ 2 * (x' + x)) := by nlinarith
  have hE0 : e * (q ^ 2 * (x' + x)) ≤ 0 := mul_nonpos_of_nonpos_of_nonneg he0 hq2s0
  set S := -(q * B) - q * C * (x' + x) + q ^ 2 * e * (x' + x) with hSdef
  have hS : -(0.0046:ℝ) ≤ S := by
    rw [hSdef, he']; norm_num at hqB hqCs hE ⊢; linarith
  have hS0 : S ≤ 0 := by rw [hSdef, he']; linarith
  have h1 : 0.377 * 0.99 ≤ k * z := mul_le_mul hk2 hz (by norm_num) (by linarith)
  have h2 : -(0.0046:ℝ) ≤ (1 - k * x) * S := by nlinarith
  norm_num at h1 ⊢
  linarith

/-- **density falls as the vapour mole fraction rises — compressibility `Z` live** -/
theorem rhoX_antitone (t p x x' : ℝ) (ht0 : -73.15 ≤ t) (ht1 : t ≤ 60) (hp0 : 0 < p) (hp1 : p ≤ 1100)
    (hx0 : 0 ≤ x) (hxx : x ≤ x') (hx1 : x' ≤ 1) : rhoX t p x' ≤ rhoX t p x := by
  obtain ⟨hA0, hA, hB0, hB, hC0, hC⟩ := coeff_bounds t ht0 ht1
  have hTpos : 0 < t + 273.15 := by linarith
  have hq0 : 0 ≤ p / (t + 273.15) := by positivity
  have hq : p / (t + 273.15) ≤ 5.5 := by
    rw [div_le_iff₀ hTpos]; nlinarith
  have hZ := Zx_lower _ _ _ _ 1.83e-11 (-0.765e-8) x hq0 hq hA0 hA hB0 hB hC0 hC (by norm_num) (by norm_num) (by norm_num) hx0 (by linarith)
  have hZ' := Zx_lower _ _ _ _ 1.83e-11 (-0.765e-8) x' hq0 hq hA0 hA hB0 hB hC0 hC (by norm_num) (by norm_num) (by norm_num) (by linarith) hx1
  have hk1 : (1:ℝ) - 18.01528e-3 / 28.96546e-3 ≤ 0.379 := by norm_num
  have hk2 : (0.377:ℝ) ≤ 1 - 18.01528e-3 / 28.96546e-3 := by norm_num
  have hbr := bracket_nonneg _ _ _ _ _ x x' (-0.765e-8) hq0 hq hB0 hB hC0 hC hk1 hk2 hZ hx0 hxx hx1 (by norm_num) (by norm_num)
  have hcross := cross_diff (p / (t + 273.15)) (1.58123e-6 + (-2.9331e-8) * t + 1.1043e-10 * t ^ 2) (5.707e-6 + (-2.051e-8) * t)
    (1.9898e-4 + (-2.376e-6) * t) 1.83e-11 (-0.765e-8) (1 - 18.01528e-3 / 28.96546e-3) x x'
  have hnum := mul_nonneg (sub_nonneg.mpr hxx) hbr
  rw [← hcross] at hnum
  -- back to the density
  unfold rhoX
  simp only []
  generalize Zx (p / (t + 273.15)) _ _ _ _ _ x = zx at *
  generalize Zx (p / (t + 273.15)) _ _ _ _ _ x' = zx' at *
  generalize (1:ℝ) - 18.01528e-3 / 28.96546e-3 = k at *
  have hzx : 0 < zx := by linarith
  have hzx' : 0 < zx' := by linarith
  rw [div_mul_eq_mul_div, div_mul_eq_mul_div, div_le_div_iff₀ (by positivity) (by positivity)]
  have hK : 0 ≤ p * 28.96546e-3 * (8.314472 * (t + 273.15)) := by positivity
  have := mul_le_mul_of_nonneg_left (sub_nonneg.mp hnum) hK
  nlinarith [this]

/-- vapour mole fraction the code computes for humidity fraction `h` -/
noncomputable def xvOf (t p h : ℝ) : ℝ :=
  h / 100 * (1.00062 + 3.14e-8 * p + 5.6e-7 * t ^ 2) *
    Real.exp (1.2378847e-5 * (t + 273.15) ^ 2 + (-1.9121316e-2) * (t + 273.15) + 33.93711047 + (-6.3431645e3) / (t + 273.15)) / p

theorem airDensity_eq_rhoX (t p h : ℝ) : airDensity t p h = 100 * rhoX t p (xvOf t p h) := by
  unfold airDensity rhoX xvOf Zx
  simp only [fn_pow, fn_exp, rpow_two', cDegreesCtoK]
  norm_num

/-- the mole fraction is proportional to the humidity, with a positive factor -/
theorem xvOf_mono (t p h h' : ℝ) (hp : 0 < p) (hh : h ≤ h') : xvOf t p h ≤ xvOf t p h' := by
  unfold xvOf
  have hf : 0 < 1.00062 + 3.14e-8 * p + 5.6e-7 * t ^ 2 := by positivity
  have he := Real.exp_pos (1.2378847e-5 * (t + 273.15) ^ 2 + (-1.9121316e-2) * (t + 273.15) + 33.93711047 + (-6.3431645e3) / (t + 273.15))
  apply div_le_div_of_nonneg_right _ hp.le
  apply mul_le_mul_of_nonneg_right _ he.le
  apply mul_le_mul_of_nonneg_right _ hf.le
  linarith

theorem xvOf_nonneg (t p h : ℝ) (hp : 0 < p) (hh : 0 ≤ h) : 0 ≤ xvOf t p h := by
  unfold xvOf
  have hf : 0 < 1.00062 + 3.14e-8 * p + 5.6e-7 * t ^ 2 := by positivity
  positivity

end BC.Lemmas.AtmoVapour
