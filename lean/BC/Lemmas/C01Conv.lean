/-
  Helper lemmas for C01_converges_partial: the discrete Grönwall inequality
  `e₀ = 0`, `e (k+1) ≤ (1+ρ) e k + ε`  ⟹  `e n ≤ ε · n · exp (ρ n)`.
-/
import Mathlib.Tactic.Ring
import Mathlib.Tactic.Linarith
import Mathlib.Tactic.Positivity
import Mathlib.Analysis.SpecialFunctions.Exp

namespace BC.Lemmas.C01Conv

/-- `(1+ρ)^n ≤ exp (ρ n)` -/
theorem one_add_pow_le_exp (ρ : ℝ) (hρ : 0 ≤ ρ) (n : ℕ) : (1 + ρ) ^ n ≤ Real.exp (ρ * n) := by
  have h1 : 1 + ρ ≤ Real.exp ρ := by
    have := Real.add_one_le_exp ρ
    linarith
  have h2 : (1 + ρ) ^ n ≤ Real.exp ρ ^ n := pow_le_pow_left₀ (by linarith) h1 n
  have h3 : Real.exp ρ ^ n = Real.exp (ρ * n) := by
    rw [← Real.exp_nat_mul, mul_comm]
  rw [← h3]
  exact h2

/-- discrete Grönwall, polynomial form -/
theorem gronwall_pow (e : ℕ → ℝ) (ρ ε : ℝ) (hρ : 0 ≤ ρ) (hε : 0 ≤ ε) (h0 : e 0 ≤ 0)
    (hstep : ∀ k, e (k + 1) ≤ (1 + ρ) * e k + ε) :
    ∀ n : ℕ, e n ≤ ε * n * (1 + ρ) ^ n := by
  intro n
  induction n with
  | zero => simpa using h0
  | succ n ih =>
    have hp : (1:ℝ) ≤ (1 + ρ) ^ (n + 1) := one_le_pow₀ (by linarith)
    have h1 : 0 ≤ 1 + ρ := by linarith
    have h2 : (1 + ρ) * e n ≤ (1 + ρ) * (ε * n * (1 + ρ) ^ n) := mul_le_mul_of_nonneg_left ih h1
    have h3 : ε ≤ ε * (1 + ρ) ^ (n + 1) := by
      have := mul_le_mul_of_nonneg_left hp hε
      linarith
    have h4 : (1 + ρ) * (ε * n * (1 + ρ) ^ n) + ε * (1 + ρ) ^ (n + 1)
        = ε * ((n + 1 : ℕ) : ℝ) * (1 + ρ) ^ (n + 1) := by
      push_cast; ring
    linarith [hstep n]

/-- discrete Grönwall, exponential form -/
theorem gronwall_exp (e : ℕ → ℝ) (ρ ε : ℝ) (hρ : 0 ≤ ρ) (hε : 0 ≤ ε) (h0 : e 0 ≤ 0)
    (hstep : ∀ k, e (k + 1) ≤ (1 + ρ) * e k + ε) :
    ∀ n : ℕ, e n ≤ ε * n * Real.exp (ρ * n) := by
  intro n
  have h1 := gronwall_pow e ρ ε hρ hε h0 hstep n
  have h2 := one_add_pow_le_exp ρ hρ n
  have h3 : (0:ℝ) ≤ ε * n := by positivity
  have := mul_le_mul_of_nonneg_left h2 h3
  linarith

end BC.Lemmas.C01Conv
