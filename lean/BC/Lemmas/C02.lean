/-
  Helper lemmas for C02 (`C02_hits_sight_line`): every row a run returns was built by `mkRow`, hence its
  `targetDrop` column is the stated function of its own `height` and `distance` columns.
-/
import Mathlib.Tactic.Ring
import Mathlib.Tactic.Linarith
import Mathlib.Tactic.NormNum
import BC.Real
import BC.Model.Traj
import BC.Lemmas.Loop

namespace BC.Lemmas.C02
open BC BC.Model BC.Gen BC.Lemmas.Loop

theorem feetOf_eq (x : ℝ) : feetOf x = x / 12 := by
  norm_num [feetOf, getIn, fromRaw, Distance.fromRaw]

/-- the relation between the `targetDrop`, `height` and `distance` columns (raw inches) of a row -/
def TD (look : ℝ) (row : Row ℝ) : Prop :=
  row.targetDrop = (feetOf row.height - feetOf row.distance * Real.tan look) * Real.cos look * 12

theorem mkRow_TD {r : Run ℝ} {time : ℝ} {pos vel : Vec ℝ} {speed mach density drag : ℝ} {flag : Flags}
    {row : Row ℝ} (h : mkRow r time pos vel speed mach density drag flag = some row) :
    TD r.proj.lookAngle row := by
  unfold mkRow createRow at h
  split at h
  · cases h
  · cases h
    simp only [TD, feetOf_eq, fn_tan, fn_cos]
    norm_num

/-- the rows after the recording step are the old ones, possibly with one `mkRow` row in front -/
theorem recordStep_rows {r : Run ℝ} {ff : Flags} {sf : Nat} {l : LoopSt ℝ} {density mach : ℝ}
    {flt' : TFilter ℝ} {rows : List (Row ℝ)} (h : recordStep r ff sf l density mach = .ok (flt', rows)) :
    rows = l.rows ∨ ∃ time pos vel speed m flag row,
      mkRow r time pos vel speed m density l.drag flag = some row ∧ rows = row :: l.rows := by
  unfold recordStep at h
  split_ifs at h
  · simp only at h
    split at h
    · split at h
      · rename_i row hrow
        cases h
        exact Or.inr ⟨_, _, _, _, _, _, row, hrow, rfl⟩
      · cases h
    · cases h
      exact Or.inl rfl
  · cases h
    exact Or.inl rfl

/-- `loop` preserves any invariant of `iterate` -/
theorem loop_inv {r : Run ℝ} {ff : Flags} {sf : Nat} {bound maxRange : ℝ} (P : LoopSt ℝ → Prop)
    (hP : ∀ l l', P l → iterate r ff sf l = .ok l' → P l') :
    ∀ (fuel : Nat) (l l' : LoopSt ℝ), P l → loop r ff sf bound maxRange fuel l = .ok l' → P l' := by
  intro fuel
  induction fuel with
  | zero => intro l l' _ h; simp [loop] at h
  | succ fuel ih =>
    intro l l' hl h
    unfold loop at h
    split_ifs at h with hx
    · split at h
      · cases h
      · rename_i l1 h1
        exact ih l1 l' (hP l l1 hl h1) h
    · cases h
      exact hl

theorem iterate_rows_TD {r : Run ℝ} {ff : Flags} {sf : Nat} {l l' : LoopSt ℝ}
    (hl : ∀ row ∈ l.rows, TD r.proj.lookAngle row) (h : iterate r ff sf l = .ok l') :
    ∀ row ∈ l'.rows, TD r.proj.lookAngle row := by
  obtain ⟨p, flt', rows, -, hrec, -, rfl⟩ := iterate_ok_inv h
  rcases recordStep_rows hrec with rfl | ⟨_, _, _, _, _, _, row, hrow, rfl⟩
  · exact hl
  · intro row' hmem
    rcases List.mem_cons.1 hmem with rfl | hmem
    · exact mkRow_TD hrow
    · exact hl _ hmem

/-- the loop state `_integrate` starts from -/
noncomputable def startSt (r : Run ℝ) (e step : ℝ) (ff : Flags) (ts : ℝ) : LoopSt ℝ :=
  ⟨initialState r e, WindSock.init r.winds r.maxWindDist,
   (TFilter.init ff step (initialState r e).pos (initialState r e).vel ts).setupSeenZero (initialState r e).pos.y e
      r.proj.lookAngle,
   [], 0.0, 0.0, 0.0, r.muzzleVelocity, (initialState r e).pos.x⟩

/-- what `_integrate` returns after the loop: the recorded rows, with a closing flag-NONE row of the final state
    appended when fewer than two rows were recorded -/
noncomputable def closeRows (r : Run ℝ) (l : LoopSt ℝ) : Except (Err ℝ) (List (Row ℝ)) :=
  if 2 ≤ l.rows.length then .ok l.rows.reverse
  else
    match mkRow r l.s.time l.s.pos l.s.vel l.speed l.mach l.density l.drag fNONE with
    | some row => .ok (row :: l.rows).reverse
    | none => .error .zeroDiv

/-- `_integrate` = the loop from the start state, then the closing step -/
theorem integrate_eq (r : Run ℝ) (e maxRange step : ℝ) (ff : Flags) (ts : ℝ) (fuel sf : Nat) :
    integrate r e maxRange step ff ts fuel sf =
      match loop r ff sf (maxRange + minOf r.cfg.calcStep step) maxRange fuel (startSt r e step ff ts) with
      | .error x => .error x
      | .ok l => closeRows r l := by
  unfold integrate startSt
  dsimp only
  split
  · rename_i heq
    rw [heq]
  · rename_i l heq
    rw [heq]
    unfold closeRows
    dsimp only
    match hrows : l.rows with
    | a :: b :: t => simp
    | [] =>
      rw [if_neg (by simp)]
      cases mkRow r l.s.time l.s.pos l.s.vel l.speed l.mach l.density l.drag fNONE <;> rfl
    | [a] =>
      rw [if_neg (by simp)]
      cases mkRow r l.s.time l.s.pos l.s.vel l.speed l.mach l.density l.drag fNONE <;> rfl

/-- inversion of a completed run: the final loop state, and the rows returned (with the closing row appended
    when fewer than two rows were recorded) -/
theorem integrate_ok_inv {r : Run ℝ} {e maxRange step : ℝ} {ff : Flags} {ts : ℝ} {fuel sf : Nat}
    {rows : List (Row ℝ)} (h : integrate r e maxRange step ff ts fuel sf = .ok rows) :
    ∃ l, loop r ff sf (maxRange + minOf r.cfg.calcStep step) maxRange fuel (startSt r e step ff ts) = .ok l ∧
      ((2 ≤ l.rows.length ∧ rows = l.rows.reverse) ∨
       (l.rows.length < 2 ∧ ∃ row, mkRow r l.s.time l.s.pos l.s.vel l.speed l.mach l.density l.drag fNONE = some row ∧
          rows = (row :: l.rows).reverse)) := by
  rw [integrate_eq] at h
  split at h
  · cases h
  rename_i lf hloop
  refine ⟨lf, hloop, ?_⟩
  unfold closeRows at h
  split_ifs at h with h2
  · cases h
    exact Or.inl ⟨h2, rfl⟩
  · split at h
    · rename_i row hrow
      cases h
      exact Or.inr ⟨by omega, row, hrow, rfl⟩
    · cases h

/-- **integrate_rows_targetDrop**: every row a completed run returns has
    `target_drop = (height − distance·tan look)·cos look` (feet; the column holds raw inches). -/
theorem integrate_rows_targetDrop {r : Run ℝ} {e maxRange step : ℝ} {ff : Flags} {ts : ℝ} {fuel sf : Nat}
    {rows : List (Row ℝ)} (h : integrate r e maxRange step ff ts fuel sf = .ok rows) :
    ∀ row ∈ rows, row.targetDrop =
      (feetOf row.height - feetOf row.distance * Real.tan r.proj.lookAngle) * Real.cos r.proj.lookAngle * 12 := by
  obtain ⟨l, hloop, hrows⟩ := integrate_ok_inv h
  have hl : ∀ row ∈ l.rows, TD r.proj.lookAngle row :=
    loop_inv (fun l => ∀ row ∈ l.rows, TD r.proj.lookAngle row) (fun _ _ hl hit => iterate_rows_TD hl hit)
      fuel _ l (by intro row hm; cases hm) hloop
  intro row hmem
  rcases hrows with ⟨-, rfl⟩ | ⟨-, row', hrow', rfl⟩
  · exact hl row (List.mem_reverse.1 hmem)
  · rcases List.mem_cons.1 (List.mem_reverse.1 hmem) with rfl | hm
    · exact mkRow_TD hrow'
    · exact hl row hm

end BC.Lemmas.C02
