/-
  Helper lemmas for C03 (range-card rows at every multiple of the recording step).
-/
import Mathlib.Tactic.Ring
import Mathlib.Tactic.Linarith
import Mathlib.Tactic.NormNum
import Mathlib.Tactic.FieldSimp
import BC.Real
import BC.Model.Traj

namespace BC.Lemmas.C03
open BC BC.Model

/-! ### literals and `minOf` -/

theorem lit0 : (0.0 : ℝ) = 0 := by norm_num
theorem lit1 : (1.0 : ℝ) = 1 := by norm_num
theorem lit12 : (12.0 : ℝ) = 12 := by norm_num

theorem minOf_le_left (a b : ℝ) : minOf a b ≤ a := by
  unfold minOf; split_ifs with h
  · exact le_of_lt h
  · exact le_refl _

theorem minOf_le_right (a b : ℝ) : minOf a b ≤ b := by
  unfold minOf; split_ifs with h
  · exact le_refl _
  · exact not_lt.mp h

theorem minOf_pos {a b : ℝ} (ha : 0 < a) (hb : 0 < b) : 0 < minOf a b := by
  unfold minOf; split_ifs <;> assumption

/-! ### flags -/

@[simp] theorem anyCommon_fRANGE (a : Flags) : a.anyCommon fRANGE = a.range := by
  simp [Flags.anyCommon, fRANGE]

/-! ### `checkZero` / `checkMach` only touch the event bits -/

section checkZero
variable (f : TFilter ℝ) (pos : Vec ℝ)

@[simp] theorem checkZero_filter : (f.checkZero pos).filter = f.filter := by
  unfold TFilter.checkZero; dsimp only; split_ifs <;> rfl
@[simp] theorem checkZero_range : (f.checkZero pos).currentFlag.range = f.currentFlag.range := by
  unfold TFilter.checkZero; dsimp only; split_ifs <;> rfl
@[simp] theorem checkZero_timeStep : (f.checkZero pos).timeStep = f.timeStep := by
  unfold TFilter.checkZero; dsimp only; split_ifs <;> rfl
@[simp] theorem checkZero_rangeStep : (f.checkZero pos).rangeStep = f.rangeStep := by
  unfold TFilter.checkZero; dsimp only; split_ifs <;> rfl
@[simp] theorem checkZero_tolr : (f.checkZero pos).timeOfLastRecord = f.timeOfLastRecord := by
  unfold TFilter.checkZero; dsimp only; split_ifs <;> rfl
@[simp] theorem checkZero_nrd : (f.checkZero pos).nextRecordDistance = f.nextRecordDistance := by
  unfold TFilter.checkZero; dsimp only; split_ifs <;> rfl

end checkZero

section checkMach
variable (f : TFilter ℝ) (v m : ℝ)

@[simp] theorem checkMach_filter : (f.checkMach v m).filter = f.filter := by
  unfold TFilter.checkMach; dsimp only; split_ifs <;> rfl
@[simp] theorem checkMach_range : (f.checkMach v m).currentFlag.range = f.currentFlag.range := by
  unfold TFilter.checkMach; dsimp only; split_ifs <;> rfl
@[simp] theorem checkMach_timeStep : (f.checkMach v m).timeStep = f.timeStep := by
  unfold TFilter.checkMach; dsimp only; split_ifs <;> rfl
@[simp] theorem checkMach_rangeStep : (f.checkMach v m).rangeStep = f.rangeStep := by
  unfold TFilter.checkMach; dsimp only; split_ifs <;> rfl
@[simp] theorem checkMach_tolr : (f.checkMach v m).timeOfLastRecord = f.timeOfLastRecord := by
  unfold TFilter.checkMach; dsimp only; split_ifs <;> rfl
@[simp] theorem checkMach_nrd : (f.checkMach v m).nextRecordDistance = f.nextRecordDistance := by
  unfold TFilter.checkMach; dsimp only; split_ifs <;> rfl

end checkMach

/-! ### the tail of `shouldRecord` -/

/-- everything `shouldRecord` does after the distance / time trigger -/
noncomputable def finish (f1 : TFilter ℝ) (data : Option (BaseTraj ℝ)) (pos vel : Vec ℝ) (mach time : ℝ) :
    TFilter ℝ × Option (BaseTraj ℝ) :=
  let f3 := (f1.checkZero pos).checkMach vel.mag mach
  ({ f3 with prevTime := time, prevPos := pos, prevVel := vel, prevMach := mach },
   if f3.currentFlag.anyCommon f3.filter && data.isNone then some ⟨time, pos, vel, mach⟩ else data)

/-- the distance / time trigger of `shouldRecord` -/
noncomputable def trigger (f : TFilter ℝ) (skipFuel : Nat) (pos vel : Vec ℝ) (mach time : ℝ) :
    TFilter ℝ × Option (BaseTraj ℝ) :=
  if 0.0 < f.rangeStep ∧ f.nextRecordDistance ≤ pos.x then
    let nrd := skipRecords f.rangeStep pos.x skipFuel f.nextRecordDistance
    let data :=
      if f.prevPos.x < pos.x then
        let ratio := (nrd - f.prevPos.x) / (pos.x - f.prevPos.x)
        some ⟨lerp f.prevTime time ratio, f.prevPos.lerp pos ratio, f.prevVel.lerp vel ratio,
              lerp f.prevMach mach ratio⟩
      else none
    ({ f with currentFlag := { f.currentFlag with range := true }, nextRecordDistance := nrd + f.rangeStep,
              timeOfLastRecord := time }, data)
  else if 0.0 < f.timeStep then
    if f.timeOfLastRecord + f.timeStep < time then
      ({ f with currentFlag := { f.currentFlag with range := true }, timeOfLastRecord := time }, none)
    else (f, none)
  else (f, none)

theorem shouldRecord_eq (f : TFilter ℝ) (sf : Nat) (pos vel : Vec ℝ) (mach time : ℝ) :
    f.shouldRecord sf pos vel mach time
      = finish (trigger f sf pos vel mach time).1 (trigger f sf pos vel mach time).2 pos vel mach time := rfl


section finish
variable (f1 : TFilter ℝ) (data : Option (BaseTraj ℝ)) (pos vel : Vec ℝ) (mach time : ℝ)

@[simp] theorem finish_filter : (finish f1 data pos vel mach time).1.filter = f1.filter := by simp [finish]
@[simp] theorem finish_range : (finish f1 data pos vel mach time).1.currentFlag.range = f1.currentFlag.range := by
  simp [finish]
@[simp] theorem finish_timeStep : (finish f1 data pos vel mach time).1.timeStep = f1.timeStep := by simp [finish]
@[simp] theorem finish_rangeStep : (finish f1 data pos vel mach time).1.rangeStep = f1.rangeStep := by simp [finish]
@[simp] theorem finish_tolr : (finish f1 data pos vel mach time).1.timeOfLastRecord = f1.timeOfLastRecord := by
  simp [finish]
@[simp] theorem finish_nrd : (finish f1 data pos vel mach time).1.nextRecordDistance = f1.nextRecordDistance := by
  simp [finish]
@[simp] theorem finish_prevPos : (finish f1 data pos vel mach time).1.prevPos = pos := rfl
@[simp] theorem finish_prevTime : (finish f1 data pos vel mach time).1.prevTime = time := rfl

theorem finish_data_range (hf : f1.filter.range = true) (hr : f1.currentFlag.range = true) :
    (finish f1 data pos vel mach time).2
      = if data.isNone then some ⟨time, pos, vel, mach⟩ else data := by
  have h3 : ((f1.checkZero pos).checkMach vel.mag mach).filter.range = true := by simp [hf]
  have h4 : ((f1.checkZero pos).checkMach vel.mag mach).currentFlag.range = true := by simp [hr]
  have : ((f1.checkZero pos).checkMach vel.mag mach).currentFlag.anyCommon
      ((f1.checkZero pos).checkMach vel.mag mach).filter = true := by
    simp only [Flags.anyCommon, h3, h4]; simp
  simp only [finish, this, Bool.true_and]

theorem finish_data_fRANGE (hf : f1.filter = fRANGE) :
    (finish f1 data pos vel mach time).2
      = if f1.currentFlag.range && data.isNone then some ⟨time, pos, vel, mach⟩ else data := by
  have h3 : ((f1.checkZero pos).checkMach vel.mag mach).filter = fRANGE := by simp [hf]
  simp only [finish, h3, anyCommon_fRANGE, checkMach_range, checkZero_range]

end finish

/-! ### the trigger -/

theorem skipRecords_stay (step x nrd : ℝ) (h : ¬ nrd + step < x) (fuel : Nat) :
    skipRecords step x fuel nrd = nrd := by
  cases fuel with
  | zero => rfl
  | succ n => unfold skipRecords; rw [if_neg h]

theorem trigger_none (f : TFilter ℝ) (sf : Nat) (pos vel : Vec ℝ) (mach time : ℝ)
    (hts : f.timeStep = 0) (hx : pos.x < f.nextRecordDistance) :
    trigger f sf pos vel mach time = (f, none) := by
  unfold trigger
  rw [if_neg (by rintro ⟨_, h⟩; linarith), if_neg (by rw [hts, lit0]; exact lt_irrefl _)]

theorem trigger_range (f : TFilter ℝ) (sf : Nat) (pos vel : Vec ℝ) (mach time : ℝ)
    (hrs : 0 < f.rangeStep) (h1 : f.nextRecordDistance ≤ pos.x)
    (h2 : pos.x ≤ f.nextRecordDistance + f.rangeStep) :
    trigger f sf pos vel mach time =
      ({ f with currentFlag := { f.currentFlag with range := true },
                nextRecordDistance := f.nextRecordDistance + f.rangeStep, timeOfLastRecord := time },
       if f.prevPos.x < pos.x then
         some ⟨lerp f.prevTime time ((f.nextRecordDistance - f.prevPos.x) / (pos.x - f.prevPos.x)),
               f.prevPos.lerp pos ((f.nextRecordDistance - f.prevPos.x) / (pos.x - f.prevPos.x)),
               f.prevVel.lerp vel ((f.nextRecordDistance - f.prevPos.x) / (pos.x - f.prevPos.x)),
               lerp f.prevMach mach ((f.nextRecordDistance - f.prevPos.x) / (pos.x - f.prevPos.x))⟩
       else none) := by
  unfold trigger
  rw [if_pos ⟨by rw [lit0]; exact hrs, h1⟩]
  simp only [skipRecords_stay f.rangeStep pos.x f.nextRecordDistance (not_lt.mpr h2) sf]


theorem trigger_time (f : TFilter ℝ) (sf : Nat) (pos vel : Vec ℝ) (mach time : ℝ)
    (hτ : 0 < f.timeStep) (hno : ¬ (0 < f.rangeStep ∧ f.nextRecordDistance ≤ pos.x))
    (hlate : f.timeOfLastRecord + f.timeStep < time) :
    trigger f sf pos vel mach time =
      ({ f with currentFlag := { f.currentFlag with range := true }, timeOfLastRecord := time }, none) := by
  unfold trigger
  rw [if_neg (by rw [lit0]; exact hno), if_pos (by rw [lit0]; exact hτ), if_pos hlate]

/-! ### extracting the successful path of `iterate` / `recordStep` / `mkRow` / `physIter` -/

theorem iterate_ok {r : Run ℝ} {ff : Flags} {sf : Nat} {l l' : LoopSt ℝ} (h : iterate r ff sf l = .ok l') :
    ∃ p flt' rows, physStep r l.s l.ws = some p ∧ recordStep r ff sf l p.density p.mach = .ok (flt', rows) ∧
      l' = ⟨p.out.st, p.ws, flt', rows, p.out.drag, p.mach, p.density, p.out.speed, l.s.pos.x⟩ := by
  unfold iterate at h
  split at h
  · cases h
  · rename_i p hp
    split at h
    · cases h
    · rename_i flt' rows hr
      dsimp only at h
      split at h
      · split at h <;> cases h
      · cases h
        exact ⟨p, flt', rows, hp, hr, rfl⟩

/-- the filter handed to `shouldRecord`: the current flag is cleared first -/
noncomputable def cleared (l : LoopSt ℝ) : TFilter ℝ := { l.flt with currentFlag := fNONE }

theorem recordStep_ok {r : Run ℝ} {sf : Nat} {l : LoopSt ℝ} {density mach : ℝ} {flt' : TFilter ℝ}
    {rows : List (Row ℝ)} (h : recordStep r fRANGE sf l density mach = .ok (flt', rows)) :
    flt' = ((cleared l).shouldRecord sf l.s.pos l.s.vel mach l.s.time).1 ∧
    (((cleared l).shouldRecord sf l.s.pos l.s.vel mach l.s.time).2 = none ∧ rows = l.rows ∨
     ∃ d row, ((cleared l).shouldRecord sf l.s.pos l.s.vel mach l.s.time).2 = some d ∧
       mkRow r d.time d.pos d.vel d.vel.mag d.mach density l.drag flt'.currentFlag = some row ∧
       rows = row :: l.rows) := by
  unfold recordStep at h
  have hn : (!fRANGE.isNone) = true := by decide
  simp only [hn, if_true] at h
  unfold cleared
  generalize ({ l.flt with currentFlag := fNONE } : TFilter ℝ).shouldRecord sf l.s.pos l.s.vel mach l.s.time
    = res at h ⊢
  obtain ⟨f', data⟩ := res
  cases data with
  | none =>
    simp only at h
    cases h
    exact ⟨rfl, Or.inl ⟨rfl, rfl⟩⟩
  | some d =>
    simp only at h
    split at h
    · rename_i row hrow
      cases h
      exact ⟨rfl, Or.inr ⟨d, row, rfl, hrow, rfl⟩⟩
    · cases h

theorem mkRow_some {r : Run ℝ} {time : ℝ} {pos vel : Vec ℝ} {speed mach density drag : ℝ} {flag : Flags}
    {row : Row ℝ} (h : mkRow r time pos vel speed mach density drag flag = some row) :
    row.time = time ∧ row.distance = pos.x * 12 ∧ row.height = pos.y * 12 ∧
    row.velocity = speed / 3.2808399 ∧ row.flag = flag := by
  unfold mkRow createRow at h
  split at h
  · cases h
  · cases h
    refine ⟨rfl, ?_, ?_, rfl, rfl⟩ <;> simp only [lit12]

theorem physIter_snoc (r : Run ℝ) : ∀ (m : Nat) (s0 : St ℝ) (ws0 : WindSock ℝ) (s : St ℝ) (ws : WindSock ℝ)
    (p : Phys ℝ), physIter r m s0 ws0 = some (s, ws) → physStep r s ws = some p →
      physIter r (m + 1) s0 ws0 = some (p.out.st, p.ws) := by
  intro m
  induction m with
  | zero =>
    intro s0 ws0 s ws p h hp
    simp only [physIter] at h
    cases h
    simp only [physIter, hp]
  | succ m ih =>
    intro s0 ws0 s ws p h hp
    rw [physIter] at h
    rw [physIter]
    cases hq : physStep r s0 ws0 with
    | none => rw [hq] at h; cases h
    | some q =>
      rw [hq] at h
      exact ih q.out.st q.ws s ws p h hp


/-! ### `shouldRecord` in the two situations of a plain range request -/

theorem shouldRecord_none (f : TFilter ℝ) (sf : Nat) (pos vel : Vec ℝ) (mach time : ℝ)
    (hc : f.currentFlag.range = false) (hfil : f.filter = fRANGE) (hts : f.timeStep = 0)
    (hx : pos.x < f.nextRecordDistance) :
    (f.shouldRecord sf pos vel mach time).2 = none ∧
    (f.shouldRecord sf pos vel mach time).1.nextRecordDistance = f.nextRecordDistance ∧
    (f.shouldRecord sf pos vel mach time).1.rangeStep = f.rangeStep ∧
    (f.shouldRecord sf pos vel mach time).1.timeStep = f.timeStep ∧
    (f.shouldRecord sf pos vel mach time).1.filter = f.filter ∧
    (f.shouldRecord sf pos vel mach time).1.prevPos = pos ∧
    (f.shouldRecord sf pos vel mach time).1.prevTime = time := by
  rw [shouldRecord_eq, trigger_none f sf pos vel mach time hts hx]
  refine ⟨?_, by simp, by simp, by simp, by simp, by simp, by simp⟩
  rw [finish_data_fRANGE _ _ _ _ _ _ hfil]
  simp [hc]

theorem shouldRecord_range (f : TFilter ℝ) (sf : Nat) (pos vel : Vec ℝ) (mach time : ℝ)
    (hfil : f.filter.range = true) (hrs : 0 < f.rangeStep) (h1 : f.nextRecordDistance ≤ pos.x)
    (h2 : pos.x ≤ f.nextRecordDistance + f.rangeStep) :
    (f.shouldRecord sf pos vel mach time).2 =
      (if f.prevPos.x < pos.x then
         some ⟨lerp f.prevTime time ((f.nextRecordDistance - f.prevPos.x) / (pos.x - f.prevPos.x)),
               f.prevPos.lerp pos ((f.nextRecordDistance - f.prevPos.x) / (pos.x - f.prevPos.x)),
               f.prevVel.lerp vel ((f.nextRecordDistance - f.prevPos.x) / (pos.x - f.prevPos.x)),
               lerp f.prevMach mach ((f.nextRecordDistance - f.prevPos.x) / (pos.x - f.prevPos.x))⟩
       else some ⟨time, pos, vel, mach⟩) ∧
    (f.shouldRecord sf pos vel mach time).1.nextRecordDistance = f.nextRecordDistance + f.rangeStep ∧
    (f.shouldRecord sf pos vel mach time).1.rangeStep = f.rangeStep ∧
    (f.shouldRecord sf pos vel mach time).1.timeStep = f.timeStep ∧
    (f.shouldRecord sf pos vel mach time).1.filter = f.filter ∧
    (f.shouldRecord sf pos vel mach time).1.prevPos = pos ∧
    (f.shouldRecord sf pos vel mach time).1.prevTime = time ∧
    (f.shouldRecord sf pos vel mach time).1.currentFlag.range = true := by
  rw [shouldRecord_eq, trigger_range f sf pos vel mach time hrs h1 h2]
  refine ⟨?_, by simp, by simp, by simp, by simp, by simp, by simp, by simp⟩
  dsimp only
  rw [finish_data_range]
  · by_cases hlt : f.prevPos.x < pos.x
    · rw [if_pos hlt, if_pos hlt]; rfl
    · rw [if_neg hlt, if_neg hlt]; rfl
  · exact hfil
  · rfl

/-! ### interpolation arithmetic -/

theorem lerp_hit {a x n : ℝ} (h : a < x) : a + (x - a) * ((n - a) / (x - a)) = n := by
  have : x - a ≠ 0 := by linarith [sub_pos.mpr h]
  field_simp
  ring

theorem lerp_time {t0 t1 a x n : ℝ} (ht : t0 < t1) (han : a < n) (hnx : n ≤ x) :
    t0 < lerp t0 t1 ((n - a) / (x - a)) ∧ lerp t0 t1 ((n - a) / (x - a)) ≤ t1 := by
  have hax : 0 < x - a := by linarith
  have h0 : 0 < (n - a) / (x - a) := div_pos (by linarith) hax
  have h1 : (n - a) / (x - a) ≤ 1 := (div_le_one hax).mpr (by linarith)
  unfold lerp
  constructor
  · nlinarith
  · nlinarith


/-! ### the loop invariant -/

/-- "forward motion" along the physical state sequence (same as `BC.Props.C03.Forward`) -/
def Fwd (r : Run ℝ) (e adv : ℝ) : Prop :=
  ∀ n s ws p, physIter r n (initialState r e) (WindSock.init r.winds r.maxWindDist) = some (s, ws) →
    physStep r s ws = some p →
      s.pos.x < p.out.st.pos.x ∧ p.out.st.pos.x - s.pos.x ≤ adv ∧ s.time < p.out.st.time ∧ p.mach ≠ 0

/-- Invariant at the top of a loop iteration, `k ≥ 1` rows recorded so far; the filter's `prevPos/prevTime`
    are those of the last processed state (whose `x` is also `l.lastX` and is at most `bound`), `l.s` is the state
    about to be processed. -/
structure Inv (r : Run ℝ) (e step adv bound : ℝ) (l : LoopSt ℝ) (k : Nat) : Prop where
  kpos : 1 ≤ k
  nrd : l.flt.nextRecordDistance = k * step
  rs : l.flt.rangeStep = step
  ts : l.flt.timeStep = 0
  fil : l.flt.filter = fRANGE
  prev_lt : l.flt.prevPos.x < k * step
  prev_ge : ((k : ℝ) - 1) * step ≤ l.flt.prevPos.x
  prev_bd : l.flt.prevPos.x ≤ bound
  last : l.lastX = l.flt.prevPos.x
  reach : ∃ m, physIter r m (initialState r e) (WindSock.init r.winds r.maxWindDist) = some (l.s, l.ws)
  x_lt : l.flt.prevPos.x < l.s.pos.x
  x_adv : l.s.pos.x - l.flt.prevPos.x ≤ adv
  t_lt : l.flt.prevTime < l.s.time
  len : l.rows.length = k
  rowsOK : ∀ (j : Nat) (row : Row ℝ), l.rows.reverse[j]? = some row → row.distance = j * step * 12 ∧ row.flag.range = true
  mono : l.rows.reverse.Pairwise (fun a b => a.time < b.time)
  tle : ∀ a ∈ l.rows, a.time ≤ l.flt.prevTime
  first : ∃ row0, l.rows.reverse[0]? = some row0 ∧ row0.time = 0 ∧
    row0.height = (initialState r e).pos.y * 12 ∧ row0.velocity = (initialState r e).vel.mag / 3.2808399

@[simp] theorem cleared_nrd (l : LoopSt ℝ) : (cleared l).nextRecordDistance = l.flt.nextRecordDistance := rfl
@[simp] theorem cleared_rs (l : LoopSt ℝ) : (cleared l).rangeStep = l.flt.rangeStep := rfl
@[simp] theorem cleared_ts (l : LoopSt ℝ) : (cleared l).timeStep = l.flt.timeStep := rfl
@[simp] theorem cleared_fil (l : LoopSt ℝ) : (cleared l).filter = l.flt.filter := rfl
@[simp] theorem cleared_prevPos (l : LoopSt ℝ) : (cleared l).prevPos = l.flt.prevPos := rfl
@[simp] theorem cleared_prevTime (l : LoopSt ℝ) : (cleared l).prevTime = l.flt.prevTime := rfl
@[simp] theorem cleared_cur (l : LoopSt ℝ) : (cleared l).currentFlag = fNONE := rfl

theorem Inv.step {r : Run ℝ} {e step adv bound : ℝ} {sf : Nat} {l l' : LoopSt ℝ} {k : Nat}
    (hstep : 0 < step) (hadv : adv ≤ step) (hfwd : Fwd r e adv)
    (hI : Inv r e step adv bound l k) (hx : l.s.pos.x ≤ bound) (hit : iterate r fRANGE sf l = .ok l') :
    Inv r e step adv bound l' k ∨ Inv r e step adv bound l' (k + 1) := by
  obtain ⟨p, flt', rows, hp, hr, rfl⟩ := iterate_ok hit
  obtain ⟨m, hm⟩ := hI.reach
  obtain ⟨f1, f2, f3, _⟩ := hfwd m l.s l.ws p hm hp
  have hreach' := physIter_snoc r m _ _ _ _ p hm hp
  obtain ⟨hflt, hrows⟩ := recordStep_ok hr
  by_cases hc : l.s.pos.x < k * step
  · left
    obtain ⟨d2, dn, drs, dts, dfil, dpp, dpt⟩ :=
      shouldRecord_none (cleared l) sf l.s.pos l.s.vel p.mach l.s.time rfl hI.fil hI.ts
        (by rw [cleared_nrd, hI.nrd]; exact hc)
    have hrows' : rows = l.rows := by
      rcases hrows with ⟨_, h⟩ | ⟨d, row, hd, _⟩
      · exact h
      · rw [d2] at hd; cases hd
    subst hrows'
    rw [← hflt] at dn drs dts dfil dpp dpt
    simp only [cleared_nrd, cleared_rs, cleared_ts, cleared_fil] at dn drs dts dfil
    refine ⟨hI.kpos, ?_, ?_, ?_, ?_, ?_, ?_, ?_, ?_, ⟨m + 1, hreach'⟩, ?_, ?_, ?_, hI.len, hI.rowsOK, hI.mono, ?_,
      hI.first⟩ <;> dsimp only
    · rw [dn, hI.nrd]
    · rw [drs, hI.rs]
    · rw [dts, hI.ts]
    · rw [dfil, hI.fil]
    · rw [dpp]; exact hc
    · rw [dpp]; linarith [hI.prev_ge, hI.x_lt]
    · rw [dpp]; exact hx
    · rw [dpp]
    · rw [dpp]; exact f1
    · rw [dpp]; exact f2
    · rw [dpt]; exact f3
    · intro a ha; rw [dpt]; linarith [hI.tle a ha, hI.t_lt]
  · right
    have hc' : (k : ℝ) * step ≤ l.s.pos.x := not_lt.mp hc
    have hup : l.s.pos.x < ((k : ℝ) + 1) * step := by linarith [hI.x_adv, hI.prev_lt]
    obtain ⟨d2, dn, drs, dts, dfil, dpp, dpt, dcur⟩ :=
      shouldRecord_range (cleared l) sf l.s.pos l.s.vel p.mach l.s.time
        (by rw [cleared_fil, hI.fil]; rfl) (by rw [cleared_rs, hI.rs]; exact hstep)
        (by rw [cleared_nrd, hI.nrd]; exact hc')
        (by rw [cleared_nrd, cleared_rs, hI.nrd, hI.rs]; linarith)
    rw [cleared_prevPos, if_pos hI.x_lt] at d2
    rw [← hflt] at dn drs dts dfil dpp dpt dcur
    simp only [cleared_nrd, cleared_rs, cleared_ts, cleared_fil] at dn drs dts dfil
    rcases hrows with ⟨hnone, _⟩ | ⟨d, row, hd, hrow, rfl⟩
    · rw [d2] at hnone; cases hnone
    rw [d2] at hd
    cases hd
    obtain ⟨rt, rd, _, _, rf⟩ := mkRow_some hrow
    dsimp only at rt rd
    have hdx : (l.flt.prevPos.lerp l.s.pos
        (((cleared l).nextRecordDistance - l.flt.prevPos.x) / (l.s.pos.x - l.flt.prevPos.x))).x = k * step := by
      simp only [Vec.lerp, Vec.add, Vec.sub, Vec.smul, cleared_nrd, hI.nrd]
      exact lerp_hit hI.x_lt
    obtain ⟨ht1, ht2⟩ := lerp_time (t0 := l.flt.prevTime) (t1 := l.s.time) (a := l.flt.prevPos.x)
      (x := l.s.pos.x) (n := k * step) hI.t_lt hI.prev_lt hc'
    rw [cleared_prevTime, cleared_nrd, hI.nrd] at rt
    rw [hdx] at rd
    rw [← rt] at ht1 ht2
    refine ⟨by omega, ?_, ?_, ?_, ?_, ?_, ?_, ?_, ?_, ⟨m + 1, hreach'⟩, ?_, ?_, ?_, ?_, ?_, ?_, ?_, ?_⟩ <;> dsimp only
    · rw [dn, hI.nrd, hI.rs]; push_cast; ring
    · rw [drs, hI.rs]
    · rw [dts, hI.ts]
    · rw [dfil, hI.fil]
    · rw [dpp]; push_cast; exact hup
    · rw [dpp]; push_cast; linarith
    · rw [dpp]; exact hx
    · rw [dpp]
    · rw [dpp]; exact f1
    · rw [dpp]; exact f2
    · rw [dpt]; exact f3
    · rw [List.length_cons, hI.len]
    · intro j row' hj
      rw [List.reverse_cons, List.getElem?_append] at hj
      split_ifs at hj with hlt
      · exact hI.rowsOK j row' hj
      · rw [List.length_reverse, hI.len] at hlt
        have hjk : j = k := by
          by_contra hne
          have : 1 ≤ j - l.rows.reverse.length := by rw [List.length_reverse, hI.len]; omega
          rw [List.getElem?_eq_none (by simpa using this)] at hj
          cases hj
        subst hjk
        rw [List.length_reverse, hI.len, Nat.sub_self] at hj
        simp only [List.getElem?_cons_zero, Option.some.injEq] at hj
        subst hj
        exact ⟨rd, by rw [rf]; exact dcur⟩
    · rw [List.reverse_cons, List.pairwise_append]
      refine ⟨hI.mono, List.pairwise_singleton _ _, ?_⟩
      intro a ha b hb
      rw [List.mem_singleton] at hb
      subst hb
      have := hI.tle a (List.mem_reverse.mp ha)
      linarith
    · intro a ha
      rw [dpt]
      rcases List.mem_cons.mp ha with rfl | ha
      · exact ht2
      · linarith [hI.tle a ha, hI.t_lt]
    · obtain ⟨row0, h0, hrest⟩ := hI.first
      refine ⟨row0, ?_, hrest⟩
      rw [List.reverse_cons, List.getElem?_append_left (by rw [List.length_reverse, hI.len]; exact hI.kpos)]
      exact h0


/-- the `LoopSt` that `integrate` starts from (plain range request, no time step) -/
noncomputable def l0 (r : Run ℝ) (e step : ℝ) : LoopSt ℝ :=
  ⟨initialState r e, WindSock.init r.winds r.maxWindDist,
   (TFilter.init fRANGE step (initialState r e).pos (initialState r e).vel 0).setupSeenZero
      (initialState r e).pos.y e r.proj.lookAngle,
   [], 0.0, 0.0, 0.0, r.muzzleVelocity, (initialState r e).pos.x⟩

/-- the first iteration records the muzzle row -/
theorem Inv.base {r : Run ℝ} {e step adv bound : ℝ} {sf : Nat} {l1 : LoopSt ℝ}
    (hstep : 0 < step) (hbound : 0 ≤ bound) (hfwd : Fwd r e adv)
    (hit : iterate r fRANGE sf (l0 r e step) = .ok l1) : Inv r e step adv bound l1 1 := by
  obtain ⟨p, flt', rows, hp, hr, rfl⟩ := iterate_ok hit
  have hm : physIter r 0 (initialState r e) (WindSock.init r.winds r.maxWindDist)
      = some ((l0 r e step).s, (l0 r e step).ws) := rfl
  obtain ⟨f1, f2, f3, _⟩ := hfwd 0 _ _ p hm hp
  have hreach' := physIter_snoc r 0 _ _ _ _ p hm hp
  obtain ⟨hflt, hrows⟩ := recordStep_ok hr
  have e_nrd : (cleared (l0 r e step)).nextRecordDistance = 0 := lit0
  have e_rs : (cleared (l0 r e step)).rangeStep = step := rfl
  have e_ts : (cleared (l0 r e step)).timeStep = 0 := rfl
  have e_fil : (cleared (l0 r e step)).filter = fRANGE := rfl
  have e_x : (l0 r e step).s.pos.x = 0 := lit0
  have e_t : (l0 r e step).s.time = 0 := lit0
  have e_px : (cleared (l0 r e step)).prevPos.x = 0 := lit0
  obtain ⟨d2, dn, drs, dts, dfil, dpp, dpt, dcur⟩ :=
    shouldRecord_range (cleared (l0 r e step)) sf (l0 r e step).s.pos (l0 r e step).s.vel p.mach
      (l0 r e step).s.time
      (by rw [e_fil]; rfl) (by rw [e_rs]; exact hstep) (by rw [e_nrd, e_x])
      (by rw [e_nrd, e_rs, e_x]; linarith)
  rw [if_neg (by rw [e_px, e_x]; exact lt_irrefl _)] at d2
  rw [← hflt, e_nrd, e_rs] at dn
  rw [← hflt, e_rs] at drs
  rw [← hflt, e_ts] at dts
  rw [← hflt, e_fil] at dfil
  rw [← hflt] at dpp dpt dcur
  rcases hrows with ⟨hnone, _⟩ | ⟨d, row, hd, hrow, rfl⟩
  · rw [d2] at hnone; cases hnone
  rw [d2] at hd
  cases hd
  obtain ⟨rt, rd, rh, rv, rf⟩ := mkRow_some hrow
  dsimp only at rt rd rh rv
  rw [e_t] at rt
  rw [e_x] at rd
  rw [e_x] at f1 f2
  rw [e_t] at f3
  refine ⟨le_refl _, ?_, ?_, ?_, ?_, ?_, ?_, ?_, ?_, ⟨1, hreach'⟩, ?_, ?_, ?_, ?_, ?_, ?_, ?_, ?_⟩ <;> dsimp only
  · rw [dn]; push_cast; ring
  · exact drs
  · exact dts
  · exact dfil
  · rw [dpp, e_x]; push_cast; linarith
  · rw [dpp, e_x]; push_cast; linarith
  · rw [dpp, e_x]; exact hbound
  · rw [dpp]
  · rw [dpp, e_x]; exact f1
  · rw [dpp, e_x]; exact f2
  · rw [dpt, e_t]; exact f3
  · rfl
  · intro j row' hj
    change ([row] : List (Row ℝ))[j]? = some row' at hj
    cases j with
    | zero =>
      simp only [List.getElem?_cons_zero, Option.some.injEq] at hj
      subst hj
      refine ⟨?_, by rw [rf]; exact dcur⟩
      rw [rd]; push_cast; ring
    | succ j => simp at hj
  · exact List.pairwise_singleton _ _
  · intro a ha
    have : a = row := by
      change a ∈ ([row] : List (Row ℝ)) at ha
      simpa using ha
    subst this
    rw [dpt, e_t, rt]
  · exact ⟨row, rfl, rt, rh, rv⟩

/-- `loop` preserves any invariant of `iterate` and stops only beyond the bound with the range reached -/
theorem loop_inv {r : Run ℝ} {ff : Flags} {sf : Nat} {bound maxRange : ℝ} (P : LoopSt ℝ → Prop)
    (hP : ∀ l l', P l → (l.s.pos.x ≤ bound ∨ l.lastX < maxRange) → iterate r ff sf l = .ok l' → P l') :
    ∀ (fuel : Nat) (l l' : LoopSt ℝ), P l → loop r ff sf bound maxRange fuel l = .ok l' →
      P l' ∧ bound < l'.s.pos.x ∧ maxRange ≤ l'.lastX := by
  intro fuel
  induction fuel with
  | zero => intro l l' _ h; simp [loop] at h
  | succ fuel ih =>
    intro l l' hl h
    unfold loop at h
    split_ifs at h with hx
    · split at h
      · cases h
      · rename_i l1 h1
        exact ih l1 l' (hP l l1 hl hx h1) h
    · cases h
      rw [not_or, not_le, not_lt] at hx
      exact ⟨hl, hx.1, hx.2⟩


/-- the successful run of a plain range request ends in a state satisfying the invariant, the last processed
    state at or beyond the range, and returns exactly the recorded rows -/
theorem integrate_inv {r : Run ℝ} {e maxRange step adv : ℝ} {fuel sf : Nat} {rows : List (Row ℝ)}
    (hstep : 0 < step) (hrange : step ≤ maxRange) (hcs : 0 < r.cfg.calcStep) (hadv : adv ≤ step)
    (hfwd : Fwd r e adv)
    (h : integrate r e maxRange step fRANGE 0 fuel sf = .ok rows) :
    ∃ l k, Inv r e step adv (maxRange + max adv (minOf r.cfg.calcStep step)) l k ∧
      maxRange ≤ l.flt.prevPos.x ∧ 2 ≤ k ∧ rows = l.rows.reverse := by
  have hmin0 : 0 < minOf r.cfg.calcStep step := minOf_pos hcs hstep
  have hmaxl : adv ≤ max adv (minOf r.cfg.calcStep step) := le_max_left _ _
  have hmaxr : minOf r.cfg.calcStep step ≤ max adv (minOf r.cfg.calcStep step) := le_max_right _ _
  unfold integrate at h
  dsimp only at h
  split at h
  · cases h
  rename_i lf hloop
  change loop r fRANGE sf (maxRange + minOf r.cfg.calcStep step) maxRange fuel (l0 r e step) = .ok lf at hloop
  obtain ⟨k, hI, hexit⟩ : ∃ k, Inv r e step adv (maxRange + max adv (minOf r.cfg.calcStep step)) lf k ∧
      maxRange ≤ lf.lastX := by
    cases fuel with
    | zero => simp [loop] at hloop
    | succ fuel =>
      unfold loop at hloop
      have hb0 : (l0 r e step).s.pos.x ≤ maxRange + minOf r.cfg.calcStep step := by
        rw [show (l0 r e step).s.pos.x = 0 from lit0]; linarith
      rw [if_pos (Or.inl hb0)] at hloop
      split at hloop
      · cases hloop
      rename_i l1 h1
      have hbase : Inv r e step adv (maxRange + max adv (minOf r.cfg.calcStep step)) l1 1 :=
        Inv.base hstep (by linarith) hfwd h1
      obtain ⟨⟨k, hk⟩, _, hex⟩ := loop_inv
        (P := fun l => ∃ k, Inv r e step adv (maxRange + max adv (minOf r.cfg.calcStep step)) l k)
        (by
          rintro l l' ⟨k, hk⟩ hx hit
          have hx' : l.s.pos.x ≤ maxRange + max adv (minOf r.cfg.calcStep step) := by
            rcases hx with hx | hx
            · linarith
            · rw [hk.last] at hx
              linarith [hk.x_adv]
          rcases Inv.step hstep hadv hfwd hk hx' hit with h' | h'
          · exact ⟨k, h'⟩
          · exact ⟨k + 1, h'⟩)
        fuel l1 lf ⟨1, hbase⟩ hloop
      exact ⟨k, hk, hex⟩
  have hprev : maxRange ≤ lf.flt.prevPos.x := by rw [← hI.last]; exact hexit
  have hk2 : 2 ≤ k := by
    by_contra hcon
    have hk1 : k = 1 := by have := hI.kpos; omega
    have := hI.prev_lt
    rw [hk1] at this
    push_cast at this
    linarith
  refine ⟨lf, k, hI, hprev, hk2, ?_⟩
  have hlen := hI.len
  split at h
  · cases h; rfl
  · rename_i hne
    exfalso
    match hrows : lf.rows, hlen with
    | a :: b :: t, _ => exact hne a b t hrows
    | [], hl => simp at hl; omega
    | [a], hl => simp at hl; omega


theorem getD_of_lt (rows : List (Row ℝ)) (j : Nat) (hj : j < rows.length) :
    rows.getD j default = rows[j] := by
  rw [List.getD_eq_getElem?_getD, List.getElem?_eq_getElem hj, Option.getD_some]

/-- the statement of `C03_rows_exact` (with `Fwd` for `Forward`) -/
theorem rows_exact (r : Run ℝ) (e maxRange step adv : ℝ) (fuel sf : Nat) (rows : List (Row ℝ))
    (hstep : 0 < step) (hrange : step ≤ maxRange) (hcs : 0 < r.cfg.calcStep) (hadv : adv ≤ step)
    (hfwd : Fwd r e adv)
    (h : integrate r e maxRange step fRANGE 0 fuel sf = .ok rows) :
    ∃ K : Nat, 1 ≤ K ∧ rows.length = K + 1 ∧
      (∀ k, k ≤ K → (rows.getD k default).distance = (k : ℝ) * step * 12) ∧
      maxRange < ((K : ℝ) + 1) * step ∧ (K : ℝ) * step ≤ maxRange + max adv (minOf r.cfg.calcStep step) ∧
      (∀ k, k < K → (rows.getD k default).time < (rows.getD (k + 1) default).time) ∧
      (rows.getD 0 default).time = 0 ∧
      (rows.getD 0 default).height = (initialState r e).pos.y * 12 ∧
      (rows.getD 0 default).velocity = (initialState r e).vel.mag / 3.2808399 ∧
      (∀ k, k ≤ K → (rows.getD k default).flag.range = true) := by
  obtain ⟨l, k, hI, hprev, hk2, rfl⟩ := integrate_inv hstep hrange hcs hadv hfwd h
  obtain ⟨K, rfl⟩ : ∃ K, k = K + 1 := ⟨k - 1, by omega⟩
  have hlen : l.rows.reverse.length = K + 1 := by rw [List.length_reverse, hI.len]
  have hlt := hI.prev_lt
  have hge := hI.prev_ge
  push_cast at hlt hge
  obtain ⟨row0, h0, ht, hh, hv⟩ := hI.first
  have hr0 : l.rows.reverse.getD 0 default = row0 := by
    rw [List.getD_eq_getElem?_getD, h0, Option.getD_some]
  refine ⟨K, by omega, hlen, ?_, by linarith, by linarith [hI.prev_bd], ?_, ?_, ?_, ?_, ?_⟩
  · intro j hj
    have hj' : j < l.rows.reverse.length := by omega
    rw [getD_of_lt _ j hj']
    exact (hI.rowsOK j _ (List.getElem?_eq_getElem hj')).1
  · intro j hj
    have hj1 : j < l.rows.reverse.length := by omega
    have hj2 : j + 1 < l.rows.reverse.length := by omega
    rw [getD_of_lt _ j hj1, getD_of_lt _ (j + 1) hj2]
    exact List.pairwise_iff_getElem.mp hI.mono j (j + 1) hj1 hj2 (Nat.lt_succ_self j)
  · rw [hr0]; exact ht
  · rw [hr0]; exact hh
  · rw [hr0]; exact hv
  · intro j hj
    have hj' : j < l.rows.reverse.length := by omega
    rw [getD_of_lt _ j hj']
    exact (hI.rowsOK j _ (List.getElem?_eq_getElem hj')).2

end BC.Lemmas.C03
