/-
  Non-vacuity for C03: a concrete run (no drag, no gravity, unit muzzle velocity along x, unit integration
  advance) for which `Forward` holds and `integrate` succeeds for every range, step and sufficient fuel.
-/
import BC.Lemmas.C03

namespace BC.Lemmas.C03
open BC BC.Model

noncomputable def rEx : Run ℝ where
  cfg := ⟨2, 0, 0, 0, -1, 0, 0, -1⟩
  env := ⟨fun _ => some (0, 1), fun _ => 0⟩
  proj := ⟨0, 0, 0, 0, 0, 0⟩
  alt0 := 0
  muzzleVelocity := 1
  sightHeight := 0
  cantCos := 1
  cantSin := 0
  barrelAzimuth := 0
  winds := #[]
  maxWindDist := 0

structure Good (s : St ℝ) (ws : WindSock ℝ) : Prop where
  vx : s.vel.x = 1
  vy : s.vel.y = 0
  vz : s.vel.z = 0
  py : s.pos.y = 0
  wx : ws.vec.x = 0
  wy : ws.vec.y = 0
  wz : ws.vec.z = 0
  ww : ws.winds = #[]

theorem update_good {s : St ℝ} {ws : WindSock ℝ} (h : Good s ws) (x : ℝ) : Good s (ws.update x) := by
  unfold WindSock.update
  split_ifs
  · unfold WindSock.advance
    simp only [h.ww]
    refine ⟨h.vx, h.vy, h.vz, h.py, ?_, ?_, ?_, ?_⟩ <;> simp [Vec.zero] <;> norm_num
  · exact h

theorem physStep_good {s : St ℝ} {ws : WindSock ℝ} (h : Good s ws) :
    ∃ p, physStep rEx s ws = some p ∧ Good p.out.st p.ws ∧ p.out.st.pos.x = s.pos.x + 1 ∧
      p.out.st.time = s.time + 1 ∧ p.mach = 1 ∧ p.out.speed = 1 := by
  have hu := update_good h s.pos.x
  refine ⟨⟨ws.update s.pos.x, 0, 1,
    step rEx.cfg.calcStep rEx.cfg.gravity rEx.env.dbm (ws.update s.pos.x).vec 0 1 s⟩, rfl, ?_⟩
  dsimp only
  obtain ⟨⟨px, py, pz⟩, ⟨vx, vy, vz⟩, t⟩ := s
  obtain ⟨h1, h2, h3, h4, h5, h6, h7, h8⟩ := hu
  dsimp only at h1 h2 h3 h4
  subst h1 h2 h3 h4
  refine ⟨⟨?_, ?_, ?_, ?_, h5, h6, h7, h8⟩, ?_, ?_, rfl, ?_⟩ <;>
    simp [step, Vec.sub, Vec.smul, Vec.add, Vec.mag, max1, rEx, Config.calcStep, h5, h6, h7] <;> norm_num

theorem good_init : Good (initialState rEx 0) (WindSock.init rEx.winds rEx.maxWindDist) := by
  refine ⟨?_, ?_, ?_, ?_, ?_, ?_, ?_, ?_⟩ <;>
    simp [initialState, rEx, Vec.smul, WindSock.init, Vec.zero] <;> norm_num

theorem physIter_good : ∀ (n : Nat) (s0 : St ℝ) (ws0 : WindSock ℝ) (s : St ℝ) (ws : WindSock ℝ),
    Good s0 ws0 → physIter rEx n s0 ws0 = some (s, ws) → Good s ws := by
  intro n
  induction n with
  | zero =>
    intro s0 ws0 s ws h0 h
    simp only [physIter, Option.some.injEq, Prod.mk.injEq] at h
    obtain ⟨rfl, rfl⟩ := h
    exact h0
  | succ n ih =>
    intro s0 ws0 s ws h0 h
    obtain ⟨p, hp, hg, _⟩ := physStep_good h0
    rw [physIter, hp] at h
    exact ih _ _ _ _ hg h

theorem fwd_ex (adv : ℝ) (hadv : 1 ≤ adv) : Fwd rEx 0 adv := by
  intro n s ws p hn hp
  have hg := physIter_good n _ _ s ws good_init hn
  obtain ⟨p', hp', _, hx, ht, hm, _⟩ := physStep_good hg
  rw [hp] at hp'
  cases hp'
  exact ⟨by linarith, by linarith, by linarith, by rw [hm]; norm_num⟩

theorem shouldRecord_mach (f : TFilter ℝ) (sf : Nat) (pos vel : Vec ℝ) (time : ℝ)
    (hf : f.prevMach = 1 ∨ ¬ f.prevPos.x < pos.x) (d : BaseTraj ℝ)
    (hd : (f.shouldRecord sf pos vel 1 time).2 = some d) : d.mach = 1 := by
  rw [shouldRecord_eq] at hd
  unfold finish at hd
  dsimp only at hd
  split_ifs at hd with hc
  · cases hd; rfl
  · unfold trigger at hd
    split_ifs at hd with h1 h2 h3 h4
    · cases hd
      rcases hf with hf | hf
      · simp [lerp, hf]
      · exact absurd h2 hf


theorem recordStep_good {sf : Nat} {l : LoopSt ℝ} {density : ℝ}
    (hf : l.flt.prevMach = 1 ∨ ¬ l.flt.prevPos.x < l.s.pos.x) :
    ∃ flt' rows, recordStep rEx fRANGE sf l density 1 = .ok (flt', rows) ∧ flt'.prevMach = 1 := by
  unfold recordStep
  have hn : (!fRANGE.isNone) = true := by decide
  simp only [hn, if_true]
  have hm := shouldRecord_mach (cleared l) sf l.s.pos l.s.vel l.s.time hf
  have hpm : ((cleared l).shouldRecord sf l.s.pos l.s.vel 1 l.s.time).1.prevMach = 1 := rfl
  unfold cleared at hm hpm
  generalize ({ l.flt with currentFlag := fNONE } : TFilter ℝ).shouldRecord sf l.s.pos l.s.vel 1 l.s.time
    = res at hm hpm ⊢
  obtain ⟨f', data⟩ := res
  cases data with
  | none => exact ⟨f', l.rows, rfl, hpm⟩
  | some d =>
    have hd := hm d rfl
    have : ∃ row, mkRow rEx d.time d.pos d.vel d.vel.mag d.mach density l.drag f'.currentFlag = some row := by
      unfold mkRow createRow
      rw [hd]
      simp [nz]
      norm_num
    obtain ⟨row, hrow⟩ := this
    simp only [hrow]
    exact ⟨f', row :: l.rows, rfl, hpm⟩

theorem iterate_good {sf : Nat} {l : LoopSt ℝ} (hg : Good l.s l.ws)
    (hf : l.flt.prevMach = 1 ∨ ¬ l.flt.prevPos.x < l.s.pos.x) :
    ∃ l', iterate rEx fRANGE sf l = .ok l' ∧ Good l'.s l'.ws ∧ l'.flt.prevMach = 1 ∧
      l'.s.pos.x = l.s.pos.x + 1 ∧ l'.mach = 1 ∧ l'.lastX = l.s.pos.x := by
  obtain ⟨p, hp, hg', hx, _, hm, hs⟩ := physStep_good hg
  obtain ⟨flt', rows, hr, hpm⟩ := recordStep_good (sf := sf) (l := l) (density := p.density) hf
  have hlim : limitReason rEx.cfg rEx.alt0 p.out.speed p.out.st.pos.y = none := by
    rw [hs, hg'.py]
    simp [limitReason, rEx]
    norm_num
  unfold iterate
  rw [hp]
  dsimp only
  rw [hm, hr]
  dsimp only
  rw [hlim]
  exact ⟨_, rfl, hg', hpm, hx, rfl, rfl⟩

theorem loop_good {sf : Nat} {bound maxRange : ℝ} : ∀ (fuel : Nat) (l : LoopSt ℝ), Good l.s l.ws →
    (l.flt.prevMach = 1 ∨ ¬ l.flt.prevPos.x < l.s.pos.x) →
    (l.mach = 1 ∨ l.s.pos.x ≤ bound ∨ l.lastX < maxRange) →
    l.s.pos.x - 1 ≤ l.lastX → bound < l.s.pos.x + fuel → maxRange + 1 ≤ l.s.pos.x + fuel →
    ∃ l', loop rEx fRANGE sf bound maxRange (fuel + 1) l = .ok l' ∧ l'.mach = 1 := by
  intro fuel
  induction fuel with
  | zero =>
    intro l _ _ hm hlast hb hb2
    have hb' : bound < l.s.pos.x := by simpa using hb
    have hl' : maxRange ≤ l.lastX := by
      have : maxRange + 1 ≤ l.s.pos.x := by simpa using hb2
      linarith
    refine ⟨l, ?_, ?_⟩
    · unfold loop
      rw [if_neg (by rw [not_or, not_le, not_lt]; exact ⟨hb', hl'⟩)]
    · rcases hm with hm | hm | hm
      · exact hm
      · linarith
      · linarith
  | succ fuel ih =>
    intro l hg hf hm hlast hb hb2
    unfold loop
    by_cases hx : l.s.pos.x ≤ bound ∨ l.lastX < maxRange
    · rw [if_pos hx]
      obtain ⟨l1, h1, hg1, hf1, hx1, hm1, hl1⟩ := iterate_good (sf := sf) hg hf
      rw [h1]
      dsimp only
      apply ih l1 hg1 (Or.inl hf1) (Or.inl hm1)
      · rw [hx1, hl1]; linarith
      · rw [hx1]; push_cast at hb; linarith
      · rw [hx1]; push_cast at hb2; linarith
    · rw [if_neg hx]
      refine ⟨l, rfl, ?_⟩
      rcases hm with hm | hm
      · exact hm
      · exact absurd hm hx

theorem integrate_ex (maxRange step : ℝ) (fuel sf : Nat) (hstep : 0 < step) (hr : 0 ≤ maxRange) (hfuel : maxRange + 1 < fuel) :
    ∃ rows, integrate rEx 0 maxRange step fRANGE 0 (fuel + 1) sf = .ok rows := by
  have hcs : rEx.cfg.calcStep = 1 := by norm_num [Config.calcStep, rEx]
  have hmin : minOf rEx.cfg.calcStep step ≤ 1 := by rw [← hcs]; exact minOf_le_left _ _
  have hx0 : (l0 rEx 0 step).s.pos.x = 0 := lit0
  have hl0 : (l0 rEx 0 step).lastX = 0 := lit0
  obtain ⟨l', hl', hm⟩ := loop_good (sf := sf) (bound := maxRange + minOf rEx.cfg.calcStep step)
    (maxRange := maxRange) fuel
    (l0 rEx 0 step) good_init (Or.inr (lt_irrefl _))
    (Or.inr (Or.inl (by
      rw [hx0]; have := minOf_pos (show 0 < rEx.cfg.calcStep by rw [hcs]; norm_num) hstep; linarith)))
    (by rw [hx0, hl0]; norm_num)
    (by rw [hx0]; linarith)
    (by rw [hx0]; linarith)
  unfold l0 at hl'
  unfold integrate
  dsimp only
  rw [hl']
  dsimp only
  split
  · exact ⟨_, rfl⟩
  · have : ∃ row, mkRow rEx l'.s.time l'.s.pos l'.s.vel l'.speed l'.mach l'.density l'.drag fNONE = some row := by
      unfold mkRow createRow
      rw [hm]
      simp [nz]
      norm_num
    obtain ⟨row, hrow⟩ := this
    rw [hrow]
    exact ⟨_, rfl⟩


theorem calcStep_ex : rEx.cfg.calcStep = 1 := by norm_num [Config.calcStep, rEx]

end BC.Lemmas.C03
