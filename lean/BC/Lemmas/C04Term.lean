/-
  Helper lemmas for C04_terminates_partial: a sequence whose vertical velocity loses at least `|g|·δ` per step
  (up to the reset `max · 0`) eventually falls with speed at least `|g|·δ`, so the height goes below any floor.
-/
import Mathlib.Tactic.Ring
import Mathlib.Tactic.Linarith
import Mathlib.Tactic.Positivity
import Mathlib.Algebra.Order.Archimedean.Basic
import Mathlib.Algebra.Order.Archimedean.Real.Basic

namespace BC.Lemmas.C04Term

/-- Claim A: the vertical velocity after `k+1` steps is at most `max (M + gδ(k+1)) (gδ)`, `M = max (vy 0) 0`. -/
theorem vy_bound (g δ : ℝ) (hg : g < 0) (hδ : 0 < δ) (vy dt : ℕ → ℝ)
    (hdt : ∀ k, δ ≤ dt k)
    (hv : ∀ k, vy (k + 1) ≤ max (vy k) 0 + g * dt k) :
    ∀ k : ℕ, vy (k + 1) ≤ max (max (vy 0) 0 + g * δ * ((k : ℝ) + 1)) (g * δ) := by
  have hgd : ∀ k, g * dt k ≤ g * δ := fun k => by nlinarith [hdt k]
  have hgδ : g * δ < 0 := by nlinarith
  intro k
  induction k with
  | zero =>
    have := hv 0
    have := hgd 0
    refine le_trans ?_ (le_max_left _ _)
    push_cast
    linarith
  | succ k ih =>
    have h1 := hv (k + 1)
    have h2 := hgd (k + 1)
    -- max (vy (k+1)) 0 ≤ max (M + gδ(k+1)) 0
    have h3 : max (vy (k + 1)) 0 ≤ max (max (vy 0) 0 + g * δ * ((k : ℝ) + 1)) 0 := by
      apply max_le
      · refine le_trans ih ?_
        apply max_le (le_max_left _ _)
        exact le_trans hgδ.le (le_max_right _ _)
      · exact le_max_right _ _
    have h4 : vy (k + 1 + 1) ≤ max (max (vy 0) 0 + g * δ * ((k : ℝ) + 1)) 0 + g * δ := by linarith
    refine le_trans h4 ?_
    rcases le_total (max (vy 0) 0 + g * δ * ((k : ℝ) + 1)) 0 with h | h
    · rw [max_eq_right h]
      refine le_trans ?_ (le_max_right _ _)
      linarith
    · rw [max_eq_left h]
      refine le_trans ?_ (le_max_left _ _)
      push_cast
      linarith

/-- eventually the projectile descends at least as fast as `|g|·δ` -/
theorem vy_eventually (g δ : ℝ) (hg : g < 0) (hδ : 0 < δ) (vy dt : ℕ → ℝ)
    (hdt : ∀ k, δ ≤ dt k)
    (hv : ∀ k, vy (k + 1) ≤ max (vy k) 0 + g * dt k) :
    ∃ K : ℕ, ∀ k, K ≤ k → vy (k + 1) ≤ g * δ := by
  have hgδ : g * δ < 0 := by nlinarith
  obtain ⟨K, hK⟩ := exists_nat_gt (max (vy 0) 0 / (-(g * δ)))
  refine ⟨K, fun k hk => ?_⟩
  have hb := vy_bound g δ hg hδ vy dt hdt hv k
  refine le_trans hb (max_le ?_ le_rfl)
  have hpos : 0 < -(g * δ) := by linarith
  rw [div_lt_iff₀ hpos] at hK
  have hk' : (K : ℝ) ≤ k := by exact_mod_cast hk
  nlinarith

/-- Claim B + Archimedean conclusion -/
theorem falls_below (g δ : ℝ) (hg : g < 0) (hδ : 0 < δ) (vy y dt : ℕ → ℝ)
    (hdt : ∀ k, δ ≤ dt k)
    (hv : ∀ k, vy (k + 1) ≤ max (vy k) 0 + g * dt k)
    (hy : ∀ k, y (k + 1) = y k + vy (k + 1) * dt k) (floor : ℝ) :
    ∃ N : ℕ, y N < floor := by
  have hgδ : g * δ < 0 := by nlinarith
  obtain ⟨K, hK⟩ := vy_eventually g δ hg hδ vy dt hdt hv
  -- from step K on, each step loses at least |g|δ²
  have hdrop : ∀ k, K ≤ k → y (k + 1) ≤ y k + g * δ * δ := by
    intro k hk
    have h1 := hK k hk
    have h2 := hdt k
    rw [hy k]
    have : vy (k + 1) * dt k ≤ g * δ * δ := by nlinarith
    linarith
  have hlin : ∀ j : ℕ, y (K + j) ≤ y K + (j : ℝ) * (g * δ * δ) := by
    intro j
    induction j with
    | zero => simp
    | succ j ih =>
      have := hdrop (K + j) (Nat.le_add_right _ _)
      rw [← Nat.add_assoc]
      push_cast
      linarith
  have hpos : 0 < -(g * δ * δ) := by nlinarith
  obtain ⟨j, hj⟩ := exists_nat_gt ((y K - floor) / (-(g * δ * δ)))
  rw [div_lt_iff₀ hpos] at hj
  refine ⟨K + j, ?_⟩
  have := hlin j
  nlinarith

end BC.Lemmas.C04Term
