/-
  Helper lemmas for BC.Props.C09 (drag curve construction / look-up).
  Statements use the unfolded forms of `Ascending` and `CurveHas` from the property file.
-/
import Mathlib.Tactic.Ring
import Mathlib.Tactic.FieldSimp
import Mathlib.Tactic.Linarith
import Mathlib.Tactic.NormNum
import Mathlib.Tactic.Push
import Mathlib.Tactic.LinearCombination
import Mathlib.Analysis.Real.Pi.Bounds
import BC.Real
import BC.Model.Drag
import BC.Gen.Tables

namespace BC.Lemmas.C09
open BC BC.Model

/-! ### binary search -/

theorem bsearch_spec (x : Nat → ℝ) (m : ℝ) :
    ∀ fuel lo hi, lo < hi → hi - lo ≤ fuel + 1 →
      lo ≤ (bsearch x m fuel lo hi).1 ∧ (bsearch x m fuel lo hi).2 ≤ hi ∧
      (bsearch x m fuel lo hi).2 = (bsearch x m fuel lo hi).1 + 1 ∧
      ((bsearch x m fuel lo hi).1 = lo ∨ x (bsearch x m fuel lo hi).1 < m) ∧
      ((bsearch x m fuel lo hi).2 = hi ∨ m ≤ x (bsearch x m fuel lo hi).2) := by
  intro fuel
  induction fuel with
  | zero =>
    intro lo hi h1 h2
    simp [bsearch]
    omega
  | succ f ih =>
    intro lo hi h1 h2
    simp only [bsearch]
    split_ifs with hgt hlt
    · obtain ⟨a1, a2, a3, a4, a5⟩ := ih ((hi + lo) / 2) hi (by omega) (by omega)
      refine ⟨by omega, a2, a3, ?_, a5⟩
      rcases a4 with a4 | a4
      · right; rw [a4]; exact hlt
      · right; exact a4
    · obtain ⟨a1, a2, a3, a4, a5⟩ := ih lo ((hi + lo) / 2) (by omega) (by omega)
      refine ⟨a1, by omega, a3, a4, ?_⟩
      rcases a5 with a5 | a5
      · right; rw [a5]; exact not_lt.mp hlt
      · right; exact a5
    · refine ⟨le_refl _, le_refl _, by omega, Or.inl rfl, Or.inl rfl⟩

/-- what `selectIdx` returns, for `n ≥ 3` -/
theorem selectIdx_spec (n : Nat) (x : Nat → ℝ) (hn : 3 ≤ n) (m : ℝ) :
    ∃ lo, lo + 1 ≤ n - 2 ∧ (lo = 0 ∨ x lo < m) ∧ (lo + 1 = n - 2 ∨ m ≤ x (lo + 1)) ∧
      selectIdx n x m = if m - x lo < x (lo + 1) - m then lo else lo + 1 := by
  have h := bsearch_spec x m (n - 2) 0 (n - 2) (by omega) (by omega)
  rcases hb : bsearch x m (n - 2) 0 (n - 2) with ⟨lo, hi⟩
  rw [hb] at h
  obtain ⟨-, a2, a3, a4, a5⟩ := h
  simp only at a2 a3 a4 a5
  subst a3
  refine ⟨lo, a2, a4, a5, ?_⟩
  simp only [selectIdx, hb]

theorem select_range (n : Nat) (x : Nat → ℝ) (hn : 3 ≤ n) (m : ℝ) : selectIdx n x m ≤ n - 2 := by
  obtain ⟨lo, h1, -, -, hk⟩ := selectIdx_spec n x hn m
  rw [hk]; split_ifs <;> omega

section asc
variable {n : Nat} {x : Nat → ℝ} (hx : ∀ i j, i < j → j < n → x i < x j)
include hx

theorem idx_lt_of_lt {a b : Nat} (ha : a < n) (h : x a < x b) : a < b := by
  by_contra hc
  push Not at hc
  rcases Nat.eq_or_lt_of_le hc with rfl | hlt
  · exact lt_irrefl _ h
  · exact lt_asymm h (hx b a hlt ha)

theorem idx_le_of_le {a b : Nat} (ha : a < n) (h : x a ≤ x b) : a ≤ b := by
  by_contra hc
  push Not at hc
  exact absurd (hx b a hc ha) (not_lt.mpr h)

/-- strictly between nodes `i` and `i+1` the selected entry is `i` or `i+1` -/
theorem select_between_idx (hn : 3 ≤ n) (m : ℝ) (i : Nat) (hi : i + 1 < n)
    (h1 : x i < m) (h2 : m < x (i + 1)) :
    selectIdx n x m = i ∨ selectIdx n x m = i + 1 := by
  obtain ⟨lo, hlo, hA, hB, hk⟩ := selectIdx_spec n x hn m
  rw [hk]
  rcases hA with rfl | hA <;> rcases hB with hB | hB
  · -- n = 3
    have hi' : i = 0 ∨ i = 1 := by omega
    rcases hi' with rfl | rfl
    · split_ifs <;> omega
    · have := hx 0 1 (by omega) (by omega)
      rw [if_neg (by simp only [Nat.zero_add]; linarith)]; omega
  · have : i < 0 + 1 := idx_lt_of_lt hx (by omega) (lt_of_lt_of_le h1 hB)
    have : i = 0 := by omega
    subst this
    split_ifs <;> omega
  · have h3 : lo < i + 1 := idx_lt_of_lt hx (by omega) (lt_trans hA h2)
    have hi' : i = lo ∨ i = lo + 1 := by omega
    rcases hi' with rfl | rfl
    · split_ifs <;> omega
    · have := hx lo (lo + 1) (by omega) (by omega)
      rw [if_neg (by linarith)]; omega
  · have h3 : lo < i + 1 := idx_lt_of_lt hx (by omega) (lt_trans hA h2)
    have h4 : i < lo + 1 := idx_lt_of_lt hx (by omega) (lt_of_lt_of_le h1 hB)
    have : i = lo := by omega
    subst this
    split_ifs <;> omega

theorem select_between (hn : 3 ≤ n) (m : ℝ) (i : Nat) (hi : i + 1 < n)
    (h1 : x i < m) (h2 : m < x (i + 1)) :
    (if selectIdx n x m = 0 then i = 0 ∨ i = 1
      else i + 1 = selectIdx n x m ∨ i = selectIdx n x m ∨ i = selectIdx n x m + 1) ∧
    (if selectIdx n x m = 0 then i + 1 = 0 ∨ i + 1 = 1
      else i + 1 + 1 = selectIdx n x m ∨ i + 1 = selectIdx n x m ∨ i + 1 = selectIdx n x m + 1) := by
  have h := select_between_idx hx hn m i hi h1 h2
  constructor <;> split_ifs <;> omega

theorem select_node (hn : 3 ≤ n) (i : Nat) (hi : i < n) :
    if selectIdx n x (x i) = 0 then i = 0 ∨ i = 1
      else i + 1 = selectIdx n x (x i) ∨ i = selectIdx n x (x i) ∨ i = selectIdx n x (x i) + 1 := by
  obtain ⟨lo, hlo, hA, hB, hk⟩ := selectIdx_spec n x hn (x i)
  have hk2 : selectIdx n x (x i) = lo ∨ selectIdx n x (x i) = lo + 1 := by
    rw [hk]; split_ifs <;> simp
  generalize selectIdx n x (x i) = k at *
  rcases hA with rfl | hA <;> rcases hB with hB | hB
  · -- n = 3
    have hi' : i = 0 ∨ i = 1 ∨ i = 2 := by omega
    rcases hi' with rfl | rfl | rfl
    · split_ifs <;> omega
    · split_ifs <;> omega
    · have h01 := hx 0 1 (by omega) (by omega)
      have h12 := hx 1 2 (by omega) (by omega)
      have : k = 0 + 1 := by rw [hk]; exact if_neg (by simp only [Nat.zero_add]; linarith)
      split_ifs <;> omega
  · have : i ≤ 0 + 1 := idx_le_of_le hx hi hB
    split_ifs <;> omega
  · have h3 : lo < i := idx_lt_of_lt hx (by omega) hA
    have hi' : i = lo + 1 ∨ i = lo + 2 := by omega
    rcases hi' with rfl | rfl
    · split_ifs <;> omega
    · have h01 := hx lo (lo + 1) (by omega) (by omega)
      have h12 := hx (lo + 1) (lo + 2) (by omega) (by omega)
      have : k = lo + 1 := by rw [hk]; exact if_neg (by linarith)
      split_ifs <;> omega
  · have h3 : lo < i := idx_lt_of_lt hx (by omega) hA
    have h4 : i ≤ lo + 1 := idx_le_of_le hx hi hB
    split_ifs <;> omega

theorem select_beyond (hn : 3 ≤ n) (m : ℝ) :
    (x (n - 1) ≤ m → selectIdx n x m = n - 2) ∧ (m ≤ x 0 → selectIdx n x m = 0) := by
  obtain ⟨lo, hlo, hA, hB, hk⟩ := selectIdx_spec n x hn m
  rw [hk]
  constructor
  · intro h
    have hB' : lo + 1 = n - 2 := by
      rcases hB with hB | hB
      · exact hB
      · exfalso
        have := hx (lo + 1) (n - 1) (by omega) (by omega)
        linarith
    have h01 := hx lo (lo + 1) (by omega) (by omega)
    have h12 := hx (lo + 1) (n - 1) (by omega) (by omega)
    rw [if_neg (by linarith)]; exact hB'
  · intro h
    have hA' : lo = 0 := by
      rcases hA with hA | hA
      · exact hA
      · exfalso
        rcases Nat.eq_zero_or_pos lo with h0 | h0
        · rw [h0] at hA; linarith
        · have := hx 0 lo h0 (by omega); linarith
    subst hA'
    have h01 := hx 0 1 (by omega) (by omega)
    rw [if_pos (by simp only [Nat.zero_add]; linarith)]

end asc

/-! ### the curve -/

theorem parab (x1 x2 x3 y1 y2 y3 : ℝ) (h12 : x1 < x2) (h23 : x2 < x3) :
    let a := ((y3 - y1) * (x2 - x1) - (y2 - y1) * (x3 - x1)) /
             ((x3 * x3 - x1 * x1) * (x2 - x1) - (x2 * x2 - x1 * x1) * (x3 - x1))
    let b := (y2 - y1 - a * (x2 * x2 - x1 * x1)) / (x2 - x1)
    let c := y1 - (a * x1 * x1 + b * x1)
    c + x1 * (b + a * x1) = y1 ∧ c + x2 * (b + a * x2) = y2 ∧ c + x3 * (b + a * x3) = y3 := by
  have hne : x2 - x1 ≠ 0 := by linarith
  have hD : (x3 * x3 - x1 * x1) * (x2 - x1) - (x2 * x2 - x1 * x1) * (x3 - x1) ≠ 0 := by
    have : (x3 * x3 - x1 * x1) * (x2 - x1) - (x2 * x2 - x1 * x1) * (x3 - x1)
        = (x2 - x1) * (x3 - x1) * (x3 - x2) := by ring
    rw [this]
    have h13 : x1 < x3 := lt_trans h12 h23
    exact mul_ne_zero (mul_ne_zero hne (by linarith)) (by linarith)
  intro a b c
  have ha : a * ((x3 * x3 - x1 * x1) * (x2 - x1) - (x2 * x2 - x1 * x1) * (x3 - x1))
      = (y3 - y1) * (x2 - x1) - (y2 - y1) * (x3 - x1) := div_mul_cancel₀ _ hD
  have hb : b * (x2 - x1) = y2 - y1 - a * (x2 * x2 - x1 * x1) := div_mul_cancel₀ _ hne
  have hc : c = y1 - (a * x1 * x1 + b * x1) := rfl
  clear_value a b c
  subst hc
  refine ⟨by ring, ?_, ?_⟩
  · linear_combination hb
  · have : (y1 - (a * x1 * x1 + b * x1) + x3 * (b + a * x3) - y3) * (x2 - x1) = 0 := by
      linear_combination ha + (x3 - x1) * hb
    rcases mul_eq_zero.mp this with h | h
    · linarith
    · exact absurd h hne

theorem curve_interp (n : Nat) (x y : Nat → ℝ) (hn : 3 ≤ n) (hx : ∀ i j, i < j → j < n → x i < x j)
    (k j : Nat) (hk : k ≤ n - 2)
    (hj : if k = 0 then j = 0 ∨ j = 1 else j + 1 = k ∨ j = k ∨ j = k + 1) :
    evalCurve (curveAt n x y k) (x j) = y j := by
  have h00 : (0.0 : ℝ) = 0 := by norm_num
  by_cases hk0 : k = 0
  · subst hk0
    simp only [if_true] at hj
    have h01 := hx 0 1 (by omega) (by omega)
    have hne : x 1 - x 0 ≠ 0 := by linarith
    simp only [evalCurve, curveAt, if_true, h00]
    rcases hj with rfl | rfl
    · ring
    · field_simp
      ring
  · simp only [if_neg hk0] at hj
    have hk1 : k < n - 1 := by omega
    have h12 := hx (k - 1) k (by omega) (by omega)
    have h23 := hx k (k + 1) (by omega) (by omega)
    obtain ⟨e1, e2, e3⟩ := parab (x (k - 1)) (x k) (x (k + 1)) (y (k - 1)) (y k) (y (k + 1)) h12 h23
    have hjj : j = k - 1 ∨ j = k ∨ j = k + 1 := by omega
    simp only [evalCurve, curveAt, if_neg hk0, if_pos hk1]
    rcases hjj with rfl | rfl | rfl
    · exact e1
    · exact e2
    · exact e3

theorem cd_homogeneous (n : Nat) (x y : Nat → ℝ) (c m : ℝ) :
    cdAt n x (fun i => c * y i) m = c * cdAt n x y m := by
  have h00 : (0.0 : ℝ) = 0 := by norm_num
  simp only [cdAt, evalCurve, curveAt]
  split_ifs <;> simp only [h00] <;> ring

theorem retardation_const :
    |(2.08551e-04 : ℝ) - 0.076474 * Real.pi / (8 * 144)| ≤ 1e-5 * (0.076474 * Real.pi / (8 * 144)) := by
  have h1 := Real.pi_gt_d6
  have h2 := Real.pi_lt_d6
  rw [abs_le]
  norm_num at h1 h2 ⊢
  constructor <;> linarith

/-! ### 5 % certificate: decidable per-interval check over ℚ and its lifting to ℝ -/

def qX (t : List (ℚ × ℚ)) (i : Nat) : ℚ := (t.getD i (0, 0)).1
def qY (t : List (ℚ × ℚ)) (i : Nat) : ℚ := (t.getD i (0, 0)).2

def certAt (t : List (ℚ × ℚ)) (i k : Nat) : Bool :=
  let e := (curveAt t.length (qX t) (qY t) k).a * (qX t (i + 1) - qX t i) * (qX t (i + 1) - qX t i)
  decide (5 * e ≤ qY t i) && decide (5 * e ≤ qY t (i + 1)) &&
  decide (-(qY t i) ≤ 5 * e) && decide (-(qY t (i + 1)) ≤ 5 * e)

def cert (t : List (ℚ × ℚ)) : Bool :=
  decide (3 ≤ t.length) &&
  (List.range (t.length - 1)).all fun i =>
    decide (qX t i < qX t (i + 1)) && decide (0 < qY t i) && decide (0 < qY t (i + 1)) &&
    certAt t i i && (decide (t.length - 2 < i + 1) || certAt t i (i + 1))

theorem cert_spec (t : List (ℚ × ℚ)) (h : cert t = true) :
    3 ≤ t.length ∧ ∀ i, i + 1 < t.length →
      qX t i < qX t (i + 1) ∧ 0 < qY t i ∧ 0 < qY t (i + 1) ∧ certAt t i i = true ∧
      (i + 1 ≤ t.length - 2 → certAt t i (i + 1) = true) := by
  simp only [cert, Bool.and_eq_true, decide_eq_true_eq, List.all_eq_true, List.mem_range,
    Bool.or_eq_true] at h
  refine ⟨h.1, fun i hi => ?_⟩
  obtain ⟨⟨⟨⟨a, b⟩, c⟩, d⟩, e⟩ := h.2 i (by omega)
  refine ⟨a, b, c, d, fun hle => ?_⟩
  rcases e with e | e
  · omega
  · exact e

theorem curveAt_a_cast (n : Nat) (x y : Nat → ℚ) (k : Nat) :
    (((curveAt n x y k).a : ℚ) : ℝ) = (curveAt n (fun i => (x i : ℝ)) (fun i => (y i : ℝ)) k).a := by
  unfold curveAt
  split_ifs <;> simp

theorem certAt_spec (t : List (ℚ × ℚ)) (i k : Nat) (h : certAt t i k = true) :
    let e : ℝ := (curveAt t.length (fun i => (qX t i : ℝ)) (fun i => (qY t i : ℝ)) k).a *
      ((qX t (i + 1) : ℝ) - (qX t i : ℝ)) * ((qX t (i + 1) : ℝ) - (qX t i : ℝ))
    5 * e ≤ (qY t i : ℝ) ∧ 5 * e ≤ (qY t (i + 1) : ℝ) ∧ -(qY t i : ℝ) ≤ 5 * e ∧
      -(qY t (i + 1) : ℝ) ≤ 5 * e := by
  simp only [certAt, Bool.and_eq_true, decide_eq_true_eq] at h
  obtain ⟨⟨⟨a, b⟩, c⟩, d⟩ := h
  intro e
  have he : e = (((curveAt t.length (qX t) (qY t) k).a * (qX t (i + 1) - qX t i) *
      (qX t (i + 1) - qX t i) : ℚ) : ℝ) := by
    simp only [e, ← curveAt_a_cast]; push_cast; ring
  rw [he]
  refine ⟨?_, ?_, ?_, ?_⟩
  · exact_mod_cast a
  · exact_mod_cast b
  · exact_mod_cast c
  · exact_mod_cast d


/-- a quadratic (or line) through both end points of an interval stays within 5 % of the chord
    when `5 |a| (xj - xi)² ≤ min yi yj` -/
theorem within_of_parabola (cp : CurvePoint ℝ) (xi xj yi yj m : ℝ) (hlt : xi < xj)
    (h1 : xi ≤ m) (h2 : m ≤ xj)
    (hqi : evalCurve cp xi = yi) (hqj : evalCurve cp xj = yj) (hyi : 0 < yi) (hyj : 0 < yj)
    (hb1 : 5 * (cp.a * (xj - xi) * (xj - xi)) ≤ yi) (hb2 : 5 * (cp.a * (xj - xi) * (xj - xi)) ≤ yj)
    (hb3 : -yi ≤ 5 * (cp.a * (xj - xi) * (xj - xi)))
    (hb4 : -yj ≤ 5 * (cp.a * (xj - xi) * (xj - xi))) :
    0 < evalCurve cp m ∧
    |evalCurve cp m - (yi + (yj - yi) / (xj - xi) * (m - xi))| ≤
      0.05 * (yi + (yj - yi) / (xj - xi) * (m - xi)) := by
  have h05 : (0.05 : ℝ) = 1 / 20 := by norm_num
  rw [h05]
  obtain ⟨a, b, c⟩ := cp
  simp only [evalCurve] at *
  have hd : 0 < xj - xi := by linarith
  have hdne : xj - xi ≠ 0 := ne_of_gt hd
  set lin := yi + (yj - yi) / (xj - xi) * (m - xi) with hlin
  have hw : 0 ≤ m - xi := by linarith
  have hv : 0 ≤ xj - m := by linarith
  -- lin * d = yi * v + yj * w
  have hlind : lin * (xj - xi) = yi * (xj - m) + yj * (m - xi) := by
    rw [hlin]; field_simp; ring
  -- the difference
  have hdiff : c + m * (b + a * m) - lin = -(a * ((m - xi) * (xj - m))) := by
    have : (c + m * (b + a * m) - lin) * (xj - xi) = -(a * ((m - xi) * (xj - m))) * (xj - xi) := by
      rw [sub_mul, hlind, ← hqi, ← hqj]; ring
    exact mul_right_cancel₀ hdne this
  -- bounds on E = a d² against lin
  have hE1 : 5 * (a * (xj - xi) * (xj - xi)) ≤ lin := by
    have : (5 * (a * (xj - xi) * (xj - xi))) * (xj - xi) ≤ lin * (xj - xi) := by
      rw [hlind]
      have e1 := mul_le_mul_of_nonneg_right hb1 hv
      have e2 := mul_le_mul_of_nonneg_right hb2 hw
      linarith
    exact le_of_mul_le_mul_right this hd
  have hE2 : -lin ≤ 5 * (a * (xj - xi) * (xj - xi)) := by
    have : (-lin) * (xj - xi) ≤ (5 * (a * (xj - xi) * (xj - xi))) * (xj - xi) := by
      rw [neg_mul, hlind]
      have e1 := mul_le_mul_of_nonneg_right hb3 hv
      have e2 := mul_le_mul_of_nonneg_right hb4 hw
      linarith
    exact le_of_mul_le_mul_right this hd
  have hP0 : 0 ≤ (m - xi) * (xj - m) := mul_nonneg hw hv
  have hP4 : 4 * ((m - xi) * (xj - m)) ≤ (xj - xi) * (xj - xi) := by
    linarith [sq_nonneg ((m - xi) - (xj - m))]
  have hlinpos : 0 < lin := by
    have : 0 < lin * (xj - xi) := by
      rw [hlind]
      rcases eq_or_lt_of_le hw with h | h
      · have : xj - m = xj - xi := by linarith
        rw [← h, this]; have := mul_pos hyi hd; linarith
      · have := mul_pos hyj h
        have := mul_nonneg hyi.le hv
        linarith
    by_contra hc
    push Not at hc
    exact absurd this (not_lt.mpr (mul_nonpos_of_nonpos_of_nonneg hc hd.le))
  have habs : |a * ((m - xi) * (xj - m))| ≤ 1 / 20 * lin := by
    rw [abs_le]
    rcases le_total 0 a with ha | ha
    · have e1 := mul_le_mul_of_nonneg_left hP4 ha
      have e2 := mul_nonneg ha hP0
      constructor <;> linarith
    · have e1 := mul_le_mul_of_nonpos_left hP4 ha
      have e2 := mul_nonpos_of_nonpos_of_nonneg ha hP0
      constructor <;> linarith
  have habs' := abs_le.mp habs
  constructor
  · have : c + m * (b + a * m) = lin - a * ((m - xi) * (xj - m)) := by linarith
    rw [this]; linarith [habs'.2]
  · rw [hdiff, abs_neg]; exact habs


theorem asc_of_adjacent (n : Nat) (x : Nat → ℝ) (h : ∀ i, i + 1 < n → x i < x (i + 1)) :
    ∀ i j, i < j → j < n → x i < x j := by
  intro i j hij
  induction j with
  | zero => omega
  | succ j ih =>
    intro hj
    rcases Nat.lt_succ_iff_lt_or_eq.mp hij with h' | rfl
    · exact lt_trans (ih h' (by omega)) (h j hj)
    · exact h i hj

theorem value_at_nodes (n : Nat) (x y : Nat → ℝ) (hn : 3 ≤ n)
    (hx : ∀ i j, i < j → j < n → x i < x j) (i : Nat) (hi : i < n) : cdAt n x y (x i) = y i :=
  curve_interp n x y hn hx _ i (select_range n x hn _) (select_node hx hn i hi)

/-- the table columns over ℝ -/
noncomputable def rX (t : List (ℚ × ℚ)) (i : Nat) : ℝ := (qX t i : ℝ)
noncomputable def rY (t : List (ℚ × ℚ)) (i : Nat) : ℝ := (qY t i : ℝ)

theorem within_of_cert (t : List (ℚ × ℚ)) (hc : cert t = true) (i : Nat) (hi : i + 1 < t.length)
    (m : ℝ) (h1 : rX t i ≤ m) (h2 : m ≤ rX t (i + 1)) :
    0 < cdAt t.length (rX t) (rY t) m ∧
    |cdAt t.length (rX t) (rY t) m -
        (rY t i + (rY t (i + 1) - rY t i) / (rX t (i + 1) - rX t i) * (m - rX t i))| ≤
      0.05 * (rY t i + (rY t (i + 1) - rY t i) / (rX t (i + 1) - rX t i) * (m - rX t i)) := by
  obtain ⟨hn, hall⟩ := cert_spec t hc
  have hx : ∀ i j, i < j → j < t.length → rX t i < rX t j :=
    asc_of_adjacent _ _ (fun i hi => by
      have := (hall i hi).1
      show ((qX t i : ℚ) : ℝ) < ((qX t (i + 1) : ℚ) : ℝ)
      exact_mod_cast this)
  obtain ⟨hxi, hyi, hyj, hci, hcj⟩ := hall i hi
  have hxi' : rX t i < rX t (i + 1) := hx i (i + 1) (by omega) hi
  have hyi' : 0 < rY t i := by
    show (0 : ℝ) < ((qY t i : ℚ) : ℝ); exact_mod_cast hyi
  have hyj' : 0 < rY t (i + 1) := by
    show (0 : ℝ) < ((qY t (i + 1) : ℚ) : ℝ); exact_mod_cast hyj
  have h05 : (0.05 : ℝ) = 1 / 20 := by norm_num
  rcases eq_or_lt_of_le h1 with e1 | l1
  · rw [← e1, value_at_nodes _ _ _ hn hx i (by omega), h05]
    simp only [sub_self, mul_zero, add_zero, abs_zero]
    exact ⟨hyi', by positivity⟩
  rcases eq_or_lt_of_le h2 with e2 | l2
  · have hne : rX t (i + 1) - rX t i ≠ 0 := by linarith
    rw [e2, value_at_nodes _ _ _ hn hx (i + 1) hi, h05, div_mul_cancel₀ _ hne]
    simp only [add_sub_cancel, sub_self, abs_zero]
    exact ⟨hyj', by positivity⟩
  have hk := select_between_idx hx hn m i hi l1 l2
  have hkr := select_range t.length (rX t) hn m
  have hqi : evalCurve (curveAt t.length (rX t) (rY t) (selectIdx t.length (rX t) m)) (rX t i)
      = rY t i :=
    curve_interp _ _ _ hn hx _ i hkr (by split_ifs <;> omega)
  have hqj : evalCurve (curveAt t.length (rX t) (rY t) (selectIdx t.length (rX t) m)) (rX t (i + 1))
      = rY t (i + 1) :=
    curve_interp _ _ _ hn hx _ (i + 1) hkr (by split_ifs <;> omega)
  have hb : certAt t i (selectIdx t.length (rX t) m) = true := by
    rcases hk with hk | hk
    · rw [hk]; exact hci
    · rw [hk]; exact hcj (by omega)
  obtain ⟨b1, b2, b3, b4⟩ := certAt_spec t i _ hb
  exact within_of_parabola _ _ _ _ _ m hxi' h1 h2 hqi hqj hyi' hyj' b1 b2 b3 b4

/-! ### the per-table certificates (kernel-evaluated over ℚ) -/

theorem cert_G1 : cert (Gen.TableG1 : List (ℚ × ℚ)) = true := by decide +kernel
theorem cert_G7 : cert (Gen.TableG7 : List (ℚ × ℚ)) = true := by decide +kernel
theorem cert_G2 : cert (Gen.TableG2 : List (ℚ × ℚ)) = true := by decide +kernel
theorem cert_G5 : cert (Gen.TableG5 : List (ℚ × ℚ)) = true := by decide +kernel
theorem cert_G6 : cert (Gen.TableG6 : List (ℚ × ℚ)) = true := by decide +kernel
theorem cert_G8 : cert (Gen.TableG8 : List (ℚ × ℚ)) = true := by decide +kernel
theorem cert_GI : cert (Gen.TableGI : List (ℚ × ℚ)) = true := by decide +kernel
theorem cert_GS : cert (Gen.TableGS : List (ℚ × ℚ)) = true := by decide +kernel
theorem cert_RA4 : cert (Gen.TableRA4 : List (ℚ × ℚ)) = true := by decide +kernel

end BC.Lemmas.C09
