/-
  Helper lemmas for C11 (`C11_extra_superset_iterate`, `C11_extra_superset`, `C11_extra_superset_rows`):
  `recordStep` / `iterate` as functions of the result of `shouldRecord`, and the fact that under mask RANGE
  every recorded row carries the RANGE bit.
-/
import Mathlib.Tactic.Ring
import Mathlib.Tactic.Linarith
import Mathlib.Tactic.NormNum
import BC.Real
import BC.Model.Traj
import BC.Lemmas.Filter
import BC.Lemmas.Loop
import BC.Lemmas.C02

namespace BC.Lemmas.C11
open BC BC.Model BC.Lemmas.Loop

/-- under mask RANGE a record is made only with the RANGE bit set in the current flag: the data come either from
    the distance trigger (which sets the bit) or from `currentFlag & RANGE ≠ 0`. -/
theorem shouldRecord_some_range (f : TFilter ℝ) (hf : f.filter = fRANGE) (sf : Nat) (pos vel : Vec ℝ)
    (mach time : ℝ) (h : (f.shouldRecord sf pos vel mach time).2.isSome) :
    (f.shouldRecord sf pos vel mach time).1.currentFlag.range = true := by
  rw [TFilter.shouldRecord_eq] at h ⊢
  rw [hf] at h
  simp only [TFilter.core, TFilter.dist, Flags.anyCommon, fRANGE] at h ⊢
  by_cases hrt : f.rtB pos = true
  · simp [hrt]
  · simp only [hrt] at h
    revert h
    cases f.currentFlag.range <;> cases f.ttB pos time <;> simp [hrt]

/-- the flag of a row is the flag it was created with -/
theorem mkRow_flag {r : Run ℝ} {time : ℝ} {pos vel : Vec ℝ} {speed mach density drag : ℝ} {flag : Flags}
    {row : Row ℝ} (h : mkRow r time pos vel speed mach density drag flag = some row) : row.flag = flag := by
  unfold mkRow createRow at h
  split at h
  · cases h
  · cases h; rfl

/-- what `recordStep` makes of the result of `shouldRecord` -/
noncomputable def recOut (r : Run ℝ) (drag : ℝ) (rows : List (Row ℝ)) (density : ℝ)
    (res : TFilter ℝ × Option (BaseTraj ℝ)) : Except (Err ℝ) (TFilter ℝ × List (Row ℝ)) :=
  match res.2 with
  | some d =>
    match mkRow r d.time d.pos d.vel d.vel.mag d.mach density drag res.1.currentFlag with
    | some row => .ok (res.1, row :: rows)
    | none => .error .zeroDiv
  | none => .ok (res.1, rows)

theorem recordStep_eq {r : Run ℝ} {ff : Flags} (hff : ff.isNone = false) (sf : Nat) (l : LoopSt ℝ)
    (density mach : ℝ) :
    recordStep r ff sf l density mach =
      recOut r l.drag l.rows density
        (({ l.flt with currentFlag := fNONE } : TFilter ℝ).shouldRecord sf l.s.pos l.s.vel mach l.s.time) := by
  unfold recordStep recOut
  simp only [hff, Bool.not_false, if_true]
  generalize ({ l.flt with currentFlag := fNONE } : TFilter ℝ).shouldRecord sf l.s.pos l.s.vel mach l.s.time = res
  obtain ⟨f', data⟩ := res
  cases data with
  | none => rfl
  | some d =>
    dsimp only
    cases mkRow r d.time d.pos d.vel d.vel.mag d.mach density l.drag f'.currentFlag <;> rfl

/-- the loop state after an iteration whose physical step gave `p` and whose recorder gave `fr` -/
def nextSt (p : Phys ℝ) (x : ℝ) (fr : TFilter ℝ × List (Row ℝ)) : LoopSt ℝ :=
  ⟨p.out.st, p.ws, fr.1, fr.2, p.out.drag, p.mach, p.density, p.out.speed, x⟩

/-- an iteration whose physical step succeeds within the limits is the recorder's result put into the state -/
theorem iterate_eq {r : Run ℝ} {ff : Flags} {sf : Nat} {l : LoopSt ℝ} {p : Phys ℝ}
    (hp : physStep r l.s l.ws = some p)
    (hlim : limitReason r.cfg r.alt0 p.out.speed p.out.st.pos.y = none) :
    iterate r ff sf l =
      match recordStep r ff sf l p.density p.mach with
      | .error e => .error e
      | .ok fr => .ok (nextSt p l.s.pos.x fr) := by
  unfold iterate
  simp only [hp]
  cases recordStep r ff sf l p.density p.mach with
  | error e => rfl
  | ok fr =>
    obtain ⟨flt', rows⟩ := fr
    simp only [hlim]
    rfl

end BC.Lemmas.C11
