/-
  Helper lemmas for C12 (wind sorting, wind sock, `physIter`).
-/
import Mathlib.Tactic.Ring
import Mathlib.Tactic.Linarith
import Mathlib.Tactic.NormNum
import Mathlib.Data.List.Sort
import BC.Real
import BC.Model.Traj
import BC.Lemmas.Vec

namespace BC.Lemmas.C12
open BC BC.Model BC.Lemmas.VecL

/-! ### insertion sort by until-distance -/

theorem insertWind_perm (p : ℝ × ℝ × ℝ) (l : List (ℝ × ℝ × ℝ)) : (insertWind p l).Perm (p :: l) := by
  induction l with
  | nil => simp [insertWind]
  | cons q qs ih =>
    unfold insertWind
    split_ifs
    · exact (List.Perm.cons q ih).trans (List.Perm.swap p q qs)
    · exact List.Perm.refl _

theorem sortWinds_perm (l : List (ℝ × ℝ × ℝ)) : (sortWinds l).Perm l := by
  induction l with
  | nil => simp [sortWinds]
  | cons p ps ih =>
    unfold sortWinds
    exact (insertWind_perm p _).trans (List.Perm.cons p ih)

theorem insertWind_sorted (p : ℝ × ℝ × ℝ) (l : List (ℝ × ℝ × ℝ))
    (hl : l.Pairwise (fun a b => a.2.2 ≤ b.2.2)) :
    (insertWind p l).Pairwise (fun a b => a.2.2 ≤ b.2.2) := by
  induction l with
  | nil => simp [insertWind]
  | cons q qs ih =>
    unfold insertWind
    rw [List.pairwise_cons] at hl
    split_ifs with h
    · rw [List.pairwise_cons]
      refine ⟨?_, ih hl.2⟩
      intro a ha
      have := (insertWind_perm p qs).subset ha
      rcases List.mem_cons.mp this with rfl | h'
      · exact le_of_lt h
      · exact hl.1 a h'
    · have hpq : p.2.2 ≤ q.2.2 := not_lt.mp h
      rw [List.pairwise_cons]
      refine ⟨?_, List.pairwise_cons.mpr hl⟩
      intro a ha
      rcases List.mem_cons.mp ha with rfl | h'
      · exact hpq
      · exact le_trans hpq (hl.1 a h')

theorem sortWinds_sorted (l : List (ℝ × ℝ × ℝ)) :
    (sortWinds l).Pairwise (fun a b => a.2.2 ≤ b.2.2) := by
  induction l with
  | nil => simp [sortWinds]
  | cons p ps ih =>
    unfold sortWinds
    exact insertWind_sorted p _ ih

theorem sortWinds_strict (l : List (ℝ × ℝ × ℝ)) (hd : l.Pairwise (fun a b => a.2.2 ≠ b.2.2)) :
    (sortWinds l).Pairwise (fun a b => a.2.2 < b.2.2) := by
  have h1 := sortWinds_sorted l
  have h2 : (sortWinds l).Pairwise (fun a b => a.2.2 ≠ b.2.2) :=
    (sortWinds_perm l).symm.pairwise hd (fun h => Ne.symm h)
  exact (h1.and h2).imp (fun h => lt_of_le_of_ne h.1 h.2)

theorem sortWinds_eq_of_perm (l l' : List (ℝ × ℝ × ℝ)) (hp : l.Perm l')
    (hd : l.Pairwise (fun a b => a.2.2 ≠ b.2.2)) : sortWinds l = sortWinds l' := by
  have hd' : l'.Pairwise (fun a b => a.2.2 ≠ b.2.2) := hp.pairwise hd (fun h => Ne.symm h)
  have s1 := sortWinds_strict l hd
  have s2 := sortWinds_strict l' hd'
  have hperm : (sortWinds l).Perm (sortWinds l') :=
    ((sortWinds_perm l).trans hp).trans (sortWinds_perm l').symm
  refine List.Perm.eq_of_pairwise ?_ s1 s2 hperm
  intro a b _ _ hab hba
  exact absurd (lt_trans hab hba) (lt_irrefl _)

/-! ### wind sock -/

theorem vec_zero : (Vec.zero : Vec ℝ) = ⟨0, 0, 0⟩ := by
  simp only [Vec.zero, h00]

theorem advance_some (ws : WindSock ℝ) (w : WindSeg ℝ) (h : ws.winds[ws.current + 1]? = some w) :
    ws.advance = ⟨ws.winds, ws.current + 1, w.untilFt, w.vec, ws.maxDist⟩ := by
  unfold WindSock.advance; simp only [h]

theorem advance_none (ws : WindSock ℝ) (h : ws.winds[ws.current + 1]? = none) :
    ws.advance = ⟨ws.winds, ws.current + 1, ws.maxDist, ⟨0, 0, 0⟩, ws.maxDist⟩ := by
  unfold WindSock.advance; simp only [h, vec_zero]

theorem advance_winds (ws : WindSock ℝ) : ws.advance.winds = ws.winds := by
  cases h : ws.winds[ws.current + 1]? with
  | none => rw [advance_none ws h]
  | some w => rw [advance_some ws w h]

theorem advance_maxDist (ws : WindSock ℝ) : ws.advance.maxDist = ws.maxDist := by
  cases h : ws.winds[ws.current + 1]? with
  | none => rw [advance_none ws h]
  | some w => rw [advance_some ws w h]

theorem advance_current (ws : WindSock ℝ) : ws.advance.current = ws.current + 1 := by
  cases h : ws.winds[ws.current + 1]? with
  | none => rw [advance_none ws h]
  | some w => rw [advance_some ws w h]

theorem update_winds (ws : WindSock ℝ) (x : ℝ) : (ws.update x).winds = ws.winds := by
  unfold WindSock.update; split_ifs
  · exact advance_winds ws
  · rfl

theorem update_maxDist (ws : WindSock ℝ) (x : ℝ) : (ws.update x).maxDist = ws.maxDist := by
  unfold WindSock.update; split_ifs
  · exact advance_maxDist ws
  · rfl

theorem update_current_ge (ws : WindSock ℝ) (x : ℝ) : ws.current ≤ (ws.update x).current := by
  unfold WindSock.update; split_ifs
  · rw [advance_current]; omega
  · exact le_refl _

theorem physStep_current_ge (r : Run ℝ) (s : St ℝ) (ws : WindSock ℝ) (p : Phys ℝ)
    (h : physStep r s ws = some p) : ws.current ≤ p.ws.current := by
  unfold physStep at h
  split at h
  · cases h
  · cases h
    exact update_current_ge ws _

theorem physIter_current_ge (r : Run ℝ) (n : Nat) : ∀ (s s' : St ℝ) (ws ws' : WindSock ℝ),
    physIter r n s ws = some (s', ws') → ws.current ≤ ws'.current := by
  induction n with
  | zero =>
    intro s s' ws ws' h
    simp only [physIter, Option.some.injEq, Prod.mk.injEq] at h
    rw [h.2]
  | succ n ih =>
    intro s s' ws ws' h
    unfold physIter at h
    cases hp : physStep r s ws with
    | none => simp [hp] at h
    | some p =>
      simp only [hp] at h
      exact le_trans (physStep_current_ge r s ws p hp) (ih _ _ _ _ h)

end BC.Lemmas.C12
