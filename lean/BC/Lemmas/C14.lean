/-
  Helper lemmas for C14 (multi-BC interpolation / sorting).
-/
import Mathlib.Tactic.Ring
import Mathlib.Tactic.Linarith
import Mathlib.Tactic.NormNum
import Mathlib.Data.List.Sort
import BC.Real
import BC.Model.MultiBC

namespace BC.Lemmas.C14
open BC BC.Model

/-- strictly ascending on the first `k` indices -/
def Asc (k : Nat) (x : Nat → ℝ) : Prop := ∀ i j, i < j → j < k → x i < x j

theorem Asc.mono {k : Nat} {x : Nat → ℝ} (h : Asc k x) {i j : Nat} (hij : i ≤ j) (hj : j < k) :
    x i ≤ x j := by
  rcases Nat.lt_or_ge i j with h1 | h1
  · exact le_of_lt (h i j h1 hj)
  · have : i = j := le_antisymm hij h1
    subst this; exact le_refl _

/-- the binary-search loop finds the bracketing interval -/
theorem interpLoop_correct (k : Nat) (xp yp : Nat → ℝ) (hx : Asc k xp) (xi : ℝ) (j : Nat)
    (hj1 : xp j ≤ xi) (hj2 : xi < xp (j + 1)) :
    ∀ (fuel left right : Nat), right - left ≤ fuel → left ≤ j → j + 1 ≤ right → right < k →
      interpLoop xp yp xi fuel left right
        = yp j + (yp (j + 1) - yp j) / (xp (j + 1) - xp j) * (xi - xp j) := by
  intro fuel
  induction fuel with
  | zero => intro left right hf hl hr hk; omega
  | succ fuel ih =>
    intro left right hf hl hr hk
    have hlr : left < right := by omega
    have hm1 : left ≤ (left + right) / 2 := by omega
    have hm2 : (left + right) / 2 < right := by omega
    unfold interpLoop
    rw [if_pos hlr]
    simp only
    generalize hmid : (left + right) / 2 = mid at hm1 hm2 ⊢
    split_ifs with hc hlt
    · -- mid brackets: j = mid
      obtain ⟨hc1, hc2⟩ := hc
      have hjm : j = mid := by
        rcases Nat.lt_trichotomy j mid with h | h | h
        · exfalso
          have := hx.mono (show j + 1 ≤ mid by omega) (by omega)
          linarith
        · exact h
        · exfalso
          have := hx.mono (show mid + 1 ≤ j by omega) (by omega)
          linarith
      subst hjm; rfl
    · -- xi < xp mid : go left
      apply ih left mid (by omega) hl _ (by omega)
      by_contra hcon
      have := hx.mono (show mid ≤ j by omega) (by omega)
      linarith
    · -- go right
      have h1 : xp mid ≤ xi := not_lt.mp hlt
      have h2 : xp (mid + 1) ≤ xi := by
        by_contra hcon
        exact hc ⟨h1, not_le.mp hcon⟩
      apply ih (mid + 1) right (by omega) _ hr hk
      by_contra hcon
      have := hx.mono (show j + 1 ≤ mid + 1 by omega) (by omega)
      linarith

theorem interpLoop_div (xp yp : Nat → ℝ) (c xi : ℝ) :
    ∀ (fuel left right : Nat),
      interpLoop xp (fun i => yp i / c) xi fuel left right
        = interpLoop xp yp xi fuel left right / c := by
  intro fuel
  induction fuel with
  | zero => intro left right; simp [interpLoop]
  | succ fuel ih =>
    intro left right
    unfold interpLoop
    by_cases hlr : left < right
    · rw [if_pos hlr, if_pos hlr]
      simp only
      split_ifs
      · simp only [div_eq_mul_inv]; ring
      · exact ih _ _
      · exact ih _ _
    · rw [if_neg hlr, if_neg hlr]

/-! ### insertion sort by Mach -/

theorem insertByMach_perm (p : ℝ × ℝ) (l : List (ℝ × ℝ)) : (insertByMach p l).Perm (p :: l) := by
  induction l with
  | nil => simp [insertByMach]
  | cons q qs ih =>
    unfold insertByMach
    split_ifs
    · exact (List.Perm.cons q ih).trans (List.Perm.swap p q qs)
    · exact List.Perm.refl _

theorem sortByMach_perm (l : List (ℝ × ℝ)) : (sortByMach l).Perm l := by
  induction l with
  | nil => simp [sortByMach]
  | cons p ps ih =>
    unfold sortByMach
    exact (insertByMach_perm p _).trans (List.Perm.cons p ih)

theorem insertByMach_sorted (p : ℝ × ℝ) (l : List (ℝ × ℝ))
    (hl : l.Pairwise (fun a b => a.2 ≤ b.2)) :
    (insertByMach p l).Pairwise (fun a b => a.2 ≤ b.2) := by
  induction l with
  | nil => simp [insertByMach]
  | cons q qs ih =>
    unfold insertByMach
    rw [List.pairwise_cons] at hl
    split_ifs with h
    · rw [List.pairwise_cons]
      refine ⟨?_, ih hl.2⟩
      intro a ha
      have := (insertByMach_perm p qs).subset ha
      rcases List.mem_cons.mp this with rfl | h'
      · exact le_of_lt h
      · exact hl.1 a h'
    · have hpq : p.2 ≤ q.2 := not_lt.mp h
      rw [List.pairwise_cons]
      refine ⟨?_, List.pairwise_cons.mpr hl⟩
      intro a ha
      rcases List.mem_cons.mp ha with rfl | h'
      · exact hpq
      · exact le_trans hpq (hl.1 a h')

theorem sortByMach_sorted (l : List (ℝ × ℝ)) :
    (sortByMach l).Pairwise (fun a b => a.2 ≤ b.2) := by
  induction l with
  | nil => simp [sortByMach]
  | cons p ps ih =>
    unfold sortByMach
    exact insertByMach_sorted p _ ih

theorem sortByMach_strict (l : List (ℝ × ℝ)) (hd : l.Pairwise (fun a b => a.2 ≠ b.2)) :
    (sortByMach l).Pairwise (fun a b => a.2 < b.2) := by
  have h1 := sortByMach_sorted l
  have h2 : (sortByMach l).Pairwise (fun a b => a.2 ≠ b.2) :=
    (sortByMach_perm l).symm.pairwise hd (fun h => Ne.symm h)
  exact (h1.and h2).imp (fun h => lt_of_le_of_ne h.1 h.2)

theorem sortByMach_eq_of_perm (l l' : List (ℝ × ℝ)) (hp : l.Perm l')
    (hd : l.Pairwise (fun a b => a.2 ≠ b.2)) : sortByMach l = sortByMach l' := by
  have hd' : l'.Pairwise (fun a b => a.2 ≠ b.2) := hp.pairwise hd (fun h => Ne.symm h)
  have s1 := sortByMach_strict l hd
  have s2 := sortByMach_strict l' hd'
  have hperm : (sortByMach l).Perm (sortByMach l') :=
    ((sortByMach_perm l).trans hp).trans (sortByMach_perm l').symm
  refine List.Perm.eq_of_pairwise ?_ s1 s2 hperm
  intro a b _ _ hab hba
  exact absurd (lt_trans hab hba) (lt_irrefl _)

end BC.Lemmas.C14
