/-
  Helper lemmas for C11 / C15: an explicit normal form of `TFilter.shouldRecord` over ℝ.

  `shouldRecord` is a `let`-chain of nested `if`s; here it is rewritten once and for all as
    `(f.core …, if (f.core …).currentFlag.anyCommon f.filter && (f.dist …).isNone then some cur else f.dist …)`
  where `core` is ONE structure literal whose fields are Boolean / `if` expressions of the five
  triggers (`rtB` distance, `ttB` time, `upB`/`downB` sight-line crossings, `machB` sonic crossing)
  and `dist` is the interpolated distance record.
-/
import Mathlib.Tactic.Ring
import Mathlib.Tactic.Linarith
import Mathlib.Tactic.NormNum
import BC.Real
import BC.Model.Traj

namespace BC.Model
open BC

theorem lit0 : (0.0 : ℝ) = 0 := by norm_num
theorem lit1 : (1.0 : ℝ) = 1 := by norm_num

section
variable (f : TFilter ℝ) (sf : Nat) (pos vel : Vec ℝ) (mach time : ℝ)

/-- distance trigger -/
noncomputable def TFilter.rtB : Bool := decide (0 < f.rangeStep ∧ f.nextRecordDistance ≤ pos.x)
/-- time trigger (only looked at when the distance trigger did not fire) -/
noncomputable def TFilter.ttB : Bool :=
  !f.rtB pos && decide (0 < f.timeStep ∧ f.timeOfLastRecord + f.timeStep < time)
/-- ZERO_UP trigger -/
noncomputable def TFilter.upB : Bool :=
  decide (0 < pos.x ∧ f.seenZero.zeroUp = false ∧ pos.x * Real.tan f.lookAngle ≤ pos.y)
/-- ZERO_DOWN trigger -/
noncomputable def TFilter.downB : Bool :=
  decide (0 < pos.x ∧ f.seenZero.zeroUp = true ∧ f.seenZero.zeroDown = false ∧
    pos.y < pos.x * Real.tan f.lookAngle)
/-- MACH trigger -/
noncomputable def TFilter.machB (cur : ℝ) : Bool := decide (1 < f.prevVMach ∧ cur ≤ 1)

/-- the filter after `shouldRecord`, as one structure literal -/
noncomputable def TFilter.core : TFilter ℝ :=
  { filter := f.filter
    currentFlag := ⟨f.currentFlag.zeroUp || f.upB pos, f.currentFlag.zeroDown || f.downB pos,
                    f.currentFlag.mach || f.machB (vel.mag / mach),
                    f.currentFlag.range || (f.rtB pos || f.ttB pos time), f.currentFlag.apex⟩
    seenZero := ⟨f.seenZero.zeroUp || f.upB pos, f.seenZero.zeroDown || f.downB pos,
                 f.seenZero.mach, f.seenZero.range, f.seenZero.apex⟩
    timeStep := f.timeStep
    rangeStep := f.rangeStep
    timeOfLastRecord := if (f.rtB pos || f.ttB pos time) = true then time else f.timeOfLastRecord
    nextRecordDistance :=
      if f.rtB pos = true then skipRecords f.rangeStep pos.x sf f.nextRecordDistance + f.rangeStep
      else f.nextRecordDistance
    prevMach := mach
    prevTime := time
    prevPos := pos
    prevVel := vel
    prevVMach := vel.mag / mach
    lookAngle := f.lookAngle }

/-- the record made by the distance trigger (if it fires and the state moved forward) -/
noncomputable def TFilter.dist : Option (BaseTraj ℝ) :=
  if f.rtB pos = true ∧ f.prevPos.x < pos.x then
    let nrd := skipRecords f.rangeStep pos.x sf f.nextRecordDistance
    let ratio := (nrd - f.prevPos.x) / (pos.x - f.prevPos.x)
    some ⟨lerp f.prevTime time ratio, f.prevPos.lerp pos ratio, f.prevVel.lerp vel ratio,
          lerp f.prevMach mach ratio⟩
  else none

end

/-- the first stage of `shouldRecord` (distance / time trigger) -/
noncomputable def TFilter.stage1 (f : TFilter ℝ) (sf : Nat) (pos vel : Vec ℝ) (mach time : ℝ) :
    TFilter ℝ × Option (BaseTraj ℝ) :=
  if 0.0 < f.rangeStep ∧ f.nextRecordDistance ≤ pos.x then
    let nrd := skipRecords f.rangeStep pos.x sf f.nextRecordDistance
    let data :=
      if f.prevPos.x < pos.x then
        let ratio := (nrd - f.prevPos.x) / (pos.x - f.prevPos.x)
        some ⟨lerp f.prevTime time ratio, f.prevPos.lerp pos ratio, f.prevVel.lerp vel ratio,
              lerp f.prevMach mach ratio⟩
      else none
    ({ f with currentFlag := { f.currentFlag with range := true }, nextRecordDistance := nrd + f.rangeStep,
              timeOfLastRecord := time }, data)
  else if 0.0 < f.timeStep then
    if f.timeOfLastRecord + f.timeStep < time then
      ({ f with currentFlag := { f.currentFlag with range := true }, timeOfLastRecord := time }, none)
    else (f, none)
  else (f, none)

theorem TFilter.shouldRecord_stage (f : TFilter ℝ) (sf : Nat) (pos vel : Vec ℝ) (mach time : ℝ) :
    f.shouldRecord sf pos vel mach time =
      (let f3 := ((f.stage1 sf pos vel mach time).1.checkZero pos).checkMach vel.mag mach
       ({ f3 with prevTime := time, prevPos := pos, prevVel := vel, prevMach := mach },
        if (f3.currentFlag.anyCommon f3.filter && (f.stage1 sf pos vel mach time).2.isNone) = true
        then some ⟨time, pos, vel, mach⟩ else (f.stage1 sf pos vel mach time).2)) := by
  rfl

theorem TFilter.checkZero_eq (f : TFilter ℝ) (pos : Vec ℝ) :
    f.checkZero pos =
      { f with currentFlag := { f.currentFlag with zeroUp := f.currentFlag.zeroUp || f.upB pos,
                                                   zeroDown := f.currentFlag.zeroDown || f.downB pos },
               seenZero := { f.seenZero with zeroUp := f.seenZero.zeroUp || f.upB pos,
                                             zeroDown := f.seenZero.zeroDown || f.downB pos } } := by
  obtain ⟨flt, ⟨c1, c2, c3, c4, c5⟩, ⟨s1, s2, s3, s4, s5⟩, ts, rs, tolr, nrd, pm, pt, pp, pv, pvm, la⟩ := f
  unfold TFilter.checkZero TFilter.upB TFilter.downB
  simp only [lit0, fn_tan]
  split_ifs <;> simp_all

theorem TFilter.checkMach_eq (f : TFilter ℝ) (v m : ℝ) :
    f.checkMach v m =
      { f with currentFlag := { f.currentFlag with mach := f.currentFlag.mach || f.machB (v / m) },
               prevVMach := v / m } := by
  obtain ⟨flt, ⟨c1, c2, c3, c4, c5⟩, ⟨s1, s2, s3, s4, s5⟩, ts, rs, tolr, nrd, pm, pt, pp, pv, pvm, la⟩ := f
  unfold TFilter.checkMach TFilter.machB
  simp only [lit1]
  split_ifs <;> simp_all

theorem TFilter.stage1_eq (f : TFilter ℝ) (sf : Nat) (pos vel : Vec ℝ) (mach time : ℝ) :
    f.stage1 sf pos vel mach time =
      ({ f with currentFlag := { f.currentFlag with range := f.currentFlag.range || (f.rtB pos || f.ttB pos time) },
                timeOfLastRecord := if (f.rtB pos || f.ttB pos time) = true then time else f.timeOfLastRecord,
                nextRecordDistance :=
                  if f.rtB pos = true then skipRecords f.rangeStep pos.x sf f.nextRecordDistance + f.rangeStep
                  else f.nextRecordDistance },
       f.dist sf pos vel mach time) := by
  obtain ⟨flt, ⟨c1, c2, c3, c4, c5⟩, ⟨s1, s2, s3, s4, s5⟩, ts, rs, tolr, nrd, pm, pt, pp, pv, pvm, la⟩ := f
  unfold TFilter.stage1 TFilter.dist TFilter.ttB TFilter.rtB
  simp only [lit0]
  by_cases hrt : 0 < rs ∧ nrd ≤ pos.x
  · by_cases hp : pp.x < pos.x <;> simp [hrt, hp]
  · by_cases hts : 0 < ts
    · by_cases htt : tolr + ts < time <;> simp [hrt, hts, htt]
    · simp [hrt, hts]

/-- normal form of `shouldRecord` -/
theorem TFilter.shouldRecord_eq (f : TFilter ℝ) (sf : Nat) (pos vel : Vec ℝ) (mach time : ℝ) :
    f.shouldRecord sf pos vel mach time =
      (f.core sf pos vel mach time,
       if ((f.core sf pos vel mach time).currentFlag.anyCommon f.filter &&
            (f.dist sf pos vel mach time).isNone) = true
       then some ⟨time, pos, vel, mach⟩ else f.dist sf pos vel mach time) := by
  rw [TFilter.shouldRecord_stage, TFilter.stage1_eq, TFilter.checkZero_eq, TFilter.checkMach_eq]
  rfl

/-! ### the triggers as propositions -/

section
variable (f : TFilter ℝ) (pos : Vec ℝ) (time cur : ℝ)

theorem TFilter.rtB_iff : f.rtB pos = true ↔ 0 < f.rangeStep ∧ f.nextRecordDistance ≤ pos.x := by
  simp [TFilter.rtB]

theorem TFilter.ttB_iff : f.ttB pos time = true ↔
    ¬ (0 < f.rangeStep ∧ f.nextRecordDistance ≤ pos.x) ∧ 0 < f.timeStep ∧
      f.timeOfLastRecord + f.timeStep < time := by
  simp only [TFilter.ttB, TFilter.rtB, Bool.and_eq_true, Bool.not_eq_true', decide_eq_true_eq,
    decide_eq_false_iff_not]

theorem TFilter.upB_iff : f.upB pos = true ↔
    0 < pos.x ∧ f.seenZero.zeroUp = false ∧ pos.x * Real.tan f.lookAngle ≤ pos.y := by
  simp [TFilter.upB]

theorem TFilter.downB_iff : f.downB pos = true ↔
    0 < pos.x ∧ f.seenZero.zeroUp = true ∧ f.seenZero.zeroDown = false ∧
      pos.y < pos.x * Real.tan f.lookAngle := by
  simp [TFilter.downB]

theorem TFilter.machB_iff : f.machB cur = true ↔ 1 < f.prevVMach ∧ cur ≤ 1 := by
  simp [TFilter.machB]

end

/-! ### the skip loop and linear interpolation -/

theorem skipRecords_ge (step x : ℝ) (hs : 0 ≤ step) :
    ∀ (fuel : Nat) (nrd : ℝ), nrd ≤ skipRecords step x fuel nrd := by
  intro fuel
  induction fuel with
  | zero => intro nrd; simp [skipRecords]
  | succ n ih =>
    intro nrd
    unfold skipRecords
    split_ifs
    · have := ih (nrd + step); linarith
    · exact le_refl _

theorem skipRecords_le (step x : ℝ) :
    ∀ (fuel : Nat) (nrd : ℝ), nrd ≤ x → skipRecords step x fuel nrd ≤ x := by
  intro fuel
  induction fuel with
  | zero => intro nrd h; simpa [skipRecords] using h
  | succ n ih =>
    intro nrd h
    unfold skipRecords
    split_ifs with hlt
    · exact ih _ (le_of_lt hlt)
    · exact h

theorem lerp_between (a b r : ℝ) (hab : a ≤ b) (h0 : 0 ≤ r) (h1 : r ≤ 1) :
    a ≤ lerp a b r ∧ lerp a b r ≤ b := by
  unfold lerp
  constructor
  · nlinarith
  · nlinarith

theorem Vec.lerp_x (a b : Vec ℝ) (r : ℝ) : (a.lerp b r).x = a.x + (b.x - a.x) * r := rfl

end BC.Model
