/-
  BC.Lemmas.Lookup — helper lemmas about the look-up primitives of BC.Model.Lookup and the two
  scans of BC.Model.Danger, shared by BC.Props.C20 and BC.Props.C16.
-/
import Mathlib.Tactic.Ring
import Mathlib.Tactic.Linarith
import Mathlib.Tactic.NormNum
import BC.Real
import BC.Model.Lookup
import BC.Model.Danger

namespace BC.Lemmas.Lookup
open BC BC.Model

/-! ### sequential scan -/

theorem scanFirst_spec (cond : Nat → Bool) : ∀ (k i : Nat),
    (scanFirst cond k i = -1 ↔ ∀ j, i ≤ j → j < i + k → cond j = false) ∧
    (∀ m : Nat, scanFirst cond k i = (m : Int) ↔
      i ≤ m ∧ m < i + k ∧ cond m = true ∧ ∀ j, i ≤ j → j < m → cond j = false) := by
  intro k
  induction k with
  | zero =>
    intro i
    refine ⟨?_, ?_⟩
    · simp only [scanFirst, true_iff]
      intro j h1 h2; omega
    · intro m
      simp only [scanFirst]
      constructor
      · intro h; omega
      · rintro ⟨h1, h2, _⟩; omega
  | succ k ih =>
    intro i
    obtain ⟨ih1, ih2⟩ := ih (i + 1)
    by_cases hc : cond i = true
    · refine ⟨?_, ?_⟩
      · simp only [scanFirst, hc, if_true]
        constructor
        · intro h; omega
        · intro h
          have := h i (le_refl _) (by omega)
          rw [hc] at this; cases this
      · intro m
        simp only [scanFirst, hc, if_true]
        constructor
        · intro h
          have hm : i = m := by exact_mod_cast h
          subst hm
          refine ⟨le_refl _, by omega, hc, ?_⟩
          intro j h1 h2; omega
        · rintro ⟨h1, h2, h3, h4⟩
          by_cases hlt : i < m
          · have := h4 i (le_refl _) hlt
            rw [hc] at this; cases this
          · have : i = m := by omega
            subst this; rfl
    · have hc' : cond i = false := by simpa using hc
      refine ⟨?_, ?_⟩
      · simp only [scanFirst, hc', Bool.false_eq_true, if_false]
        rw [ih1]
        constructor
        · intro h j h1 h2
          by_cases hj : j = i
          · subst hj; exact hc'
          · exact h j (by omega) (by omega)
        · intro h j h1 h2
          exact h j (by omega) (by omega)
      · intro m
        simp only [scanFirst, hc', Bool.false_eq_true, if_false]
        rw [ih2 m]
        constructor
        · rintro ⟨h1, h2, h3, h4⟩
          refine ⟨by omega, by omega, h3, ?_⟩
          intro j hj1 hj2
          by_cases hj : j = i
          · subst hj; exact hc'
          · exact h4 j (by omega) hj2
        · rintro ⟨h1, h2, h3, h4⟩
          have hne : i ≠ m := by
            intro h; subst h; rw [hc'] at h3; cases h3
          refine ⟨by omega, by omega, h3, ?_⟩
          intro j hj1 hj2
          exact h4 j (by omega) hj2

/-- the scan returns −1 or a natural number -/
theorem scanFirst_cases (cond : Nat → Bool) : ∀ (k i : Nat),
    scanFirst cond k i = -1 ∨ ∃ m : Nat, scanFirst cond k i = (m : Int) := by
  intro k
  induction k with
  | zero => intro i; left; rfl
  | succ k ih =>
    intro i
    by_cases hc : cond i = true
    · right; exact ⟨i, by simp [scanFirst, hc]⟩
    · have hc' : cond i = false := by simpa using hc
      simp only [scanFirst, hc', Bool.false_eq_true, if_false]
      exact ih (i + 1)

/-! ### bisect_left -/

/-- for a comparison that is "true … true false … false" on `[lo, hi)`, `bisectLeft` returns the
    partition point. -/
theorem bisectLeft_spec (lt : Nat → Bool) : ∀ (fuel lo hi : Nat),
    hi - lo ≤ fuel → lo ≤ hi →
    (∀ i j, lo ≤ i → i ≤ j → j < hi → lt j = true → lt i = true) →
    lo ≤ bisectLeft lt fuel lo hi ∧ bisectLeft lt fuel lo hi ≤ hi ∧
    (∀ i, lo ≤ i → i < bisectLeft lt fuel lo hi → lt i = true) ∧
    (∀ i, bisectLeft lt fuel lo hi ≤ i → i < hi → lt i = false) := by
  intro fuel
  induction fuel with
  | zero =>
    intro lo hi hf hle _
    simp only [bisectLeft]
    refine ⟨le_refl _, hle, ?_, ?_⟩
    · intro i h1 h2; omega
    · intro i h1 h2; omega
  | succ fuel ih =>
    intro lo hi hf hle hmono
    by_cases hlt : lo < hi
    · have hmid1 : lo ≤ (lo + hi) / 2 := by omega
      have hmid2 : (lo + hi) / 2 < hi := by omega
      by_cases hm : lt ((lo + hi) / 2) = true
      · have hrec := ih ((lo + hi) / 2 + 1) hi (by omega) (by omega)
          (fun i j h1 h2 h3 h4 => hmono i j (by omega) h2 h3 h4)
        simp only [bisectLeft, hlt, if_true, hm]
        obtain ⟨r1, r2, r3, r4⟩ := hrec
        refine ⟨by omega, r2, ?_, r4⟩
        intro i h1 h2
        by_cases hi' : i ≤ (lo + hi) / 2
        · exact hmono i _ h1 hi' hmid2 hm
        · exact r3 i (by omega) h2
      · have hm' : lt ((lo + hi) / 2) = false := by simpa using hm
        have hrec := ih lo ((lo + hi) / 2) (by omega) hmid1
          (fun i j h1 h2 h3 h4 => hmono i j h1 h2 (by omega) h4)
        simp only [bisectLeft, hlt, if_true, hm', Bool.false_eq_true, if_false]
        obtain ⟨r1, r2, r3, r4⟩ := hrec
        refine ⟨r1, by omega, r3, ?_⟩
        intro i h1 h2
        by_cases hi' : i < (lo + hi) / 2
        · exact r4 i h1 hi'
        · cases hli : lt i with
          | false => rfl
          | true =>
            have := hmono ((lo + hi) / 2) i hmid1 (by omega) h2 hli
            rw [hm'] at this; cases this
    · have : lo = hi := by omega
      subst this
      simp only [bisectLeft, hlt, if_false]
      refine ⟨le_refl _, le_refl _, ?_, ?_⟩
      · intro i h1 h2; omega
      · intro i h1 h2; omega

/-- `bisectLeft` on the whole range `[0, n)` -/
theorem bisectLeft_full (lt : Nat → Bool) (n : Nat)
    (hmono : ∀ i j, i ≤ j → j < n → lt j = true → lt i = true) :
    bisectLeft lt n 0 n ≤ n ∧
    (∀ i, i < bisectLeft lt n 0 n → lt i = true) ∧
    (∀ i, bisectLeft lt n 0 n ≤ i → i < n → lt i = false) := by
  obtain ⟨_, h2, h3, h4⟩ := bisectLeft_spec lt n 0 n (by omega) (Nat.zero_le _)
    (fun i j _ h2 h3 h4 => hmono i j h2 h3 h4)
  exact ⟨h2, fun i hi => h3 i (Nat.zero_le _) hi, h4⟩

/-- bisect for the first `true` of a monotone condition = sequential scan -/
theorem bisectCond_eq_scan (cond : Nat → Bool) (n : Nat)
    (hmono : ∀ i j, i ≤ j → j < n → cond i = true → cond j = true) :
    bisectCond n cond = scanFirst cond n 0 := by
  have hm : ∀ i j, i ≤ j → j < n → (!cond j) = true → (!cond i) = true := by
    intro i j hij hj h
    cases hci : cond i with
    | false => rfl
    | true =>
      have := hmono i j hij hj hci
      rw [this] at h; cases h
  obtain ⟨h1, h2, h3⟩ := bisectLeft_full (fun i => !cond i) n hm
  obtain ⟨s1, s2⟩ := scanFirst_spec cond n 0
  unfold bisectCond
  simp only
  by_cases hge : bisectLeft (fun i => !cond i) n 0 n ≥ n
  · rw [if_pos hge]
    symm
    rw [s1]
    intro j _ hj
    have := h2 j (by omega)
    simpa using this
  · rw [if_neg hge]
    have hlt : bisectLeft (fun i => !cond i) n 0 n < n := by omega
    have hc : cond (bisectLeft (fun i => !cond i) n 0 n) = true := by
      have := h3 _ (le_refl _) hlt
      simpa using this
    rw [if_pos hc]
    symm
    rw [s2]
    refine ⟨Nat.zero_le _, by omega, hc, ?_⟩
    intro j _ hj
    have := h2 j hj
    simpa using this

/-! ### nearest look-up -/

/-- second bisection of `nearestIndex`: the first row carrying the value `time b` -/
theorem first_of_value (n : Nat) (time : Nat → ℝ)
    (h : ∀ i j, i ≤ j → j < n → time i ≤ time j) (b : Nat) (hb : b < n) :
    bisectLeft (fun i => decide (time i < time b)) n 0 n ≤ b ∧
    time (bisectLeft (fun i => decide (time i < time b)) n 0 n) = time b ∧
    ∀ i, i < bisectLeft (fun i => decide (time i < time b)) n 0 n → time i < time b := by
  have hm : ∀ i j, i ≤ j → j < n →
      (fun i => decide (time i < time b)) j = true → (fun i => decide (time i < time b)) i = true := by
    intro i j hij hj hlt
    simp only [decide_eq_true_eq] at hlt ⊢
    exact lt_of_le_of_lt (h i j hij hj) hlt
  obtain ⟨h1, h2, h3⟩ := bisectLeft_full (fun i => decide (time i < time b)) n hm
  set k := bisectLeft (fun i => decide (time i < time b)) n 0 n with hk
  have hkb : k ≤ b := by
    by_contra hcon
    have := h2 b (by omega)
    simp only [decide_eq_true_eq] at this
    exact lt_irrefl _ this
  refine ⟨hkb, ?_, ?_⟩
  · have h4 := h3 k (le_refl _) (by omega)
    simp only [decide_eq_false_iff_not, not_lt] at h4
    exact le_antisymm (h k b hkb hb) h4
  · intro i hi
    have := h2 i hi
    simpa using this

theorem nearestIndex_spec (n : Nat) (time : Nat → ℝ)
    (h : ∀ i j, i ≤ j → j < n → time i ≤ time j) (t : ℝ) (hn : 0 < n) :
    ∃ k : Nat, nearestIndex n time t = (k : Int) ∧ k < n ∧
      (∀ i, i < n → |time k - t| ≤ |time i - t|) ∧
      (∀ i, i < k → |time k - t| < |time i - t|) := by
  have hm : ∀ i j, i ≤ j → j < n →
      (fun i => decide (time i < t)) j = true → (fun i => decide (time i < t)) i = true := by
    intro i j hij hj hlt
    simp only [decide_eq_true_eq] at hlt ⊢
    exact lt_of_le_of_lt (h i j hij hj) hlt
  obtain ⟨p1, p2, p3⟩ := bisectLeft_full (fun i => decide (time i < t)) n hm
  have hn0 : n ≠ 0 := by omega
  unfold nearestIndex
  rw [if_neg hn0]
  simp only
  set pos := bisectLeft (fun i => decide (time i < t)) n 0 n with hpos
  have hbelow : ∀ i, i < pos → time i < t := by
    intro i hi
    have := p2 i hi
    simpa using this
  have habove : ∀ i, pos ≤ i → i < n → t ≤ time i := by
    intro i hi hin
    have := p3 i hi hin
    simpa using this
  by_cases hp0 : pos = 0
  · rw [if_pos hp0]
    refine ⟨0, rfl, hn, ?_, ?_⟩
    · intro i hi
      have a0 := habove 0 (by omega) hn
      have ai := habove i (by omega) hi
      have := h 0 i (Nat.zero_le _) hi
      rw [abs_of_nonneg (by linarith), abs_of_nonneg (by linarith)]
      linarith
    · intro i hi; omega
  · rw [if_neg hp0]
    -- the chosen `best`
    have key : ∀ b : Nat, b < n →
        (∀ i, i < n → |time b - t| ≤ |time i - t|) →
        (∀ i, i < n → time i < time b → |time b - t| < |time i - t|) →
        ∃ k : Nat, ((bisectLeft (fun i => decide (time i < time b)) n 0 n : Nat) : Int) = (k : Int) ∧
          k < n ∧ (∀ i, i < n → |time k - t| ≤ |time i - t|) ∧
          (∀ i, i < k → |time k - t| < |time i - t|) := by
      intro b hb hmin hstrict
      obtain ⟨f1, f2, f3⟩ := first_of_value n time h b hb
      refine ⟨_, rfl, by omega, ?_, ?_⟩
      · intro i hi; rw [f2]; exact hmin i hi
      · intro i hi; rw [f2]; exact hstrict i (by omega) (f3 i hi)
    -- distances below and above `pos`
    have dbelow : ∀ i, i < pos → |time i - t| = t - time i := by
      intro i hi
      have := hbelow i hi
      rw [abs_of_nonpos (by linarith)]; ring
    have dabove : ∀ i, pos ≤ i → i < n → |time i - t| = time i - t := by
      intro i hi hin
      have := habove i hi hin
      rw [abs_of_nonneg (by linarith)]
    by_cases hpn : pos = n
    · rw [if_pos hpn]
      apply key (n - 1) (by omega)
      · intro i hi
        rw [dbelow (n - 1) (by omega), dbelow i (by omega)]
        have := h i (n - 1) (by omega) (by omega)
        linarith
      · intro i hi hlt
        rw [dbelow (n - 1) (by omega), dbelow i (by omega)]
        linarith
    · rw [if_neg hpn]
      have hposn : pos < n := by omega
      by_cases hcmp : |time (pos - 1) - t| ≤ |time pos - t|
      · have e : (if Fn.abs (time (pos - 1) - t) ≤ Fn.abs (time pos - t) then pos - 1 else pos)
            = pos - 1 := by simp only [fn_abs]; rw [if_pos hcmp]
        rw [e]
        apply key (pos - 1) (by omega)
        · intro i hi
          by_cases hip : i < pos
          · rw [dbelow (pos - 1) (by omega), dbelow i hip]
            have := h i (pos - 1) (by omega) (by omega)
            linarith
          · refine le_trans hcmp ?_
            rw [dabove pos (le_refl _) hposn, dabove i (by omega) hi]
            have := h pos i (by omega) hi
            linarith
        · intro i hi hlt
          have hip : i < pos := by
            by_contra hcon
            have h1 := habove i (by omega) hi
            have h2 := hbelow (pos - 1) (by omega)
            linarith
          rw [dbelow (pos - 1) (by omega), dbelow i hip]
          linarith
      · have e : (if Fn.abs (time (pos - 1) - t) ≤ Fn.abs (time pos - t) then pos - 1 else pos)
            = pos := by simp only [fn_abs]; rw [if_neg hcmp]
        rw [e]
        have hcmp' : |time pos - t| < |time (pos - 1) - t| := lt_of_not_ge hcmp
        apply key pos hposn
        · intro i hi
          by_cases hip : i < pos
          · refine le_trans (le_of_lt hcmp') ?_
            rw [dbelow (pos - 1) (by omega), dbelow i hip]
            have := h i (pos - 1) (by omega) (by omega)
            linarith
          · rw [dabove pos (le_refl _) hposn, dabove i (by omega) hi]
            have := h pos i (by omega) hi
            linarith
        · intro i hi hlt
          have hip : i < pos := by
            by_contra hcon
            have := h pos i (by omega) hi
            linarith
          refine lt_of_lt_of_le hcmp' ?_
          rw [dbelow (pos - 1) (by omega), dbelow i hip]
          have := h i (pos - 1) (by omega) (by omega)
          linarith

/-! ### apex search -/

theorem apexLoop_spec (n : Nat) (h : Nat → ℝ) (p : Nat)
    (hinc : ∀ i, i < p → h i < h (i + 1))
    (hdec : ∀ i, p ≤ i → i + 1 < n → h (i + 1) ≤ h i) :
    ∀ (fuel l r : Nat), r - l ≤ fuel → l ≤ p → p ≤ r → r < n → apexLoop h fuel l r = p := by
  intro fuel
  induction fuel with
  | zero =>
    intro l r hf h1 h2 _
    simp only [apexLoop]; omega
  | succ fuel ih =>
    intro l r hf h1 h2 hr
    by_cases hlt : l < r
    · have hmid1 : l ≤ (l + r) / 2 := by omega
      have hmid2 : (l + r) / 2 < r := by omega
      by_cases hm : h ((l + r) / 2) < h ((l + r) / 2 + 1)
      · simp only [apexLoop, hlt, if_true, hm]
        have hp : (l + r) / 2 < p := by
          by_contra hcon
          have := hdec ((l + r) / 2) (by omega) (by omega)
          linarith
        exact ih _ _ (by omega) (by omega) h2 hr
      · simp only [apexLoop, hlt, if_true, hm, if_false]
        have hp : p ≤ (l + r) / 2 := by
          by_contra hcon
          exact hm (hinc _ (by omega))
        exact ih _ _ (by omega) h1 hp (by omega)
    · simp only [apexLoop, hlt, if_false]; omega

/-! ### danger-space scans -/

theorem beginScan_spec (drop : Nat → ℝ) (c half : ℝ) : ∀ k : Nat,
    beginScan drop c half k ≤ k ∧
    (∀ j, beginScan drop c half k < j → j < k → |drop j - c| < half) ∧
    (beginScan drop c half k = 0 ∨ half ≤ |drop (beginScan drop c half k) - c|) := by
  intro k
  induction k with
  | zero =>
    have e : beginScan drop c half 0 = 0 := rfl
    rw [e]
    refine ⟨le_refl _, ?_, Or.inl rfl⟩
    intro j h1 h2; omega
  | succ k ih =>
    by_cases hc : half ≤ |drop k - c|
    · have e : beginScan drop c half (k + 1) = k := by simp [beginScan, hc]
      rw [e]
      refine ⟨by omega, ?_, Or.inr hc⟩
      intro j h1 h2; omega
    · have e : beginScan drop c half (k + 1) = beginScan drop c half k := by
        simp [beginScan, hc]
      rw [e]
      obtain ⟨i1, i2, i3⟩ := ih
      refine ⟨by omega, ?_, i3⟩
      intro j h1 h2
      by_cases hj : j = k
      · subst hj; exact lt_of_not_ge hc
      · exact i2 j h1 (by omega)

theorem beginScan_mono (drop : Nat → ℝ) (c half half' : ℝ) (hh : half ≤ half') : ∀ k : Nat,
    beginScan drop c half' k ≤ beginScan drop c half k := by
  intro k
  induction k with
  | zero => simp [beginScan]
  | succ k ih =>
    by_cases hc' : half' ≤ |drop k - c|
    · have hc : half ≤ |drop k - c| := le_trans hh hc'
      simp [beginScan, hc, hc']
    · by_cases hc : half ≤ |drop k - c|
      · simp only [beginScan, fn_abs, hc, hc', if_true, if_false]
        exact (beginScan_spec drop c half' k).1
      · simp only [beginScan, fn_abs, hc, hc', if_false]
        exact ih

theorem endScan_spec (drop : Nat → ℝ) (c half : ℝ) (last : Nat) : ∀ (fuel i : Nat),
    (endScan drop c half last fuel i = last ∧
      ∀ j, i ≤ j → j < i + fuel → |c - drop j| < half) ∨
    (i ≤ endScan drop c half last fuel i ∧ endScan drop c half last fuel i < i + fuel ∧
      half ≤ |c - drop (endScan drop c half last fuel i)| ∧
      ∀ j, i ≤ j → j < endScan drop c half last fuel i → |c - drop j| < half) := by
  intro fuel
  induction fuel with
  | zero =>
    intro i
    left
    simp only [endScan, true_and]
    intro j h1 h2; omega
  | succ fuel ih =>
    intro i
    by_cases hc : half ≤ |c - drop i|
    · right
      have e : endScan drop c half last (fuel + 1) i = i := by simp [endScan, hc]
      rw [e]
      refine ⟨le_refl _, by omega, hc, ?_⟩
      intro j h1 h2; omega
    · have e : endScan drop c half last (fuel + 1) i = endScan drop c half last fuel (i + 1) := by
        simp [endScan, hc]
      rw [e]
      rcases ih (i + 1) with ⟨e1, e2⟩ | ⟨e1, e2, e3, e4⟩
      · left
        refine ⟨e1, ?_⟩
        intro j h1 h2
        by_cases hj : j = i
        · subst hj; exact lt_of_not_ge hc
        · exact e2 j (by omega) (by omega)
      · right
        refine ⟨by omega, by omega, e3, ?_⟩
        intro j h1 h2
        by_cases hj : j = i
        · subst hj; exact lt_of_not_ge hc
        · exact e4 j (by omega) h2

theorem endScan_mono (drop : Nat → ℝ) (c half half' : ℝ) (hh : half ≤ half') (last : Nat) :
    ∀ (fuel i : Nat), i + fuel ≤ last + 1 →
    endScan drop c half last fuel i ≤ endScan drop c half' last fuel i := by
  intro fuel
  induction fuel with
  | zero => intro i _; simp [endScan]
  | succ fuel ih =>
    intro i hi
    by_cases hc' : half' ≤ |c - drop i|
    · have hc : half ≤ |c - drop i| := le_trans hh hc'
      simp [endScan, hc, hc']
    · by_cases hc : half ≤ |c - drop i|
      · simp only [endScan, fn_abs, hc, hc', if_true, if_false]
        rcases endScan_spec drop c half' last fuel (i + 1) with ⟨e1, _⟩ | ⟨e1, _⟩
        · rw [e1]; omega
        · omega
      · simp only [endScan, fn_abs, hc, hc', if_false]
        exact ih (i + 1) (by omega)

/-- shape of a successful `dangerSpace` call -/
theorem dangerSpace_some (n : Nat) (dist drop : Nat → ℝ) (atRange h : ℝ) (r : DangerIdx)
    (hr : dangerSpace n dist drop atRange h = some r) :
    ∃ k : Nat, k < n ∧ atRange ≤ dist k ∧ (∀ i, i < k → dist i < atRange) ∧
      r.at_ = k ∧ r.begin_ = beginScan drop (drop k) (h / 2) k ∧
      r.end_ = endScan drop (drop k) (h / 2) (n - 1) (n - (k + 1)) (k + 1) := by
  have h2 : (2.0 : ℝ) = 2 := by norm_num
  unfold dangerSpace indexAtDistance at hr
  simp only at hr
  rcases scanFirst_cases (fun i => decide (atRange ≤ dist i)) n 0 with hs | ⟨k, hs⟩
  · rw [hs] at hr
    simp at hr
  · rw [hs] at hr
    have hnot : ¬ ((k : Int) < 0) := by omega
    rw [if_neg hnot, Int.toNat_natCast, h2] at hr
    obtain ⟨_, k2, k3, k4⟩ := ((scanFirst_spec _ n 0).2 k).1 hs
    refine ⟨k, by omega, by simpa using k3, ?_, ?_⟩
    · intro i hi
      have := k4 i (Nat.zero_le _) hi
      simpa using this
    · have := Option.some.inj hr
      subst this
      exact ⟨rfl, rfl, rfl⟩

end BC.Lemmas.Lookup
