import Mathlib.Tactic.Ring
import Mathlib.Tactic.Linarith
import Mathlib.Tactic.NormNum
import BC.Real
import BC.Model.Traj

namespace BC.Lemmas.Loop
open BC BC.Model

theorem max1_eq (v : ℝ) : max1 v = max 1 v := by
  unfold max1
  have h1 : (1.0 : ℝ) = 1 := by norm_num
  rw [h1]
  split_ifs with h
  · exact (max_eq_right h.le).symm
  · exact (max_eq_left (not_lt.mp h)).symm

theorem physStep_speed {r : Run ℝ} {s : St ℝ} {ws : WindSock ℝ} {p : Phys ℝ}
    (h : physStep r s ws = some p) : p.out.speed = p.out.st.vel.mag := by
  unfold physStep at h
  split at h
  · cases h
  · cases h; rfl

theorem createRow_fields {time : ℝ} {pos vel : Vec ℝ} {velocity mach spin look df drag weight : ℝ}
    {flag : Flags} {row : Row ℝ}
    (h : createRow time pos vel velocity mach spin look df drag weight flag = some row) :
    row.distance = pos.x * 12 ∧ row.height = pos.y * 12 ∧ row.velocity = velocity / 3.2808399 ∧
      row.time = time := by
  unfold createRow at h
  split at h
  · cases h
  · simp only [Option.some.injEq] at h
    subst h
    refine ⟨?_, ?_, rfl, rfl⟩ <;> norm_num

theorem recordStep_error {r : Run ℝ} {ff : Flags} {sf : Nat} {l : LoopSt ℝ} {ρ m : ℝ} {e : Err ℝ}
    (h : recordStep r ff sf l ρ m = .error e) : e = .zeroDiv := by
  unfold recordStep at h
  split_ifs at h
  · simp only at h
    split at h
    · split at h
      · cases h
      · cases h; rfl
    · cases h

/-- inversion of a successful iteration -/
theorem iterate_ok_inv {r : Run ℝ} {ff : Flags} {sf : Nat} {l l' : LoopSt ℝ}
    (h : iterate r ff sf l = .ok l') :
    ∃ p flt' rows, physStep r l.s l.ws = some p ∧
      recordStep r ff sf l p.density p.mach = .ok (flt', rows) ∧
      limitReason r.cfg r.alt0 p.out.speed p.out.st.pos.y = none ∧
      l' = ⟨p.out.st, p.ws, flt', rows, p.out.drag, p.mach, p.density, p.out.speed, l.s.pos.x⟩ := by
  cases hps : physStep r l.s l.ws with
  | none => simp [iterate, hps] at h
  | some p =>
    cases hrec : recordStep r ff sf l p.density p.mach with
    | error e => simp [iterate, hps, hrec] at h
    | ok fr =>
      obtain ⟨flt', rows⟩ := fr
      cases hlim : limitReason r.cfg r.alt0 p.out.speed p.out.st.pos.y with
      | some reason =>
        cases hrow : mkRow r p.out.st.time p.out.st.pos p.out.st.vel p.out.speed p.mach p.density
            p.out.drag flt'.currentFlag with
        | none => simp [iterate, hps, hrec, hlim, hrow] at h
        | some row => simp [iterate, hps, hrec, hlim, hrow] at h
      | none =>
        simp only [iterate, hps, hrec, hlim] at h
        cases h
        exact ⟨p, flt', rows, rfl, hrec, hlim, rfl⟩

/-- inversion of a failing iteration -/
theorem iterate_error_inv {r : Run ℝ} {ff : Flags} {sf : Nat} {l : LoopSt ℝ} {e : Err ℝ}
    (h : iterate r ff sf l = .error e) :
    e = .mathDomain ∨ e = .zeroDiv ∨
    ∃ p flt' rows0 reason row, physStep r l.s l.ws = some p ∧
      recordStep r ff sf l p.density p.mach = .ok (flt', rows0) ∧
      limitReason r.cfg r.alt0 p.out.speed p.out.st.pos.y = some reason ∧
      mkRow r p.out.st.time p.out.st.pos p.out.st.vel p.out.speed p.mach p.density p.out.drag
        flt'.currentFlag = some row ∧
      e = .range reason (row :: rows0).reverse := by
  cases hps : physStep r l.s l.ws with
  | none =>
    simp only [iterate, hps] at h
    cases h; exact Or.inl rfl
  | some p =>
    cases hrec : recordStep r ff sf l p.density p.mach with
    | error e' =>
      simp only [iterate, hps, hrec] at h
      cases h
      exact Or.inr (Or.inl (recordStep_error hrec))
    | ok fr =>
      obtain ⟨flt', rows⟩ := fr
      cases hlim : limitReason r.cfg r.alt0 p.out.speed p.out.st.pos.y with
      | some reason =>
        cases hrow : mkRow r p.out.st.time p.out.st.pos p.out.st.vel p.out.speed p.mach p.density
            p.out.drag flt'.currentFlag with
        | none =>
          simp only [iterate, hps, hrec, hlim, hrow] at h
          cases h; exact Or.inr (Or.inl rfl)
        | some row =>
          simp only [iterate, hps, hrec, hlim, hrow] at h
          cases h
          exact Or.inr (Or.inr ⟨p, flt', rows, reason, row, rfl, hrec, hlim, hrow, rfl⟩)
      | none => simp [iterate, hps, hrec, hlim] at h

theorem iterate_range_inv {r : Run ℝ} {ff : Flags} {sf : Nat} {l : LoopSt ℝ} {reason : Reason}
    {rows : List (Row ℝ)} (h : iterate r ff sf l = .error (.range reason rows)) :
    ∃ p flt' rows0 row, physStep r l.s l.ws = some p ∧
      recordStep r ff sf l p.density p.mach = .ok (flt', rows0) ∧
      limitReason r.cfg r.alt0 p.out.speed p.out.st.pos.y = some reason ∧
      mkRow r p.out.st.time p.out.st.pos p.out.st.vel p.out.speed p.mach p.density p.out.drag
        flt'.currentFlag = some row ∧
      rows = rows0.reverse ++ [row] := by
  rcases iterate_error_inv h with h1 | h1 | ⟨p, flt', rows0, reason', row, h1, h2, h3, h4, h5⟩
  · cases h1
  · cases h1
  · cases h5
    exact ⟨p, flt', rows0, row, h1, h2, h3, h4, List.reverse_cons ..⟩

/-! ### zeroLoop -/

theorem zeroLoop_ok (cfg : Config ℝ) (missAt : ℝ → Except (Err ℝ) ℝ) (X : ℝ) :
    ∀ (fuel iters : Nat) (err el e : ℝ),
      zeroLoop cfg missAt X fuel iters err el = .ok e →
      (err ≤ cfg.zeroAccuracy ∧ e = el) ∨ ∃ miss, missAt e = .ok miss ∧ |miss| ≤ cfg.zeroAccuracy := by
  intro fuel
  induction fuel with
  | zero =>
    intro iters err el e h
    unfold zeroLoop at h
    split_ifs at h with h1
    left
    exact ⟨not_lt.mp h1, by cases h; rfl⟩
  | succ fuel ih =>
    intro iters err el e h
    unfold zeroLoop at h
    split_ifs at h with h1 h2
    · cases hh : missAt el with
      | error x => simp [hh] at h
      | ok ht =>
        simp only [hh, fn_abs] at h
        split_ifs at h with h3
        · rcases ih _ _ _ _ h with ⟨h4, _⟩ | h4
          · exact absurd h4 (not_le.mpr h3)
          · exact Or.inr h4
        · cases h
          exact Or.inr ⟨ht, hh, not_lt.mp h3⟩
    · left
      exact ⟨not_lt.mp h2, by cases h; rfl⟩

theorem zeroLoop_error (cfg : Config ℝ) (missAt : ℝ → Except (Err ℝ) ℝ) (X : ℝ) :
    ∀ (fuel iters : Nat) (err el : ℝ) (x : Err ℝ), iters ≤ cfg.maxIterations →
      zeroLoop cfg missAt X fuel iters err el = .error x →
      (∃ e', missAt e' = .error x) ∨
      (∃ err' iters' el', x = .zeroFinding err' iters' el' ∧ cfg.zeroAccuracy < err' ∧
        iters' ≤ cfg.maxIterations) := by
  intro fuel
  induction fuel with
  | zero =>
    intro iters err el x hi h
    unfold zeroLoop at h
    split_ifs at h with h1
    cases h
    exact Or.inr ⟨_, _, _, rfl, h1, hi⟩
  | succ fuel ih =>
    intro iters err el x hi h
    unfold zeroLoop at h
    split_ifs at h with h1 h2
    · cases hh : missAt el with
      | error y =>
        simp only [hh] at h
        cases h
        exact Or.inl ⟨el, hh⟩
      | ok ht =>
        simp only [hh, fn_abs] at h
        split_ifs at h with h3
        exact ih _ _ _ _ (by omega) h
    · cases h
      exact Or.inr ⟨_, _, _, rfl, h2, hi⟩

end BC.Lemmas.Loop
