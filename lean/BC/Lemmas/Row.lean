/-
  BC.Lemmas.Row — helper lemmas about `BC.Model.Row` read over ℝ (used by BC.Props.C05).
-/
import Mathlib.Tactic.Ring
import Mathlib.Tactic.Linarith
import Mathlib.Tactic.NormNum
import BC.Real
import BC.Model.Row

namespace BC.Lemmas.Row
open BC BC.Model BC.Gen

/-- `nz x` is the test `x ≠ 0`. -/
theorem nz_iff (x : ℝ) : nz x = true ↔ x ≠ 0 := by
  unfold nz
  have h00 : (0.0:ℝ) = 0 := by norm_num
  rw [h00]
  simp only [Bool.or_eq_true, decide_eq_true_eq]
  constructor
  · rintro (h | h)
    · exact ne_of_lt h
    · exact ne_of_gt h
  · intro h
    exact lt_or_gt_of_ne h

theorem nz_false_iff (x : ℝ) : nz x = false ↔ x = 0 := by
  rw [← Bool.not_eq_true, nz_iff]; simp

/-- real power with exponent `2` / `3` is the natural power (for every real base). -/
theorem rpow_two' (x : ℝ) : x ^ (2:ℝ) = x ^ 2 := by exact_mod_cast Real.rpow_natCast x 2
theorem rpow_three' (x : ℝ) : x ^ (3:ℝ) = x ^ 3 := by exact_mod_cast Real.rpow_natCast x 3

/-- a successful `createRow` had `mach ≠ 0` and returns the record of the model, field by field. -/
theorem createRow_some {time : ℝ} {r v : Vec ℝ} {velocity mach spin look dens drag weight : ℝ} {flag : Flags}
    {row : Row ℝ} (h : createRow time r v velocity mach spin look dens drag weight flag = some row) :
    mach ≠ 0 ∧ row = {
    time := time
    distance := r.x * 12.0
    velocity := velocity / 3.2808399
    mach := velocity / mach
    height := r.y * 12.0
    targetDrop := ((r.y - r.x * Fn.tan look) * Fn.cos look) * 12.0
    dropAdj := getCorrection r.x r.y - (if nz r.x then look else 0.0)
    windage := (r.z + spin) * 12.0
    windageAdj := getCorrection r.x (r.z + spin)
    lookDistance := (r.x / Fn.cos look) * 12.0
    angle := Fn.atan2 v.y v.x
    densityFactor := dens - 1.0
    drag := drag
    energy := calculateEnergy weight velocity
    ogw := calculateOgw weight velocity / 0.000142857143
    flag := flag } := by
  by_cases hm : mach = 0
  · have := (nz_false_iff _).2 hm
    simp [createRow, this] at h
  · have := (nz_iff _).2 hm
    simp only [createRow, this, Bool.not_true, Bool.false_eq_true, if_false, Option.some.injEq] at h
    exact ⟨hm, h.symm⟩

end BC.Lemmas.Row
