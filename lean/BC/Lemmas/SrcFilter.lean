/-
  BC.Lemmas.SrcFilter — the recording filter `_TrajectoryDataFilter` of trajectory_calc/_trajectory_calc.py, method by
  method as REGENERATED from the Python source by translate/t_funcs.py (`BC.Gen.Src.filter_*`: symbolic execution of the method
  body on a symbolic filter state, attribute stores collected into the new state), equals the hand-written model
  (`BC.Model.TFilter.*`).  Shared by the source-tie modules of C03, C11 and C15.  Core-only, generic in the number type.
-/
import BC.Gen.Funcs
import BC.Model.Traj
namespace BC.Lemmas.SrcFilter
open BC BC.Gen BC.Model
set_option linter.unusedSectionVars false

section
variable {α : Type} [Add α] [Sub α] [Mul α] [Div α] [Neg α] [OfScientific α]
  [LT α] [DecidableLT α] [LE α] [DecidableLE α] [Fn α]

theorem init_eq (flags : Flags) (rs : α) (p v : Vec α) (ts : α) :
    Src.filter_init flags rs p v ts = TFilter.init flags rs p v ts := rfl

theorem setup_seen_zero_eq (f : TFilter α) (h b l : α) :
    Src.filter_setup_seen_zero f h b l = f.setupSeenZero h b l := rfl

theorem clear_current_flag_eq (f : TFilter α) :
    Src.filter_clear_current_flag f = { f with currentFlag := fNONE } := rfl

theorem check_mach_eq (f : TFilter α) (v m : α) : Src.filter_check_mach_crossing f v m = f.checkMach v m := by
  unfold Src.filter_check_mach_crossing TFilter.checkMach
  repeat' split
  all_goals first | rfl | contradiction | (simp only [*, ↓reduceIte] ; first | done | rfl)

theorem check_zero_eq (f : TFilter α) (p : Vec α) : Src.filter_check_zero_crossing f p = f.checkZero p := by
  unfold Src.filter_check_zero_crossing TFilter.checkZero
  repeat' split
  all_goals first | rfl | contradiction | (simp only [*, ↓reduceIte] ; first | done | rfl)

/-- the skip loop `while next_record_distance + range_step < x: next_record_distance += range_step` -/
theorem skip_eq (step x : α) (fuel : Nat) (nrd : α) :
    skipRecords step x fuel nrd = whileF (fun z => decide (z + step < x)) (fun z => z + step) fuel nrd := by
  induction fuel generalizing nrd with
  | zero => rfl
  | succ n ih =>
    unfold skipRecords whileF
    by_cases h : nrd + step < x
    · simp only [h, if_true, decide_true]; exact ih _
    · simp only [h, if_false, decide_false]; rfl

/-- `check_next_time(time)` is the time branch of the model's `shouldRecord` -/
theorem check_next_time_eq (f : TFilter α) (t : α) :
    Src.filter_check_next_time f t =
      if f.timeOfLastRecord + f.timeStep < t then
        { f with currentFlag := { f.currentFlag with range := true }, timeOfLastRecord := t } else f := by
  unfold Src.filter_check_next_time
  split <;> rfl

/-- `should_record(position, velocity, mach, time)`: new filter state and returned record, for every filter state and input -/
theorem should_record_eq (f : TFilter α) (fuel : Nat) (p v : Vec α) (m t : α) :
    Src.filter_should_record f fuel p v m t = f.shouldRecord fuel p v m t := by
  unfold Src.filter_should_record TFilter.shouldRecord
  simp only [skip_eq, check_mach_eq, check_zero_eq]
  repeat' split
  all_goals first | rfl | contradiction | (simp only [*, ↓reduceIte] ; first | done | rfl)

end
end BC.Lemmas.SrcFilter
