/-
  BC.Lemmas.SrcLoop — ONE ITERATION OF THE INTEGRATION LOOP.  `BC.Gen.Src.loop_body` is the whole body of the `while` loop of
  `TrajectoryCalc._integrate`, executed symbolically from the Python source on every run by translate/t_funcs.py (the calls into the
  recording filter and the wind sock composed with their separately translated methods, `create_trajectory_row` with `Src.row`, every
  other statement inlined, long intermediate values bound by `let`).  `iterate_eq` proves that the model's `iterate` — the function
  all whole-run theorems of C01/C03/C04/C11/C12/C15 are about — IS that loop body, for every loop state, under hypotheses that name
  exactly the places where Python would raise an exception the model represents explicitly (`velocity / mach` with `mach = 0`), the
  totality of the atmosphere look-up (after fix 0b27766 it never fails) and the class constant the sock uses as its horizon.
  `loop_eq` adds the `while` condition.  Core-only, generic in the number type.
-/
import BC.Gen.Funcs
import BC.Lemmas.SrcFilter
import BC.Props.C12Src
import BC.Props.C05Src
import BC.Props.C04Src
namespace BC.Lemmas.SrcLoop
open BC BC.Gen BC.Model BC.Lemmas
set_option linter.unusedSectionVars false
set_option linter.unusedSimpArgs false
set_option linter.unusedVariables false
section
variable {α : Type} [Add α] [Sub α] [Mul α] [Div α] [Neg α] [OfScientific α]
  [LT α] [DecidableLT α] [LE α] [DecidableLE α] [Fn α]

theorem eta_vec (v : Vec α) : (⟨v.x, v.y, v.z⟩ : Vec α) = v := rfl
theorem eta_flt (f : TFilter α) :
    ({ filter := f.filter, currentFlag := f.currentFlag, seenZero := f.seenZero, timeStep := f.timeStep, rangeStep := f.rangeStep,
       timeOfLastRecord := f.timeOfLastRecord, nextRecordDistance := f.nextRecordDistance, prevMach := f.prevMach, prevTime := f.prevTime,
       prevPos := ⟨f.prevPos.x, f.prevPos.y, f.prevPos.z⟩, prevVel := ⟨f.prevVel.x, f.prevVel.y, f.prevVel.z⟩, prevVMach := f.prevVMach,
       lookAngle := f.lookAngle } : TFilter α) = f := rfl
theorem eta_ws (w : WindSock α) :
    ({ winds := w.winds, current := w.current, nextRange := w.nextRange, vec := ⟨w.vec.x, w.vec.y, w.vec.z⟩, maxDist := w.maxDist } : WindSock α) = w := rfl

theorem advance_maxDist (ws : WindSock α) : ws.advance.maxDist = ws.maxDist := by
  unfold WindSock.advance
  cases h : ws.winds[ws.current + 1]? <;> simp only [h]

/-- the wind sock after the loop body is the model's `update` -/
theorem lb_ws (r : Run α) (air : α → α × α) (ff : Flags) (sf : Nat) (l : LoopSt α) (hmax : l.ws.maxDist = cMaxWindDistanceFeet) :
    (Src.loop_body r air ff sf l).ws = l.ws.update l.s.pos.x := by
  unfold Src.loop_body
  simp only [eta_ws, BC.Props.C12.C12_src_sock_vector_for_range l.ws l.s.pos.x hmax]
  unfold WindSock.update
  split
  · rw [show l.ws.maxDist = l.ws.advance.maxDist from (advance_maxDist l.ws).symm]
  · rfl

/-- the wind the step sees -/
theorem lb_wind (l : LoopSt α) (hmax : l.ws.maxDist = cMaxWindDistanceFeet) :
    (Vec.mk (if l.ws.nextRange ≤ l.s.pos.x then (Src.sock_vector_for_range l.ws l.s.pos.x).2.x else l.ws.vec.x)
            (if l.ws.nextRange ≤ l.s.pos.x then (Src.sock_vector_for_range l.ws l.s.pos.x).2.y else l.ws.vec.y)
            (if l.ws.nextRange ≤ l.s.pos.x then (Src.sock_vector_for_range l.ws l.s.pos.x).2.z else l.ws.vec.z))
      = (l.ws.update l.s.pos.x).vec := by
  rw [BC.Props.C12.C12_src_sock_vector_for_range l.ws l.s.pos.x hmax]
  unfold WindSock.update
  split <;> rfl

/-- position, velocity, time, retardation and speed after the loop body are those of the model's step under the updated wind -/
theorem lb_step (r : Run α) (air : α → α × α) (ff : Flags) (sf : Nat) (l : LoopSt α) (hmax : l.ws.maxDist = cMaxWindDistanceFeet) :
    let o := Src.loop_body r air ff sf l
    let so := step r.cfg.calcStep r.cfg.gravity r.env.dbm (l.ws.update l.s.pos.x).vec (air (r.alt0 + l.s.pos.y)).1 (air (r.alt0 + l.s.pos.y)).2 l.s
    o.st = so.st ∧ o.drag = so.drag ∧ o.speed = so.speed ∧ o.mach = (air (r.alt0 + l.s.pos.y)).2 ∧ o.density = (air (r.alt0 + l.s.pos.y)).1
      ∧ o.lastX = l.s.pos.x := by
  intro o so
  have hw := lb_wind l hmax
  simp only [o, so, ← hw]
  refine ⟨rfl, rfl, rfl, rfl, rfl, rfl⟩
/-- the recording part of the loop body: the filter after it and the rows (newest first) are those of the model's `recordStep`;
    `hd`: a recorded point has a non-zero speed of sound (the model raises ZeroDivisionError explicitly otherwise) -/
theorem lb_record (r : Run α) (air : α → α × α) (ff : Flags) (sf : Nat) (l : LoopSt α)
    (hd : ∀ d, (({ l.flt with currentFlag := fNONE } : TFilter α).shouldRecord sf l.s.pos l.s.vel (air (r.alt0 + l.s.pos.y)).2 l.s.time).2 = some d →
      nz d.mach = true) :
    recordStep r ff sf l (air (r.alt0 + l.s.pos.y)).1 (air (r.alt0 + l.s.pos.y)).2 =
      .ok ((Src.loop_body r air ff sf l).flt, (Src.loop_body r air ff sf l).rows) := by
  unfold Src.loop_body recordStep
  simp only [eta_flt, eta_vec, SrcFilter.clear_current_flag_eq, SrcFilter.should_record_eq]
  cases hff : ff.isNone
  · simp only [Bool.not_false, if_true]
    cases hdata : (({ l.flt with currentFlag := fNONE } : TFilter α).shouldRecord sf l.s.pos l.s.vel (air (r.alt0 + l.s.pos.y)).2 l.s.time).2 with
    | none => rfl
    | some d =>
      have hm := hd d hdata
      have hrow := fun flag => BC.Props.C05.C05_src_row d.time d.pos d.vel d.vel.mag d.mach (spinDrift r.proj d.time) r.proj.lookAngle
        (air (r.alt0 + l.s.pos.y)).1 l.drag r.proj.weight flag hm
      simp only [mkRow, hrow]
      rfl
  · simp only [Bool.not_true, Bool.false_eq_true, if_false]
/-- the verdict of the limit check and the row it appends -/
theorem lb_limit (r : Run α) (air : α → α × α) (ff : Flags) (sf : Nat) (l : LoopSt α) (hmax : l.ws.maxDist = cMaxWindDistanceFeet)
    (hm : nz (air (r.alt0 + l.s.pos.y)).2 = true) :
    let o := Src.loop_body r air ff sf l
    o.reason = limitReason r.cfg r.alt0 o.speed o.st.pos.y ∧
    mkRow r o.st.time o.st.pos o.st.vel o.speed o.mach o.density o.drag o.flt.currentFlag = some o.limitRow := by
  intro o
  refine ⟨?_, ?_⟩
  · exact BC.Props.C04.C04_src_limit_reason r.cfg r.alt0 _ _
  · have hrow := BC.Props.C05.C05_src_row o.st.time o.st.pos o.st.vel o.speed o.mach (spinDrift r.proj o.st.time) r.proj.lookAngle
        o.density o.drag r.proj.weight o.flt.currentFlag hm
    simp only [mkRow, hrow]
    rfl

/-- ONE ITERATION OF THE LOOP: the model's `iterate` is the loop body of the source (executed symbolically), for every loop state;
    hypotheses = the places where Python would raise an exception the model represents explicitly (atmosphere look-up always
    answers; the speeds of sound entering `velocity / mach` are non-zero) and the class constant the sock uses as its horizon -/
theorem iterate_eq (r : Run α) (air : α → α × α) (ff : Flags) (sf : Nat) (l : LoopSt α)
    (hair : ∀ a, r.env.air a = some (air a))
    (hmax : l.ws.maxDist = cMaxWindDistanceFeet)
    (hm : nz (air (r.alt0 + l.s.pos.y)).2 = true)
    (hd : ∀ d, (({ l.flt with currentFlag := fNONE } : TFilter α).shouldRecord sf l.s.pos l.s.vel (air (r.alt0 + l.s.pos.y)).2 l.s.time).2 = some d →
      nz d.mach = true) :
    iterate r ff sf l =
      match (Src.loop_body r air ff sf l).reason with
      | some reason => .error (.range reason ((Src.loop_body r air ff sf l).limitRow :: (Src.loop_body r air ff sf l).rows).reverse)
      | none => .ok ⟨(Src.loop_body r air ff sf l).st, (Src.loop_body r air ff sf l).ws, (Src.loop_body r air ff sf l).flt,
                     (Src.loop_body r air ff sf l).rows, (Src.loop_body r air ff sf l).drag, (Src.loop_body r air ff sf l).mach,
                     (Src.loop_body r air ff sf l).density, (Src.loop_body r air ff sf l).speed, (Src.loop_body r air ff sf l).lastX⟩ := by
  obtain ⟨hst, hdrag, hspeed, hmach, hdens, hlast⟩ := lb_step r air ff sf l hmax
  obtain ⟨hreason, hlrow⟩ := lb_limit r air ff sf l hmax hm
  have hws := lb_ws r air ff sf l hmax
  have hrec := lb_record r air ff sf l hd
  unfold iterate physStep
  simp only [hair, hrec]
  rw [← hst, ← hdrag, ← hspeed, ← hws, ← hmach, ← hdens, ← hlast, ← hreason, hlrow]
  generalize (Src.loop_body r air ff sf l).reason = rr
  cases rr <;> rfl
/-- the `while` loop: one unfolding of the model's `loop` is "test the source's loop condition, run the source's loop body" -/
theorem loop_eq (r : Run α) (ff : Flags) (sf : Nat) (maxRange minStep : α) (fuel : Nat) (l : LoopSt α) :
    loop r ff sf (maxRange + minStep) maxRange (fuel + 1) l =
      if Src.loop_condition l.s.pos.x maxRange minStep l.lastX then
        match iterate r ff sf l with
        | .error e => .error e
        | .ok l' => loop r ff sf (maxRange + minStep) maxRange fuel l'
      else .ok l := by
  conv => lhs; unfold loop
  rfl

/-- the loop state `_integrate` enters its loop with (statements before the `while`, executed symbolically) is the model's -/
theorem loop_init_eq (r : Run α) (be rs ts : α) (ff : Flags) (hmax : r.maxWindDist = cMaxWindDistanceFeet) :
    Src.loop_init r be rs ts ff =
      ⟨initialState r be, WindSock.init r.winds r.maxWindDist,
       (TFilter.init ff rs (initialState r be).pos (initialState r be).vel ts).setupSeenZero (initialState r be).pos.y be r.proj.lookAngle,
       [], 0.0, 0.0, 0.0, r.muzzleVelocity, (initialState r be).pos.x⟩ := by
  have hinit : (WindSock.init r.winds (cMaxWindDistanceFeet : α)).maxDist = cMaxWindDistanceFeet := by
    unfold WindSock.init
    cases h : r.winds[0]? <;> simp only [h]
  unfold Src.loop_init
  simp only [eta_flt, eta_vec, SrcFilter.init_eq, SrcFilter.setup_seen_zero_eq, BC.Props.C12.C12_src_sock_init, hmax]
  have hws : ({ winds := (WindSock.init r.winds (cMaxWindDistanceFeet : α)).winds,
                current := (WindSock.init r.winds (cMaxWindDistanceFeet : α)).current,
                nextRange := (WindSock.init r.winds (cMaxWindDistanceFeet : α)).nextRange,
                vec := (WindSock.init r.winds (cMaxWindDistanceFeet : α)).vec,
                maxDist := cMaxWindDistanceFeet } : WindSock α) = WindSock.init r.winds cMaxWindDistanceFeet := by
    generalize WindSock.init r.winds (cMaxWindDistanceFeet : α) = W at hinit ⊢
    cases W
    simp only at hinit
    rw [hinit]
  rw [hws]
  rfl

/-- `_integrate` as a whole: initial loop state, the `while` loop, and the row appended when fewer than two rows were recorded
    (`C05_src_row`: the appended row is the source's, where `velocity / mach` does not divide by zero) -/
theorem integrate_eq (r : Run α) (be maxRange rs : α) (ff : Flags) (ts : α) (fuel sf : Nat)
    (hmax : r.maxWindDist = cMaxWindDistanceFeet) :
    integrate r be maxRange rs ff ts fuel sf =
      match loop r ff sf (maxRange + Src.min_step r.cfg.calcStep rs) maxRange fuel (Src.loop_init r be rs ts ff) with
      | .error e => .error e
      | .ok l =>
        match l.rows with
        | _ :: _ :: _ => .ok l.rows.reverse
        | rows =>
          match mkRow r l.s.time l.s.pos l.s.vel l.speed l.mach l.density l.drag fNONE with
          | some row => .ok (row :: rows).reverse
          | none => .error .zeroDiv := by
  rw [loop_init_eq r be rs ts ff hmax]
  rfl

/-- that appended row is the one the source builds -/
theorem final_row_eq (r : Run α) (l : LoopSt α) (hm : nz l.mach = true) :
    mkRow r l.s.time l.s.pos l.s.vel l.speed l.mach l.density l.drag fNONE = some (Src.final_row r l) := by
  have hrow := BC.Props.C05.C05_src_row l.s.time l.s.pos l.s.vel l.speed l.mach (spinDrift r.proj l.s.time) r.proj.lookAngle
    l.density l.drag r.proj.weight fNONE hm
  simp only [mkRow, hrow]
  rfl

end
end BC.Lemmas.SrcLoop
