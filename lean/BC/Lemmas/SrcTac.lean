/-
  BC.Lemmas.SrcTac — the tactic the source-tie theorems use: `rfl` when the body regenerated from the source IS the model function
  (the normal case), otherwise unfold both sides, split every `if` and close each branch by `rfl`, by contradictory branch
  conditions or by simplification with the branch conditions.  The fall-back keeps a tie alive under re-writes of the source that
  only re-arrange conditionals (`if x == 0: return 0 …` for `if x != 0: … return 0`); it cannot prove anything that is not an
  equality of the two functions.  Core-only.
-/
namespace BC.Lemmas

syntax "src_tie" "[" ident,* "]" : tactic
macro_rules
  | `(tactic| src_tie [$ids,*]) =>
    `(tactic| first
        | rfl
        | (unfold $[$ids]*
           (repeat' split) <;> first | rfl | contradiction | (simp_all; done)))

end BC.Lemmas
