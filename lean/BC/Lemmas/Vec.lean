/-
  Helper lemmas about `Vec ℝ`, `St ℝ`, `max1` and `step` over ℝ (used by C01 and C12).
-/
import Mathlib.Tactic.Ring
import Mathlib.Tactic.Linarith
import Mathlib.Tactic.NormNum
import BC.Real
import BC.Model.Traj

namespace BC.Lemmas.VecL
open BC BC.Model

theorem vec_ext {a b : Vec ℝ} (hx : a.x = b.x) (hy : a.y = b.y) (hz : a.z = b.z) : a = b := by
  cases a; cases b; simp_all

theorem st_ext {a b : St ℝ} (hp : a.pos = b.pos) (hv : a.vel = b.vel) (ht : a.time = b.time) : a = b := by
  cases a; cases b; simp_all

theorem h00 : (0.0 : ℝ) = 0 := by norm_num
theorem h10 : (1.0 : ℝ) = 1 := by norm_num
theorem h20 : (2.0 : ℝ) = 2 := by norm_num

theorem max1_eq (v : ℝ) : max1 v = max 1 v := by
  unfold max1
  rw [h10]
  split_ifs with h
  · exact (max_eq_right h.le).symm
  · exact (max_eq_left (not_lt.mp h)).symm

theorem max1_pos (v : ℝ) : 0 < max 1 v := lt_of_lt_of_le one_pos (le_max_left _ _)

/-- the step size `cs / max 1 v` lies in `[0, cs]` -/
theorem dt_bounds (cs v : ℝ) (hcs : 0 ≤ cs) : 0 ≤ cs / max 1 v ∧ cs / max 1 v ≤ cs :=
  ⟨div_nonneg hcs (max1_pos v).le, div_le_self hcs (le_max_left _ _)⟩

/-- componentwise description of one step -/
theorem step_fields (cs g : ℝ) (dbm : ℝ → ℝ) (w : Vec ℝ) (density mach : ℝ) (s : St ℝ) :
    let dt := cs / max 1 (s.vel.sub w).mag
    let drag := density * (s.vel.sub w).mag * dbm ((s.vel.sub w).mag / mach)
    let o := step cs g dbm w density mach s
    o.st.time = s.time + dt ∧
    o.st.vel.x = s.vel.x - (s.vel.x - w.x) * drag * dt ∧
    o.st.vel.y = s.vel.y - ((s.vel.y - w.y) * drag - g) * dt ∧
    o.st.vel.z = s.vel.z - (s.vel.z - w.z) * drag * dt ∧
    o.st.pos.x = s.pos.x + o.st.vel.x * dt ∧
    o.st.pos.y = s.pos.y + o.st.vel.y * dt ∧
    o.st.pos.z = s.pos.z + o.st.vel.z * dt ∧
    o.drag = drag ∧ o.speed = o.st.vel.mag := by
  intro dt drag o
  refine ⟨?_, ?_, ?_, ?_, ?_, ?_, ?_, ?_, ?_⟩ <;>
    simp only [o, dt, drag, step, max1_eq, h00, Vec.add, Vec.sub, Vec.smul] <;> ring

end BC.Lemmas.VecL
