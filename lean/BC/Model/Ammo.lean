/-
  BC.Model.Ammo — powder temperature sensitivity
  (`Ammo.calc_powder_sens`, `Ammo.get_velocity_for_temp` in py_ballisticcalc/munition.py).
  Velocities are raw m/s, temperatures raw °F, as the quantities store them.
-/
import BC.Model.Conv
namespace BC.Model
open BC BC.Gen

section
variable {α : Type} [Add α] [Sub α] [Mul α] [Div α] [Neg α] [OfScientific α]
  [LT α] [DecidableLT α] [LE α] [DecidableLE α] [Fn α]

structure Ammo (α : Type) where
  mv : α            -- raw m/s
  powderTemp : α    -- raw °F
  tempModifier : α
  usePowderSens : Bool

inductive AmmoErr | value | zeroDiv
  deriving DecidableEq, Repr

/-- `calc_powder_sens(other_velocity, other_temperature)`; `.value` = ValueError (same velocity or
    temperature), `.zeroDiv` = ZeroDivisionError (`15 / v0` with a zero baseline velocity) -/
def calcPowderSens (a : Ammo α) (v1 tF1 : α) : Except AmmoErr α :=
  let v0 := a.mv
  let t0 := celsiusOf a.powderTemp
  let t1 := celsiusOf tF1
  let vDelta := v1 - v0
  let tDelta := t1 - t0
  if (vDelta < 0.0 ∨ 0.0 < vDelta) ∧ (tDelta < 0.0 ∨ 0.0 < tDelta) then
    if v0 < 0.0 ∨ 0.0 < v0 then .ok (vDelta / tDelta * (15.0 / v0)) else .error .zeroDiv
  else .error .value

/-- `get_velocity_for_temp(current_temp)`: raw m/s of the returned quantity.
    (`15 / v0` with `v0 = 0` raises ZeroDivisionError in Python, caught → 0.) -/
def velocityForTemp (a : Ammo α) (tF : α) : α :=
  if !a.usePowderSens then a.mv else
  let v0 := a.mv
  if v0 < 0.0 ∨ 0.0 < v0 then
    let t0 := celsiusOf a.powderTemp
    let t1 := celsiusOf tF
    let tDelta := t1 - t0
    a.tempModifier / (15.0 / v0) * tDelta + v0
  else 0.0

end
end BC.Model
