/-
  BC.Model.Atmo — atmosphere (`Atmo`, `Vacuum` in py_ballisticcalc/conditions.py), over raw values:
  altitude raw inch, pressure raw mmHg, temperature raw °F.  Constants come from the REGENERATED
  `BC.Gen.Consts`, unit reads from the REGENERATED chains.
-/
import BC.Model.Conv
import BC.Gen.Consts
namespace BC.Model
open BC BC.Gen

section
variable {α : Type} [Add α] [Sub α] [Mul α] [Div α] [Neg α] [OfScientific α]
  [LT α] [DecidableLT α] [LE α] [DecidableLE α] [Fn α]

/-- `Atmo.standard_temperature(altitude)` → raw °F -/
def standardTemperatureF (altRawInch : α) : α :=
  cStandardTemperatureF + feetOf altRawInch * cLapseRateImperial

/-- `Atmo.standard_pressure(altitude)` → hPa -/
def standardPressureHPa (altRawInch : α) : α :=
  cStandardPressureMetric *
    Fn.pow (1.0 + cLapseRateMetric * meterOf altRawInch / (cStandardTemperatureC + cDegreesCtoK)) cPressureExponent

/-- `Atmo.machF(fahrenheit)` → fps -/
def machF (f : α) : α :=
  let f := if f < -cDegreesFtoR then cLowestTempF else f
  Fn.sqrt (f + cDegreesFtoR) * cSpeedOfSoundImperial

/-- `Atmo.machK(kelvin)` → m/s -/
def machK (k : α) : α := Fn.sqrt k * cSpeedOfSoundMetric

/-- `Atmo.calculate_air_density(t °C, p hPa, humidity)` → kg/m³ (CIPM-2007 as coded) -/
def airDensity (t p humidity : α) : α :=
  let R : α := 8.314472
  let M_a : α := 28.96546e-3
  let M_v : α := 18.01528e-3
  let T_K := t + cDegreesCtoK
  -- saturation vapour pressure
  let p_sv := Fn.exp (1.2378847e-5 * Fn.pow T_K 2.0 + (-1.9121316e-2) * T_K + 33.93711047 + (-6.3431645e3) / T_K)
  -- enhancement factor (called with the Celsius temperature)
  let f := 1.00062 + 3.14e-8 * p + 5.6e-7 * Fn.pow t 2.0
  let p_v := humidity / 100.0 * f * p_sv
  let x_v := p_v / p
  -- compressibility
  let tt := T_K - cDegreesCtoK
  let Z := 1.0 - (p / T_K) * (1.58123e-6 + (-2.9331e-8) * tt + 1.1043e-10 * Fn.pow tt 2.0
              + (5.707e-6 + (-2.051e-8) * tt) * x_v + (1.9898e-4 + (-2.376e-6) * tt) * Fn.pow x_v 2.0)
            + Fn.pow (p / T_K) 2.0 * (1.83e-11 + (-0.765e-8) * Fn.pow x_v 2.0)
  let density := (p * M_a) / (Z * R * T_K) * (1.0 - x_v * (1.0 - M_v / M_a))
  100.0 * density

structure Atmo (α : Type) where
  altRaw : α        -- inch
  pressRaw : α      -- mmHg
  tempRaw : α       -- °F
  powderRaw : α     -- °F
  a0 : α            -- ft
  t0 : α            -- °C
  p0 : α            -- hPa
  mach : α          -- fps
  humidity : α      -- fraction
  densityRatio : α

inductive AtmoErr | humidity
  deriving DecidableEq, Repr

/-- the humidity setter: range check, percent → fraction -/
def normHumidity (h : α) : Except AtmoErr α :=
  if h < 0.0 ∨ 100.0 < h then .error .humidity
  else .ok (if 1.0 < h then h / 100.0 else h)

/-- lowest modelled temperature in °C: `Temperature.Fahrenheit(cLowestTempF) >> Temperature.Celsius` -/
def lowestTempC : α := celsiusOf (cLowestTempF : α)

/-- `Atmo.__init__` after coercion of the arguments: `alt` raw inch (0 when not given), `press`/`temp`/`powder`
    raw mmHg / °F when given (`none` → standard pressure / temperature at the altitude, air temperature). -/
def Atmo.new (alt : α) (press temp powder : Option α) (hum : α) : Except AtmoErr (Atmo α) :=
  let pressRaw := match press with
    | some p => p
    | none => mkRaw .Pressure (standardPressureHPa alt) .hPa
  let tempRaw := match temp with
    | some t => t
    | none => standardTemperatureF alt
  let powderRaw := powder.getD tempRaw
  let t0 := celsiusOf tempRaw
  let p0 := hPaOf pressRaw
  let a0 := feetOf alt
  let mach := machF tempRaw
  match normHumidity hum with
  | .error e => .error e
  | .ok h =>
    .ok ⟨alt, pressRaw, tempRaw, powderRaw, a0, t0, p0, mach, h, airDensity t0 p0 h / cStandardDensityMetric⟩

/-- `Vacuum(altitude, temperature)`: as `Atmo(altitude, 0, temperature, 0)` (pressure 0 is falsy, so the
    standard pressure is used for `_p0`), then pressure := 0 and density ratio := 0. -/
def Vacuum.new (alt : α) (temp : Option α) : Except AtmoErr (Atmo α) :=
  match Atmo.new alt none temp none 0.0 with
  | .error e => .error e
  | .ok a => .ok { a with pressRaw := 0.0, densityRatio := 0.0 }

/-- the `humidity` setter on an existing atmosphere: range check, percent → fraction, then
    `update_density_ratio()` — which `Vacuum` overrides with a no-op (`vacuum = true`) -/
def Atmo.setHumidity (a : Atmo α) (vacuum : Bool) (h : α) : Except AtmoErr (Atmo α) :=
  match normHumidity h with
  | .error e => .error e
  | .ok hn =>
    if vacuum then .ok { a with humidity := hn }
    else .ok { a with humidity := hn, densityRatio := airDensity a.t0 a.p0 hn / cStandardDensityMetric }

/-- `temperature_at_altitude` (°C), floored at `cLowestTempC` -/
def Atmo.temperatureAt (a : Atmo α) (altFt : α) : α :=
  let t := (altFt - a.a0) * cLapseRateKperFoot + a.t0
  if t < lowestTempC then lowestTempC else t

/-- base of the barometric power law at an altitude, clamped at zero (`max(…, 0.0)`) -/
def Atmo.pressureBase (a : Atmo α) (altFt : α) : α :=
  let b := 1.0 + cLapseRateKperFoot * (altFt - a.a0) / (a.t0 + cDegreesCtoK)
  if b < 0.0 then 0.0 else b

/-- `pressure_at_altitude` (hPa) -/
def Atmo.pressureAt (a : Atmo α) (altFt : α) : α :=
  a.p0 * Fn.pow (a.pressureBase altFt) cPressureExponent

/-- `get_density_factor_and_mach_for_altitude(altitude ft)` → (density ratio, Mach 1 in fps).
    (The `Option` is kept for the generic environment interface; this atmosphere always answers.) -/
def Atmo.densityMachAt (a : Atmo α) (altFt : α) : Option (α × α) :=
  if Fn.abs (a.a0 - altFt) < 30.0 then some (a.densityRatio, a.mach)
  else
    let t := a.temperatureAt altFt + cDegreesCtoK
    let mach := fpsOf (machK t)
    let p := a.pressureAt altFt
    let densityDelta := ((a.t0 + cDegreesCtoK) * p) / (a.p0 * t)
    some (a.densityRatio * densityDelta, mach)

end
end BC.Model
