/-
  BC.Model.Config — calculator configuration (`create_interface_config` in interface_config.py) and the
  global default step (`set_global_max_calc_step_size`, `reset_globals` in trajectory_calc/__init__.py).
-/
import BC.Model.Traj
import BC.Gen.Consts
namespace BC.Model
open BC BC.Gen

section
variable {α : Type} [Add α] [Sub α] [Mul α] [Div α] [Neg α] [OfScientific α]
  [LT α] [DecidableLT α] [LE α] [DecidableLE α] [Fn α]

/-- an `InterfaceConfigDict`: every key optional -/
structure Overrides (α : Type) where
  maxCalcStep : Option α := none
  chartResolution : Option α := none
  zeroAccuracy : Option α := none
  minVelocity : Option α := none
  maxDrop : Option α := none
  maxIterations : Option Nat := none
  gravity : Option α := none
  minAltitude : Option α := none

/-- the module-level defaults, with the CURRENT global step -/
def defaultConfig (globalStep : α) : Config α :=
  ⟨globalStep, globalChartResolution, cZeroFindingAccuracy, cMinimumVelocity, cMaximumDrop, cMaxIterations_nat,
   cGravityConstant, cMinimumAltitude⟩

/-- `create_interface_config(overrides)` -/
def createConfig (globalStep : α) (o : Overrides α) : Config α :=
  let d := defaultConfig globalStep
  ⟨o.maxCalcStep.getD d.maxCalcStep, o.chartResolution.getD d.chartResolution, o.zeroAccuracy.getD d.zeroAccuracy,
   o.minVelocity.getD d.minVelocity, o.maxDrop.getD d.maxDrop, o.maxIterations.getD d.maxIterations,
   o.gravity.getD d.gravity, o.minAltitude.getD d.minAltitude⟩

/-- the world: the global default step and the calculators created so far (each with its own config) -/
structure World (α : Type) where
  globalStep : α
  calcs : List (Config α)

inductive WOp (α : Type) where
  | setStep (rawInch : α)        -- set_global_max_calc_step_size(value); `rawInch` = raw value of the coerced distance
  | reset                        -- reset_globals()
  | newCalc (o : Overrides α)    -- Calculator(_config=o)

inductive WOut | ok | valueError
  deriving DecidableEq, Repr

def World.init : World α := ⟨globalMaxCalcStepSizeFeet, []⟩

def wstep (w : World α) : WOp α → World α × WOut
  | .setStep raw => if raw ≤ 0.0 then (w, .valueError) else ({ w with globalStep := feetOf raw }, .ok)
  | .reset => ({ w with globalStep := globalMaxCalcStepSizeFeet }, .ok)
  | .newCalc o => ({ w with calcs := w.calcs ++ [createConfig w.globalStep o] }, .ok)

def wrun (w : World α) : List (WOp α) → World α
  | [] => w
  | op :: ops => wrun (wstep w op).1 ops

end
end BC.Model
