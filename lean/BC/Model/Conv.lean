/-
  BC.Model.Conv — the unit reads the solver performs (`q >> Distance.Foot` …), expressed
  through the REGENERATED chains of `BC.Gen.Units`, so a change of a factor in unit.py
  reaches every model function that uses it.  The chains return `none` only for a unit of
  another dimension, which cannot happen at these call sites (`BC.Props.C06.C06_dim_consistent`
  proves `isSome` for every own-dimension unit); the `getD` default is therefore never used.
-/
import BC.Num
import BC.Gen.Units
namespace BC.Model
open BC BC.Gen

section
variable {α : Type} [Add α] [Sub α] [Mul α] [Div α] [Neg α] [OfScientific α]
  [LT α] [DecidableLT α] [LE α] [DecidableLE α] [Fn α]

/-- `q >> u` for a quantity of dimension `d` with raw value `r` -/
def getIn (d : Dim) (r : α) (u : U) : α := (fromRaw d r u).getD r
/-- raw value stored by `u(x)` -/
def mkRaw (d : Dim) (x : α) (u : U) : α := (toRaw d x u).getD x

def feetOf (rawInch : α) : α := getIn .Distance rawInch .Foot
def meterOf (rawInch : α) : α := getIn .Distance rawInch .Meter
def fpsOf (rawMps : α) : α := getIn .Velocity rawMps .FPS
def celsiusOf (rawF : α) : α := getIn .Temperature rawF .Celsius
def inHgOf (rawMmHg : α) : α := getIn .Pressure rawMmHg .InHg
def hPaOf (rawMmHg : α) : α := getIn .Pressure rawMmHg .hPa

end
end BC.Model
