/-
  BC.Model.Danger — `HitResult.danger_space` (py_ballisticcalc/trajectory_data/_trajectory_data.py).
  Rows are `(distance, target_drop)` raw values; results are row indices.
-/
import BC.Model.Lookup
namespace BC.Model
open BC

section
variable {α : Type} [Add α] [Sub α] [Mul α] [Div α] [Neg α] [OfScientific α]
  [LT α] [DecidableLT α] [LE α] [DecidableLE α] [Fn α]

/-- `find_begin_danger(row_num)`: scan rows `row_num-1, …, 0`; `k` = rows still to look at -/
def beginScan (drop : Nat → α) (center half : α) : Nat → Nat
  | 0 => 0
  | k + 1 => if half ≤ Fn.abs (drop k - center) then k else beginScan drop center half k

/-- `find_end_danger(row_num)`: scan rows `i, i+1, …, n-1` (fuel = rows left); `last` if none -/
def endScan (drop : Nat → α) (center half : α) (last : Nat) : Nat → Nat → Nat
  | 0, _ => last
  | fuel + 1, i => if half ≤ Fn.abs (center - drop i) then i else endScan drop center half last fuel (i + 1)

structure DangerIdx where
  at_ : Nat
  begin_ : Nat
  end_ : Nat
  deriving Repr, DecidableEq

/-- `danger_space(at_range, target_height)`; `none` = ArithmeticError (range not reached) -/
def dangerSpace (n : Nat) (dist drop : Nat → α) (atRange height : α) : Option DangerIdx :=
  let idx := indexAtDistance n dist atRange
  if idx < 0 then none else
  let i := idx.toNat
  let half := height / 2.0
  let c := drop i
  some ⟨i, beginScan drop c half i, endScan drop c half (n - 1) (n - (i + 1)) (i + 1)⟩

end
end BC.Model
