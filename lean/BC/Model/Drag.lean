/-
  BC.Model.Drag — drag-curve construction and look-up
  (`calculate_curve`, `_calculate_by_curve_and_mach_list`, `drag_by_mach`
   in py_ballisticcalc/trajectory_calc/_trajectory_calc.py).

  The core definitions take the table as functions `Nat → α` plus a length so that the
  theorems are free of container lemmas; the `Array` wrappers at the end are what the
  driver runs.
-/
import BC.Num
namespace BC.Model
open BC

structure CurvePoint (α : Type) where
  a : α
  b : α
  c : α
  deriving Repr, Inhabited

section
variable {α : Type} [Add α] [Sub α] [Mul α] [Div α] [Neg α] [OfScientific α]
  [LT α] [DecidableLT α] [LE α] [DecidableLE α]

/-- `calculate_curve`: entry `i` of the curve for a table `(x, y)` of length `n` (`n ≥ 2`).
    Entry 0 is the line through points 0 and 1; entry `i` for `1 ≤ i ≤ n-2` the parabola
    through points `i-1, i, i+1`; entry `n-1` the (never selected) closing line. -/
def curveAt (n : Nat) (x y : Nat → α) (i : Nat) : CurvePoint α :=
  if i = 0 then
    let rate := (y 1 - y 0) / (x 1 - x 0)
    ⟨0.0, rate, y 0 - x 0 * rate⟩
  else if i < n - 1 then
    let x1 := x (i - 1); let x2 := x i; let x3 := x (i + 1)
    let y1 := y (i - 1); let y2 := y i; let y3 := y (i + 1)
    let a := ((y3 - y1) * (x2 - x1) - (y2 - y1) * (x3 - x1)) /
             ((x3 * x3 - x1 * x1) * (x2 - x1) - (x2 * x2 - x1 * x1) * (x3 - x1))
    let b := (y2 - y1 - a * (x2 * x2 - x1 * x1)) / (x2 - x1)
    let c := y1 - (a * x1 * x1 + b * x1)
    ⟨a, b, c⟩
  else
    let rate := (y (n - 1) - y (n - 2)) / (x (n - 1) - x (n - 2))
    ⟨0.0, rate, y (n - 1) - x (n - 2) * rate⟩

/-- the `while mhi - mlo > 1` loop, with fuel -/
def bsearch (x : Nat → α) (m : α) : Nat → Nat → Nat → Nat × Nat
  | 0, lo, hi => (lo, hi)
  | fuel + 1, lo, hi =>
    if hi - lo > 1 then
      let mid := (hi + lo) / 2
      if x mid < m then bsearch x m fuel mid hi else bsearch x m fuel lo mid
    else (lo, hi)

/-- index of the curve entry `_calculate_by_curve_and_mach_list` evaluates (`n ≥ 2` points) -/
def selectIdx (n : Nat) (x : Nat → α) (m : α) : Nat :=
  let (lo, hi) := bsearch x m (n - 2) 0 (n - 2)
  if m - x lo < x hi - m then lo else hi

def evalCurve (cp : CurvePoint α) (m : α) : α := cp.c + m * (cp.b + cp.a * m)

/-- drag coefficient used by the solver for Mach `m` -/
def cdAt (n : Nat) (x y : Nat → α) (m : α) : α :=
  evalCurve (curveAt n x y (selectIdx n x m)) m

/-- `drag_by_mach`: `cd * 2.08551e-04 / bc` -/
def dragByMach (n : Nat) (x y : Nat → α) (bc m : α) : α :=
  cdAt n x y m * 2.08551e-04 / bc

/-! executable wrappers -/

structure DragTable (α : Type) where
  mach : Array α
  curve : Array (CurvePoint α)

variable [Inhabited α]

/-- `_init_trajectory`: pre-computes the curve once (as the Python code does). `none` = IndexError. -/
def DragTable.build (pts : Array (α × α)) : Option (DragTable α) :=
  if pts.size < 2 then none else
  let x := fun i => (pts.getD i default).1
  let y := fun i => (pts.getD i default).2
  some ⟨pts.map (·.1), (Array.range pts.size).map (curveAt pts.size x y)⟩

def DragTable.cd (t : DragTable α) (m : α) : α :=
  let n := t.curve.size
  let i := selectIdx n (fun i => t.mach.getD i default) m
  evalCurve (t.curve.getD i default) m

def DragTable.dragByMach (t : DragTable α) (bc m : α) : α :=
  t.cd m * 2.08551e-04 / bc

end
end BC.Model
