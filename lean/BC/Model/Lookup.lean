/-
  BC.Model.Lookup — trajectory look-ups (py_ballisticcalc/helpers.py and
  HitResult.index_at_distance / get_at_distance).  Rows are given by their key
  (`Nat → α`, distance or time or height) and a length; results are `Int` with −1 as the
  documented sentinel.
-/
import BC.Num
namespace BC.Model
open BC

/-- CPython `bisect.bisect_left(a, x, lo, hi)` for a key sequence `a` and the test `a[mid] < x`
    abstracted as `lt mid`; fuel = `hi - lo` suffices. -/
def bisectLeft (lt : Nat → Bool) : Nat → Nat → Nat → Nat
  | 0, lo, _ => lo
  | fuel + 1, lo, hi =>
    if lo < hi then
      let mid := (lo + hi) / 2
      if lt mid then bisectLeft lt fuel (mid + 1) hi else bisectLeft lt fuel lo mid
    else lo

/-- `bisect_for_monotonic_condition`: bisect for `True` over the wrapper (`False < True`). -/
def bisectCond (n : Nat) (cond : Nat → Bool) : Int :=
  let idx := bisectLeft (fun i => !cond i) n 0 n
  if idx ≥ n then -1 else if cond idx then (idx : Int) else -1

/-- sequential scan: `next((i for i in range(n) if cond(i)), -1)` -/
def scanFirst (cond : Nat → Bool) : Nat → Nat → Int
  | 0, _ => -1
  | k + 1, i => if cond i then (i : Int) else scanFirst cond k (i + 1)

section
variable {α : Type} [Add α] [Sub α] [Mul α] [Div α] [Neg α] [OfScientific α]
  [LT α] [DecidableLT α] [LE α] [DecidableLE α] [Fn α]

/-- `HitResult.index_at_distance(d)` — linear scan for the first row with `distance ≥ d` -/
def indexAtDistance (n : Nat) (dist : Nat → α) (d : α) : Int :=
  scanFirst (fun i => decide (d ≤ dist i)) n 0

/-- `find_index_of_point_for_distance` — bisect for the first row with `distance ≥ d` -/
def findIndexForDistance (n : Nat) (dist : Nat → α) (d : α) : Int :=
  bisectCond n (fun i => decide (d ≤ dist i))

/-- `find_index_for_time_point(strictly_bigger_or_equal=True)`: condition `e.time - time >= 0` -/
def findIndexForTimeStrict (n : Nat) (time : Nat → α) (t : α) : Int :=
  bisectCond n (fun i => decide (0.0 ≤ time i - t))

/-- `find_nearest_index_satisfying_monotonic_condition` (after the fix: the first row carrying the
    nearest value; −1 on an empty trajectory) -/
def nearestIndex (n : Nat) (time : Nat → α) (t : α) : Int :=
  if n = 0 then -1 else
  let pos := bisectLeft (fun i => decide (time i < t)) n 0 n
  if pos = 0 then 0 else
  let best :=
    if pos = n then n - 1
    else if Fn.abs (time (pos - 1) - t) ≤ Fn.abs (time pos - t) then pos - 1 else pos
  -- earliest row with that key
  (bisectLeft (fun i => decide (time i < time best)) n 0 n : Nat)

/-- `find_index_for_time_point(strictly_bigger_or_equal=False, max_time_deviation_in_seconds=dev)` -/
def findIndexForTimeNearest (n : Nat) (time : Nat → α) (t dev : α) : Int :=
  let i := nearestIndex n time t
  if i < 0 then -1
  else if Fn.abs (time i.toNat - t) ≤ dev then i else -1

/-- `find_index_of_apex_in_points` -/
def apexLoop (h : Nat → α) : Nat → Nat → Nat → Nat
  | 0, l, _ => l
  | fuel + 1, l, r =>
    if l < r then
      let mid := (l + r) / 2
      if h mid < h (mid + 1) then apexLoop h fuel (mid + 1) r else apexLoop h fuel l mid
    else l

def apexIndex (n : Nat) (h : Nat → α) : Int :=
  if n = 0 then -1 else (apexLoop h n 0 (n - 1) : Nat)

end
end BC.Model
