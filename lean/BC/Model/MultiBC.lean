/-
  BC.Model.MultiBC — `BCPoint`, `linear_interpolation`, `DragModelMultiBC`
  (py_ballisticcalc/drag_model.py).
-/
import BC.Model.Conv
namespace BC.Model
open BC BC.Gen

section
variable {α : Type} [Add α] [Sub α] [Mul α] [Div α] [Neg α] [OfScientific α]
  [LT α] [DecidableLT α] [LE α] [DecidableLE α] [Fn α]

/-- the `while left < right` loop of `linear_interpolation` for one query `xi`
    (`none` = fell out of the loop without `break`, then `yp[left]` is appended) -/
def interpLoop (xp yp : Nat → α) (xi : α) : Nat → Nat → Nat → α
  | 0, left, _ => yp left
  | fuel + 1, left, right =>
    if left < right then
      let mid := (left + right) / 2
      if xp mid ≤ xi ∧ xi < xp (mid + 1) then
        let slope := (yp (mid + 1) - yp mid) / (xp (mid + 1) - xp mid)
        yp mid + slope * (xi - xp mid)
      else if xi < xp mid then interpLoop xp yp xi fuel left mid
      else interpLoop xp yp xi fuel (mid + 1) right
    else yp left

/-- `linear_interpolation` for one query over `k ≥ 1` points -/
def linInterp (k : Nat) (xp yp : Nat → α) (xi : α) : α :=
  if xi ≤ xp 0 then yp 0
  else if xp (k - 1) ≤ xi then yp (k - 1)
  else interpLoop xp yp xi k 0 (k - 1)

/-- Mach 1 in m/s at the standard temperature, `BCPoint._machC` -/
def bcMachC : α := Fn.sqrt (15.0 + 273.15) * 20.0467

inductive BCErr | bcNonPositive | bothGiven | noneGiven
  deriving DecidableEq, Repr

/-- `BCPoint(BC, Mach, V)`: returns `(BC, Mach)`. `mach`, `v` are `none` when not given or falsy
    (`0`); `v` is the raw m/s value of `PreferredUnits.velocity(V)`. -/
def bcPoint (bc : α) (mach v : Option α) : Except BCErr (α × α) :=
  if bc ≤ 0.0 then .error .bcNonPositive else
  match mach, v with
  | some _, some _ => .error .bothGiven
  | none, none => .error .noneGiven
  | none, some v => .ok (bc, v / bcMachC)
  | some m, none => .ok (bc, m)

/-- insertion of `p` (which preceded all of the list in the original order) into a list sorted by
    Mach: before the first entry whose key is not smaller (stable, as `list.sort`) -/
def insertByMach (p : α × α) : List (α × α) → List (α × α)
  | [] => [p]
  | q :: qs => if q.2 < p.2 then q :: insertByMach p qs else p :: q :: qs

/-- `bc_points.sort(key=lambda p: p.Mach)` (stable) -/
def sortByMach : List (α × α) → List (α × α)
  | [] => []
  | p :: ps => insertByMach p (sortByMach ps)

/-- `DragModelMultiBC`: the new table's CD column. `pts` = (BC, Mach) points (any order, ≥ 1),
    `table` = (Mach, CD) rows, `bc` = sectional density or 1. -/
def multiBCTable [Inhabited α] (pts : List (α × α)) (table : List (α × α)) (bc : α) : List (α × α) :=
  let s := (sortByMach pts).toArray
  let xp := fun i => (s.getD i default).2
  let yp := fun i => (s.getD i default).1 / bc
  table.map fun row => (row.1, row.2 / linInterp s.size xp yp row.1)

/-- `sectional_density(weight, diameter)` = `weight / diameter² / 7000` -/
def sectionalDensity (w d : α) : α := w / Fn.pow d 2.0 / 7000.0

end
end BC.Model
