/-
  BC.Model.Parse — unit-name and value-string parsing (`_parse_unit`, `_find_unit_by_alias`, `_parse_value`,
  `PreferredUnits.set` in py_ballisticcalc/unit.py) over the REGENERATED tables of `BC.Gen.Units`.
  Letter-case handling is ASCII (`String.toLower`); the harness generates ASCII case variants only.
-/
import BC.Gen.Units
namespace BC.Model
open BC BC.Gen

def isWs (c : Char) : Bool := c == ' ' || c == '\t' || c == '\n' || c == '\r' || c == '\x0b' || c == '\x0c'

/-- `strip()` then `lower()` on characters (ASCII whitespace, ASCII letters) -/
def normChars (cs : List Char) : List Char :=
  ((cs.dropWhile isWs).reverse.dropWhile isWs).reverse.map Char.toLower

/-- `input_.strip().lower()` -/
def normName (s : String) : String := String.ofList (normChars s.toList)

/-- the preferred-unit settings: slot name ↦ unit, in declaration order -/
abbrev Prefs := List (String × U)

def Prefs.get? (p : Prefs) (slot : String) : Option U := (p.find? (·.1 == slot)).map (·.2)

def Prefs.set (p : Prefs) (slot : String) (u : U) : Prefs :=
  p.map fun e => if e.1 == slot then (e.1, u) else e

/-- enumeration-name lookup, case-insensitive (`unit.name.lower() == input_`, in enumeration order) -/
def unitByName (n : String) : Option U := (namesLower.find? (fun e => e.1 == n)).map (·.2)

/-- `_find_unit_by_alias`: first alias group (in table order) containing the string, aliases lower-cased -/
def unitByAlias (n : String) : Option U :=
  (aliasesLower.find? (fun g => g.1.any (fun a => a == n))).map (·.2)

/-- `_parse_unit(input_)`: a slot name gives that slot's current unit; else the enumeration name; else an alias -/
def parseUnit (p : Prefs) (s : String) : Option U :=
  let n := normName s
  match p.get? n with
  | some u => some u
  | none =>
    match unitByName n with
    | some u => some u
    | none => unitByAlias n

/-- `PreferredUnits.set(**{slot: value})` for a string value: an unknown slot or an unparsable value leaves the
    settings unchanged -/
def setPrefStr (p : Prefs) (slot value : String) : Prefs :=
  match p.get? slot with
  | none => p
  | some _ =>
    match parseUnit p value with
    | some u => p.set slot u
    | none => p

/-- `PreferredUnits.set(**{slot: unit})` for a `Unit` value -/
def setPrefUnit (p : Prefs) (slot : String) (u : U) : Prefs :=
  match p.get? slot with
  | none => p
  | some _ => p.set slot u

/-! ### `_parse_value` -/

def isDigit (c : Char) : Bool := '0' ≤ c && c ≤ '9'

/-- length of the longest prefix matched by `(?:\d+\.\d*|\.\d+|\d+\.?)` (0 = no match) -/
def numBodyLen (cs : List Char) : Nat :=
  let d1 := (cs.takeWhile isDigit).length
  if d1 > 0 then
    match cs.drop d1 with
    | '.' :: rest => d1 + 1 + (rest.takeWhile isDigit).length
    | _ => d1
  else
    match cs with
    | '.' :: rest =>
      let d2 := (rest.takeWhile isDigit).length
      if d2 > 0 then 1 + d2 else 0
    | _ => 0

/-- length of the prefix matched by `-?(?:…)` (0 = no match) -/
def numPrefixLen (cs : List Char) : Nat :=
  match cs with
  | '-' :: rest => let n := numBodyLen rest; if n > 0 then n + 1 else 0
  | _ => numBodyLen cs

inductive ParsedValue where
  | number (text : String)                 -- a bare number: created in the preferred unit
  | withUnit (text : String) (u : U)        -- numeric prefix + unit alias
  | errAlias                                -- UnitAliasError: unsupported alias
  | errParse                                -- UnitAliasError: cannot parse
  deriving DecidableEq, Repr

/-- `_parse_value(input_: str, …)` up to the construction of the quantity -/
def parseValueStr (p : Prefs) (s : String) : ParsedValue :=
  let cs := s.toList.filter (· ≠ ' ')
  let n := numPrefixLen cs
  if n = 0 then .errParse
  else if n = cs.length then .number (String.ofList cs)
  else
    match parseUnit p (String.ofList (cs.drop n)) with
    | some u => .withUnit (String.ofList (cs.take n)) u
    | none => .errAlias

end BC.Model
