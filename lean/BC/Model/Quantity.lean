/-
  BC.Model.Quantity — `AbstractDimension` objects with identity (py_ballisticcalc/unit.py).
  `convert`, `<<` and `Unit.X(q)` mutate the object's display unit in place and return the same
  object, hence the explicit heap.
-/
import BC.Model.Conv
namespace BC.Model
open BC BC.Gen

structure Q (α : Type) where
  dim : Dim
  value : α
  units : U

inductive Cmp | eq | ne | lt | le | gt | ge
  deriving DecidableEq, Repr

inductive QOp (α : Type) where
  | convert (i : Nat) (u : U)          -- q.convert(u), q << u, u(q), PreferredUnits.slot(q)
  | getIn (i : Nat) (u : U)            -- q.get_in(u), q >> u
  | unitValue (i : Nat)                -- q.unit_value
  | rawValue (i : Nat)                 -- q.raw_value / float(q)
  | str (i : Nat)                      -- str(q) / repr(q): only whether it raises
  | cmpQ (op : Cmp) (i j : Nat)        -- q_i op q_j
  | cmpN (op : Cmp) (i : Nat) (x : α)  -- q_i op x
  | hash (i j : Nat)                   -- hash(q_i) == hash(q_j)
  | units (i : Nat)                    -- q.units

inductive QOut (α : Type) where
  | num (x : α)
  | bool (b : Bool)
  | unit (u : U)
  | ok
  | errUnitConv
  | errIndex
  deriving Inhabited

section
variable {α : Type} [Add α] [Sub α] [Mul α] [Div α] [Neg α] [OfScientific α]
  [LT α] [DecidableLT α] [LE α] [DecidableLE α] [Fn α]

def cmpVal (op : Cmp) (a b : α) : Bool :=
  match op with
  | .lt => decide (a < b)
  | .le => decide (a ≤ b)
  | .gt => decide (b < a)
  | .ge => decide (b ≤ a)
  | .eq => decide (a ≤ b) && decide (b ≤ a)
  | .ne => !(decide (a ≤ b) && decide (b ≤ a))

def readIn (q : Q α) (u : U) : QOut α :=
  match fromRaw q.dim q.value u with
  | some x => .num x
  | none => .errUnitConv

/-- hash key of a quantity: what `__hash__` hashes (after the fix: the magnitude only) -/
def hashKey (q : Q α) : α := q.value

def qstep (h : List (Q α)) : QOp α → List (Q α) × QOut α
  | .convert i u => match h[i]? with
    | some q => (h.set i { q with units := u }, .ok)
    | none => (h, .errIndex)
  | .getIn i u => match h[i]? with
    | some q => (h, readIn q u)
    | none => (h, .errIndex)
  | .unitValue i => match h[i]? with
    | some q => (h, readIn q q.units)
    | none => (h, .errIndex)
  | .rawValue i => match h[i]? with
    | some q => (h, .num q.value)
    | none => (h, .errIndex)
  | .str i => match h[i]? with
    | some q => (h, match readIn q q.units with | .num _ => .ok | o => o)
    | none => (h, .errIndex)
  | .cmpQ op i j => match h[i]?, h[j]? with
    | some q, some r => (h, .bool (cmpVal op q.value r.value))
    | _, _ => (h, .errIndex)
  | .cmpN op i x => match h[i]? with
    | some q => (h, .bool (cmpVal op q.value x))
    | none => (h, .errIndex)
  | .hash i j => match h[i]?, h[j]? with
    | some q, some r => (h, .bool (cmpVal .eq (hashKey q) (hashKey r)))
    | _, _ => (h, .errIndex)
  | .units i => match h[i]? with
    | some q => (h, .unit q.units)
    | none => (h, .errIndex)

/-- run a history, collecting outputs -/
def qrun (h : List (Q α)) : List (QOp α) → List (Q α) × List (QOut α)
  | [] => (h, [])
  | op :: ops =>
    let (h', o) := qstep h op
    let (h'', os) := qrun h' ops
    (h'', o :: os)

end
end BC.Model
