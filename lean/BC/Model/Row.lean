/-
  BC.Model.Row — vectors and the derived columns of a trajectory row
  (`Vector`, `create_trajectory_row`, `get_correction`, `calculate_energy`, `calculate_ogw`,
   `spin_drift`, `calc_stability_coefficient` in py_ballisticcalc).
-/
import BC.Model.Atmo
namespace BC.Model
open BC BC.Gen

/-- `TrajFlag` as a record of bits (ZERO_UP = 1, ZERO_DOWN = 2, MACH = 4, RANGE = 8, APEX = 16) -/
structure Flags where
  zeroUp : Bool := false
  zeroDown : Bool := false
  mach : Bool := false
  range : Bool := false
  apex : Bool := false
  deriving DecidableEq, Repr, Inhabited

def Flags.toNat (f : Flags) : Nat :=
  (if f.zeroUp then 1 else 0) + (if f.zeroDown then 2 else 0) + (if f.mach then 4 else 0) +
  (if f.range then 8 else 0) + (if f.apex then 16 else 0)

def Flags.ofNat (n : Nat) : Flags :=
  ⟨n % 2 == 1, n / 2 % 2 == 1, n / 4 % 2 == 1, n / 8 % 2 == 1, n / 16 % 2 == 1⟩

/-- `a & b` is non-zero -/
def Flags.anyCommon (a b : Flags) : Bool :=
  (a.zeroUp && b.zeroUp) || (a.zeroDown && b.zeroDown) || (a.mach && b.mach) || (a.range && b.range) ||
  (a.apex && b.apex)

/-- the flag value is 0 (falsy) -/
def Flags.isNone (a : Flags) : Bool := !(a.zeroUp || a.zeroDown || a.mach || a.range || a.apex)

def fNONE : Flags := {}
def fRANGE : Flags := { range := true }
def fALL : Flags := ⟨true, true, true, true, true⟩

structure Vec (α : Type) where
  x : α
  y : α
  z : α
  deriving Repr, Inhabited

section
variable {α : Type} [Add α] [Sub α] [Mul α] [Div α] [Neg α] [OfScientific α]
  [LT α] [DecidableLT α] [LE α] [DecidableLE α] [Fn α]

def Vec.add (a b : Vec α) : Vec α := ⟨a.x + b.x, a.y + b.y, a.z + b.z⟩
def Vec.sub (a b : Vec α) : Vec α := ⟨a.x - b.x, a.y - b.y, a.z - b.z⟩
def Vec.smul (a : Vec α) (c : α) : Vec α := ⟨a.x * c, a.y * c, a.z * c⟩
def Vec.mag (a : Vec α) : α := Fn.sqrt (a.x * a.x + a.y * a.y + a.z * a.z)
def Vec.zero : Vec α := ⟨0.0, 0.0, 0.0⟩

/-- `while c s: s = b s` with fuel (used by the function bodies regenerated from the Python source, `BC.Gen.Src`) -/
def whileF {σ : Type} (c : σ → Bool) (b : σ → σ) : Nat → σ → σ
  | 0, s => s
  | n + 1, s => if c s then whileF c b n (b s) else s

/-- `x != 0` for finite numbers -/
def nz (x : α) : Bool := decide (x < 0.0) || decide (0.0 < x)

/-- `get_correction(distance, offset)` -/
def getCorrection (distance offset : α) : α :=
  if nz distance then Fn.atan (offset / distance) else 0.0

def calculateEnergy (weight velocity : α) : α := weight * Fn.pow velocity 2.0 / 450400.0
def calculateOgw (weight velocity : α) : α := Fn.pow weight 2.0 * Fn.pow velocity 3.0 * 1.5e-12

/-- per-shot constants the row / spin-drift computations read (`_init_trajectory`) -/
structure Proj (α : Type) where
  twist : α      -- inch
  length : α     -- inch
  diameter : α   -- inch
  weight : α     -- grain
  stability : α  -- Miller stability coefficient (0 when not computable)
  lookAngle : α  -- rad

/-- `calc_stability_coefficient(atmo)`; `pressRaw` is `atmo.pressure.raw_value` (mmHg), `tempF` raw °F -/
def stabilityCoefficient (twist length diameter weight mv pressRaw tempF : α) : α :=
  if nz twist && nz length && nz diameter && nz pressRaw then
    let twistRate := Fn.abs twist / diameter
    let len := length / diameter
    let sd := 30.0 * weight / (Fn.pow twistRate 2.0 * Fn.pow diameter 3.0 * len * (1.0 + Fn.pow len 2.0))
    let fv := Fn.pow (mv / 2800.0) (1.0 / 3.0)
    let ft := tempF
    let pt := inHgOf pressRaw
    let ftp := ((ft + 460.0) / 519.0) * (29.92 / pt)
    sd * fv * ftp
  else 0.0

/-- `spin_drift(time)` in feet -/
def spinDrift (p : Proj α) (time : α) : α :=
  if nz p.stability && nz p.twist then
    let sign : α := if 0.0 < p.twist then 1.0 else -1.0
    sign * (1.25 * (p.stability + 1.2) * Fn.pow time 1.83) / 12.0
  else 0.0

/-- a `TrajectoryData` row: every quantity as its raw value -/
structure Row (α : Type) where
  time : α
  distance : α      -- raw inch
  velocity : α      -- raw m/s
  mach : α
  height : α        -- raw inch
  targetDrop : α    -- raw inch
  dropAdj : α       -- rad
  windage : α       -- raw inch
  windageAdj : α    -- rad
  lookDistance : α  -- raw inch
  angle : α         -- rad
  densityFactor : α
  drag : α
  energy : α        -- ft·lb
  ogw : α           -- raw grain
  flag : Flags
  deriving Inhabited

/-- `create_trajectory_row(time, range_vector, velocity_vector, velocity, mach, spin_drift, look_angle,
    density_factor, drag, weight, flag)`; `none` = ZeroDivisionError (`velocity / mach` with `mach = 0`). -/
def createRow (time : α) (r v : Vec α) (velocity mach spin look densityFactor drag weight : α) (flag : Flags) :
    Option (Row α) :=
  if !nz mach then none else
  let windage := r.z + spin
  let dropAdjustment := getCorrection r.x r.y
  let windageAdjustment := getCorrection r.x windage
  let trajectoryAngle := Fn.atan2 v.y v.x
  some {
    time := time
    distance := r.x * 12.0
    velocity := velocity / 3.2808399
    mach := velocity / mach
    height := r.y * 12.0
    targetDrop := ((r.y - r.x * Fn.tan look) * Fn.cos look) * 12.0
    dropAdj := dropAdjustment - (if nz r.x then look else 0.0)
    windage := windage * 12.0
    windageAdj := windageAdjustment
    lookDistance := (r.x / Fn.cos look) * 12.0
    angle := trajectoryAngle
    densityFactor := densityFactor - 1.0
    drag := drag
    energy := calculateEnergy weight velocity
    ogw := calculateOgw weight velocity / 0.000142857143
    flag := flag }

end
end BC.Model
