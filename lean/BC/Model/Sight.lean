/-
  BC.Model.Sight — click counts (`Sight.__init__`, `_adjust_sfp_reticle_steps`,
  `get_adjustment` in py_ballisticcalc/munition.py).  All angles raw radians, distances raw inches.
-/
import BC.Num
namespace BC.Model
open BC

inductive FocalPlane | FFP | SFP | LWIR
  deriving DecidableEq, Repr, Inhabited

inductive SightErr | wrongFocalPlane | scaleRequired | clickType | clickNonPositive
  deriving DecidableEq, Repr

section
variable {α : Type} [Add α] [Sub α] [Mul α] [Div α] [Neg α] [OfScientific α]
  [LT α] [DecidableLT α] [LE α] [DecidableLE α]

structure Sight (α : Type) where
  fp : FocalPlane
  scale : α     -- raw inches (calibration distance for SFP)
  hClick : α    -- raw rad
  vClick : α    -- raw rad

/-- `Sight.__init__` after unit coercion. `fp = none`: a string that is not a focal plane;
    `scale = none`: argument not given; `scale1` is the raw value of
    `PreferredUnits.distance(1)` used when no scale factor is supplied;
    `hClick`/`vClick = none`: argument of a wrong type. -/
def Sight.new (fp : Option FocalPlane) (scale : Option α) (scale1 : α) (hClick vClick : Option α) :
    Except SightErr (Sight α) :=
  match fp with
  | none => .error .wrongFocalPlane
  | some fp =>
    if scale.isNone && fp == .SFP then .error .scaleRequired else
    match hClick, vClick with
    | some h, some v =>
      if fp == .SFP && decide (scale.getD scale1 ≤ 0.0) then .error .scaleRequired
      else if h ≤ 0.0 ∨ v ≤ 0.0 then .error .clickNonPositive
      else .ok ⟨fp, scale.getD scale1, h, v⟩
    | _, _ => .error .clickType

/-- effective click sizes `(vertical, horizontal)` for target distance `td` (raw inch) and magnification -/
def Sight.steps (s : Sight α) (td mag : α) : α × α :=
  match s.fp with
  | .FFP => (s.vClick, s.hClick)
  | .SFP => (s.vClick * s.scale / td * mag, s.hClick * s.scale / td * mag)
  | .LWIR => (s.vClick / mag, s.hClick / mag)

/-- `get_adjustment(target_distance, drop_adj, windage_adj, magnification)` → `(vertical, horizontal)` clicks -/
def Sight.adjustment (s : Sight α) (td drop wind mag : α) : α × α :=
  let st := s.steps td mag
  (drop / st.1, wind / st.2)

end
end BC.Model
