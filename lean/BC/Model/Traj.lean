/-
  BC.Model.Traj — the integrator (`TrajectoryCalc._integrate`, `_TrajectoryDataFilter`, `_WindSock`,
  `zero_angle`, `_init_trajectory` in py_ballisticcalc/trajectory_calc/_trajectory_calc.py and
  `Shot.barrel_elevation/azimuth`, `Wind.vector` in conditions.py).

  The physics enters only through an environment `Env` of three functions (density ratio and speed of
  sound at an altitude, retardation at a Mach number) so that the recording / wind / limit theorems hold
  for arbitrary environments; `Env.ofShot` builds the real one from the atmosphere and drag models.
-/
import BC.Model.Row
import BC.Model.Drag
import BC.Model.Ammo
namespace BC.Model
open BC BC.Gen

inductive Reason | minVelocity | maxDrop | minAltitude
  deriving DecidableEq, Repr

section
variable {α : Type} [Add α] [Sub α] [Mul α] [Div α] [Neg α] [OfScientific α]
  [LT α] [DecidableLT α] [LE α] [DecidableLE α] [Fn α]

/-! ### configuration and environment -/

structure Config (α : Type) where
  maxCalcStep : α
  chartResolution : α
  zeroAccuracy : α
  minVelocity : α
  maxDrop : α
  maxIterations : Nat
  gravity : α
  minAltitude : α

/-- `get_calc_step()` with the default argument -/
def Config.calcStep (c : Config α) : α := c.maxCalcStep / 2.0

structure Env (α : Type) where
  /-- altitude (ft ASL) ↦ (density ratio, Mach 1 in fps); `none` = math domain error -/
  air : α → Option (α × α)
  /-- Mach ↦ `drag_by_mach` -/
  dbm : α → α

/-- one wind segment: (until-distance in ft, wind vector) -/
structure WindSeg (α : Type) where
  untilFt : α
  vec : Vec α

/-- `Wind.vector` from raw m/s and raw rad -/
def windVector (velRawMps dirRad : α) : Vec α :=
  let v := fpsOf velRawMps
  ⟨v * Fn.cos dirRad, 0.0, v * Fn.sin dirRad⟩

/-! ### wind sock -/

structure WindSock (α : Type) where
  winds : Array (WindSeg α)
  current : Nat
  nextRange : α
  vec : Vec α
  maxDist : α

def WindSock.init (winds : Array (WindSeg α)) (maxDist : α) : WindSock α :=
  match winds[0]? with
  | some w => ⟨winds, 0, w.untilFt, w.vec, maxDist⟩
  | none => ⟨winds, 0, maxDist, Vec.zero, maxDist⟩

/-- `vector_for_range` when `x ≥ next_range`: move to the next segment (one per call) -/
def WindSock.advance (ws : WindSock α) : WindSock α :=
  let cur := ws.current + 1
  match ws.winds[cur]? with
  | some w => { ws with current := cur, nextRange := w.untilFt, vec := w.vec }
  | none => { ws with current := cur, nextRange := ws.maxDist, vec := Vec.zero }

/-- the wind update at the top of every loop iteration -/
def WindSock.update (ws : WindSock α) (x : α) : WindSock α :=
  if ws.nextRange ≤ x then ws.advance else ws

/-! ### one integration step (lines 400–415) -/

structure St (α : Type) where
  pos : Vec α
  vel : Vec α
  time : α

/-- result of a step: new state, the retardation term `drag`, the ground speed after the step -/
structure StepOut (α : Type) where
  st : St α
  drag : α
  speed : α

/-- `max(1.0, v)` as CPython evaluates it -/
def max1 (v : α) : α := if 1.0 < v then v else 1.0

def step (calcStep gravity : α) (dbm : α → α) (wind : Vec α) (density mach : α) (s : St α) : StepOut α :=
  let velAdj := s.vel.sub wind
  let velocity := velAdj.mag
  let dt := calcStep / max1 velocity
  let drag := density * velocity * dbm (velocity / mach)
  let vel' := s.vel.sub ((velAdj.smul drag).sub ⟨0.0, gravity, 0.0⟩ |>.smul dt)
  let pos' := s.pos.add (vel'.smul dt)
  ⟨⟨pos', vel', s.time + dt⟩, drag, vel'.mag⟩

/-! ### the recording filter -/

structure BaseTraj (α : Type) where
  time : α
  pos : Vec α
  vel : Vec α
  mach : α

structure TFilter (α : Type) where
  filter : Flags
  currentFlag : Flags
  seenZero : Flags
  timeStep : α
  rangeStep : α
  timeOfLastRecord : α
  nextRecordDistance : α
  prevMach : α
  prevTime : α
  prevPos : Vec α
  prevVel : Vec α
  prevVMach : α
  lookAngle : α

def TFilter.init (flags : Flags) (rangeStep : α) (pos vel : Vec α) (timeStep : α) : TFilter α :=
  ⟨flags, fNONE, fNONE, timeStep, rangeStep, 0.0, 0.0, 0.0, 0.0, pos, vel, 0.0, 0.0⟩

/-- `setup_seen_zero(height, barrel_elevation, look_angle)` -/
def TFilter.setupSeenZero (f : TFilter α) (height barrelElevation lookAngle : α) : TFilter α :=
  let seen :=
    if 0.0 ≤ height then { f.seenZero with zeroUp := true }
    else if height < 0.0 ∧ barrelElevation < lookAngle then { f.seenZero with zeroDown := true }
    else f.seenZero
  { f with seenZero := seen, lookAngle := lookAngle }

/-- `while next_record_distance + range_step < x: next_record_distance += range_step` (with fuel) -/
def skipRecords (step x : α) : Nat → α → α
  | 0, nrd => nrd
  | fuel + 1, nrd => if nrd + step < x then skipRecords step x fuel (nrd + step) else nrd

def lerp (a b ratio : α) : α := a + (b - a) * ratio
def Vec.lerp (a b : Vec α) (ratio : α) : Vec α := a.add ((b.sub a).smul ratio)

/-- `check_zero_crossing` -/
def TFilter.checkZero (f : TFilter α) (pos : Vec α) : TFilter α :=
  if 0.0 < pos.x then
    let ref := pos.x * Fn.tan f.lookAngle
    if !f.seenZero.zeroUp then
      if ref ≤ pos.y then { f with currentFlag := { f.currentFlag with zeroUp := true },
                                   seenZero := { f.seenZero with zeroUp := true } }
      else f
    else if !f.seenZero.zeroDown then
      if pos.y < ref then { f with currentFlag := { f.currentFlag with zeroDown := true },
                                   seenZero := { f.seenZero with zeroDown := true } }
      else f
    else f
  else f

/-- `check_mach_crossing(velocity, mach)` -/
def TFilter.checkMach (f : TFilter α) (velocity mach : α) : TFilter α :=
  let cur := velocity / mach
  let f' := if 1.0 < f.prevVMach ∧ cur ≤ 1.0 then { f with currentFlag := { f.currentFlag with mach := true } } else f
  { f' with prevVMach := cur }

/-- `should_record(position, velocity, mach, time)`; `skipFuel` bounds the skip loop -/
def TFilter.shouldRecord (f : TFilter α) (skipFuel : Nat) (pos vel : Vec α) (mach time : α) :
    TFilter α × Option (BaseTraj α) :=
  let (f1, data) : TFilter α × Option (BaseTraj α) :=
    if 0.0 < f.rangeStep ∧ f.nextRecordDistance ≤ pos.x then
      let nrd := skipRecords f.rangeStep pos.x skipFuel f.nextRecordDistance
      let data :=
        if f.prevPos.x < pos.x then
          let ratio := (nrd - f.prevPos.x) / (pos.x - f.prevPos.x)
          some ⟨lerp f.prevTime time ratio, f.prevPos.lerp pos ratio, f.prevVel.lerp vel ratio,
                lerp f.prevMach mach ratio⟩
        else none
      ({ f with currentFlag := { f.currentFlag with range := true }, nextRecordDistance := nrd + f.rangeStep,
                timeOfLastRecord := time }, data)
    else if 0.0 < f.timeStep then
      -- check_next_time
      if f.timeOfLastRecord + f.timeStep < time then
        ({ f with currentFlag := { f.currentFlag with range := true }, timeOfLastRecord := time }, none)
      else (f, none)
    else (f, none)
  let f2 := f1.checkZero pos
  let f3 := f2.checkMach vel.mag mach
  let data' :=
    if f3.currentFlag.anyCommon f3.filter && data.isNone then some ⟨time, pos, vel, mach⟩ else data
  ({ f3 with prevTime := time, prevPos := pos, prevVel := vel, prevMach := mach }, data')

/-! ### the loop -/

inductive Err (α : Type) where
  | range (reason : Reason) (rows : List (Row α))
  | zeroDiv
  | mathDomain
  | outOfFuel
  | zeroFinding (err : α) (iterations : Nat) (elevation : α)

/-- everything `_integrate` reads that is fixed during a run -/
structure Run (α : Type) where
  cfg : Config α
  env : Env α
  proj : Proj α
  alt0 : α
  muzzleVelocity : α
  sightHeight : α    -- ft
  cantCos : α
  cantSin : α
  barrelAzimuth : α
  winds : Array (WindSeg α)
  maxWindDist : α

structure LoopSt (α : Type) where
  s : St α
  ws : WindSock α
  flt : TFilter α
  rows : List (Row α)   -- newest first
  drag : α
  mach : α
  density : α
  speed : α
  /-- down-range position of the last state handed to the data filter (`last_x`) -/
  lastX : α

/-- what one execution of the `while` body of `_integrate` produces, when it is executed symbolically from the source
    (`BC.Gen.Src.loop_body`): the state, wind sock and filter after it, the rows after the recording part (newest first),
    the scalars carried to the next iteration, the verdict of the limit check and the row it appends -/
structure LoopOut (α : Type) where
  st : St α
  ws : WindSock α
  flt : TFilter α
  rows : List (Row α)
  drag : α
  mach : α
  density : α
  speed : α
  lastX : α
  reason : Option Reason
  limitRow : Row α

def initialState (r : Run α) (barrelElevation : α) : St α :=
  let pos : Vec α := ⟨0.0, -r.cantCos * r.sightHeight, -r.cantSin * r.sightHeight⟩
  let dir : Vec α := ⟨Fn.cos barrelElevation * Fn.cos r.barrelAzimuth, Fn.sin barrelElevation,
                     Fn.cos barrelElevation * Fn.sin r.barrelAzimuth⟩
  ⟨pos, dir.smul r.muzzleVelocity, 0.0⟩

def mkRow (r : Run α) (time : α) (pos vel : Vec α) (speed mach density drag : α) (flag : Flags) : Option (Row α) :=
  createRow time pos vel speed mach (spinDrift r.proj time) r.proj.lookAngle density drag r.proj.weight flag

/-- which limit the post-step state violates, in the code's order of precedence -/
def limitReason (cfg : Config α) (alt0 speed y : α) : Option Reason :=
  if speed < cfg.minVelocity then some .minVelocity
  else if y < cfg.maxDrop then some .maxDrop
  else if alt0 + y < cfg.minAltitude then some .minAltitude
  else none

/-- the physical part of one loop iteration: wind update, atmosphere at the projectile's altitude,
    one integration step.  Independent of everything that concerns recording. -/
structure Phys (α : Type) where
  ws : WindSock α
  density : α
  mach : α
  out : StepOut α

def physStep (r : Run α) (s : St α) (ws : WindSock α) : Option (Phys α) :=
  let ws' := ws.update s.pos.x
  match r.env.air (r.alt0 + s.pos.y) with
  | none => none
  | some (density, mach) =>
    some ⟨ws', density, mach, step r.cfg.calcStep r.cfg.gravity r.env.dbm ws'.vec density mach s⟩

/-- `n` iterations of the physical part alone: the state sequence of the shot -/
def physIter (r : Run α) : Nat → St α → WindSock α → Option (St α × WindSock α)
  | 0, s, ws => some (s, ws)
  | n + 1, s, ws =>
    match physStep r s ws with
    | none => none
    | some p => physIter r n p.out.st p.ws

/-- what the recorder does in one iteration: the filter after `should_record` and the row (if any) -/
def recordStep (r : Run α) (filterFlags : Flags) (skipFuel : Nat) (l : LoopSt α) (density mach : α) :
    Except (Err α) (TFilter α × List (Row α)) :=
  let flt := { l.flt with currentFlag := fNONE }
  if !filterFlags.isNone then
    let (flt', data) := flt.shouldRecord skipFuel l.s.pos l.s.vel mach l.s.time
    match data with
    | some d =>
      match mkRow r d.time d.pos d.vel d.vel.mag d.mach density l.drag flt'.currentFlag with
      | some row => .ok (flt', row :: l.rows)
      | none => .error .zeroDiv
    | none => .ok (flt', l.rows)
  else .ok (flt, l.rows)

/-- one iteration of the `while` body -/
def iterate (r : Run α) (filterFlags : Flags) (skipFuel : Nat) (l : LoopSt α) : Except (Err α) (LoopSt α) :=
  match physStep r l.s l.ws with
  | none => .error .mathDomain
  | some p =>
    match recordStep r filterFlags skipFuel l p.density p.mach with
    | .error e => .error e
    | .ok (flt', rows) =>
      let o := p.out
      match limitReason r.cfg r.alt0 o.speed o.st.pos.y with
      | some reason =>
        match mkRow r o.st.time o.st.pos o.st.vel o.speed p.mach p.density o.drag flt'.currentFlag with
        | some row => .error (.range reason (row :: rows).reverse)
        | none => .error .zeroDiv
      | none => .ok ⟨o.st, p.ws, flt', rows, o.drag, p.mach, p.density, o.speed, l.s.pos.x⟩

/-- `while x <= maximum_range + min_step or last_x < maximum_range` (`bound` = `maximum_range + min_step`) -/
def loop (r : Run α) (filterFlags : Flags) (skipFuel : Nat) (bound maxRange : α) :
    Nat → LoopSt α → Except (Err α) (LoopSt α)
  | 0, _ => .error .outOfFuel
  | fuel + 1, l =>
    if l.s.pos.x ≤ bound ∨ l.lastX < maxRange then
      match iterate r filterFlags skipFuel l with
      | .error e => .error e
      | .ok l' => loop r filterFlags skipFuel bound maxRange fuel l'
    else .ok l

def minOf (a b : α) : α := if b < a then b else a

/-- `_integrate(shot, maximum_range, record_step, filter_flags, time_step)` → rows in order -/
def integrate (r : Run α) (barrelElevation maxRange recordStep : α) (filterFlags : Flags) (timeStep : α)
    (fuel skipFuel : Nat) : Except (Err α) (List (Row α)) :=
  let s0 := initialState r barrelElevation
  let minStep := minOf r.cfg.calcStep recordStep
  let flt := (TFilter.init filterFlags recordStep s0.pos s0.vel timeStep).setupSeenZero s0.pos.y barrelElevation
              r.proj.lookAngle
  let l0 : LoopSt α := ⟨s0, WindSock.init r.winds r.maxWindDist, flt, [], 0.0, 0.0, 0.0, r.muzzleVelocity, s0.pos.x⟩
  match loop r filterFlags skipFuel (maxRange + minStep) maxRange fuel l0 with
  | .error e => .error e
  | .ok l =>
    match l.rows with
    | _ :: _ :: _ => .ok l.rows.reverse
    | rows =>
      match mkRow r l.s.time l.s.pos l.s.vel l.speed l.mach l.density l.drag fNONE with
      | some row => .ok (row :: rows).reverse
      | none => .error .zeroDiv

/-! ### zeroing -/

/-- the `while` loop of `zero_angle`; `missAt e` = signed miss (ft) of a run with barrel elevation `e`: height of
    the row interpolated at the zero distance minus the height of the sight line at that row's distance.
    Returns the elevation or the error. -/
def zeroLoop (cfg : Config α) (missAt : α → Except (Err α) α) (zeroDistance : α) :
    Nat → Nat → α → α → Except (Err α) α
  | 0, iters, err, el =>
    if cfg.zeroAccuracy < err then .error (.zeroFinding err iters el) else .ok el
  | fuel + 1, iters, err, el =>
    if cfg.zeroAccuracy < err ∧ iters < cfg.maxIterations then
      match missAt el with
      | .error e => .error e
      | .ok miss =>
        let err' := Fn.abs miss
        if cfg.zeroAccuracy < err' then
          zeroLoop cfg missAt zeroDistance fuel (iters + 1) err'
            (el - miss / zeroDistance * Fn.pow (Fn.cos el) 2.0)
        else .ok el
    else
      if cfg.zeroAccuracy < err then .error (.zeroFinding err iters el) else .ok el

/-- the signed miss `zero_angle` evaluates for elevation `e`: second row of a run to the zero distance recorded
    with that distance as step (flags RANGE): its height minus `tan(look)` × its own distance (feet) -/
def zeroMiss (r : Run α) (zeroDistance : α) (fuel skipFuel : Nat) (e : α) : Except (Err α) α :=
  match integrate r e zeroDistance zeroDistance fRANGE 0.0 fuel skipFuel with
  | .error x => .error x
  | .ok rows =>
    match rows with
    | _ :: row :: _ => .ok (feetOf row.height - Fn.tan r.proj.lookAngle * feetOf row.distance)
    | _ => .error .outOfFuel

/-- `zero_angle(shot, distance)`: `distFt` = look-distance in feet -/
def zeroAngle (r : Run α) (barrelElevation distFt : α) (fuel skipFuel : Nat) : Except (Err α) α :=
  let zeroDistance := Fn.cos r.proj.lookAngle * distFt
  zeroLoop r.cfg (zeroMiss r zeroDistance fuel skipFuel) zeroDistance r.cfg.maxIterations 0
    (r.cfg.zeroAccuracy * 2.0) barrelElevation

/-- `zero_angle` as the code runs it: the search starts ON THE SIGHT LINE (elevation = look angle), whatever zero the weapon
    stored before and whatever hold-over the shot carries -/
def zeroAngleOfShot (r : Run α) (distFt : α) (fuel skipFuel : Nat) : Except (Err α) α :=
  zeroAngle r r.proj.lookAngle distFt fuel skipFuel

/-! ### building a `Run` from shot data (`_init_trajectory`) -/

structure ShotRaw (α : Type) where
  lookAngle : α       -- rad
  relativeAngle : α   -- rad
  cantAngle : α       -- rad
  zeroElevation : α   -- rad
  sightHeightRaw : α  -- inch
  twistRaw : α        -- inch
  lengthRaw : α       -- inch
  diameterRaw : α     -- inch
  weightRaw : α       -- grain
  bc : α
  ammo : Ammo α
  atmo : Atmo α
  /-- winds in the order given: (velocity raw m/s, direction raw rad, until-distance raw inch) -/
  winds : List (α × α × α)
  maxWindDist : α

/-- stable insertion sort by until-distance (`sorted(..., key=until_distance.raw_value)`) -/
def insertWind (w : α × α × α) : List (α × α × α) → List (α × α × α)
  | [] => [w]
  | q :: qs => if q.2.2 < w.2.2 then q :: insertWind w qs else w :: q :: qs

def sortWinds : List (α × α × α) → List (α × α × α)
  | [] => []
  | w :: ws => insertWind w (sortWinds ws)

def barrelElevationOf (s : ShotRaw α) : α :=
  s.lookAngle + Fn.cos s.cantAngle * (s.zeroElevation + s.relativeAngle)

def barrelAzimuthOf (s : ShotRaw α) : α :=
  Fn.sin s.cantAngle * (s.zeroElevation + s.relativeAngle)

variable [Inhabited α]

def Env.ofShot (atmo : Atmo α) (table : DragTable α) (bc : α) : Env α :=
  ⟨atmo.densityMachAt, table.dragByMach bc⟩

/-- `_init_trajectory(shot)` -/
def Run.ofShot (cfg : Config α) (s : ShotRaw α) (table : DragTable α) : Run α :=
  let mvRaw := velocityForTemp s.ammo s.atmo.powderRaw
  let mv := fpsOf mvRaw
  let twist := s.twistRaw
  let stab := stabilityCoefficient twist s.lengthRaw s.diameterRaw s.weightRaw mv s.atmo.pressRaw s.atmo.tempRaw
  { cfg := cfg
    env := Env.ofShot s.atmo table s.bc
    proj := ⟨twist, s.lengthRaw, s.diameterRaw, s.weightRaw, stab, s.lookAngle⟩
    alt0 := feetOf s.atmo.altRaw
    muzzleVelocity := mv
    sightHeight := feetOf s.sightHeightRaw
    cantCos := Fn.cos s.cantAngle
    cantSin := Fn.sin s.cantAngle
    barrelAzimuth := barrelAzimuthOf s
    winds := ((sortWinds s.winds).map fun w => ⟨feetOf w.2.2, windVector w.1 w.2.1⟩).toArray
    maxWindDist := s.maxWindDist }

end
end BC.Model
