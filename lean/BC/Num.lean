/-
  BC.Num — the number interface of the generic model.

  Every model function is written once over an arbitrary type `α` that has
  `+ - * /`, negation, decimal literals, decidable `<` / `≤`, and the small
  class `Fn α` below for the non-algebraic primitives the Python code uses.
  This file gives the `Float` instance (interpretation F, executable, meant to
  be bit-identical with CPython on this machine).  The `ℝ` instance
  (interpretation R, what the theorems are about) lives in `BC/Real.lean`,
  the only place where Mathlib is imported for it.

  No Mathlib import here: everything under `BC/Num.lean`, `BC/Gen`, `BC/Model`
  and `Driver` is core-only so that the driver links as a plain executable.
-/
namespace BC

/-- Non-algebraic primitives (`math.*` in the Python source). -/
class Fn (α : Type) where
  sqrt  : α → α
  pow   : α → α → α
  exp   : α → α
  sin   : α → α
  cos   : α → α
  tan   : α → α
  atan  : α → α
  atan2 : α → α → α
  abs   : α → α
  /-- Python's float `%` (result takes the sign of the divisor). -/
  pymod : α → α → α
  pi    : α

/-! ### exact `fmod` on binary64, from the bit patterns -/

/-- `(negative, mantissa, exponent)` with value `± mantissa * 2^exponent`;
    only meaningful for finite inputs. -/
def floatParts (x : Float) : Bool × Nat × Int :=
  let b : Nat := x.toBits.toNat
  let neg : Bool := b / 2 ^ 63 == 1
  let e : Nat := (b / 2 ^ 52) % 2048
  let f : Nat := b % 2 ^ 52
  if e == 0 then (neg, f, (-1074 : Int)) else (neg, f + 2 ^ 52, (Int.ofNat e) - 1075)

def floatIsFinite (x : Float) : Bool := (x.toBits.toNat / 2 ^ 52) % 2048 != 2047

/-- C `fmod` for finite `x`, finite non-zero `y` (exact, as the C standard requires). -/
def floatFmod (x y : Float) : Float :=
  if !(floatIsFinite x) || !(floatIsFinite y) || y == 0.0 then x - x * (y / y) * 0.0 / 0.0 else
  let (nx, mx, ex) := floatParts x
  let (_, my, ey) := floatParts y
  let e0 := if ex ≤ ey then ex else ey
  let X := mx * 2 ^ (ex - e0).toNat
  let Y := my * 2 ^ (ey - e0).toNat
  let R := X % Y
  let r := (Float.ofNat R).scaleB e0
  if nx then -r else r

/-- CPython `float_rem`: `fmod`, then moved to the sign of the divisor. -/
def floatPyMod (x y : Float) : Float :=
  let m := floatFmod x y
  if m != 0.0 then
    if (y < 0.0) != (m < 0.0) then m + y else m
  else
    -- CPython returns a zero with the sign of `y`
    if y < 0.0 then -0.0 else 0.0

instance : Fn Float where
  sqrt := Float.sqrt
  pow := Float.pow
  exp := Float.exp
  sin := Float.sin
  cos := Float.cos
  tan := Float.tan
  atan := Float.atan
  atan2 := Float.atan2
  abs := Float.abs
  pymod := floatPyMod
  pi := 3.141592653589793

/-! ### bit-pattern I/O used by the line protocol -/

def fbits (x : Float) : String := toString x.toBits.toNat

def ofBitsNat (n : Nat) : Float := Float.ofBits n.toUInt64

end BC
