/-
  C01 — the trajectory is the solution of the point-mass equations of motion.
  Subject: BC.Model.Traj (`step`, `physStep`, `iterate`, `initialState`, `Run.ofShot`, `Env.ofShot`).
-/
import Mathlib.Tactic.Ring
import Mathlib.Tactic.FieldSimp
import Mathlib.Tactic.Linarith
import Mathlib.Tactic.NormNum
import BC.Real
import BC.Model.Traj
import BC.Lemmas.Vec
import BC.Lemmas.C01Conv

namespace BC.Props.C01
open BC BC.Model BC.Lemmas.VecL

/-- acceleration of the 3-DoF point-mass model as the property words it: gravity minus
    (density ratio) × (air-relative speed) × (drag function of air-relative Mach / BC) × (air-relative velocity) -/
noncomputable def accel (g : ℝ) (dbm : ℝ → ℝ) (wind : Vec ℝ) (density mach : ℝ) (v : Vec ℝ) : Vec ℝ :=
  let va := v.sub wind
  let speed := va.mag
  (⟨0, g, 0⟩ : Vec ℝ).sub (va.smul (density * speed * dbm (speed / mach)))

/-- **C01_step_is_scheme** (full): the loop body is semi-implicit Euler for that vector field with
    `dt = calc_step / max(1, |v − wind|)`: velocity first, then position with the NEW velocity. -/
theorem C01_step_is_scheme (cs g : ℝ) (dbm : ℝ → ℝ) (wind : Vec ℝ) (density mach : ℝ) (s : St ℝ) :
    let dt := cs / max 1 (s.vel.sub wind).mag
    let o := step cs g dbm wind density mach s
    o.st.vel = s.vel.add ((accel g dbm wind density mach s.vel).smul dt) ∧
    o.st.pos = s.pos.add (o.st.vel.smul dt) ∧
    o.st.time = s.time + dt ∧
    o.drag = density * (s.vel.sub wind).mag * dbm ((s.vel.sub wind).mag / mach) ∧
    o.speed = o.st.vel.mag := by
  intro dt o
  have h00 : (0.0:ℝ) = 0 := by norm_num
  refine ⟨?_, ?_, ?_, ?_, ?_⟩
  · simp only [o, dt, step, max1_eq, accel, h00, Vec.add, Vec.sub, Vec.smul, Vec.mk.injEq]
    refine ⟨?_, ?_, ?_⟩ <;> ring
  · simp only [o, dt, step, max1_eq]
  · simp only [o, dt, step, max1_eq]
  · simp only [o, step]
  · simp only [o, step]

/-- **C01_iterate_physics** (full): every loop iteration applies that step with the wind of the segment
    active at the projectile's down-range position and the atmosphere evaluated at station altitude + y. -/
theorem C01_iterate_physics (r : Run ℝ) (ff : Flags) (sf : Nat) (l l' : LoopSt ℝ) (h : iterate r ff sf l = .ok l') :
    ∃ density mach, r.env.air (r.alt0 + l.s.pos.y) = some (density, mach) ∧
      l'.ws = l.ws.update l.s.pos.x ∧
      l'.s = (step r.cfg.calcStep r.cfg.gravity r.env.dbm (l.ws.update l.s.pos.x).vec density mach l.s).st := by
  unfold iterate physStep at h
  cases hair : r.env.air (r.alt0 + l.s.pos.y) with
  | none => simp [hair] at h
  | some dm =>
    obtain ⟨density, mach⟩ := dm
    simp only [hair] at h
    refine ⟨density, mach, rfl, ?_⟩
    split at h
    · cases h
    · split at h
      · split at h <;> cases h
      · cases h
        exact ⟨rfl, rfl⟩

/-- **C01_env_of_shot** (full): the environment of a real shot is the atmosphere's altitude law and the
    drag table's `cd · 2.08551e-4 / BC`; the step is half the configured maximum; gravity is the configured one. -/
theorem C01_env_of_shot (cfg : Config ℝ) (s : ShotRaw ℝ) (t : DragTable ℝ) :
    (Run.ofShot cfg s t).env.air = s.atmo.densityMachAt ∧
    (∀ m, (Run.ofShot cfg s t).env.dbm m = t.cd m * 2.08551e-04 / s.bc) ∧
    (Run.ofShot cfg s t).cfg.calcStep = cfg.maxCalcStep / 2 ∧
    (Run.ofShot cfg s t).cfg.gravity = cfg.gravity ∧
    (Run.ofShot cfg s t).alt0 = feetOf s.atmo.altRaw ∧
    (Run.ofShot cfg s t).muzzleVelocity = fpsOf (velocityForTemp s.ammo s.atmo.powderRaw) := by
  refine ⟨rfl, fun m => rfl, ?_, rfl, rfl, rfl⟩
  simp only [Run.ofShot, Config.calcStep, h20]

/-- **C01_initial_state** (full): the muzzle is displaced by the canted sight height, the launch direction is
    the unit vector of barrel elevation / azimuth, the launch speed is the muzzle velocity. -/
theorem C01_initial_state (r : Run ℝ) (e : ℝ) :
    (initialState r e).pos = ⟨0, -(r.cantCos * r.sightHeight), -(r.cantSin * r.sightHeight)⟩ ∧
    (initialState r e).vel = ⟨r.muzzleVelocity * (Real.cos e * Real.cos r.barrelAzimuth),
                              r.muzzleVelocity * Real.sin e,
                              r.muzzleVelocity * (Real.cos e * Real.sin r.barrelAzimuth)⟩ ∧
    (initialState r e).time = 0 ∧
    (initialState r e).vel.mag = |r.muzzleVelocity| := by
  refine ⟨?_, ?_, ?_, ?_⟩
  · simp only [initialState, h00, Vec.mk.injEq]
    refine ⟨trivial, ?_, ?_⟩ <;> ring
  · simp only [initialState, Vec.smul, fn_cos, fn_sin, Vec.mk.injEq]
    refine ⟨?_, ?_, ?_⟩ <;> ring
  · simp only [initialState, h00]
  · simp only [initialState, Vec.smul, Vec.mag, fn_cos, fn_sin, fn_sqrt]
    rw [← Real.sqrt_sq_eq_abs]
    congr 1
    have h1 := Real.cos_sq_add_sin_sq e
    have h2 := Real.cos_sq_add_sin_sq r.barrelAzimuth
    have : Real.cos e * Real.cos r.barrelAzimuth * r.muzzleVelocity * (Real.cos e * Real.cos r.barrelAzimuth * r.muzzleVelocity) +
        Real.sin e * r.muzzleVelocity * (Real.sin e * r.muzzleVelocity) +
      Real.cos e * Real.sin r.barrelAzimuth * r.muzzleVelocity * (Real.cos e * Real.sin r.barrelAzimuth * r.muzzleVelocity)
      = r.muzzleVelocity ^ 2 * (Real.cos e ^ 2 * (Real.cos r.barrelAzimuth ^ 2 + Real.sin r.barrelAzimuth ^ 2) + Real.sin e ^ 2) := by ring
    rw [this, h2, mul_one, h1, mul_one]

/-- **C01_barrel_direction** (full): barrel elevation / azimuth implied by look, zero, relative and cant
    angles; un-canted, the barrel lies in the vertical plane at elevation look + zero + relative. -/
theorem C01_barrel_direction (s : ShotRaw ℝ) :
    barrelElevationOf s = s.lookAngle + Real.cos s.cantAngle * (s.zeroElevation + s.relativeAngle) ∧
    barrelAzimuthOf s = Real.sin s.cantAngle * (s.zeroElevation + s.relativeAngle) ∧
    (s.cantAngle = 0 → barrelElevationOf s = s.lookAngle + s.zeroElevation + s.relativeAngle ∧ barrelAzimuthOf s = 0) := by
  refine ⟨rfl, rfl, ?_⟩
  intro h
  simp only [barrelElevationOf, barrelAzimuthOf, fn_cos, fn_sin, h, Real.cos_zero, Real.sin_zero]
  constructor <;> ring

/-- `n` steps in an environment whose density ratio is 0 (a vacuum); the wind and the speed of sound may
    vary arbitrarily from step to step.  Returns the final state and Σ dtₖ². -/
noncomputable def vacRun (cs g : ℝ) (dbm : ℝ → ℝ) : List (Vec ℝ × ℝ) → St ℝ → St ℝ × ℝ
  | [], s => (s, 0)
  | (w, m) :: rest, s =>
    let o := step cs g dbm w 0 m s
    let r := vacRun cs g dbm rest o.st
    (r.1, r.2 + (o.st.time - s.time) ^ 2)

/-- one vacuum step, componentwise, in terms of its own `dt` -/
private theorem vac_step (cs g : ℝ) (dbm : ℝ → ℝ) (w : Vec ℝ) (m : ℝ) (s : St ℝ) :
    ∃ dt, (0 ≤ cs → 0 ≤ dt ∧ dt ≤ cs) ∧ (0 < cs → 0 < dt) ∧
      (step cs g dbm w 0 m s).st.time = s.time + dt ∧
      (step cs g dbm w 0 m s).st.vel.x = s.vel.x ∧
      (step cs g dbm w 0 m s).st.vel.y = s.vel.y + g * dt ∧
      (step cs g dbm w 0 m s).st.vel.z = s.vel.z ∧
      (step cs g dbm w 0 m s).st.pos.x = s.pos.x + s.vel.x * dt ∧
      (step cs g dbm w 0 m s).st.pos.y = s.pos.y + (s.vel.y + g * dt) * dt ∧
      (step cs g dbm w 0 m s).st.pos.z = s.pos.z + s.vel.z * dt := by
  obtain ⟨h1, h2, h3, h4, h5, h6, h7, -, -⟩ := step_fields cs g dbm w 0 m s
  refine ⟨cs / max 1 (s.vel.sub w).mag, fun hcs => dt_bounds cs _ hcs,
    fun hcs => div_pos hcs (max1_pos _), h1, ?_, ?_, ?_, ?_, ?_, ?_⟩
  · rw [h2]; ring
  · rw [h3]; ring
  · rw [h4]; ring
  · rw [h5, h2]; ring
  · rw [h6, h3]; ring
  · rw [h7, h4]; ring

private theorem vac_closed (cs g : ℝ) (dbm : ℝ → ℝ) (ws : List (Vec ℝ × ℝ)) : ∀ (s : St ℝ),
    (vacRun cs g dbm ws s).1.vel.x = s.vel.x ∧
    (vacRun cs g dbm ws s).1.vel.y = s.vel.y + g * ((vacRun cs g dbm ws s).1.time - s.time) ∧
    (vacRun cs g dbm ws s).1.vel.z = s.vel.z ∧
    (vacRun cs g dbm ws s).1.pos.x = s.pos.x + s.vel.x * ((vacRun cs g dbm ws s).1.time - s.time) ∧
    (vacRun cs g dbm ws s).1.pos.z = s.pos.z + s.vel.z * ((vacRun cs g dbm ws s).1.time - s.time) ∧
    (vacRun cs g dbm ws s).1.pos.y = s.pos.y + s.vel.y * ((vacRun cs g dbm ws s).1.time - s.time)
      + g * ((vacRun cs g dbm ws s).1.time - s.time) ^ 2 / 2 + g / 2 * (vacRun cs g dbm ws s).2 := by
  induction ws with
  | nil =>
    intro s
    simp [vacRun]
  | cons wm rest ih =>
    intro s
    obtain ⟨w, m⟩ := wm
    obtain ⟨dt, -, -, e1, e2, e3, e4, e5, e6, e7⟩ := vac_step cs g dbm w m s
    obtain ⟨i1, i2, i3, i4, i5, i6⟩ := ih (step cs g dbm w 0 m s).st
    simp only [vacRun]
    generalize (vacRun cs g dbm rest (step cs g dbm w 0 m s).st).1 = s' at *
    generalize (vacRun cs g dbm rest (step cs g dbm w 0 m s).st).2 = q' at *
    rw [e1] at i2 i4 i5 i6 ⊢
    rw [e2] at i1 i4
    rw [e3] at i2 i6
    rw [e4] at i3 i5
    rw [e5] at i4
    rw [e6] at i6
    rw [e7] at i5
    refine ⟨i1, ?_, i3, ?_, ?_, ?_⟩
    · rw [i2]; ring
    · rw [i4]; ring
    · rw [i5]; ring
    · rw [i6]; ring

private theorem vac_bounds (cs g : ℝ) (hcs : 0 ≤ cs) (dbm : ℝ → ℝ) (ws : List (Vec ℝ × ℝ)) : ∀ (s : St ℝ),
    0 ≤ (vacRun cs g dbm ws s).1.time - s.time ∧ 0 ≤ (vacRun cs g dbm ws s).2 ∧
    (vacRun cs g dbm ws s).2 ≤ cs * ((vacRun cs g dbm ws s).1.time - s.time) := by
  induction ws with
  | nil =>
    intro s
    simp [vacRun]
  | cons wm rest ih =>
    intro s
    obtain ⟨w, m⟩ := wm
    obtain ⟨dt, hdt, -, e1, -⟩ := vac_step cs g dbm w m s
    obtain ⟨hd0, hd1⟩ := hdt hcs
    obtain ⟨i1, i2, i3⟩ := ih (step cs g dbm w 0 m s).st
    simp only [vacRun]
    generalize (vacRun cs g dbm rest (step cs g dbm w 0 m s).st).1 = s' at *
    generalize (vacRun cs g dbm rest (step cs g dbm w 0 m s).st).2 = q' at *
    rw [e1] at i1 i3 ⊢
    have hsq : dt ^ 2 ≤ cs * dt := by nlinarith
    have e : s.time + dt - s.time = dt := by ring
    rw [e]
    refine ⟨by linarith, by positivity, ?_⟩
    have : cs * (s'.time - s.time) = cs * (s'.time - (s.time + dt)) + cs * dt := by ring
    rw [this]; linarith

private theorem vac_time_lt (cs g : ℝ) (hcs : 0 < cs) (dbm : ℝ → ℝ) (wm : Vec ℝ × ℝ) (ws : List (Vec ℝ × ℝ))
    (s : St ℝ) : s.time < (vacRun cs g dbm (wm :: ws) s).1.time := by
  obtain ⟨w, m⟩ := wm
  obtain ⟨dt, -, hdt, e1, -⟩ := vac_step cs g dbm w m s
  have hb := (vac_bounds cs g hcs.le dbm ws (step cs g dbm w 0 m s).st).1
  simp only [vacRun]
  rw [e1] at hb
  linarith [hdt hcs]

/-- **C01_vacuum_closed_form** (full, all n, all step-size sequences): in a vacuum the numerical
    trajectory after any number of steps is the closed-form parabola in x, z and velocity, and in y the
    parabola plus the explicit first-order term (g/2)·Σdt². -/
theorem C01_vacuum_closed_form (cs g : ℝ) (dbm : ℝ → ℝ) (ws : List (Vec ℝ × ℝ)) (s : St ℝ) :
    let s' := (vacRun cs g dbm ws s).1
    let q := (vacRun cs g dbm ws s).2
    let t := s'.time - s.time
    s'.vel = ⟨s.vel.x, s.vel.y + g * t, s.vel.z⟩ ∧
    s'.pos.x = s.pos.x + s.vel.x * t ∧
    s'.pos.z = s.pos.z + s.vel.z * t ∧
    s'.pos.y = s.pos.y + s.vel.y * t + g * t ^ 2 / 2 + g / 2 * q := by
  intro s' q t
  obtain ⟨i1, i2, i3, i4, i5, i6⟩ := vac_closed cs g dbm ws s
  exact ⟨vec_ext i1 i2 i3, i4, i5, i6⟩

/-- **C01_vacuum_bound** (full): the deviation from the parabola is at most |g|/2 · calc_step · t. -/
theorem C01_vacuum_bound (cs g : ℝ) (hcs : 0 ≤ cs) (dbm : ℝ → ℝ) (ws : List (Vec ℝ × ℝ)) (s : St ℝ) :
    let s' := (vacRun cs g dbm ws s).1
    let q := (vacRun cs g dbm ws s).2
    let t := s'.time - s.time
    0 ≤ t ∧ 0 ≤ q ∧ q ≤ cs * t ∧
    |s'.pos.y - (s.pos.y + s.vel.y * t + g * t ^ 2 / 2)| ≤ |g| / 2 * cs * t := by
  intro s' q t
  obtain ⟨-, -, -, -, -, i6⟩ := vac_closed cs g dbm ws s
  obtain ⟨b1, b2, b3⟩ := vac_bounds cs g hcs dbm ws s
  refine ⟨b1, b2, b3, ?_⟩
  have e : s'.pos.y - (s.pos.y + s.vel.y * t + g * t ^ 2 / 2) = g / 2 * q := by
    simp only [s', t, q]; rw [i6]; ring
  rw [e, abs_mul, abs_div, abs_two, abs_of_nonneg b2]
  have hg : 0 ≤ |g| / 2 := by positivity
  calc |g| / 2 * q ≤ |g| / 2 * (cs * t) := mul_le_mul_of_nonneg_left b3 hg
    _ = |g| / 2 * cs * t := by ring

/-! non-vacuity -/
example : (vacRun 0.25 (-32.17405) (fun _ => 0) [(⟨0, 0, 0⟩, 1116), (⟨5, 0, 3⟩, 1116)] ⟨⟨0, 0, 0⟩, ⟨2800, 10, 0⟩, 0⟩).1.time ≠ 0 := by
  have h := vac_time_lt 0.25 (-32.17405) (by norm_num) (fun _ => 0) (⟨0, 0, 0⟩, 1116) [(⟨5, 0, 3⟩, 1116)]
    ⟨⟨0, 0, 0⟩, ⟨2800, 10, 0⟩, 0⟩
  exact ne_of_gt h

/-! ### convergence (partial): discrete Lax / Grönwall -/

/-- **C01_converges_partial** (partial: stability and consistency of the step map are hypotheses): for ANY one-step scheme
    `Φ` on a state space with a distance `d` (non-negative, zero on the diagonal, triangle inequality), if `Φ` expands distances
    by at most `1 + ρ` per step (stability: Lipschitz right-hand side) and the exact solution sampled along the scheme's own
    steps is reproduced by one step up to `ε` (consistency: local truncation error), then after `n` steps the numerical
    state is within `ε · n · exp(ρ n)` of the exact one. -/
theorem C01_converges_partial {X : Type} (d : X → X → ℝ) (hd0 : ∀ a, d a a = 0) (hnn : ∀ a b, 0 ≤ d a b)
    (htri : ∀ a b c, d a c ≤ d a b + d b c)
    (Φ : X → X) (s y : ℕ → X) (ρ ε : ℝ) (hρ : 0 ≤ ρ) (hε : 0 ≤ ε)
    (hs : ∀ k, s (k + 1) = Φ (s k)) (h0 : s 0 = y 0)
    (hstab : ∀ a b, d (Φ a) (Φ b) ≤ (1 + ρ) * d a b)
    (hcons : ∀ k, d (Φ (y k)) (y (k + 1)) ≤ ε) :
    ∀ n : ℕ, d (s n) (y n) ≤ ε * n * Real.exp (ρ * n) := by
  have _ := hnn
  apply BC.Lemmas.C01Conv.gronwall_exp (fun k => d (s k) (y k)) ρ ε hρ hε
  · show d (s 0) (y 0) ≤ 0
    rw [h0, hd0]
  · intro k
    show d (s (k + 1)) (y (k + 1)) ≤ (1 + ρ) * d (s k) (y k) + ε
    rw [hs k]
    have h1 := htri (Φ (s k)) (Φ (y k)) (y (k + 1))
    have h2 := hstab (s k) (y k)
    have h3 := hcons k
    linarith

/-- first order in the step: with `ρ = L·h` and `ε = C·h²` (Lipschitz constant `L`, local error constant `C`, time step at
    most `h`), the error after `n` steps is at most `C · h · T · exp(L T)` with `T = n·h` the elapsed (pseudo-)time. -/
theorem C01_first_order {X : Type} (d : X → X → ℝ) (hd0 : ∀ a, d a a = 0) (hnn : ∀ a b, 0 ≤ d a b)
    (htri : ∀ a b c, d a c ≤ d a b + d b c)
    (Φ : X → X) (s y : ℕ → X) (L C h : ℝ) (hL : 0 ≤ L) (hC : 0 ≤ C) (hh : 0 ≤ h)
    (hs : ∀ k, s (k + 1) = Φ (s k)) (h0 : s 0 = y 0)
    (hstab : ∀ a b, d (Φ a) (Φ b) ≤ (1 + L * h) * d a b)
    (hcons : ∀ k, d (Φ (y k)) (y (k + 1)) ≤ C * h ^ 2) :
    ∀ n : ℕ, d (s n) (y n) ≤ C * h * (n * h) * Real.exp (L * (n * h)) := by
  intro n
  have h1 := C01_converges_partial d hd0 hnn htri Φ s y (L * h) (C * h ^ 2) (mul_nonneg hL hh)
    (mul_nonneg hC (pow_nonneg hh 2)) hs h0 hstab hcons n
  have e1 : L * h * (n : ℝ) = L * (n * h) := by ring
  have e2 : C * h ^ 2 * (n : ℝ) = C * h * (n * h) := by ring
  rw [e1, e2] at h1
  exact h1

/-- the scheme the theorem is applied to: the model's step in a fixed environment (constant wind `w`, density ratio
    `density`, sound speed `mach`) -/
noncomputable def stepMap (cs g : ℝ) (dbm : ℝ → ℝ) (w : Vec ℝ) (density mach : ℝ) : St ℝ → St ℝ :=
  fun s => (step cs g dbm w density mach s).st

/-- **C01_model_converges_partial** (partial; instance): the numerical trajectory `stepMap^[n]` of the model satisfies the
    convergence theorem for every distance on states for which the step map is stable and consistent. -/
theorem C01_model_converges_partial (cs g : ℝ) (dbm : ℝ → ℝ) (w : Vec ℝ) (density mach : ℝ)
    (d : St ℝ → St ℝ → ℝ) (hd0 : ∀ a, d a a = 0) (hnn : ∀ a b, 0 ≤ d a b)
    (htri : ∀ a b c, d a c ≤ d a b + d b c)
    (y : ℕ → St ℝ) (ρ ε : ℝ) (hρ : 0 ≤ ρ) (hε : 0 ≤ ε)
    (hstab : ∀ a b, d (stepMap cs g dbm w density mach a) (stepMap cs g dbm w density mach b) ≤ (1 + ρ) * d a b)
    (hcons : ∀ k, d (stepMap cs g dbm w density mach (y k)) (y (k + 1)) ≤ ε) :
    ∀ n : ℕ, d ((stepMap cs g dbm w density mach)^[n] (y 0)) (y n) ≤ ε * n * Real.exp (ρ * n) :=
  C01_converges_partial d hd0 hnn htri (stepMap cs g dbm w density mach)
    (fun n => (stepMap cs g dbm w density mach)^[n] (y 0)) y ρ ε hρ hε
    (fun k => Function.iterate_succ_apply' _ k _) rfl hstab hcons

/-! non-vacuity: explicit Euler for `y' = -y` on ℝ with `|a − b|`; `1 − h` contracts, the exact samples are the
    numerical ones (ε = 0), so the hypotheses hold together with a non-trivial `Φ`; and a scheme with a genuine
    local error: `Φ a = a`, `y k = k·ε`. -/
example (n : ℕ) : |((fun a : ℝ => a + (1/2) * (-a))^[n] 1) - ((fun a : ℝ => a + (1/2) * (-a))^[n] 1)|
    ≤ 0 * n * Real.exp (0 * n) :=
  C01_converges_partial (fun a b : ℝ => |a - b|) (fun a => by simp) (fun a b => abs_nonneg _)
    (fun a b c => abs_sub_le a b c) (fun a : ℝ => a + (1/2) * (-a))
    (fun n => (fun a : ℝ => a + (1/2) * (-a))^[n] 1) (fun n => (fun a : ℝ => a + (1/2) * (-a))^[n] 1)
    0 0 le_rfl le_rfl (fun k => Function.iterate_succ_apply' _ k _) rfl
    (fun a b => by
      have e : a + 1 / 2 * -a - (b + 1 / 2 * -b) = (1/2) * (a - b) := by ring
      simp only [e, abs_mul]
      have : |(1/2 : ℝ)| = 1/2 := abs_of_pos (by norm_num)
      rw [this]
      have := abs_nonneg (a - b)
      linarith)
    (fun k => by
      simp only [Function.iterate_succ_apply']
      simp) n

example (ε : ℝ) (hε : 0 ≤ ε) (n : ℕ) : |(0:ℝ) - n * ε| ≤ ε * n * Real.exp (0 * n) :=
  C01_converges_partial (fun a b : ℝ => |a - b|) (fun a => by simp) (fun a b => abs_nonneg _)
    (fun a b c => abs_sub_le a b c) id (fun _ => 0) (fun k => k * ε) 0 ε le_rfl hε (fun _ => rfl) (by simp)
    (fun a b => by simp)
    (fun k => by
      have e : id ((k : ℝ) * ε) - ((k + 1 : ℕ) : ℝ) * ε = -ε := by push_cast; simp only [id]; ring
      show |id ((k : ℝ) * ε) - ((k + 1 : ℕ) : ℝ) * ε| ≤ ε
      rw [e, abs_neg, abs_of_nonneg hε]) n

end BC.Props.C01
