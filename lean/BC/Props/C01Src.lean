/-
  BC.Props.C01 (source ties) — the integration step, the vector algebra, the wind vector, the barrel direction and the
  retardation law, as REGENERATED from their Python bodies (translate/t_funcs.py, `BC.Gen.Src.*`), are the model functions the
  C01 theorems are about (`C01_step_is_scheme` … are statements about `Model.step`).  Generic in the number type; core-only.
-/
import BC.Gen.Funcs
import BC.Model.Traj
namespace BC.Props.C01
open BC BC.Gen BC.Model
set_option linter.unusedSectionVars false

section
variable {α : Type} [Add α] [Sub α] [Mul α] [Div α] [Neg α] [OfScientific α]
  [LT α] [DecidableLT α] [LE α] [DecidableLE α] [Fn α]

/-- the statements of the `while` loop of `TrajectoryCalc._integrate` from `velocity_adjusted = velocity_vector - wind_vector`
    to `time += delta_time`, executed symbolically (Vector operators and `magnitude` inlined from vector/_vector.py,
    `self.gravity_vector` from `__init__`, `self.drag_by_mach` abstract), ARE the model's step — by definitional unfolding. -/
theorem C01_src_step (calcStep gravity : α) (dbm : α → α) (wind : Vec α) (density mach : α) (s : St α) :
    Src.step calcStep gravity dbm wind density mach s = step calcStep gravity dbm wind density mach s := rfl

/-- the state `_integrate` starts from: muzzle displaced by the canted sight height, launch along the barrel direction -/
theorem C01_src_initial_state (r : Run α) (barrelElevation : α) :
    Src.initial_state r barrelElevation = initialState r barrelElevation := rfl

theorem C01_src_vec_magnitude (v : Vec α) : Src.vec_magnitude v = v.mag := rfl
theorem C01_src_vec_mul_by_const (v : Vec α) (c : α) : Src.vec_mul_by_const v c = v.smul c := rfl
theorem C01_src_vec_add (v w : Vec α) : Src.vec_add v w = v.add w := rfl
theorem C01_src_vec_sub (v w : Vec α) : Src.vec_sub v w = v.sub w := rfl
/-- `Wind.vector` from the raw speed (m/s) and raw direction (rad) -/
theorem C01_src_wind_vector (v d : α) : Src.wind_vector v d = windVector v d := rfl
/-- `Shot.barrel_elevation` / `barrel_azimuth` (raw radians of the returned quantities) -/
theorem C01_src_barrel_elevation (s : ShotRaw α) :
    Src.barrel_elevation s.lookAngle s.cantAngle s.zeroElevation s.relativeAngle = barrelElevationOf s := rfl
theorem C01_src_barrel_azimuth (s : ShotRaw α) :
    Src.barrel_azimuth s.cantAngle s.zeroElevation s.relativeAngle = barrelAzimuthOf s := rfl
/-- `drag_by_mach`: the curve look-up (C09) times `2.08551e-4 / BC` -/
theorem C01_src_drag_by_mach [Inhabited α] (t : DragTable α) (bc m : α) :
    Src.drag_by_mach (t.cd m) bc = t.dragByMach bc m := rfl

end
end BC.Props.C01
