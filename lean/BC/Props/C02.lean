/-
  C02 — zeroing returns an elevation that actually hits the point of aim.
  Subject: `zeroLoop` / `zeroAngle` in BC.Model.Traj, generic in the height function `heightAt`.
-/
import Mathlib.Tactic.Ring
import Mathlib.Tactic.Linarith
import Mathlib.Tactic.NormNum
import BC.Real
import BC.Model.Traj
import BC.Lemmas.Loop
import BC.Lemmas.C02

namespace BC.Props.C02
open BC BC.Model BC.Lemmas.Loop

/-- **C02_returned_meets_accuracy** (full): whenever the zero finder returns an elevation, the signed miss
    evaluated AT THAT ELEVATION — height of the trajectory interpolated at the zero distance minus the height of the
    sight line there — is within the zero-finding accuracy (for a positive accuracy, starting as `zero_angle` does
    with error 2·accuracy and 0 iterations). -/
theorem C02_returned_meets_accuracy (cfg : Config ℝ) (missAt : ℝ → Except (Err ℝ) ℝ) (X el0 e : ℝ)
    (fuel : Nat) (hacc : 0 < cfg.zeroAccuracy)
    (h : zeroLoop cfg missAt X fuel 0 (cfg.zeroAccuracy * 2.0) el0 = .ok e) :
    ∃ miss, missAt e = .ok miss ∧ |miss| ≤ cfg.zeroAccuracy := by
  rcases zeroLoop_ok cfg missAt X _ _ _ _ _ h with ⟨h1, _⟩ | h1
  · norm_num at h1; linarith
  · exact h1

/-- **C02_error_otherwise** (full): when it does not return an angle it raises: either an error propagated
    unchanged from a trajectory computation (e.g. the range error for a target out of reach), or the zero-finding
    error carrying an error above the accuracy — never an angle that misses. -/
theorem C02_error_otherwise (cfg : Config ℝ) (missAt : ℝ → Except (Err ℝ) ℝ) (X el0 : ℝ)
    (fuel : Nat) (x : Err ℝ) (hacc : 0 < cfg.zeroAccuracy)
    (h : zeroLoop cfg missAt X fuel 0 (cfg.zeroAccuracy * 2.0) el0 = .error x) :
    (∃ e', missAt e' = .error x) ∨
    (∃ err iters el, x = .zeroFinding err iters el ∧ cfg.zeroAccuracy < err ∧ iters ≤ cfg.maxIterations) := by
  have _ := hacc
  exact zeroLoop_error cfg missAt X _ _ _ _ _ (Nat.zero_le _) h

/-- the update of `zero_angle`: a Newton-like step, `d height / d elevation = distance / cos²(elevation)` -/
noncomputable def nextEl (missOf : ℝ → ℝ) (X e : ℝ) : ℝ := e - missOf e / X * Real.cos e ^ (2:ℝ)

/-- the iterates of that update -/
noncomputable def elAt (missOf : ℝ → ℝ) (X e0 : ℝ) : Nat → ℝ
  | 0 => e0
  | n + 1 => nextEl missOf X (elAt missOf X e0 n)

/-- along the iterates the miss is at most `q^n` times the first miss -/
private theorem miss_bound (missOf : ℝ → ℝ) (X e0 q : ℝ) (hq0 : 0 ≤ q)
    (hcontr : ∀ n, |missOf (elAt missOf X e0 (n + 1))| ≤ q * |missOf (elAt missOf X e0 n)|) :
    ∀ n, |missOf (elAt missOf X e0 n)| ≤ q ^ n * |missOf e0| := by
  intro n
  induction n with
  | zero => simp [elAt]
  | succ n ih =>
    calc |missOf (elAt missOf X e0 (n + 1))|
        ≤ q * |missOf (elAt missOf X e0 n)| := hcontr n
      _ ≤ q * (q ^ n * |missOf e0|) := mul_le_mul_of_nonneg_left ih hq0
      _ = q ^ (n + 1) * |missOf e0| := by ring

/-- the loop invariant: after `n` iterations with `fuel ≥ 1` iterations left (`n + fuel = maxIterations`) and
    an error still above the accuracy, the loop, now at the `n`-th iterate, returns an elevation. -/
private theorem zeroLoop_conv (cfg : Config ℝ) (missOf : ℝ → ℝ) (X e0 q : ℝ)
    (hq0 : 0 ≤ q)
    (hcontr : ∀ n, |missOf (elAt missOf X e0 (n + 1))| ≤ q * |missOf (elAt missOf X e0 n)|)
    (hsmall : q ^ (cfg.maxIterations - 1) * |missOf e0| ≤ cfg.zeroAccuracy) :
    ∀ (fuel n : Nat) (err : ℝ), n + fuel = cfg.maxIterations → 1 ≤ fuel → cfg.zeroAccuracy < err →
      ∃ e, zeroLoop cfg (fun e => .ok (missOf e)) X fuel n err (elAt missOf X e0 n) = .ok e := by
  intro fuel
  induction fuel with
  | zero => intro n err _ h; omega
  | succ fuel ih =>
    intro n err hn _ herr
    unfold zeroLoop
    rw [if_pos ⟨herr, by omega⟩]
    simp only [fn_abs, fn_pow, fn_cos]
    split_ifs with h3
    · have hb := miss_bound missOf X e0 q hq0 hcontr n
      have hf : 1 ≤ fuel := by
        rcases Nat.eq_zero_or_pos fuel with h0 | h0
        · exfalso
          have hn' : n = cfg.maxIterations - 1 := by omega
          rw [hn'] at hb h3
          linarith
        · exact h0
      have h20 : (2.0:ℝ) = 2 := by norm_num
      have := ih (n + 1) _ (by omega) hf h3
      simpa [elAt, nextEl, h20] using this
    · exact ⟨_, rfl⟩

/-- **C02_converges_partial** (partial: convergence of the iteration on the real height function is a hypothesis):
    if every trajectory computation succeeds and the miss contracts by a factor `q` per iteration
    along the iterates, and `q^(maxIterations-1)` times the first miss is within the accuracy, the zero finder
    returns an elevation (it does not fail). -/
theorem C02_converges_partial (cfg : Config ℝ) (missOf : ℝ → ℝ) (X e0 q : ℝ)
    (hacc : 0 < cfg.zeroAccuracy) (hq0 : 0 ≤ q) (hmax : 1 ≤ cfg.maxIterations)
    (hcontr : ∀ n, |missOf (elAt missOf X e0 (n + 1))| ≤ q * |missOf (elAt missOf X e0 n)|)
    (hsmall : q ^ (cfg.maxIterations - 1) * |missOf e0| ≤ cfg.zeroAccuracy) :
    ∃ e, zeroLoop cfg (fun e => .ok (missOf e)) X cfg.maxIterations 0 (cfg.zeroAccuracy * 2.0) e0 = .ok e := by
  exact zeroLoop_conv cfg missOf X e0 q hq0 hcontr hsmall cfg.maxIterations 0
    (cfg.zeroAccuracy * 2.0) (by omega) hmax (by norm_num; linarith)

/-- what `set_weapon_zero` stores: the new zero on success, the OLD value when zeroing raised -/
noncomputable def storedZero (old look : ℝ) (res : Except (Err ℝ) ℝ) : ℝ :=
  match res with
  | .ok total => total - look
  | .error _ => old

/-- **C02_failed_zero_leaves_weapon** (full): a failed attempt leaves the stored zero untouched; a successful
    one stores total elevation minus look angle. -/
theorem C02_failed_zero_leaves_weapon (old look : ℝ) (res : Except (Err ℝ) ℝ) :
    (∀ x, res = .error x → storedZero old look res = old) ∧
    (∀ e, res = .ok e → storedZero old look res = e - look) := by
  constructor
  · rintro x rfl; rfl
  · rintro e rfl; rfl

/-- **C02_zero_angle_def** (full): `zero_angle` aims at the point on the sight line at the given look-distance:
    it runs to the horizontal distance `cos(look)·d`, recorded with that distance as step, and the miss it drives to
    zero is the height of the SECOND row (the trajectory interpolated at that distance) minus `tan(look)` times that
    row's own distance — the height of the sight line there. -/
theorem C02_zero_angle_def (r : Run ℝ) (e0 d : ℝ) (fuel sf : Nat) :
    zeroAngle r e0 d fuel sf =
      zeroLoop r.cfg (zeroMiss r (Real.cos r.proj.lookAngle * d) fuel sf) (Real.cos r.proj.lookAngle * d)
        r.cfg.maxIterations 0 (r.cfg.zeroAccuracy * 2.0) e0 ∧
    ∀ e rows row0 row1 rest, integrate r e (Real.cos r.proj.lookAngle * d) (Real.cos r.proj.lookAngle * d) fRANGE 0.0 fuel sf
        = .ok rows → rows = row0 :: row1 :: rest →
      zeroMiss r (Real.cos r.proj.lookAngle * d) fuel sf e =
        .ok (feetOf row1.height - Real.tan r.proj.lookAngle * feetOf row1.distance) := by
  constructor
  · unfold zeroAngle
    simp only [fn_cos]
  · intro e rows row0 row1 rest h hr
    subst hr
    simp only [zeroMiss, h, fn_tan]

/-- **C02_hits_sight_line** (full): when zeroing returns an elevation `e`, the trajectory then fired with `e` to the aim
    point's horizontal distance, recorded with that distance as step, has as its second row the trajectory interpolated
    at the aim distance, and that row's distance from the sight line (`target_drop`, raw inches) is at most the
    zero-finding accuracy times |cos(look)| — for level, uphill and downhill sight lines alike, whatever the wind. -/
theorem C02_hits_sight_line (r : Run ℝ) (e0 d e : ℝ) (fuel sf : Nat) (hacc : 0 < r.cfg.zeroAccuracy)
    (h : zeroAngle r e0 d fuel sf = .ok e) :
    ∃ row0 row1 rest,
      integrate r e (Real.cos r.proj.lookAngle * d) (Real.cos r.proj.lookAngle * d) fRANGE 0.0 fuel sf
        = .ok (row0 :: row1 :: rest) ∧
      |row1.targetDrop| ≤ r.cfg.zeroAccuracy * |Real.cos r.proj.lookAngle| * 12 := by
  rw [(C02_zero_angle_def r e0 d fuel sf).1] at h
  obtain ⟨miss, hmiss, hle⟩ := C02_returned_meets_accuracy r.cfg _ _ e0 e _ hacc h
  unfold zeroMiss at hmiss
  split at hmiss
  · cases hmiss
  rename_i rows hint
  split at hmiss
  · rename_i row0 row1 rest
    simp only [Except.ok.injEq, fn_tan] at hmiss
    refine ⟨row0, row1, rest, hint, ?_⟩
    have htd := BC.Lemmas.C02.integrate_rows_targetDrop hint row1 (by simp)
    have hm : row1.targetDrop = miss * Real.cos r.proj.lookAngle * 12 := by
      rw [htd, ← hmiss]; ring
    rw [hm, abs_mul, abs_mul, abs_of_pos (by norm_num : (0:ℝ) < 12)]
    have hc : 0 ≤ |Real.cos r.proj.lookAngle| := abs_nonneg _
    nlinarith [mul_le_mul_of_nonneg_right hle hc]
  · cases hmiss

/-- **C02_starts_on_sight_line** (full): the search the code runs starts at the look angle; every theorem above holds for
    any start, hence for this one. -/
theorem C02_starts_on_sight_line (r : Run ℝ) (d : ℝ) (fuel sf : Nat) :
    zeroAngleOfShot r d fuel sf = zeroAngle r r.proj.lookAngle d fuel sf := rfl

/-- **C02_independent_of_stored_zero** (full): for an un-canted shot the outcome of zeroing (the angle, or the error with its
    payload) does not depend on the zero elevation the weapon stored before, nor on the shot's hold-over: two shots that
    differ in nothing else are zeroed alike. -/
theorem C02_independent_of_stored_zero (cfg : Config ℝ) (s : ShotRaw ℝ) (t : DragTable ℝ) (z' rel' d : ℝ) (fuel sf : Nat)
    (hcant : s.cantAngle = 0) :
    zeroAngleOfShot (Run.ofShot cfg { s with zeroElevation := z', relativeAngle := rel' } t) d fuel sf =
      zeroAngleOfShot (Run.ofShot cfg s t) d fuel sf := by
  have h : Run.ofShot cfg { s with zeroElevation := z', relativeAngle := rel' } t = Run.ofShot cfg s t := by
    simp only [Run.ofShot, barrelAzimuthOf, hcant, fn_sin, Real.sin_zero, zero_mul]
  rw [h]

end BC.Props.C02
