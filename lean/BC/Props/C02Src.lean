/-
  BC.Props.C02 (source ties) — `TrajectoryCalc.zero_angle` as slices executed symbolically from the Python source on every run
  (translate/t_funcs.py): start elevation (the sight line), zero distance, initial error and count, loop condition, the error and the
  corrected elevation computed from the second row of the trial trajectory
  `self._integrate(shot_info, zero_distance, zero_distance, TrajFlag.RANGE)[1]` (that call, the `break`, the counter increment and
  the raised `ZeroFindingError(err, iterations, elevation)` are matched structurally by the translator), the final verdict — equal the
  pieces of the model's `zeroLoop / zeroMiss / zeroAngle / zeroAngleOfShot`.  Core-only, generic in the number type.
-/
import BC.Gen.Funcs
import BC.Model.Traj
namespace BC.Props.C02
open BC BC.Gen BC.Model
set_option linter.unusedSectionVars false

section
variable {α : Type} [Add α] [Sub α] [Mul α] [Div α] [Neg α] [OfScientific α]
  [LT α] [DecidableLT α] [LE α] [DecidableLE α] [Fn α]

/-- the signed miss of a trial trajectory whose second row is `row` -/
def rowMiss (look : α) (row : Row α) : α := feetOf row.height - Fn.tan look * feetOf row.distance

theorem C02_src_zero_error (look : α) (row : Row α) : Src.zero_error look row = Fn.abs (rowMiss look row) := rfl

theorem C02_src_zero_correct (look : α) (row : Row α) (zd el : α) :
    Src.zero_correct look row zd el = el - rowMiss look row / zd * Fn.pow (Fn.cos el) 2.0 := rfl

/-- one unfolding of the model's search loop, written with the pieces of the source: condition, miss test, correction,
    `break`, and the verdict after the loop -/
theorem C02_src_zero_loop_step (cfg : Config α) (missAt : α → Except (Err α) α) (zd : α) (fuel iters : Nat) (err el : α) :
    zeroLoop cfg missAt zd (fuel + 1) iters err el =
      if Src.zero_cond cfg.zeroAccuracy cfg.maxIterations err iters then
        match missAt el with
        | .error e => .error e
        | .ok miss =>
          if Src.zero_missed cfg.zeroAccuracy (Fn.abs miss) then
            zeroLoop cfg missAt zd fuel (iters + 1) (Fn.abs miss) (el - miss / zd * Fn.pow (Fn.cos el) 2.0)
          else .ok el
      else if Src.zero_fails cfg.zeroAccuracy err then .error (.zeroFinding err iters el) else .ok el := by
  conv => lhs; unfold zeroLoop
  rfl

theorem C02_src_zero_loop_end (cfg : Config α) (missAt : α → Except (Err α) α) (zd : α) (iters : Nat) (err el : α) :
    zeroLoop cfg missAt zd 0 iters err el =
      if Src.zero_fails cfg.zeroAccuracy err then .error (.zeroFinding err iters el) else .ok el := by
  conv => lhs; unfold zeroLoop

/-- `zero_angle`: zero distance, initial error and count are those of the source; the search starts on the sight line -/
theorem C02_src_zero_angle (r : Run α) (be distFt : α) (fuel skipFuel : Nat) :
    zeroAngle r be distFt fuel skipFuel =
      zeroLoop r.cfg (zeroMiss r (Src.zero_distance r.proj.lookAngle distFt) fuel skipFuel)
        (Src.zero_distance r.proj.lookAngle distFt) r.cfg.maxIterations Src.zero_initial_count
        (Src.zero_initial_error r.cfg.zeroAccuracy) be := rfl

theorem C02_src_zero_start (r : Run α) (distFt : α) (fuel skipFuel : Nat) :
    zeroAngleOfShot r distFt fuel skipFuel = zeroAngle r (Src.zero_start r.proj.lookAngle) distFt fuel skipFuel := rfl

theorem C02_src_zero_result (el : α) : Src.zero_result el = el := rfl

/-- the miss the model's `zeroMiss` takes from the second row is the one the source computes -/
theorem C02_src_zero_miss (r : Run α) (zd : α) (fuel skipFuel : Nat) (e : α) (r0 row : Row α) (rest : List (Row α))
    (h : integrate r e zd zd fRANGE 0.0 fuel skipFuel = .ok (r0 :: row :: rest)) :
    zeroMiss r zd fuel skipFuel e = .ok (rowMiss r.proj.lookAngle row) := by
  unfold zeroMiss; rw [h]; rfl

/-- `Calculator.barrel_elevation_for_target` / `set_weapon_zero`: what is stored is the total elevation returned by `zero_angle` minus
    the look angle (and only when `zero_angle` returned: the assignment `shot.weapon.zero_elevation = …` follows the call, matched
    structurally) — the `storedZero` of `C02_failed_zero_leaves_weapon` -/
theorem C02_src_stored_zero (total look : α) : Src.stored_zero total look = total - look := rfl

end
end BC.Props.C02
