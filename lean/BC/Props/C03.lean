/-
  C03 — the range card has exactly one row at every requested distance, muzzle to range.
  Subject: BC.Model.Traj (`integrate`, `loop`, `iterate`, `recordStep`, `TFilter.shouldRecord`,
  `physStep`, `physIter`, `initialState`), for an ARBITRARY environment (any physics).
-/
import Mathlib.Tactic.Ring
import Mathlib.Tactic.Linarith
import Mathlib.Tactic.NormNum
import BC.Real
import BC.Model.Traj
import BC.Lemmas.C03
import BC.Lemmas.C03Ex

namespace BC.Props.C03
open BC BC.Model BC.Lemmas.C03

/-- Along the physical state sequence of the shot the projectile keeps moving forward, each integration
    step advancing it down-range by more than 0 and at most `adv`; time advances too; and no row creation
    divides by zero (the speed of sound delivered by the environment is never 0). -/
def Forward (r : Run ℝ) (e adv : ℝ) : Prop :=
  ∀ n s ws p, physIter r n (initialState r e) (WindSock.init r.winds r.maxWindDist) = some (s, ws) →
    physStep r s ws = some p →
      s.pos.x < p.out.st.pos.x ∧ p.out.st.pos.x - s.pos.x ≤ adv ∧ s.time < p.out.st.time ∧ p.mach ≠ 0

/-- **C03_rows_exact** (full, for every state sequence satisfying `Forward`): a completed plain request with
    recording step `step` (`0 < step ≤ range`, per-step advance at most `adv ≤ step` — "recording step not smaller than
    the integration advance") returns exactly the rows at distances `0, step, 2·step, …, K·step` (raw inches = feet × 12),
    one each, in order; every multiple up to the requested range is among them and at most the multiples within
    `max(adv, min(calc_step, step))` beyond it; times strictly increase; the first row is the muzzle state (time 0,
    distance 0, launch speed, height = canted sight offset).  No relation between the advance and `calc_step` is
    needed: the loop does not stop before the filter has seen a state at or beyond the range. -/
theorem C03_rows_exact (r : Run ℝ) (e maxRange step adv : ℝ) (fuel sf : Nat) (rows : List (Row ℝ))
    (hstep : 0 < step) (hrange : step ≤ maxRange) (hcs : 0 < r.cfg.calcStep) (hadv : adv ≤ step)
    (hfwd : Forward r e adv)
    (h : integrate r e maxRange step fRANGE 0 fuel sf = .ok rows) :
    ∃ K : Nat, 1 ≤ K ∧ rows.length = K + 1 ∧
      (∀ k, k ≤ K → (rows.getD k default).distance = (k : ℝ) * step * 12) ∧
      maxRange < ((K : ℝ) + 1) * step ∧ (K : ℝ) * step ≤ maxRange + max adv (minOf r.cfg.calcStep step) ∧
      (∀ k, k < K → (rows.getD k default).time < (rows.getD (k + 1) default).time) ∧
      (rows.getD 0 default).time = 0 ∧
      (rows.getD 0 default).height = (initialState r e).pos.y * 12 ∧
      (rows.getD 0 default).velocity = (initialState r e).vel.mag / 3.2808399 ∧
      (∀ k, k ≤ K → (rows.getD k default).flag.range = true) :=
  rows_exact r e maxRange step adv fuel sf rows hstep hrange hcs hadv hfwd h

/-- Non-vacuity of `C03_rows_exact`: its hypotheses are jointly satisfiable (run `rEx` of `BC/Lemmas/C03Ex.lean`:
    no drag, no gravity, unit speed along x, unit advance; range 1, step 1). -/
example : ∃ (r : Run ℝ) (e maxRange step adv : ℝ) (fuel sf : Nat) (rows : List (Row ℝ)),
    0 < step ∧ step ≤ maxRange ∧ 0 < r.cfg.calcStep ∧ adv ≤ step ∧ Forward r e adv ∧
    integrate r e maxRange step fRANGE 0 fuel sf = .ok rows := by
  obtain ⟨rows, h⟩ := integrate_ex 1 1 3 0 (by norm_num) (by norm_num) (by norm_num)
  exact ⟨rEx, 0, 1, 1, 1, 4, 0, rows, by norm_num, le_refl _, by rw [calcStep_ex]; norm_num, le_refl _,
    fwd_ex 1 (le_refl _), h⟩

/-- **C03_loop_exit** (full): the loop stops exactly when the current state lies beyond `range + min_step` AND the
    last state handed to the filter had already reached the range (`last_x ≥ maximum_range`); otherwise it goes on. -/
theorem C03_loop_exit_no_record (r : Run ℝ) (ff : Flags) (sf : Nat) (bound maxRange : ℝ) (fuel : Nat) (l : LoopSt ℝ)
    (hx : bound < l.s.pos.x) (hlast : maxRange ≤ l.lastX) : loop r ff sf bound maxRange (fuel + 1) l = .ok l := by
  unfold loop
  rw [if_neg (by rw [not_or, not_le, not_lt]; exact ⟨hx, hlast⟩)]

/-- **C03_time_step_gap** (full, one-step form): with a time step `τ > 0`, whenever more than `τ` has elapsed
    since the last record and the distance trigger does not fire, the current state is recorded (flag RANGE):
    so two successive rows are never further apart in time than `τ` plus the integration steps straddling them. -/
theorem C03_time_step_records (f : TFilter ℝ) (sf : Nat) (pos vel : Vec ℝ) (mach time : ℝ)
    (hτ : 0 < f.timeStep) (hmask : f.filter.range = true) (hcur : f.currentFlag = fNONE)
    (hno : ¬ (0 < f.rangeStep ∧ f.nextRecordDistance ≤ pos.x))
    (hlate : f.timeOfLastRecord + f.timeStep < time) :
    (f.shouldRecord sf pos vel mach time).2 = some ⟨time, pos, vel, mach⟩ ∧
    (f.shouldRecord sf pos vel mach time).1.currentFlag.range = true ∧
    (f.shouldRecord sf pos vel mach time).1.timeOfLastRecord = time := by
  have _ := hcur
  rw [shouldRecord_eq, trigger_time f sf pos vel mach time hτ hno hlate]
  dsimp only
  refine ⟨?_, by simp, by simp⟩
  rw [finish_data_range]
  · rfl
  · exact hmask
  · rfl

/-- **C03_default_step** (full): with no step given the step is one tenth of the range, so under the
    hypotheses of `C03_rows_exact` the result has the rows at `k·range/10`; in exact arithmetic that is 11 rows
    when the advance per step is smaller than a tenth of the range. -/
theorem C03_default_step (r : Run ℝ) (e maxRange : ℝ) (fuel sf : Nat) (rows : List (Row ℝ))
    (hrange : 0 < maxRange) (hcs : 0 < r.cfg.calcStep) (hsmall : r.cfg.calcStep < maxRange / 10)
    (adv : ℝ) (hadv : adv < maxRange / 10) (hfwd : Forward r e adv)
    (h : integrate r e maxRange (maxRange / 10) fRANGE 0 fuel sf = .ok rows) :
    rows.length = 11 ∧ ∀ k, k ≤ 10 → (rows.getD k default).distance = (k : ℝ) * (maxRange / 10) * 12 := by
  have hstep : 0 < maxRange / 10 := by linarith
  obtain ⟨K, _, hlen, hdist, hlo, hhi, _⟩ :=
    C03_rows_exact r e maxRange (maxRange / 10) adv fuel sf rows hstep (by linarith) hcs hadv.le hfwd h
  have hmin : minOf r.cfg.calcStep (maxRange / 10) ≤ r.cfg.calcStep := minOf_le_left _ _
  have hmax : max adv (minOf r.cfg.calcStep (maxRange / 10)) < maxRange / 10 :=
    max_lt hadv (lt_of_le_of_lt hmin hsmall)
  have h1 : (10 : ℝ) < (K : ℝ) + 1 := by
    by_contra hcon
    have : (K : ℝ) + 1 ≤ 10 := not_lt.mp hcon
    nlinarith
  have h2 : (K : ℝ) < 11 := by
    by_contra hcon
    have : (11 : ℝ) ≤ (K : ℝ) := not_lt.mp hcon
    nlinarith
  have h1' : 10 < K + 1 := by exact_mod_cast h1
  have h2' : K < 11 := by exact_mod_cast h2
  have hK : K = 10 := by omega
  subst hK
  exact ⟨hlen, hdist⟩

/-- Non-vacuity of `C03_default_step` (run `rEx`, range 20, hence step 2 > advance 1). -/
example : ∃ (r : Run ℝ) (e maxRange : ℝ) (fuel sf : Nat) (rows : List (Row ℝ)) (adv : ℝ),
    0 < maxRange ∧ 0 < r.cfg.calcStep ∧ r.cfg.calcStep < maxRange / 10 ∧
    adv < maxRange / 10 ∧ Forward r e adv ∧
    integrate r e maxRange (maxRange / 10) fRANGE 0 fuel sf = .ok rows := by
  obtain ⟨rows, h⟩ := integrate_ex 20 (20 / 10) 22 0 (by norm_num) (by norm_num) (by norm_num)
  exact ⟨rEx, 0, 20, 23, 0, rows, 1, by norm_num, by rw [calcStep_ex]; norm_num, by rw [calcStep_ex]; norm_num,
    by norm_num, fwd_ex 1 (le_refl _), h⟩

end BC.Props.C03
