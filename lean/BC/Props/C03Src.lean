/-
  BC.Props.C03 (source ties) — the recorder that decides which rows exist.  The methods of `_TrajectoryDataFilter`, executed symbolically from the
  Python source on every run (translate/t_funcs.py), equal the model functions the C03 theorems are about
  (proofs in BC/Lemmas/SrcFilter.lean).  Core-only, generic in the number type.
-/
import BC.Lemmas.SrcFilter
import BC.Lemmas.SrcLoop
namespace BC.Props.C03
open BC BC.Gen BC.Model BC.Lemmas
set_option linter.unusedSectionVars false

section
variable {α : Type} [Add α] [Sub α] [Mul α] [Div α] [Neg α] [OfScientific α]
  [LT α] [DecidableLT α] [LE α] [DecidableLE α] [Fn α]

/-- `_TrajectoryDataFilter.__init__` -/
theorem C03_src_filter_init (flags : Flags) (rs : α) (p v : Vec α) (ts : α) :
    Src.filter_init flags rs p v ts = TFilter.init flags rs p v ts := SrcFilter.init_eq flags rs p v ts
/-- `should_record`: new filter state and returned record (range rows, time rows, interpolation, skip loop) -/
theorem C03_src_should_record (f : TFilter α) (fuel : Nat) (p v : Vec α) (m t : α) :
    Src.filter_should_record f fuel p v m t = f.shouldRecord fuel p v m t := SrcFilter.should_record_eq f fuel p v m t
theorem C03_src_check_next_time (f : TFilter α) (t : α) :
    Src.filter_check_next_time f t =
      if f.timeOfLastRecord + f.timeStep < t then
        { f with currentFlag := { f.currentFlag with range := true }, timeOfLastRecord := t } else f :=
  SrcFilter.check_next_time_eq f t
theorem C03_src_skip_loop (step x : α) (fuel : Nat) (nrd : α) :
    skipRecords step x fuel nrd = whileF (fun z => decide (z + step < x)) (fun z => z + step) fuel nrd :=
  SrcFilter.skip_eq step x fuel nrd

/-- ONE ITERATION OF THE LOOP: the model's `iterate` is the whole body of the `while` loop of `_integrate`, executed symbolically from
    the source (`Src.loop_body`), for every loop state (BC/Lemmas/SrcLoop.lean) -/
theorem C03_src_iterate (r : Run α) (air : α → α × α) (ff : Flags) (sf : Nat) (l : LoopSt α)
    (hair : ∀ a, r.env.air a = some (air a))
    (hmax : l.ws.maxDist = cMaxWindDistanceFeet)
    (hm : nz (air (r.alt0 + l.s.pos.y)).2 = true)
    (hd : ∀ d, (({ l.flt with currentFlag := fNONE } : TFilter α).shouldRecord sf l.s.pos l.s.vel (air (r.alt0 + l.s.pos.y)).2 l.s.time).2 = some d →
      nz d.mach = true) :
    iterate r ff sf l =
      match (Src.loop_body r air ff sf l).reason with
      | some reason => .error (.range reason ((Src.loop_body r air ff sf l).limitRow :: (Src.loop_body r air ff sf l).rows).reverse)
      | none => .ok ⟨(Src.loop_body r air ff sf l).st, (Src.loop_body r air ff sf l).ws, (Src.loop_body r air ff sf l).flt,
                     (Src.loop_body r air ff sf l).rows, (Src.loop_body r air ff sf l).drag, (Src.loop_body r air ff sf l).mach,
                     (Src.loop_body r air ff sf l).density, (Src.loop_body r air ff sf l).speed, (Src.loop_body r air ff sf l).lastX⟩ :=
  SrcLoop.iterate_eq r air ff sf l hair hmax hm hd

/-- the `while` loop: test the source's loop condition, run the source's loop body -/
theorem C03_src_loop (r : Run α) (ff : Flags) (sf : Nat) (maxRange minStep : α) (fuel : Nat) (l : LoopSt α) :
    loop r ff sf (maxRange + minStep) maxRange (fuel + 1) l =
      if Src.loop_condition l.s.pos.x maxRange minStep l.lastX then
        match iterate r ff sf l with
        | .error e => .error e
        | .ok l' => loop r ff sf (maxRange + minStep) maxRange fuel l'
      else .ok l := SrcLoop.loop_eq r ff sf maxRange minStep fuel l

/-- THE WHOLE OF `_integrate`: the loop state it starts from (the statements before the `while`, executed symbolically: the wind
    sock and the recording filter built by their own constructors, the muzzle state), the loop, and the row appended when fewer than
    two rows were recorded -/
theorem C03_src_integrate (r : Run α) (be maxRange rs : α) (ff : Flags) (ts : α) (fuel sf : Nat)
    (hmax : r.maxWindDist = cMaxWindDistanceFeet) :
    integrate r be maxRange rs ff ts fuel sf =
      match loop r ff sf (maxRange + Src.min_step r.cfg.calcStep rs) maxRange fuel (Src.loop_init r be rs ts ff) with
      | .error e => .error e
      | .ok l =>
        match l.rows with
        | _ :: _ :: _ => .ok l.rows.reverse
        | rows =>
          match mkRow r l.s.time l.s.pos l.s.vel l.speed l.mach l.density l.drag fNONE with
          | some row => .ok (row :: rows).reverse
          | none => .error .zeroDiv := SrcLoop.integrate_eq r be maxRange rs ff ts fuel sf hmax

theorem C03_src_final_row (r : Run α) (l : LoopSt α) (hm : nz l.mach = true) :
    mkRow r l.s.time l.s.pos l.s.vel l.speed l.mach l.density l.drag fNONE = some (Src.final_row r l) :=
  SrcLoop.final_row_eq r l hm

/-- `Calculator.fire` without a step records every tenth of the range (the step is stored in raw inches, `_integrate` receives feet);
    `TrajectoryCalc.trajectory` records RANGE rows, or everything with extra data, and hands range and step over in feet -/
theorem C03_src_default_step (rangeRaw : α) : Src.fire_default_step rangeRaw = rangeRaw / 10.0 := rfl
theorem C03_src_given_step (stepRaw : α) : Src.fire_given_step stepRaw = stepRaw := rfl
theorem C03_src_flags : Src.trajectory_flags false = fRANGE ∧ Src.trajectory_flags true = fALL := ⟨rfl, rfl⟩
theorem C03_src_feet (raw : α) : Src.trajectory_feet raw = feetOf raw := rfl

end
end BC.Props.C03
