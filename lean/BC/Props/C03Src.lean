/-
  BC.Props.C03 (source ties) — the recorder that decides which rows exist.  The methods of `_TrajectoryDataFilter`, executed symbolically from the
  Python source on every run (translate/t_funcs.py), equal the model functions the C03 theorems are about
  (proofs in BC/Lemmas/SrcFilter.lean).  Core-only, generic in the number type.
-/
import BC.Lemmas.SrcFilter
namespace BC.Props.C03
open BC BC.Gen BC.Model BC.Lemmas
set_option linter.unusedSectionVars false

section
variable {α : Type} [Add α] [Sub α] [Mul α] [Div α] [Neg α] [OfScientific α]
  [LT α] [DecidableLT α] [LE α] [DecidableLE α] [Fn α]

/-- `_TrajectoryDataFilter.__init__` -/
theorem C03_src_filter_init (flags : Flags) (rs : α) (p v : Vec α) (ts : α) :
    Src.filter_init flags rs p v ts = TFilter.init flags rs p v ts := SrcFilter.init_eq flags rs p v ts
/-- `should_record`: new filter state and returned record (range rows, time rows, interpolation, skip loop) -/
theorem C03_src_should_record (f : TFilter α) (fuel : Nat) (p v : Vec α) (m t : α) :
    Src.filter_should_record f fuel p v m t = f.shouldRecord fuel p v m t := SrcFilter.should_record_eq f fuel p v m t
theorem C03_src_check_next_time (f : TFilter α) (t : α) :
    Src.filter_check_next_time f t =
      if f.timeOfLastRecord + f.timeStep < t then
        { f with currentFlag := { f.currentFlag with range := true }, timeOfLastRecord := t } else f :=
  SrcFilter.check_next_time_eq f t
theorem C03_src_skip_loop (step x : α) (fuel : Nat) (nrd : α) :
    skipRecords step x fuel nrd = whileF (fun z => decide (z + step < x)) (fun z => z + step) fuel nrd :=
  SrcFilter.skip_eq step x fuel nrd

end
end BC.Props.C03
