/-
  C04 — every call terminates, and an incomplete trajectory is reported truthfully.
  Subject: BC.Model.Traj (`limitReason`, `iterate`, `loop`, `physStep`, `mkRow`).
-/
import Mathlib.Tactic.Ring
import Mathlib.Tactic.Linarith
import Mathlib.Tactic.NormNum
import BC.Real
import BC.Model.Traj
import BC.Lemmas.Loop
import BC.Lemmas.C04Term

namespace BC.Props.C04
open BC BC.Model BC.Lemmas.Loop

/-- **C04_limit_reason_spec** (full): the reason is the FIRST violated limit in the order velocity, drop,
    altitude; no reason iff all three limits are respected. -/
theorem C04_limit_reason_spec (cfg : Config ℝ) (alt0 speed y : ℝ) :
    (limitReason cfg alt0 speed y = none ↔
        cfg.minVelocity ≤ speed ∧ cfg.maxDrop ≤ y ∧ cfg.minAltitude ≤ alt0 + y) ∧
    (limitReason cfg alt0 speed y = some .minVelocity ↔ speed < cfg.minVelocity) ∧
    (limitReason cfg alt0 speed y = some .maxDrop ↔ cfg.minVelocity ≤ speed ∧ y < cfg.maxDrop) ∧
    (limitReason cfg alt0 speed y = some .minAltitude ↔
        cfg.minVelocity ≤ speed ∧ cfg.maxDrop ≤ y ∧ alt0 + y < cfg.minAltitude) := by
  unfold limitReason
  split_ifs with h1 h2 h3 <;> simp_all [not_lt]

/-- **C04_reason_truthful** (full): when an iteration raises the range error, the stated reason is a limit of
    THIS configuration that the state after the step really violates (first in the order of precedence), and the
    last row of the attached trajectory is the row of exactly that state (its distance, height and speed). -/
theorem C04_reason_truthful (r : Run ℝ) (ff : Flags) (sf : Nat) (l : LoopSt ℝ) (reason : Reason)
    (rows : List (Row ℝ)) (h : iterate r ff sf l = .error (.range reason rows)) :
    ∃ p last, physStep r l.s l.ws = some p ∧
      limitReason r.cfg r.alt0 p.out.speed p.out.st.pos.y = some reason ∧
      p.out.speed = p.out.st.vel.mag ∧
      rows.getLast? = some last ∧
      last.distance = p.out.st.pos.x * 12 ∧ last.height = p.out.st.pos.y * 12 ∧
      last.velocity = p.out.speed / 3.2808399 ∧ last.time = p.out.st.time := by
  obtain ⟨p, flt', rows0, row, hps, _, hlim, hrow, rfl⟩ := iterate_range_inv h
  obtain ⟨hd, hh, hv, ht⟩ := createRow_fields hrow
  exact ⟨p, row, hps, hlim, physStep_speed hps, List.getLast?_concat .., hd, hh, hv, ht⟩

/-- **C04_ok_respects_limits** (full): every state that the loop carries on with (every state after the muzzle
    that a later row can be built from) respects all three limits. -/
theorem C04_ok_respects_limits (r : Run ℝ) (ff : Flags) (sf : Nat) (l l' : LoopSt ℝ)
    (h : iterate r ff sf l = .ok l') :
    r.cfg.minVelocity ≤ l'.speed ∧ r.cfg.maxDrop ≤ l'.s.pos.y ∧ r.cfg.minAltitude ≤ r.alt0 + l'.s.pos.y ∧
    l'.speed = l'.s.vel.mag := by
  obtain ⟨p, flt', rows, hps, _, hlim, rfl⟩ := iterate_ok_inv h
  obtain ⟨h1, h2, h3⟩ := (C04_limit_reason_spec r.cfg r.alt0 p.out.speed p.out.st.pos.y).1.mp hlim
  exact ⟨h1, h2, h3, physStep_speed hps⟩

/-- the same run with other limit values (everything else equal) -/
def withLimits (r : Run ℝ) (minV maxD minA : ℝ) : Run ℝ :=
  { r with cfg := { r.cfg with minVelocity := minV, maxDrop := maxD, minAltitude := minA } }

private theorem physStep_withLimits (r : Run ℝ) (a b c : ℝ) (s : St ℝ) (ws : WindSock ℝ) :
    physStep (withLimits r a b c) s ws = physStep r s ws := rfl

private theorem recordStep_withLimits (r : Run ℝ) (a b c : ℝ) (ff : Flags) (sf : Nat) (l : LoopSt ℝ)
    (ρ m : ℝ) : recordStep (withLimits r a b c) ff sf l ρ m = recordStep r ff sf l ρ m := rfl

/-- **C04_limits_only_stop** (full, one iteration): the limits never perturb what is computed — an iteration
    under other limit values either yields the identical loop state, or one of the two stops; and when the run
    with limits stops while the other goes on, the attached rows minus the last are exactly the other run's rows
    so far. -/
theorem C04_limits_only_stop (r : Run ℝ) (minV maxD minA : ℝ) (ff : Flags) (sf : Nat) (l : LoopSt ℝ) :
    (∀ l1 l2, iterate r ff sf l = .ok l1 → iterate (withLimits r minV maxD minA) ff sf l = .ok l2 → l1 = l2) ∧
    (∀ reason rows l2, iterate r ff sf l = .error (.range reason rows) →
        iterate (withLimits r minV maxD minA) ff sf l = .ok l2 → rows.dropLast = l2.rows.reverse) ∧
    (∀ reason rows, iterate r ff sf l = .error (.range reason rows) → rows.dropLast = (rows.dropLast) ∧
        ∃ row, rows = rows.dropLast ++ [row]) := by
  refine ⟨?_, ?_, ?_⟩
  · intro l1 l2 h1 h2
    obtain ⟨p, flt', rows, hps, hrec, _, rfl⟩ := iterate_ok_inv h1
    obtain ⟨p2, flt2, rows2, hps2, hrec2, _, rfl⟩ := iterate_ok_inv h2
    rw [physStep_withLimits, hps] at hps2
    cases hps2
    rw [recordStep_withLimits, hrec] at hrec2
    cases hrec2
    rfl
  · intro reason rows l2 h1 h2
    obtain ⟨p, flt', rows0, row, hps, hrec, _, _, rfl⟩ := iterate_range_inv h1
    obtain ⟨p2, flt2, rows2, hps2, hrec2, _, rfl⟩ := iterate_ok_inv h2
    rw [physStep_withLimits, hps] at hps2
    cases hps2
    rw [recordStep_withLimits, hrec] at hrec2
    cases hrec2
    exact List.dropLast_concat ..
  · intro reason rows h1
    obtain ⟨p, flt', rows0, row, _, _, _, _, rfl⟩ := iterate_range_inv h1
    exact ⟨rfl, row, by rw [List.dropLast_concat]⟩

/-- `n` iterations (stopping at the first error) -/
noncomputable def iterN (r : Run ℝ) (ff : Flags) (sf : Nat) : Nat → LoopSt ℝ → Except (Err ℝ) (LoopSt ℝ)
  | 0, l => .ok l
  | n + 1, l =>
    match iterate r ff sf l with
    | .error e => .error e
    | .ok l' => iterN r ff sf n l'

/-- **C04_prefix_unperturbed** (full, induction over the iterations): if the run with limits raises the range
    error in its (n+1)-th iteration while the same shot under other limits is still going after n+1 iterations,
    then every row of the incomplete trajectory except the last is identical to the corresponding row of the run
    without that limit. -/
theorem C04_prefix_unperturbed (r : Run ℝ) (minV maxD minA : ℝ) (ff : Flags) (sf n : Nat) (l ln l2 : LoopSt ℝ)
    (reason : Reason) (rows : List (Row ℝ))
    (h1 : iterN r ff sf n l = .ok ln) (h2 : iterate r ff sf ln = .error (.range reason rows))
    (h3 : iterN (withLimits r minV maxD minA) ff sf (n + 1) l = .ok l2) :
    rows.dropLast = l2.rows.reverse := by
  induction n generalizing l with
  | zero =>
    simp only [iterN] at h1
    cases h1
    cases h4 : iterate (withLimits r minV maxD minA) ff sf ln with
    | error e => simp [iterN, h4] at h3
    | ok l1' =>
      simp only [iterN, h4] at h3
      cases h3
      exact (C04_limits_only_stop r minV maxD minA ff sf ln).2.1 reason rows _ h2 h4
  | succ n ih =>
    cases h5 : iterate r ff sf l with
    | error e => simp [iterN, h5] at h1
    | ok l1 =>
      cases h4 : iterate (withLimits r minV maxD minA) ff sf l with
      | error e => rw [iterN] at h3; simp [h4] at h3
      | ok l1' =>
        rw [iterN] at h1 h3
        simp only [h5] at h1
        simp only [h4] at h3
        have := (C04_limits_only_stop r minV maxD minA ff sf l).1 _ _ h5 h4
        subst this
        exact ih l1 h1 h3

/-- **C04_loop_outcomes** (full): a run ends in exactly one of: a result, the range error (with a reason), the
    two arithmetic errors the real code can raise (`ZeroDivisionError`, `math domain error`), or — in the model
    only — exhausted fuel; it never ends in a zero-finding error. -/
theorem C04_loop_outcomes (r : Run ℝ) (ff : Flags) (sf : Nat) (bound maxRange : ℝ) (fuel : Nat) (l : LoopSt ℝ) :
    (∃ l', loop r ff sf bound maxRange fuel l = .ok l') ∨
    (∃ reason rows, loop r ff sf bound maxRange fuel l = .error (.range reason rows)) ∨
    loop r ff sf bound maxRange fuel l = .error .zeroDiv ∨ loop r ff sf bound maxRange fuel l = .error .mathDomain ∨
    loop r ff sf bound maxRange fuel l = .error .outOfFuel := by
  induction fuel generalizing l with
  | zero => right; right; right; right; rfl
  | succ fuel ih =>
    unfold loop
    split_ifs with hb
    · cases hit : iterate r ff sf l with
      | error e =>
        simp only
        rcases iterate_error_inv hit with rfl | rfl | ⟨_, _, rows0, reason, row, _, _, _, _, rfl⟩
        · right; right; right; left; rfl
        · right; right; left; rfl
        · right; left; exact ⟨_, _, rfl⟩
      | ok l' => exact ih l'
    · exact Or.inl ⟨l, rfl⟩

/-- **C04_falls_without_drag_bound** (full; the arithmetic core of termination): under downward gravity `g < 0`,
    in any step whose drag·dt lies in [0, 1] the vertical velocity obeys `v_y' ≤ max(v_y, 0) + g·dt`, i.e. drag
    never pushes the projectile upward faster than it already goes and gravity takes `|g|·dt` off every step. -/
theorem C04_vertical_velocity_step (cs g : ℝ) (dbm : ℝ → ℝ) (w : Vec ℝ) (density mach : ℝ) (s : St ℝ)
    (hwy : w.y = 0)
    (hk : 0 ≤ (step cs g dbm w density mach s).drag * (cs / max 1 (s.vel.sub w).mag) ∧
          (step cs g dbm w density mach s).drag * (cs / max 1 (s.vel.sub w).mag) ≤ 1) :
    (step cs g dbm w density mach s).st.vel.y ≤ max s.vel.y 0 + g * (cs / max 1 (s.vel.sub w).mag) := by
  rw [← max1_eq] at hk ⊢
  have hy : (step cs g dbm w density mach s).st.vel.y =
      s.vel.y - ((s.vel.y - w.y) * (step cs g dbm w density mach s).drag - g) *
        (cs / max1 (s.vel.sub w).mag) := rfl
  rw [hy, hwy]
  generalize (step cs g dbm w density mach s).drag = D at hk ⊢
  generalize cs / max1 (s.vel.sub w).mag = dt at hk ⊢
  obtain ⟨hk0, hk1⟩ := hk
  have hl := le_max_left s.vel.y 0
  have hr := le_max_right s.vel.y 0
  rcases le_total 0 s.vel.y with hv | hv
  · nlinarith [mul_nonneg hv hk0]
  · nlinarith [mul_nonneg (neg_nonneg.mpr hv) (sub_nonneg.mpr hk1)]

/-- **C04_terminates_partial** (partial: a positive lower bound `δ` on the time step — i.e. an upper bound on the speed along the
    run — is a hypothesis): under downward gravity, if every step obeys the vertical-velocity inequality of
    `C04_vertical_velocity_step` and the position update `y' = y + v_y'·dt`, with `δ ≤ dt ≤ Δ`, the height falls below ANY
    floor after finitely many steps — so the maximum-drop limit is eventually violated and the loop stops. -/
theorem C04_terminates_partial (g δ Δ : ℝ) (hg : g < 0) (hδ : 0 < δ) (hΔ : δ ≤ Δ) (vy y dt : ℕ → ℝ)
    (hdt : ∀ k, δ ≤ dt k ∧ dt k ≤ Δ)
    (hv : ∀ k, vy (k + 1) ≤ max (vy k) 0 + g * dt k)
    (hy : ∀ k, y (k + 1) = y k + vy (k + 1) * dt k) (floor : ℝ) :
    ∃ N : ℕ, y N < floor := by
  have _ := hΔ
  exact BC.Lemmas.C04Term.falls_below g δ hg hδ vy y dt (fun k => (hdt k).1) hv hy floor

/-- link to the model: a state whose height is below the maximum-drop limit is never one the loop carries on with —
    the iteration that produces it does not return `.ok`. -/
theorem C04_below_floor_stops (r : Run ℝ) (ff : Flags) (sf : Nat) (l l' : LoopSt ℝ)
    (hlow : l'.s.pos.y < r.cfg.maxDrop) : iterate r ff sf l ≠ .ok l' := by
  intro h
  have := (C04_ok_respects_limits r ff sf l l' h).2.1
  linarith

/-! non-vacuity: free fall from rest with unit steps satisfies the hypotheses -/
example : ∃ N : ℕ, (fun k : ℕ => -(((k : ℝ)) * (k + 1) / 2)) N < -100 :=
  C04_terminates_partial (-1) 1 1 (by norm_num) (by norm_num) le_rfl (fun k => -(k : ℝ))
    (fun k => -((k : ℝ) * (k + 1) / 2)) (fun _ => 1) (fun _ => ⟨le_rfl, le_rfl⟩)
    (fun k => by
      have h : max (-(k : ℝ)) 0 = 0 := max_eq_right (by simp)
      rw [h]; push_cast; linarith)
    (fun k => by push_cast; ring) (-100)

end BC.Props.C04
