/-
  BC.Props.C04 (source ties) — the limit check after every integration step (`if velocity < cMinimumVelocity or y < cMaximumDrop
  or alt0 + y < cMinimumAltitude: … raise RangeError(reason, rows)` with its reason chain), the condition of the `while` loop and
  `min_step`, as slices of `TrajectoryCalc._integrate` executed symbolically from the Python source on every run
  (translate/t_funcs.py), equal `limitReason`, the loop condition of `loop` and `minOf` of the model.  Core-only.
-/
import BC.Gen.Funcs
import BC.Model.Traj
namespace BC.Props.C04
open BC BC.Gen BC.Model
set_option linter.unusedSectionVars false
set_option linter.unusedSimpArgs false

section
variable {α : Type} [Add α] [Sub α] [Mul α] [Div α] [Neg α] [OfScientific α]
  [LT α] [DecidableLT α] [LE α] [DecidableLE α] [Fn α]

/-- which limit stops the run, in the code's order of precedence (velocity, drop, altitude) -/
theorem C04_src_limit_reason (cfg : Config α) (alt0 speed y : α) :
    Src.limit_reason cfg.minVelocity cfg.maxDrop cfg.minAltitude alt0 speed y = limitReason cfg alt0 speed y := by
  unfold Src.limit_reason limitReason
  by_cases h1 : speed < cfg.minVelocity
  · simp only [h1, true_or, ↓reduceIte]
  · by_cases h2 : y < cfg.maxDrop
    · simp only [h1, h2, true_or, or_true, false_or, ↓reduceIte]
    · by_cases h3 : alt0 + y < cfg.minAltitude
      · simp only [h1, h2, h3, or_true, false_or, ↓reduceIte]
      · simp only [h1, h2, h3, or_self, ↓reduceIte]

/-- `while range_vector.x <= maximum_range + min_step or last_x < maximum_range` is the guard of the model's `loop` -/
theorem C04_src_loop_condition (l : LoopSt α) (maxRange minStep : α) :
    Src.loop_condition l.s.pos.x maxRange minStep l.lastX ↔ (l.s.pos.x ≤ maxRange + minStep ∨ l.lastX < maxRange) := Iff.rfl

theorem C04_src_min_step (calcStep recordStep : α) : Src.min_step calcStep recordStep = minOf calcStep recordStep := rfl

end
end BC.Props.C04
