/-
  C05 — each row's derived columns are the documented functions of its state.
  Subject: BC.Model.Row (`createRow`, `getCorrection`, `calculateEnergy`, `calculateOgw`, `spinDrift`,
  `stabilityCoefficient`), read over ℝ.
-/
import Mathlib.Tactic.Ring
import Mathlib.Tactic.FieldSimp
import Mathlib.Tactic.Linarith
import Mathlib.Tactic.NormNum
import BC.Real
import BC.Model.Row
import BC.Lemmas.Row

namespace BC.Props.C05
open BC BC.Model BC.Gen BC.Lemmas.Row

/-- **C05_columns** (full): every column of a row is the stated function of
    (time, position, velocity vector, speed, speed of sound, spin drift, look angle, density ratio, drag, weight). -/
theorem C05_columns (time : ℝ) (r v : Vec ℝ) (velocity mach spin look dens drag weight : ℝ) (flag : Flags)
    (row : Row ℝ) (h : createRow time r v velocity mach spin look dens drag weight flag = some row) :
    mach ≠ 0 ∧
    row.time = time ∧ row.distance = r.x * 12 ∧ row.height = r.y * 12 ∧
    row.velocity = velocity / 3.2808399 ∧
    row.mach = velocity / mach ∧
    row.energy = weight * velocity ^ 2 / 450400 ∧
    row.ogw = weight ^ 2 * velocity ^ 3 * 1.5e-12 / 0.000142857143 ∧
    row.windage = (r.z + spin) * 12 ∧
    row.targetDrop = (r.y - r.x * Real.tan look) * Real.cos look * 12 ∧
    row.lookDistance = r.x / Real.cos look * 12 ∧
    row.densityFactor = dens - 1 ∧ row.drag = drag ∧ row.flag = flag ∧
    row.angle = Complex.arg ⟨v.x, v.y⟩ := by
  obtain ⟨hm, rfl⟩ := createRow_some h
  refine ⟨hm, ?_, ?_, ?_, ?_, ?_, ?_, ?_, ?_, ?_, ?_, ?_, ?_, ?_, ?_⟩ <;>
    norm_num [calculateEnergy, calculateOgw, rpow_two', rpow_three']

/-- **C05_mach_zero_rejected** (full): a zero speed of sound is the only way row creation fails (ZeroDivisionError). -/
theorem C05_mach_zero_rejected (time : ℝ) (r v : Vec ℝ) (velocity mach spin look dens drag weight : ℝ) (flag : Flags) :
    createRow time r v velocity mach spin look dens drag weight flag = none ↔ mach = 0 := by
  constructor
  · intro h
    by_contra hm
    have := (nz_iff _).2 hm
    simp [createRow, this] at h
  · intro h
    rw [← nz_false_iff] at h
    simp [createRow, h]

/-- **C05_sight_line_geometry** (full): `target_drop` is the signed distance of the point (distance, height) from
    the sight line through the origin with direction (cos L, sin L); `look_distance · cos L` is the distance. -/
theorem C05_sight_line_geometry (x y look : ℝ) (hc : Real.cos look ≠ 0) :
    (y - x * Real.tan look) * Real.cos look = y * Real.cos look - x * Real.sin look ∧
    x / Real.cos look * Real.cos look = x := by
  constructor
  · rw [Real.tan_eq_sin_div_cos]; field_simp
  · field_simp

/-- **C05_adjustments** (full): beyond the muzzle the drop adjustment is `atan(height/distance) − look` and the
    windage adjustment `atan(windage/distance)`; both are zero at the muzzle (distance 0). -/
theorem C05_adjustments (time : ℝ) (r v : Vec ℝ) (velocity mach spin look dens drag weight : ℝ) (flag : Flags)
    (row : Row ℝ) (h : createRow time r v velocity mach spin look dens drag weight flag = some row) :
    (r.x ≠ 0 → row.dropAdj = Real.arctan (r.y / r.x) - look ∧ row.windageAdj = Real.arctan ((r.z + spin) / r.x)) ∧
    (r.x = 0 → row.dropAdj = 0 ∧ row.windageAdj = 0) := by
  obtain ⟨hm, rfl⟩ := createRow_some h
  constructor
  · intro hx
    have := (nz_iff r.x).2 hx
    simp [getCorrection, this]
  · intro hx
    have := (nz_false_iff r.x).2 hx
    norm_num [getCorrection, this]

/-- **C05_angle** (full): for a projectile moving down-range (`v_x > 0`) the angle column is the direction of the
    velocity: `tan(angle) = v_y / v_x` with the angle in (−π/2, π/2). -/
theorem C05_angle (vx vy : ℝ) (hvx : 0 < vx) :
    Complex.arg ⟨vx, vy⟩ = Real.arctan (vy / vx) := by
  have h1 : Real.tan (Complex.arg ⟨vx, vy⟩) = vy / vx := Complex.tan_arg _
  have h2 : |Complex.arg ⟨vx, vy⟩| < Real.pi / 2 :=
    Complex.abs_arg_lt_pi_div_two_iff.2 (Or.inl hvx)
  rw [abs_lt] at h2
  rw [← h1, Real.arctan_tan h2.1 h2.2]

/-- **C05_energy_is_kinetic** (full): the energy constant 450400 is 2·7000·g₀ (grains per pound × standard gravity
    in ft/s²) to within 1e-4: the energy column is the kinetic energy of the bullet weight at that speed in ft·lbf. -/
theorem C05_energy_is_kinetic : |(450400 : ℝ) - 2 * 7000 * 32.17405| ≤ 1e-4 * (2 * 7000 * 32.17405) := by
  norm_num [abs_le]

/-- **C05_spin_drift** (full): Litz spin drift `sign(twist) · 1.25 (Sg + 1.2) t^1.83 / 12` feet; absent (0) when
    the stability coefficient or the twist is zero. -/
theorem C05_spin_drift (p : Proj ℝ) (t : ℝ) :
    (p.stability ≠ 0 → 0 < p.twist → spinDrift p t = 1.25 * (p.stability + 1.2) * t ^ (1.83 : ℝ) / 12) ∧
    (p.stability ≠ 0 → p.twist < 0 → spinDrift p t = -(1.25 * (p.stability + 1.2) * t ^ (1.83 : ℝ) / 12)) ∧
    (p.stability = 0 ∨ p.twist = 0 → spinDrift p t = 0) := by
  have h00 : (0.0:ℝ) = 0 := by norm_num
  refine ⟨?_, ?_, ?_⟩
  · intro hs ht
    have h1 := (nz_iff _).2 hs
    have h2 := (nz_iff _).2 (ne_of_gt ht)
    simp only [spinDrift, h1, h2, h00, Bool.and_self, if_true, ht, fn_pow]
    norm_num
  · intro hs ht
    have h1 := (nz_iff _).2 hs
    have h2 := (nz_iff _).2 (ne_of_lt ht)
    have h3 : ¬ (0 < p.twist) := not_lt.2 ht.le
    simp only [spinDrift, h1, h2, h00, Bool.and_self, if_true, h3, if_false, fn_pow]
    norm_num
    ring
  · rintro (h | h)
    · have h1 := (nz_false_iff _).2 h
      norm_num [spinDrift, h1]
    · have h1 := (nz_false_iff _).2 h
      norm_num [spinDrift, h1]

/-- **C05_stability** (full): Miller stability with velocity and atmosphere corrections; zero when twist, length,
    diameter or pressure is not given (zero). `press` is raw mmHg, read in inHg through the regenerated chain. -/
theorem C05_stability (twist len dia w mv press tF : ℝ) :
    (twist ≠ 0 → len ≠ 0 → dia ≠ 0 → press ≠ 0 →
      stabilityCoefficient twist len dia w mv press tF =
        30 * w / ((|twist| / dia) ^ (2:ℝ) * dia ^ (3:ℝ) * (len / dia) * (1 + (len / dia) ^ (2:ℝ))) *
          (mv / 2800) ^ ((1:ℝ) / 3) * ((tF + 460) / 519 * (29.92 / (press / 25.4)))) ∧
    (twist = 0 ∨ len = 0 ∨ dia = 0 ∨ press = 0 → stabilityCoefficient twist len dia w mv press tF = 0) := by
  constructor
  · intro h1 h2 h3 h4
    have e1 := (nz_iff _).2 h1
    have e2 := (nz_iff _).2 h2
    have e3 := (nz_iff _).2 h3
    have e4 := (nz_iff _).2 h4
    simp only [stabilityCoefficient, e1, e2, e3, e4, Bool.and_self, if_true, fn_pow, fn_abs]
    norm_num [inHgOf, getIn, fromRaw, Pressure.fromRaw]
  · rintro (h | h | h | h) <;>
    · have h1 := (nz_false_iff _).2 h
      norm_num [stabilityCoefficient, h1]

/-! non-vacuity -/
example : createRow (0.5:ℝ) ⟨300, -1, 0.1⟩ ⟨2500, -20, 1⟩ 2500.1 1116 0.01 0.02 1.0 0.001 168 fRANGE ≠ none := by
  rw [Ne, C05_mach_zero_rejected]; norm_num

end BC.Props.C05
