/-
  BC.Props.C05 (source ties) — `create_trajectory_row`, `get_correction`, `calculate_energy`, `calculate_ogw`, `spin_drift`,
  `calc_stability_coefficient` as regenerated from their Python bodies (translate/t_funcs.py) are the model functions of
  BC/Model/Row.lean.  Generic in the number type; core-only.
-/
import BC.Lemmas.SrcTac
import BC.Gen.Funcs
import BC.Model.Row
namespace BC.Props.C05
open BC BC.Gen BC.Model BC.Lemmas
set_option linter.unusedSectionVars false

section
variable {α : Type} [Add α] [Sub α] [Mul α] [Div α] [Neg α] [OfScientific α]
  [LT α] [DecidableLT α] [LE α] [DecidableLE α] [Fn α]

theorem C05_src_get_correction (d o : α) : Src.get_correction d o = getCorrection d o := by src_tie [Src.get_correction, getCorrection]
theorem C05_src_energy (w v : α) : Src.calculate_energy w v = calculateEnergy w v := by src_tie [Src.calculate_energy, calculateEnergy]
theorem C05_src_ogw (w v : α) : Src.calculate_ogw w v = calculateOgw w v := by src_tie [Src.calculate_ogw, calculateOgw]
theorem C05_src_spin_drift (p : Proj α) (t : α) : Src.spin_drift p.stability p.twist t = spinDrift p t := by src_tie [Src.spin_drift, spinDrift]
theorem C05_src_stability (tw l d w mv p t : α) :
    Src.stability_coefficient tw l d w mv p t = stabilityCoefficient tw l d w mv p t := by src_tie [Src.stability_coefficient, stabilityCoefficient]
/-- `create_trajectory_row` with the `_new_feet/_new_fps/_new_rad/_new_ft_lb/_new_lb` constructors inlined: every column of the
    model row is the expression the source computes (the model adds the explicit ZeroDivisionError case `mach = 0`). -/
theorem C05_src_row (time : α) (r v : Vec α) (velocity mach spin look df drag weight : α) (flag : Flags) (h : nz mach = true) :
    createRow time r v velocity mach spin look df drag weight flag
      = some (Src.row time r v velocity mach spin look df drag weight flag) := by
  unfold createRow
  simp only [h, Bool.not_true, Bool.false_eq_true, if_false]
  first
    | rfl
    | (unfold Src.row getCorrection
       (repeat' split) <;> first | rfl | contradiction | (simp_all; done))

end
end BC.Props.C05
