/-
  C06 — unit conversions agree with the SI definitions and invert exactly.

  Subject: `BC.Gen.toRaw` / `BC.Gen.fromRaw`, REGENERATED from
  `py_ballisticcalc/unit.py` on every run, read over ℝ.
  Specification: `BC.Ref.SI`, `BC.Ref.tempToK`, `BC.Ref.tanUnit` (hand-written).
  Only property theorems and their non-vacuity examples live in this file.
-/
import Mathlib.Tactic.Ring
import Mathlib.Tactic.FieldSimp
import Mathlib.Tactic.Linarith
import Mathlib.Tactic.NormNum
import BC.Real
import BC.Ref.SI
import Mathlib.Analysis.Real.Pi.Bounds

namespace BC.Props.C06
open BC BC.Gen BC.Ref

/-- `Unit.u(x) >> Unit.v` inside dimension class `d` -/
noncomputable def conv (d : Dim) (u v : U) (x : ℝ) : Option ℝ :=
  (toRaw d x u).bind fun r => fromRaw d r v

/-- multiplicative units: everything except temperature scales and the two tangent units -/
def IsMult : U → Prop
  | .Fahrenheit | .Celsius | .Kelvin | .Rankin | .InchesPer100Yd | .CmPer100m => False
  | _ => True

def IsTangent : U → Prop
  | .InchesPer100Yd | .CmPer100m => True
  | _ => False

/-- "angles within one turn": the wrap branch of `Angular.to_raw` is not taken. -/
def OneTurn (d : Dim) (u : U) (x : ℝ) : Prop := d = .Angular → x * SI u ≤ 2 * Real.pi

/-- the code's multiplicative factor into / out of the raw unit: the chain evaluated at 1 -/
noncomputable def kTo (d : Dim) (u : U) : ℝ := (toRaw d 1 u).getD 0
noncomputable def kFrom (d : Dim) (u : U) : ℝ := (fromRaw d 1 u).getD 0

private theorem close_of_factor {c s x y : ℝ} (hy : y = c * x) (h : |c - s| ≤ 1e-6 * |s|) :
    |y - x * s| ≤ 1e-6 * |x * s| := by
  subst hy
  have : c * x - x * s = (c - s) * x := by ring
  rw [this, abs_mul, abs_mul, mul_comm |x|, ← mul_assoc]
  exact mul_le_mul_of_nonneg_right h (abs_nonneg x)

/-! ### the constructor's decade chain and the class chains agree on which units belong where -/

/-- **C06_dim_consistent** (full, regenerated). A dimension class converts exactly the
    units that `Unit.__call__` routes to it; every other unit is a conversion error. -/
theorem C06_dim_consistent (d : Dim) (u : U) (x : ℝ) :
    ((toRaw d x u).isSome ↔ U.dim u = some d) ∧ ((fromRaw d x u).isSome ↔ U.dim u = some d) := by
  cases d <;> cases u <;>
    simp [toRaw, fromRaw, U.dim, Angular.toRaw, Angular.fromRaw, Distance.toRaw, Distance.fromRaw,
      Energy.toRaw, Energy.fromRaw, Pressure.toRaw, Pressure.fromRaw, Temperature.toRaw,
      Temperature.fromRaw, Velocity.toRaw, Velocity.fromRaw, Weight.toRaw, Weight.fromRaw]

/-! ### multiplicative dimensions -/

theorem lin_distance (u : U) (x r : ℝ) :
    (Distance.toRaw x u = some r → r = kTo .Distance u * x) ∧
    (Distance.fromRaw r u = some x → x = kFrom .Distance u * r) := by
  constructor <;> intro h <;> cases u <;>
    simp [kTo, kFrom, toRaw, fromRaw, Distance.toRaw, Distance.fromRaw] at h ⊢ <;>
    subst h <;> norm_num <;> ring

theorem lin_energy (u : U) (x r : ℝ) :
    (Energy.toRaw x u = some r → r = kTo .Energy u * x) ∧
    (Energy.fromRaw r u = some x → x = kFrom .Energy u * r) := by
  constructor <;> intro h <;> cases u <;>
    simp [kTo, kFrom, toRaw, fromRaw, Energy.toRaw, Energy.fromRaw] at h ⊢ <;>
    subst h <;> norm_num <;> ring

theorem lin_pressure (u : U) (x r : ℝ) :
    (Pressure.toRaw x u = some r → r = kTo .Pressure u * x) ∧
    (Pressure.fromRaw r u = some x → x = kFrom .Pressure u * r) := by
  constructor <;> intro h <;> cases u <;>
    simp [kTo, kFrom, toRaw, fromRaw, Pressure.toRaw, Pressure.fromRaw] at h ⊢ <;>
    subst h <;> norm_num <;> ring

theorem lin_velocity (u : U) (x r : ℝ) :
    (Velocity.toRaw x u = some r → r = kTo .Velocity u * x) ∧
    (Velocity.fromRaw r u = some x → x = kFrom .Velocity u * r) := by
  constructor <;> intro h <;> cases u <;>
    simp [kTo, kFrom, toRaw, fromRaw, Velocity.toRaw, Velocity.fromRaw] at h ⊢ <;>
    subst h <;> norm_num <;> ring

theorem lin_weight (u : U) (x r : ℝ) :
    (Weight.toRaw x u = some r → r = kTo .Weight u * x) ∧
    (Weight.fromRaw r u = some x → x = kFrom .Weight u * r) := by
  constructor <;> intro h <;> cases u <;>
    simp [kTo, kFrom, toRaw, fromRaw, Weight.toRaw, Weight.fromRaw] at h ⊢ <;>
    subst h <;> norm_num <;> ring

theorem fac_distance (u v : U) (hu : U.dim u = some .Distance) (hv : U.dim v = some .Distance) :
    |kTo .Distance u * kFrom .Distance v - SI u / SI v| ≤ 1e-6 * |SI u / SI v| := by
  cases u <;> simp [U.dim] at hu <;> cases v <;> simp [U.dim] at hv <;>
    norm_num [kTo, kFrom, toRaw, fromRaw, Distance.toRaw, Distance.fromRaw, SI, inchM, abs_le]

theorem fac_energy (u v : U) (hu : U.dim u = some .Energy) (hv : U.dim v = some .Energy) :
    |kTo .Energy u * kFrom .Energy v - SI u / SI v| ≤ 1e-6 * |SI u / SI v| := by
  cases u <;> simp [U.dim] at hu <;> cases v <;> simp [U.dim] at hv <;>
    norm_num [kTo, kFrom, toRaw, fromRaw, Energy.toRaw, Energy.fromRaw, SI, inchM, lbKg, g0, abs_le]

theorem fac_pressure (u v : U) (hu : U.dim u = some .Pressure) (hv : U.dim v = some .Pressure) :
    |kTo .Pressure u * kFrom .Pressure v - SI u / SI v| ≤ 1e-6 * |SI u / SI v| := by
  cases u <;> simp [U.dim] at hu <;> cases v <;> simp [U.dim] at hv <;>
    norm_num [kTo, kFrom, toRaw, fromRaw, Pressure.toRaw, Pressure.fromRaw, SI, inchM, lbKg, g0, abs_le]

theorem fac_velocity (u v : U) (hu : U.dim u = some .Velocity) (hv : U.dim v = some .Velocity) :
    |kTo .Velocity u * kFrom .Velocity v - SI u / SI v| ≤ 1e-6 * |SI u / SI v| := by
  cases u <;> simp [U.dim] at hu <;> cases v <;> simp [U.dim] at hv <;>
    norm_num [kTo, kFrom, toRaw, fromRaw, Velocity.toRaw, Velocity.fromRaw, SI, inchM, abs_le]

theorem fac_weight (u v : U) (hu : U.dim u = some .Weight) (hv : U.dim v = some .Weight) :
    |kTo .Weight u * kFrom .Weight v - SI u / SI v| ≤ 1e-6 * |SI u / SI v| := by
  cases u <;> simp [U.dim] at hu <;> cases v <;> simp [U.dim] at hv <;>
    norm_num [kTo, kFrom, toRaw, fromRaw, Weight.toRaw, Weight.fromRaw, SI, lbKg, g0, abs_le]


/-- **C06_si_ratio** (full). For every ordered pair of multiplicative units of one of the
    five multiplicative dimensions, `Unit.u(x) >> Unit.v` is `x · SI u / SI v` to within
    1e-6 relative. -/
theorem C06_si_ratio (d : Dim) (hd : d ≠ .Angular ∧ d ≠ .Temperature) (u v : U) (x y : ℝ)
    (h : conv d u v x = some y) :
    |y - x * (SI u / SI v)| ≤ 1e-6 * |x * (SI u / SI v)| := by
  obtain ⟨r, hr, hy⟩ : ∃ r, toRaw d x u = some r ∧ fromRaw d r v = some y := by
    simpa [conv, Option.bind_eq_some_iff] using h
  have hu := ((C06_dim_consistent d u x).1.1 (by simp [hr]))
  have hv := ((C06_dim_consistent d v r).2.1 (by simp [hy]))
  cases d <;> simp at hd
  · exact close_of_factor (by rw [(lin_distance v y r).2 hy, (lin_distance u x r).1 hr]; ring)
      (fac_distance u v hu hv)
  · exact close_of_factor (by rw [(lin_energy v y r).2 hy, (lin_energy u x r).1 hr]; ring)
      (fac_energy u v hu hv)
  · exact close_of_factor (by rw [(lin_pressure v y r).2 hy, (lin_pressure u x r).1 hr]; ring)
      (fac_pressure u v hu hv)
  · exact close_of_factor (by rw [(lin_velocity v y r).2 hy, (lin_velocity u x r).1 hr]; ring)
      (fac_velocity u v hu hv)
  · exact close_of_factor (by rw [(lin_weight v y r).2 hy, (lin_weight u x r).1 hr]; ring)
      (fac_weight u v hu hv)

/-! ### angular units -/

private theorem pi_pos' : (0:ℝ) < Real.pi := Real.pi_pos

/-- **C06_angular_linear** (full). For the seven linear angular units, within one turn,
    the stored radian value is exactly `x · SI u` and reading back divides by `SI u`. -/
theorem C06_angular_linear (u : U) (hu : IsMult u) (x r : ℝ) :
    (x * SI u ≤ 2 * Real.pi → Angular.toRaw x u = some r → r = x * SI u) ∧
    (Angular.fromRaw r u = some x → x = r / SI u) := by
  have hp := pi_pos'
  constructor
  · intro h1 h
    cases u <;> simp [Angular.toRaw, IsMult] at h hu <;> simp only [SI] at h1 ⊢
    · simpa using h.symm
    all_goals
      split_ifs at h with hw
      · exfalso; norm_num at hw; nlinarith
      · subst h; norm_num; try ring
  · intro h
    cases u <;> simp [Angular.fromRaw, IsMult] at h hu <;> subst h <;> simp only [SI] <;>
      norm_num <;> field_simp <;> ring

/-- **C06_tangent** (full). Inch-per-100-yd and cm-per-100-m are tangent-defined:
    the stored angle has `tan = x/3600` (resp. `x/10000`), lies in (−π/2, π/2), and reading
    back returns `tan r` times 3600 (10000). -/
theorem C06_tangent (u : U) (hu : IsTangent u) (x r : ℝ) :
    (Angular.toRaw x u = some r → Real.tan r = x * tanUnit u ∧ -(Real.pi / 2) < r ∧ r < Real.pi / 2) ∧
    (Angular.fromRaw r u = some x → x * tanUnit u = Real.tan r) := by
  have hp := pi_pos'
  constructor
  · intro h
    cases u <;> simp [Angular.toRaw, IsTangent] at h hu
    all_goals
      split_ifs at h with hw
      · exfalso
        have := Real.arctan_lt_pi_div_two (x / 3600.0)
        have := Real.arctan_lt_pi_div_two (x / 10000.0)
        norm_num at hw; nlinarith
      · subst h
        refine ⟨?_, Real.neg_pi_div_two_lt_arctan _, Real.arctan_lt_pi_div_two _⟩
        rw [Real.tan_arctan]; norm_num [tanUnit]; try ring
  · intro h
    cases u <;> simp [Angular.fromRaw, IsTangent] at h hu <;> subst h <;> norm_num [tanUnit] <;> ring

/-! ### temperature -/

/-- **C06_temperature** (full). Conversions between the four temperature scales are the
    exact affine maps: both sides denote the same thermodynamic temperature. -/
theorem C06_temperature (u v : U) (x y : ℝ) (h : conv .Temperature u v x = some y) :
    tempToK v y = tempToK u x := by
  cases u <;> cases v <;>
    simp [conv, toRaw, fromRaw, Temperature.toRaw, Temperature.fromRaw] at h <;>
    subst h <;> simp only [tempToK] <;> norm_num <;> ring


/-! ### inversion and transitivity, all 41 units -/

instance : DecidablePred IsTangent := fun u => by cases u <;> simp [IsTangent] <;> infer_instance

/-- the stored raw value is one that `to_raw` reproduces: for angular quantities at most one
    turn (no wrap), and inside (−π/2, π/2) when read in a tangent-defined unit -/
def RawOk (d : Dim) (v : U) (r : ℝ) : Prop :=
  d = .Angular → if IsTangent v then -(Real.pi / 2) < r ∧ r < Real.pi / 2 else r ≤ 2 * Real.pi

private theorem rt_angular (u : U) (x r : ℝ) (h1 : x * SI u ≤ 2 * Real.pi)
    (h : Angular.toRaw x u = some r) : Angular.fromRaw r u = some x := by
  have hp := pi_pos'
  have ha1 := Real.arctan_lt_pi_div_two (x / 3600.0)
  have ha2 := Real.arctan_lt_pi_div_two (x / 10000.0)
  cases u <;> simp [Angular.toRaw] at h <;> simp only [SI] at h1
  · simp [Angular.fromRaw, h]
  all_goals
    split_ifs at h with hw
    · exfalso; norm_num at hw; nlinarith
    · subst h; simp [Angular.fromRaw, Real.tan_arctan]; try field_simp

/-- **C06_round_trip** (full). Converting to any unit and back returns the original value
    (exactly, over ℝ) — every dimension, every unit, angles within one turn. -/
theorem C06_round_trip (d : Dim) (u : U) (x r : ℝ) (h1 : OneTurn d u x)
    (h : toRaw d x u = some r) : fromRaw d r u = some x := by
  cases d
  · exact rt_angular u x r (h1 rfl) h
  all_goals
    cases u <;>
    simp [toRaw, fromRaw, Distance.toRaw, Distance.fromRaw, Energy.toRaw, Energy.fromRaw,
      Pressure.toRaw, Pressure.fromRaw, Temperature.toRaw, Temperature.fromRaw,
      Velocity.toRaw, Velocity.fromRaw, Weight.toRaw, Weight.fromRaw] at h ⊢ <;>
    subst h <;> norm_num <;> field_simp <;> ring

private theorem stable_angular (u : U) (y r : ℝ)
    (hs : if IsTangent u then -(Real.pi / 2) < r ∧ r < Real.pi / 2 else r ≤ 2 * Real.pi)
    (h : Angular.fromRaw r u = some y) : Angular.toRaw y u = some r := by
  have hp := pi_pos'
  have hne : Real.pi ≠ 0 := ne_of_gt hp
  cases u <;> simp [Angular.fromRaw, IsTangent] at h hs <;> subst h
  · simp [Angular.toRaw]
  all_goals simp only [Angular.toRaw, fn_atan, fn_pi, fn_pymod]
  all_goals first
    | (have e : Real.arctan (Real.tan r * 3600.0 / 3600.0) = r := by
         rw [show Real.tan r * 3600.0 / 3600.0 = Real.tan r by norm_num]
         exact Real.arctan_tan hs.1 hs.2
       rw [e, if_neg]; nlinarith [hs.2])
    | (have e : Real.arctan (Real.tan r * 10000.0 / 10000.0) = r := by
         rw [show Real.tan r * 10000.0 / 10000.0 = Real.tan r by norm_num]
         exact Real.arctan_tan hs.1 hs.2
       rw [e, if_neg]; nlinarith [hs.2])
    | (split_ifs with hw
       · exfalso; norm_num at hw; field_simp at hw; nlinarith
       · congr 1; norm_num <;> field_simp)

/-- **C06_raw_stable** (full). Reading a stored value in a unit and constructing a new
    quantity from that reading stores the same value again. -/
theorem C06_raw_stable (d : Dim) (u : U) (y r : ℝ) (hs : RawOk d u r)
    (h : fromRaw d r u = some y) : toRaw d y u = some r := by
  cases d
  · exact stable_angular u y r (hs rfl) h
  all_goals
    cases u <;>
    simp [toRaw, fromRaw, Distance.toRaw, Distance.fromRaw, Energy.toRaw, Energy.fromRaw,
      Pressure.toRaw, Pressure.fromRaw, Temperature.toRaw, Temperature.fromRaw,
      Velocity.toRaw, Velocity.fromRaw, Weight.toRaw, Weight.fromRaw] at h ⊢ <;>
    subst h <;> norm_num <;> field_simp <;> ring

/-- **C06_transitive** (full). Converting A→B→C equals converting A→C. -/
theorem C06_transitive (d : Dim) (u v w : U) (x y z : ℝ)
    (huv : conv d u v x = some y) (hvw : conv d v w y = some z)
    (hs : ∀ r, toRaw d x u = some r → RawOk d v r) : conv d u w x = some z := by
  obtain ⟨r, hr, hy⟩ : ∃ r, toRaw d x u = some r ∧ fromRaw d r v = some y := by
    simpa [conv, Option.bind_eq_some_iff] using huv
  have hr' := C06_raw_stable d v y r (hs r hr) hy
  simp only [conv, hr', Option.bind_some] at hvw
  simp [conv, hr, hvw]

/-! ### non-vacuity: the hypotheses are met by concrete conversions -/

example : conv .Distance .Yard .Meter 100 = some 91.44 := by
  norm_num [conv, toRaw, fromRaw, Distance.toRaw, Distance.fromRaw]
example : conv .Temperature .Celsius .Kelvin 15 = some 288.15 := by
  norm_num [conv, toRaw, fromRaw, Temperature.toRaw, Temperature.fromRaw]
example : OneTurn .Angular .Degree 90 := by
  intro _; simp only [SI]; nlinarith [Real.pi_pos]
example : RawOk .Angular .InchesPer100Yd 0.01 := by
  intro _; simp [IsTangent]; constructor <;> nlinarith [Real.pi_gt_three]

end BC.Props.C06
