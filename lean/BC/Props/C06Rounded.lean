/-
  BC.Props.C06 (rounded interpretation) — "converting to any unit and back returns the original value to within a few ulps",
  as a THEOREM about floating-point arithmetic: the REGENERATED conversion chains of the five purely multiplicative dimensions
  (Distance, Energy, Pressure, Velocity, Weight; 31 units) are read over `RR R` — the reals with every operation and every
  decimal literal rounded by an arbitrary rounding `R` of relative error `u < 1` (BC/Rounded.lean; binary64: `u = 2⁻⁵³`) — and the
  round trip `from_raw(to_raw(x))` is shown to return `x · p` with `|p − 1| ≤ (1 + u)⁴ − 1  (≈ 4u: at most four roundings)`.
  The proof needs that both directions use THE SAME literal (the rounded constants then cancel exactly); a chain whose two
  directions carry different constants (seeded change C06c) does not satisfy it.  Angular and Temperature are not covered here
  (π and tangent; additive offsets: the error is then absolute, not relative) — exact round trip over ℝ (`C06_round_trip`) and the
  ulp-level search cover them.
-/
import Mathlib.Tactic.NormNum
import BC.Rounded
import BC.Gen.Units
namespace BC.Props.C06
open BC BC.Gen

variable {R : Rounding}

/-- `z` is `x` up to `n` roundings -/
def Near (R : Rounding) (n : Nat) (x z : ℝ) : Prop := ∃ p, z = x * p ∧ |p - 1| ≤ (1 + R.u) ^ n - 1

theorem near_zero (x : ℝ) : Near R 0 x x := ⟨1, by ring, by simp⟩

theorem near_mul {n : Nat} {x y : ℝ} (h : Near R n x y) (k : ℝ) : Near R (n + 1) (x * k) (R.rnd (y * k)) := by
  obtain ⟨p, hy, hp⟩ := h
  obtain ⟨δ, hδ, hr⟩ := R.rel (y * k)
  refine ⟨p * (1 + δ), by rw [hr, hy]; ring, ?_⟩
  have h1 : |(1 + δ) - 1| ≤ R.u := by simpa using hδ
  have := rel_comp hp h1
  calc |p * (1 + δ) - 1| ≤ (1 + ((1 + R.u) ^ n - 1)) * (1 + R.u) - 1 := this
    _ = (1 + R.u) ^ (n + 1) - 1 := by ring

theorem near_div {n : Nat} {x y : ℝ} (h : Near R n x y) (k : ℝ) : Near R (n + 1) (x / k) (R.rnd (y / k)) := by
  simpa [div_eq_mul_inv] using near_mul h k⁻¹

theorem near_mono {n m : Nat} (hnm : n ≤ m) {x z : ℝ} (h : Near R n x z) : Near R m x z := by
  obtain ⟨p, hz, hp⟩ := h
  refine ⟨p, hz, le_trans hp ?_⟩
  have h1 : (1 : ℝ) ≤ 1 + R.u := by linarith [R.u_nonneg]
  linarith [pow_le_pow_right₀ h1 hnm]

theorem near_bound {n : Nat} {x z : ℝ} (h : Near R n x z) : |z - x| ≤ ((1 + R.u) ^ n - 1) * |x| := by
  obtain ⟨p, hz, hp⟩ := h
  have : z - x = x * (p - 1) := by rw [hz]; ring
  rw [this, abs_mul, mul_comm]
  exact mul_le_mul_of_nonneg_right hp (abs_nonneg _)

theorem near_congr {n : Nat} {x x' z : ℝ} (h : Near R n x z) (e : x = x') : Near R n x' z := e ▸ h

/-! the four shapes of the regenerated chains (`c`, `a`, `b`: the rounded literals, non-zero) -/

theorem shape_id (x : RR R) : Near R 4 x.val x.val := near_mono (by omega) (near_zero _)

theorem shape_mul_div (x c : RR R) (hc : c.val ≠ 0) : Near R 4 x.val ((x * c) / c).val := by
  have h := near_div (near_mul (near_zero (R := R) x.val) c.val) c.val
  exact near_mono (by omega) (near_congr h (by field_simp))

theorem shape_div_mul (x c : RR R) (hc : c.val ≠ 0) : Near R 4 x.val ((x / c) * c).val := by
  have h := near_mul (near_div (near_zero (R := R) x.val) c.val) c.val
  exact near_mono (by omega) (near_congr h (by field_simp))

theorem shape_dm_md (x a b : RR R) (ha : a.val ≠ 0) (hb : b.val ≠ 0) : Near R 4 x.val ((((x / a) * b) * a) / b).val := by
  have h := near_div (near_mul (near_mul (near_div (near_zero (R := R) x.val) a.val) b.val) a.val) b.val
  exact near_congr h (by field_simp)

theorem shape_md_dm (x a b : RR R) (ha : a.val ≠ 0) (hb : b.val ≠ 0) : Near R 4 x.val ((((x * a) / b) / a) * b).val := by
  have h := near_mul (near_div (near_div (near_mul (near_zero (R := R) x.val) a.val) b.val) a.val) b.val
  exact near_congr h (by field_simp)

theorem lit_ne (m : Nat) (s : Bool) (e : Nat) (h : (OfScientific.ofScientific m s e : ℝ) ≠ 0) :
    (OfScientific.ofScientific m s e : RR R).val ≠ 0 := R.rnd_ne_zero h

/-- the purely multiplicative dimensions -/
def IsMultDim : Dim → Prop
  | .Distance | .Energy | .Pressure | .Velocity | .Weight => True
  | _ => False

/-- **C06_round_trip_rounded**: under the standard model of floating-point arithmetic, with ANY rounding of relative error `u < 1`,
    converting a value to any unit of a multiplicative dimension and back over the regenerated chains returns the original value up to
    at most four roundings: `|result − x| ≤ ((1 + u)⁴ − 1)·|x|`  (binary64: < 4.5·10⁻¹⁶·|x|, i.e. within a few ulps). -/
theorem C06_round_trip_rounded (R : Rounding) (d : Dim) (hd : IsMultDim d) (u : U) (hu : u.dim = some d) (x : RR R) :
    ∃ y z : RR R, toRaw d x u = some y ∧ fromRaw d y u = some z ∧
      |z.val - x.val| ≤ ((1 + R.u) ^ 4 - 1) * |x.val| := by
  cases d
  case Angular => exact absurd hd (by simp [IsMultDim])
  case Temperature => exact absurd hd (by simp [IsMultDim])
  all_goals
    cases u
    all_goals first
      | (exact absurd hu (by decide))
      | (refine ⟨_, _, rfl, rfl, near_bound ?_⟩
         first
           | exact shape_id x
           | exact shape_mul_div x _ (lit_ne _ _ _ (by norm_num))
           | exact shape_div_mul x _ (lit_ne _ _ _ (by norm_num))
           | exact shape_dm_md x _ _ (lit_ne _ _ _ (by norm_num)) (lit_ne _ _ _ (by norm_num))
           | exact shape_md_dm x _ _ (lit_ne _ _ _ (by norm_num)) (lit_ne _ _ _ (by norm_num)))

/-- non-vacuity: binary64-like rounding exists (the identity is a rounding with `u = 0`), and the bound is then exact -/
example : ∃ R : Rounding, R.u = 0 := ⟨⟨id, 0, le_rfl, by norm_num, by intro x; simp⟩, rfl⟩

end BC.Props.C06
