/-
  C07 — preferred units only choose how bare numbers and output are read.
  Subject: the REGENERATED table of coercion sites (`BC.Gen.sites`, every `PreferredUnits.<slot>(arg)` call of the
  API modules with the idiom of its argument), a small model of `Unit.__call__` on float-or-quantity arguments,
  and the REGENERATED unit chains.
-/
import Mathlib.Tactic.Ring
import Mathlib.Tactic.Linarith
import Mathlib.Tactic.NormNum
import BC.Real
import BC.Gen.Sites
import BC.Model.Conv
import BC.Props.C06

namespace BC.Props.C07
open BC BC.Gen BC.Model

/-- a float-or-quantity argument as the API receives it -/
inductive Arg where
  | absent                 -- None / not given
  | bare (x : ℝ)           -- a plain number
  | quant (raw : ℝ)        -- an explicit quantity (its raw magnitude)

/-- Python truthiness of the argument: None and a bare 0 are falsy, every quantity object is truthy
    (`BC.Props.C13.C13_truthy`: AbstractDimension defines neither `__bool__` nor `__len__`) -/
noncomputable def truthy : Arg → Bool
  | .absent => false
  | .bare x => decide (x ≠ 0)
  | .quant _ => true

/-- `Unit.__call__`: a quantity keeps its raw magnitude (only its display unit changes), a bare number is
    constructed in the slot's unit -/
noncomputable def unitCall (d : Dim) (slot : U) : Arg → ℝ
  | .absent => mkRaw d 0 slot     -- not reachable at the sites below (None is never passed to a unit)
  | .bare x => mkRaw d x slot
  | .quant r => r

/-- the raw magnitude stored at a coercion site with the given idiom; `dflt` is what the site's default
    expression evaluates to (a bare number or a quantity) -/
noncomputable def stored (d : Dim) (slot : U) (i : Idiom) (a dflt : Arg) : ℝ :=
  match i with
  | .plain => unitCall d slot a
  | .orZero => if truthy a then unitCall d slot a else unitCall d slot (.bare 0)
  | .orOther => if truthy a then unitCall d slot a else unitCall d slot dflt
  | .ifNone => match a with
    | .absent => unitCall d slot dflt
    | _ => unitCall d slot a
  | .other => unitCall d slot a

/-- **C07_quantity_keeps_raw** (full): an explicit quantity's stored magnitude is its own raw magnitude at every
    site, whatever unit the slot currently prefers. -/
theorem C07_quantity_keeps_raw (d : Dim) (slot slot' : U) (i : Idiom) (r : ℝ) (dflt : Arg) :
    stored d slot i (.quant r) dflt = r ∧ stored d slot i (.quant r) dflt = stored d slot' i (.quant r) dflt := by
  cases i <;> simp [stored, unitCall, truthy]

/-- **C07_bare_means_preferred** (full): at a site whose idiom is not `p or <non-zero default>`, a bare number `x`
    — every number, zero included — is stored as exactly `x` in the slot's preferred unit, i.e. it is
    interchangeable with the explicit quantity `slot(x)`. -/
theorem C07_bare_means_preferred (d : Dim) (slot : U) (i : Idiom) (hi : i ≠ .orOther) (x : ℝ) (dflt : Arg) :
    stored d slot i (.bare x) dflt = mkRaw d x slot ∧
    stored d slot i (.bare x) dflt = stored d slot i (.quant (mkRaw d x slot)) dflt := by
  cases i <;> simp [stored, unitCall, truthy] at hi ⊢
  all_goals (try (by_cases hx : x = 0 <;> simp [hx]))

/-- the `p or <default>` idiom genuinely swallows a bare zero (why `C07_no_default_swallows_zero` matters) -/
theorem C07_orOther_swallows_zero (d : Dim) (slot : U) (dflt : ℝ) :
    stored d slot .orOther (.bare 0) (.quant dflt) = dflt := by
  simp [stored, unitCall, truthy]

/-- **C07_no_default_swallows_zero** (full, regenerated over every coercion site of the API, kernel-checked):
    no site uses the `p or <non-zero default>` idiom. -/
theorem C07_no_default_swallows_zero : ∀ s ∈ sites, s.idiom ≠ .orOther := by decide

/-- **C07_sites_known** (full, regenerated): the sites whose argument is none of the four recognised idioms are
    exactly the two that pass an explicit quantity / a literal constructed by the library itself. -/
theorem C07_sites_known :
    (sites.filter (fun s => s.idiom == .other)).map (fun s => (s.func, s.slot)) =
      [("Vacuum.__init__", "pressure"), ("get_global_max_calc_step_size", "distance")] ∧
    30 ≤ sites.length := by decide

/-- **C07_bare_zero_distance** (regression, over the regenerated chains): a bare 0 stored in an affine dimension
    is NOT the raw value 0 — e.g. 0 °C is raw 32 °F — which is why replacing it by a default is observable. -/
theorem C07_bare_zero_celsius : mkRaw .Temperature (0:ℝ) .Celsius = 32 := by
  simp only [mkRaw, toRaw, Temperature.toRaw, Option.getD_some]
  norm_num

end BC.Props.C07
