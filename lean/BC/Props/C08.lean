/-
  C08 — the atmosphere reproduces the ISA and is self-consistent across altitude.
  Subject: BC.Model.Atmo (hand-written model of conditions.py `Atmo`/`Vacuum`), constants from the REGENERATED
  BC.Gen.Consts, unit reads through the REGENERATED chains.  Specification: the ISA (1976) constants below.
-/
import Mathlib.Tactic.Ring
import Mathlib.Tactic.FieldSimp
import Mathlib.Tactic.Linarith
import Mathlib.Tactic.NormNum
import Mathlib.Analysis.SpecialFunctions.Pow.Real
import Mathlib.Analysis.SpecialFunctions.Log.Basic
import Mathlib.Analysis.SpecialFunctions.Exp
import BC.Real
import BC.Model.Atmo
import BC.Lemmas.Atmo
import BC.Lemmas.AtmoVapour

namespace BC.Props.C08
open BC BC.Model BC.Gen BC.Lemmas.Atmo

/-! ISA (US Standard Atmosphere 1976, troposphere) -/
def isaT0 : ℝ := 288.15          -- K
def isaP0 : ℝ := 1013.25         -- hPa
def isaL : ℝ := 0.0065           -- K/m
def isaG0 : ℝ := 9.80665
def isaM : ℝ := 0.0289644        -- kg/mol
def isaR : ℝ := 8.31432          -- J/(mol K)
noncomputable def isaExp : ℝ := isaG0 * isaM / (isaR * isaL)

/-- **C08_unit_reads** (full, regenerated chains): the reads the atmosphere performs. -/
theorem C08_unit_reads (r : ℝ) :
    feetOf r = r / 12 ∧ meterOf r = r * 25.4 / 1000 ∧ celsiusOf r = (r - 32) * 5 / 9 ∧
    fpsOf r = r * 3.2808399 ∧ hPaOf r = r / 750.061683 * 1000 ∧
    mkRaw .Pressure r .hPa = r * 750.061683 / 1000 := by
  exact ⟨feetOf_eq r, meterOf_eq r, celsiusOf_eq r, fpsOf_eq r, hPaOf_eq r, mkRaw_hPa_eq r⟩

/-- **C08_isa_temperature** (full): the standard temperature at any altitude is exactly the ISA temperature
    15 °C − 6.5 K/km (altitude given as a raw inch value). -/
theorem C08_isa_temperature (alt : ℝ) :
    celsiusOf (standardTemperatureF alt) = 15 - isaL * meterOf alt := by
  rw [isa_temperature, isaL]

/-- **C08_isa_exponent** (full): the pressure exponent equals g₀M/(R*L) of the ISA to 2e-7. -/
theorem C08_isa_exponent : |(cPressureExponent : ℝ) - isaExp| ≤ 2e-7 := by
  norm_num [abs_le, cPressureExponent, isaExp, isaG0, isaM, isaR, isaL]

/-- **C08_isa_pressure** (full): for every tropospheric altitude (base of the power law in [0.74, 1.02], i.e.
    −1400 ft … 36000 ft) the standard pressure is within 1e-4 relative of the ISA pressure
    `P0·(1 − L z/T0)^(g₀M/R*L)`. -/
theorem C08_isa_pressure (alt : ℝ)
    (hb : 0.74 ≤ 1 - isaL * meterOf alt / isaT0 ∧ 1 - isaL * meterOf alt / isaT0 ≤ 1.02) :
    |standardPressureHPa alt / (isaP0 * (1 - isaL * meterOf alt / isaT0) ^ isaExp) - 1| ≤ 1e-4 := by
  rw [standardPressureHPa_eq]
  simp only [isaL, isaT0, isaP0] at hb ⊢
  set b : ℝ := 1 - 0.0065 * meterOf alt / 288.15 with hbdef
  obtain ⟨hb1, hb2⟩ := hb
  have hbpos : 0 < b := by norm_num at hb1; linarith
  have hδ := C08_isa_exponent
  simp only [cPressureExponent] at hδ
  have hq : 1013.25 * b ^ (5.255876:ℝ) / (1013.25 * b ^ isaExp) = b ^ ((5.255876:ℝ) - isaExp) := by
    rw [Real.rpow_sub hbpos, mul_div_mul_left _ _ (by norm_num)]
  rw [hq]
  have hδ1 : |(5.255876:ℝ) - isaExp| ≤ 1 := le_trans hδ (by norm_num)
  have := rpow_small_exp hb1 hb2 hδ1
  norm_num at this hδ ⊢
  linarith

/-- **C08_isa_sound** (full): Mach 1 is `49.0223·√(°R)` fps, and 49.0223 is within 1e-4 relative of the ISA
    value √(γR*/M) m/s per √K expressed in fps per √°R (compared on squares, no square root needed). -/
theorem C08_isa_sound (f : ℝ) (hf : -459.67 ≤ f) :
    machF f = Real.sqrt (f + 459.67) * 49.0223 ∧
    (49.0223 * (1 - 1e-4)) ^ 2 ≤ 1.4 * isaR / isaM / 1.8 / (0.3048 ^ 2) ∧
    1.4 * isaR / isaM / 1.8 / (0.3048 ^ 2) ≤ (49.0223 * (1 + 1e-4)) ^ 2 := by
  refine ⟨?_, ?_, ?_⟩
  · have : ¬ (f < -459.67) := not_lt.2 hf
    simp only [machF, cDegreesFtoR, cSpeedOfSoundImperial, this, if_false, fn_sqrt]
  · norm_num [isaR, isaM]
  · norm_num [isaR, isaM]

/-- **C08_dry_density** (full): for dry air (humidity 0) the CIPM-2007 density as coded is the ideal-gas density
    `100·p·Mₐ/(Z·R·T)` with a compressibility factor within 2.5e-5 of 1 over the tropospheric box, hence within 5e-5
    relative of the ISA density `p·M/(R*·T)` (p in hPa → ×100 Pa). -/
theorem C08_dry_density (t p : ℝ) (ht : -73.15 ≤ t ∧ t ≤ 46.85) (hp : 0 < p ∧ p ≤ 1100) :
    |airDensity t p 0 / (100 * p * isaM / (isaR * (t + 273.15))) - 1| ≤ 5e-5 := by
  have hT : 0 < t + 273.15 := by have := ht.1; norm_num at this ⊢; linarith
  have hZ := dryZ_bounds t p ht hp
  rw [airDensity_dry]
  simp only [isaM, isaR]
  exact dry_ratio p (t + 273.15) (dryZ t p) hp.1 hT hZ.1 hZ.2

/-- **C08_standard_station** (full): a station created with no pressure/temperature has the standard values of
    its altitude: `t0` the ISA temperature, `p0` the standard pressure. -/
theorem C08_standard_station (alt h : ℝ) (a : Atmo ℝ) (ha : Atmo.new alt none none none h = .ok a) :
    a.t0 = 15 - isaL * meterOf alt ∧ a.p0 = standardPressureHPa alt ∧ a.a0 = feetOf alt ∧
    a.mach = machF (standardTemperatureF alt) ∧ a.powderRaw = a.tempRaw := by
  obtain ⟨hh, -, rfl⟩ := Atmo_new_ok ha
  refine ⟨?_, rfl, rfl, rfl, rfl⟩
  simp only [Option.getD_none, isa_temperature, isaL]

/-- **C08_extrapolation_law** (full): for a standard station, the temperature and pressure it predicts at another
    altitude `z` (feet) are the standard temperature and pressure OF that altitude (barometric composition
    identity), as long as the temperature floor is not reached and the power-law bases are positive. -/
theorem C08_extrapolation_law (alt h z : ℝ) (a : Atmo ℝ) (ha : Atmo.new alt none none none h = .ok a)
    (hfloor : lowestTempC ≤ 15 - 0.0019812 * z)
    (hpos0 : 0 < 1 - 0.0019812 * feetOf alt / 288.15) (hposz : 0 < 1 - 0.0019812 * z / 288.15) :
    a.temperatureAt z = 15 - 0.0019812 * z ∧
    a.pressureAt z = 1013.25 * (1 - 0.0019812 * z / 288.15) ^ (5.255876 : ℝ) := by
  obtain ⟨hh, -, rfl⟩ := Atmo_new_ok ha
  have ht0 : celsiusOf (standardTemperatureF alt) = 15 - 0.0019812 * feetOf alt := by
    rw [isa_temperature, meterOf_eq, feetOf_eq]; norm_num; ring
  constructor
  · simp only [Atmo.temperatureAt, Option.getD_none, ht0, cLapseRateKperFoot]
    have e : (z - feetOf alt) * (-0.0019812) + (15 - 0.0019812 * feetOf alt) = 15 - 0.0019812 * z := by
      norm_num; ring
    rw [e, if_neg (not_lt.2 hfloor)]
  · simp only [Atmo.pressureAt, Atmo.pressureBase, Option.getD_none, ht0, cLapseRateKperFoot, cDegreesCtoK,
      cPressureExponent, standardPressureHPa_eq]
    have hm : (1:ℝ) - 0.0065 * meterOf alt / 288.15 = 1 - 0.0019812 * feetOf alt / 288.15 := by
      rw [meterOf_eq, feetOf_eq]; norm_num; ring
    rw [hm]
    set fa := feetOf alt with hfa
    have hTa : 0 < 288.15 - 0.0019812 * fa := by
      have : (1:ℝ) - 0.0019812 * fa / 288.15 = (288.15 - 0.0019812 * fa) / 288.15 := by norm_num; ring
      rw [this] at hpos0
      have h288 : (0:ℝ) < 288.15 := by norm_num
      exact (div_pos_iff_of_pos_right h288).1 hpos0
    have hz : (1.0:ℝ) + (-0.0019812) * (z - fa) / (15 - 0.0019812 * fa + 273.15)
        = (1 - 0.0019812 * z / 288.15) / (1 - 0.0019812 * fa / 288.15) := by
      have h1 : (15:ℝ) - 0.0019812 * fa + 273.15 = 288.15 - 0.0019812 * fa := by norm_num; ring
      rw [h1]
      have := base_ratio 0.0019812 288.15 fa z (by norm_num) hTa.ne'
      norm_num at this ⊢
      exact this
    have hnn : ¬ ((1.0:ℝ) + (-0.0019812) * (z - fa) / (15 - 0.0019812 * fa + 273.15) < 0.0) := by
      rw [hz]
      have := (div_pos hposz hpos0).le
      have h00 : (0.0:ℝ) = 0 := by norm_num
      rw [h00]; exact not_lt.mpr this
    rw [if_neg hnn, fn_pow, hz, mul_assoc, ← Real.mul_rpow hpos0.le (div_nonneg hposz.le hpos0.le),
      mul_div_cancel₀ _ hpos0.ne']

/-- **C08_shortcut** (full): within 30 ft of the station altitude the prediction is the station's own pair. -/
theorem C08_shortcut (a : Atmo ℝ) (z : ℝ) (hz : |a.a0 - z| < 30) :
    a.densityMachAt z = some (a.densityRatio, a.mach) := by
  have : |a.a0 - z| < (30.0:ℝ) := by norm_num; exact hz
  simp only [Atmo.densityMachAt, fn_abs, this, if_true]

/-- **C08_outside_shortcut** (full): beyond 30 ft the predicted density ratio is the station's ratio times
    `(T0·p(z))/(p0·T(z))` (ideal-gas scaling) and Mach 1 is `20.0467·√T(z)` m/s in fps — at EVERY altitude
    (the base of the pressure law is clamped at zero, so the prediction never fails). -/
theorem C08_outside_shortcut (a : Atmo ℝ) (z : ℝ) (hz : 30 ≤ |a.a0 - z|) :
    a.densityMachAt z = some
      (a.densityRatio * (((a.t0 + 273.15) * a.pressureAt z) / (a.p0 * (a.temperatureAt z + 273.15))),
       Real.sqrt (a.temperatureAt z + 273.15) * 20.0467 * 3.2808399) := by
  have h1 : ¬ |a.a0 - z| < (30.0:ℝ) := by norm_num; exact hz
  simp only [Atmo.densityMachAt, fn_abs, h1, if_false, fpsOf_eq, machK, cDegreesCtoK, cSpeedOfSoundMetric,
    fn_sqrt]

/-- **C08_pressure_base_clamped** (full): the base of the barometric power law is never negative, so
    `math.pow` is never asked for a non-integer power of a negative number. -/
theorem C08_pressure_base_clamped (a : Atmo ℝ) (z : ℝ) :
    0 ≤ a.pressureBase z ∧ ∃ r, a.densityMachAt z = some r := by
  constructor
  · unfold Atmo.pressureBase
    simp only
    split_ifs with h
    · norm_num
    · have h00 : (0.0:ℝ) = 0 := by norm_num
      rw [h00] at h; exact not_lt.mp h
  · unfold Atmo.densityMachAt
    split_ifs <;> exact ⟨_, rfl⟩

/-- **C08_vacuum_zero** (full): in a vacuum the density ratio is exactly zero at every altitude. -/
theorem C08_vacuum_zero (alt : ℝ) (temp : Option ℝ) (a : Atmo ℝ) (ha : Vacuum.new alt temp = .ok a)
    (z : ℝ) (res : ℝ × ℝ) (hr : a.densityMachAt z = some res) : res.1 = 0 := by
  unfold Vacuum.new at ha
  cases hn : Atmo.new alt none temp none (0.0:ℝ) with
  | error e => rw [hn] at ha; simp at ha
  | ok b =>
    rw [hn] at ha
    simp only [Except.ok.injEq] at ha
    subst ha
    unfold Atmo.densityMachAt at hr
    split_ifs at hr <;>
    · simp only [Option.some.injEq] at hr
      subst hr
      norm_num

/-- **C08_vacuum_stays_zero** (full): assigning a humidity to a vacuum — the only mutator an atmosphere has — leaves its
    density ratio untouched, so it is still exactly zero at every altitude; on an ordinary atmosphere the same
    assignment recomputes the density from the station values. -/
theorem C08_vacuum_stays_zero (a b : Atmo ℝ) (h : ℝ) :
    (a.setHumidity true h = .ok b → b.densityRatio = a.densityRatio ∧
        (a.densityRatio = 0 → ∀ z res, b.densityMachAt z = some res → res.1 = 0)) ∧
    (a.setHumidity false h = .ok b → b.densityRatio = airDensity a.t0 a.p0 b.humidity / 1.225 ∧
        b.t0 = a.t0 ∧ b.p0 = a.p0 ∧ b.a0 = a.a0 ∧ b.mach = a.mach) := by
  constructor
  · intro hb
    unfold Atmo.setHumidity at hb
    cases hn : normHumidity h with
    | error e => simp [hn] at hb
    | ok v =>
      simp only [hn, if_true, Except.ok.injEq] at hb
      subst hb
      refine ⟨rfl, ?_⟩
      intro h0 z res hr
      unfold Atmo.densityMachAt at hr
      simp only at hr
      split_ifs at hr <;>
      · simp only [Option.some.injEq] at hr
        subst hr
        simp [h0]
  · intro hb
    unfold Atmo.setHumidity at hb
    cases hn : normHumidity h with
    | error e => simp [hn] at hb
    | ok v =>
      simp only [hn, Bool.false_eq_true, if_false, Except.ok.injEq] at hb
      subst hb
      refine ⟨?_, rfl, rfl, rfl, rfl⟩
      simp only [cStandardDensityMetric]

/-- **C08_humidity** (full): humidity outside 0–100 is rejected; inside, percent and fraction mean the same. -/
theorem C08_humidity (h : ℝ) :
    (h < 0 ∨ 100 < h → normHumidity h = .error .humidity) ∧
    (0 ≤ h → h ≤ 1 → normHumidity h = .ok h) ∧
    (1 < h → h ≤ 100 → normHumidity h = .ok (h / 100) ∧ normHumidity (h / 100) = .ok (h / 100)) := by
  have h00 : (0.0:ℝ) = 0 := by norm_num
  have h100 : (100.0:ℝ) = 100 := by norm_num
  have h1 : (1.0:ℝ) = 1 := by norm_num
  simp only [normHumidity, h00, h100, h1]
  refine ⟨?_, ?_, ?_⟩
  · intro hh
    rw [if_pos hh]
  · intro ha hb
    rw [if_neg (by rw [not_or, not_lt, not_lt]; constructor <;> linarith), if_neg (by linarith)]
  · intro ha hb
    constructor
    · rw [if_neg (by rw [not_or, not_lt, not_lt]; constructor <;> linarith), if_pos ha]
    · rw [if_neg (by rw [not_or, not_lt, not_lt]; constructor <;> linarith), if_neg (by linarith)]

/-- **C08_density_falls_with_vapour** (partial: compressibility `Z` and enhancement factor frozen): for fixed `Z`,
    `R`, `T`, `p` the density `p·Mₐ/(Z R T)·(1 − x_v(1 − M_v/Mₐ))` decreases as the vapour mole fraction rises. -/
theorem C08_density_falls_with_vapour_partial (c x x' : ℝ) (hc : 0 < c) (hx : x ≤ x') :
    c * (1 - x' * (1 - 18.01528e-3 / 28.96546e-3)) ≤ c * (1 - x * (1 - 18.01528e-3 / 28.96546e-3)) := by
  apply mul_le_mul_of_nonneg_left _ hc.le
  norm_num
  linarith

/-- **C08_density_falls_with_humidity** (full; supersedes the partial statement above): with the compressibility factor `Z` and
    the enhancement factor LIVE, over −73.15 … 60 °C and 0 < p ≤ 1100 hPa the coded CIPM-2007 density `calculate_air_density(t, p, h)`
    does not increase when the humidity fraction rises from `h` to `h'` (as long as the vapour mole fraction stays ≤ 1, which it does
    by orders of magnitude: it is the saturation pressure over the total pressure times `h`). Hence the density RATIO of a station
    falls with humidity, fraction or percent meaning the same (`C08_humidity`). -/
theorem C08_density_falls_with_humidity (t p h h' : ℝ) (ht0 : -73.15 ≤ t) (ht1 : t ≤ 60) (hp0 : 0 < p) (hp1 : p ≤ 1100)
    (hh0 : 0 ≤ h) (hhh : h ≤ h') (hx1 : BC.Lemmas.AtmoVapour.xvOf t p h' ≤ 1) :
    airDensity t p h' ≤ airDensity t p h := by
  rw [BC.Lemmas.AtmoVapour.airDensity_eq_rhoX, BC.Lemmas.AtmoVapour.airDensity_eq_rhoX]
  have := BC.Lemmas.AtmoVapour.rhoX_antitone t p _ _ ht0 ht1 hp0 hp1
    (BC.Lemmas.AtmoVapour.xvOf_nonneg t p h hp0 hh0) (BC.Lemmas.AtmoVapour.xvOf_mono t p h h' hp0 hhh) hx1
  linarith

/-- non-vacuity of the hypotheses of `C08_density_falls_with_humidity`: dry air has mole fraction 0 -/
example : BC.Lemmas.AtmoVapour.xvOf 15 1013.25 0 ≤ 1 := by
  unfold BC.Lemmas.AtmoVapour.xvOf; norm_num

/-! non-vacuity: a standard station exists, and the hypotheses of `C08_isa_pressure` / `C08_extrapolation_law`
    are satisfiable (sea-level station, prediction at 1000 ft) -/
example : ∃ a : Atmo ℝ, Atmo.new (0:ℝ) none none none 0 = .ok a := by
  have h : normHumidity (0:ℝ) = .ok 0 := ((C08_humidity 0).2.1 le_rfl zero_le_one)
  simp only [Atmo.new, h]
  exact ⟨_, rfl⟩
example : (0.74:ℝ) ≤ 1 - isaL * meterOf 0 / isaT0 ∧ 1 - isaL * meterOf 0 / isaT0 ≤ 1.02 := by
  norm_num [meterOf_eq, isaL, isaT0]
example : (lowestTempC : ℝ) ≤ 15 - 0.0019812 * 1000 ∧ (0:ℝ) < 1 - 0.0019812 * feetOf 0 / 288.15 ∧
    (0:ℝ) < 1 - 0.0019812 * 1000 / 288.15 := by
  norm_num [lowestTempC, celsiusOf_eq, feetOf_eq, cLowestTempF]

end BC.Props.C08
