/-
  BC.Props.C08 (source ties) — the atmosphere functions of py_ballisticcalc/conditions.py, as REGENERATED from their Python
  bodies by translate/t_funcs.py on every run (`BC.Gen.Src.*`, one inlined expression per function), are the model functions
  the C08 theorems are about.  Every tie is generic in the number type, so it holds for the Float interpretation that is run
  against the implementation and for the real interpretation of the theorems alike.  Core-only (no Mathlib).
-/
import BC.Lemmas.SrcTac
import BC.Gen.Funcs
import BC.Model.Atmo
namespace BC.Props.C08
open BC BC.Gen BC.Model BC.Lemmas
set_option linter.unusedSectionVars false

section
variable {α : Type} [Add α] [Sub α] [Mul α] [Div α] [Neg α] [OfScientific α]
  [LT α] [DecidableLT α] [LE α] [DecidableLE α] [Fn α]

/-- `Atmo.standard_temperature(altitude)` (raw °F of the returned quantity) -/
theorem C08_src_standard_temperature (alt : α) : Src.standard_temperature alt = standardTemperatureF alt := by src_tie [Src.standard_temperature, standardTemperatureF]
/-- `Atmo.standard_pressure(altitude)` (raw value of the returned `Pressure.hPa(…)`) -/
theorem C08_src_standard_pressure (alt : α) :
    Src.standard_pressure alt = mkRaw .Pressure (standardPressureHPa alt) .hPa := rfl
theorem C08_src_machF (f : α) : Src.machF f = machF f := by src_tie [Src.machF, machF]
theorem C08_src_machK (k : α) : Src.machK k = machK k := by src_tie [Src.machK, machK]
/-- `Atmo.machC`: clamps at the lowest modelled temperature and defers to `machK` -/
theorem C08_src_machC (c : α) :
    Src.machC c = machK ((if c < -cDegreesCtoK then lowestTempC else c) + cDegreesCtoK) := by src_tie [Src.machC, machK, lowestTempC]
/-- `Atmo.calculate_air_density(t, p, humidity)` with its three nested helpers inlined -/
theorem C08_src_air_density (t p h : α) : Src.calculate_air_density t p h = airDensity t p h := by src_tie [Src.calculate_air_density, airDensity]
theorem C08_src_temperature_at (a : Atmo α) (x : α) : Src.temperature_at_altitude a x = a.temperatureAt x := by src_tie [Src.temperature_at_altitude, Atmo.temperatureAt]
theorem C08_src_pressure_at (a : Atmo α) (x : α) : Src.pressure_at_altitude a x = a.pressureAt x := by src_tie [Src.pressure_at_altitude, Atmo.pressureAt, Atmo.pressureBase]
/-- `get_density_factor_and_mach_for_altitude` (the only difference is where the `if` sits: around the pair or inside it) -/
theorem C08_src_density_and_mach (a : Atmo α) (x : α) : some (Src.density_and_mach a x) = a.densityMachAt x := by
  unfold Src.density_and_mach Atmo.densityMachAt
  split <;> rfl
/-- `density_metric` / `density_imperial` are the stored ratio times the standard densities -/
theorem C08_src_density_metric (a : Atmo α) : Src.density_metric a = a.densityRatio * cStandardDensityMetric := rfl
theorem C08_src_density_imperial (a : Atmo α) : Src.density_imperial a = a.densityRatio * cStandardDensity := rfl

end
end BC.Props.C08
