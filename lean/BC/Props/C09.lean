/-
  C09 — drag used by the solver is faithful to the drag table and BC definition.
  Subject: BC.Model.Drag (hand-written model of calculate_curve / _calculate_by_curve_and_mach_list /
  drag_by_mach), BC.Gen.Tables (REGENERATED from drag_tables.py), BC.Ref.Tables (committed reference).
-/
import Mathlib.Tactic.Ring
import Mathlib.Tactic.FieldSimp
import Mathlib.Tactic.Linarith
import Mathlib.Tactic.NormNum
import Mathlib.Analysis.Real.Pi.Bounds
import BC.Real
import BC.Model.Drag
import BC.Gen.Tables
import BC.Ref.Tables
import BC.Lemmas.C09

namespace BC.Props.C09
open BC BC.Model

/-- strictly ascending Mach column on `[0, n)` -/
def Ascending (n : Nat) (x : Nat → ℝ) : Prop := ∀ i j, i < j → j < n → x i < x j

/-- the points curve entry `k` is built from: `{0,1}` for `k = 0`, `{k-1,k,k+1}` otherwise -/
def CurveHas (k j : Nat) : Prop := if k = 0 then j = 0 ∨ j = 1 else j + 1 = k ∨ j = k ∨ j = k + 1

/-- **C09_curve_interpolates** (full): entry `k ≤ n-2` of the curve passes through each of its points. -/
theorem C09_curve_interpolates (n : Nat) (x y : Nat → ℝ) (hn : 3 ≤ n) (hx : Ascending n x)
    (k j : Nat) (hk : k ≤ n - 2) (hj : CurveHas k j) :
    evalCurve (curveAt n x y k) (x j) = y j := by
  exact Lemmas.C09.curve_interp n x y hn hx k j hk hj

/-- **C09_select_range** (full): the selected entry is never the closing line. -/
theorem C09_select_range (n : Nat) (x : Nat → ℝ) (hn : 3 ≤ n) (m : ℝ) : selectIdx n x m ≤ n - 2 := by
  exact Lemmas.C09.select_range n x hn m

/-- **C09_select_between** (full): for a query strictly between two neighbouring nodes the selected
    entry is built from points that include both neighbours. -/
theorem C09_select_between (n : Nat) (x : Nat → ℝ) (hn : 3 ≤ n) (hx : Ascending n x)
    (m : ℝ) (i : Nat) (hi : i + 1 < n) (h1 : x i < m) (h2 : m < x (i + 1)) :
    CurveHas (selectIdx n x m) i ∧ CurveHas (selectIdx n x m) (i + 1) := by
  exact Lemmas.C09.select_between hx hn m i hi h1 h2

/-- **C09_select_node** (full): at a tabulated Mach number the selected entry is built from that node. -/
theorem C09_select_node (n : Nat) (x : Nat → ℝ) (hn : 3 ≤ n) (hx : Ascending n x)
    (i : Nat) (hi : i < n) : CurveHas (selectIdx n x (x i)) i := by
  exact Lemmas.C09.select_node hx hn i hi

/-- **C09_select_beyond** (full): beyond the table the last three points are used, below it the first line. -/
theorem C09_select_beyond (n : Nat) (x : Nat → ℝ) (hn : 3 ≤ n) (hx : Ascending n x) (m : ℝ) :
    (x (n - 1) ≤ m → selectIdx n x m = n - 2) ∧ (m ≤ x 0 → selectIdx n x m = 0) := by
  exact Lemmas.C09.select_beyond hx hn m

/-- **C09_value_at_nodes** (full): the drag coefficient equals the tabulated value at every node. -/
theorem C09_value_at_nodes (n : Nat) (x y : Nat → ℝ) (hn : 3 ≤ n) (hx : Ascending n x)
    (i : Nat) (hi : i < n) : cdAt n x y (x i) = y i := by
  exact Lemmas.C09.value_at_nodes n x y hn hx i hi

/-- **C09_value_between** (full): between neighbouring nodes the value lies on a curve entry that
    interpolates both neighbours (a parabola, or the straight line in the first interval). -/
theorem C09_value_between (n : Nat) (x y : Nat → ℝ) (hn : 3 ≤ n) (hx : Ascending n x)
    (m : ℝ) (i : Nat) (hi : i + 1 < n) (h1 : x i < m) (h2 : m < x (i + 1)) :
    ∃ k, k ≤ n - 2 ∧ cdAt n x y m = evalCurve (curveAt n x y k) m ∧
      evalCurve (curveAt n x y k) (x i) = y i ∧ evalCurve (curveAt n x y k) (x (i + 1)) = y (i + 1) ∧
      (k = 0 → (curveAt n x y k).a = 0) := by
  have hk := Lemmas.C09.select_range n x hn m
  obtain ⟨c1, c2⟩ := C09_select_between n x hn hx m i hi h1 h2
  refine ⟨selectIdx n x m, hk, rfl, C09_curve_interpolates n x y hn hx _ i hk c1,
    C09_curve_interpolates n x y hn hx _ (i + 1) hk c2, ?_⟩
  intro h0
  rw [h0]
  simp only [curveAt, if_true]
  norm_num

/-- **C09_cd_homogeneous** (full): scaling the CD column scales the drag coefficient (used by C14). -/
theorem C09_cd_homogeneous (n : Nat) (x y : Nat → ℝ) (c m : ℝ) :
    cdAt n x (fun i => c * y i) m = c * cdAt n x y m := by
  exact Lemmas.C09.cd_homogeneous n x y c m

/-- **C09_retardation** (full): `drag_by_mach = Cd · K / BC` with `K` the standard air density
    0.076474 lb/ft³ times π/(8·144), to the six digits the constant is written with. -/
theorem C09_retardation (n : Nat) (x y : Nat → ℝ) (bc m : ℝ) :
    dragByMach n x y bc m = cdAt n x y m * 2.08551e-04 / bc ∧
    |(2.08551e-04 : ℝ) - 0.076474 * Real.pi / (8 * 144)| ≤ 1e-5 * (0.076474 * Real.pi / (8 * 144)) := by
  exact ⟨rfl, Lemmas.C09.retardation_const⟩

/-! ### the shipped tables (regenerated) -/

/-- decidable per-table facts over ℚ: at least 3 rows, first Mach = 0, strictly ascending Mach,
    all CD > 0 -/
def tableOk (t : List (ℚ × ℚ)) : Bool :=
  decide (3 ≤ t.length) && decide ((t.map (·.1)).head? = some 0) &&
  (t.map (·.1)).Pairwise (· < ·) && t.all (fun r => decide (0 < r.2))

/-- **C09_tables_are_reference** (full, regenerated): the nine shipped tables equal the committed
    reference copy, start at Mach 0, ascend strictly and have positive CD. -/
theorem C09_tables_are_reference :
    (Gen.TableG1 : List (ℚ × ℚ)) = Ref.TableG1 ∧ (Gen.TableG7 : List (ℚ × ℚ)) = Ref.TableG7 ∧
    (Gen.TableG2 : List (ℚ × ℚ)) = Ref.TableG2 ∧ (Gen.TableG5 : List (ℚ × ℚ)) = Ref.TableG5 ∧
    (Gen.TableG6 : List (ℚ × ℚ)) = Ref.TableG6 ∧ (Gen.TableG8 : List (ℚ × ℚ)) = Ref.TableG8 ∧
    (Gen.TableGI : List (ℚ × ℚ)) = Ref.TableGI ∧ (Gen.TableGS : List (ℚ × ℚ)) = Ref.TableGS ∧
    (Gen.TableRA4 : List (ℚ × ℚ)) = Ref.TableRA4 ∧
    Gen.tableNames = ["TableG1", "TableG7", "TableG2", "TableG5", "TableG6", "TableG8", "TableGI", "TableGS", "TableRA4"] ∧
    ∀ t ∈ [(Gen.TableG1 : List (ℚ × ℚ)), Gen.TableG7, Gen.TableG2, Gen.TableG5, Gen.TableG6, Gen.TableG8,
           Gen.TableGI, Gen.TableGS, Gen.TableRA4], tableOk t = true := by
  refine ⟨by decide +kernel, by decide +kernel, by decide +kernel, by decide +kernel,
    by decide +kernel, by decide +kernel, by decide +kernel, by decide +kernel, by decide +kernel,
    by decide +kernel, ?_⟩
  intro t ht
  simp only [List.mem_cons, List.not_mem_nil, or_false] at ht
  rcases ht with rfl | rfl | rfl | rfl | rfl | rfl | rfl | rfl | rfl <;> decide +kernel

/-- the table as index functions over ℝ (what the solver's `_init_trajectory` builds) -/
noncomputable def colX (t : List (ℚ × ℚ)) (i : Nat) : ℝ := ((t.getD i (0, 0)).1 : ℝ)
noncomputable def colY (t : List (ℚ × ℚ)) (i : Nat) : ℝ := ((t.getD i (0, 0)).2 : ℝ)

/-- **C09_within_5pct** (full, per shipped table, regenerated): between neighbouring entries of each
    shipped table the drag coefficient is positive and within 5 % of the linear interpolant.
    (Intended proof: a decidable per-interval certificate over ℚ, `decide +kernel`, lifted by a lemma.) -/
theorem C09_within_5pct (t : List (ℚ × ℚ))
    (ht : t ∈ [(Gen.TableG1 : List (ℚ × ℚ)), Gen.TableG7, Gen.TableG2, Gen.TableG5, Gen.TableG6, Gen.TableG8,
               Gen.TableGI, Gen.TableGS, Gen.TableRA4])
    (i : Nat) (hi : i + 1 < t.length) (m : ℝ) (h1 : colX t i ≤ m) (h2 : m ≤ colX t (i + 1)) :
    let cd := cdAt t.length (colX t) (colY t) m
    let lin := colY t i + (colY t (i + 1) - colY t i) / (colX t (i + 1) - colX t i) * (m - colX t i)
    0 < cd ∧ |cd - lin| ≤ 0.05 * lin := by
  have hc : Lemmas.C09.cert t = true := by
    simp only [List.mem_cons, List.not_mem_nil, or_false] at ht
    rcases ht with rfl | rfl | rfl | rfl | rfl | rfl | rfl | rfl | rfl
    · exact Lemmas.C09.cert_G1
    · exact Lemmas.C09.cert_G7
    · exact Lemmas.C09.cert_G2
    · exact Lemmas.C09.cert_G5
    · exact Lemmas.C09.cert_G6
    · exact Lemmas.C09.cert_G8
    · exact Lemmas.C09.cert_GI
    · exact Lemmas.C09.cert_GS
    · exact Lemmas.C09.cert_RA4
  exact Lemmas.C09.within_of_cert t hc i hi m h1 h2

/-! non-vacuity -/
example : Ascending 3 (fun i => (i : ℝ)) := by
  intro i j h _; show (i : ℝ) < (j : ℝ); exact_mod_cast h

end BC.Props.C09
