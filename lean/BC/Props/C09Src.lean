/-
  BC.Props.C09 (source ties) — `calculate_curve` (first entry, loop bounds, loop body, closing entry) and
  `_calculate_by_curve_and_mach_list` (initial bracket, loop condition, loop body, nearest-node selection, evaluation), as slices
  executed symbolically from the Python source on every run (translate/t_funcs.py; the table is given by index functions, as in the
  model), equal `curveAt`, `bsearch`, `selectIdx`, `cdAt` of the model.  Core-only, generic in the number type.
-/
import BC.Gen.Funcs
import BC.Model.Drag
namespace BC.Props.C09
open BC BC.Gen BC.Model
set_option linter.unusedSectionVars false
set_option linter.unusedSimpArgs false

section
variable {α : Type} [Add α] [Sub α] [Mul α] [Div α] [Neg α] [OfScientific α]
  [LT α] [DecidableLT α] [LE α] [DecidableLE α] [Fn α]

/-- the curve the code builds: first entry, then one entry per loop iteration `i ∈ [1, n-1)`, then the closing entry -/
theorem C09_src_curve (n : Nat) (x y : Nat → α) (i : Nat) :
    curveAt n x y i =
      if i = 0 then Src.curve_first x y
      else if i < (Src.curve_loop_bounds n).2 then Src.curve_mid x y i
      else Src.curve_last x y n := by
  unfold curveAt Src.curve_first Src.curve_mid Src.curve_last Src.curve_loop_bounds
  split
  · rfl
  · split <;> rfl

theorem C09_src_loop_bounds (n : Nat) : Src.curve_loop_bounds n = (1, n - 1) := rfl

/-- the bisection loop: initial bracket, condition and body are those of the model's `bsearch` -/
theorem C09_src_bsearch_init (n : Nat) : Src.bsearch_init n = (0, n - 2) := rfl

theorem C09_src_bsearch_step (x : Nat → α) (m : α) (fuel lo hi : Nat) :
    bsearch x m (fuel + 1) lo hi =
      if Src.bsearch_cond lo hi then
        bsearch x m fuel (Src.bsearch_step x m lo hi).1 (Src.bsearch_step x m lo hi).2
      else (lo, hi) := by
  unfold Src.bsearch_cond Src.bsearch_step
  conv => lhs; unfold bsearch
  by_cases h : 1 < hi - lo
  · have h' : hi - lo > 1 := h
    simp only [h, h', ↓reduceIte]
    by_cases hm : x ((hi + lo) / 2) < m <;> simp only [hm, ↓reduceIte]
  · have h' : ¬ hi - lo > 1 := h
    simp only [h, h', ↓reduceIte]

/-- nearest-node selection and evaluation of the selected parabola -/
theorem C09_src_select (n : Nat) (x : Nat → α) (m : α) :
    selectIdx n x m = Src.curve_select x m (bsearch x m (n - 2) 0 (n - 2)).1 (bsearch x m (n - 2) 0 (n - 2)).2 := rfl

theorem C09_src_value (n : Nat) (x y : Nat → α) (m : α) :
    cdAt n x y m = Src.curve_value x (curveAt n x y) m (bsearch x m (n - 2) 0 (n - 2)).1 (bsearch x m (n - 2) 0 (n - 2)).2 := rfl

end
end BC.Props.C09
