/-
  C10 — results depend only on the arguments: deterministic, isolated, non-mutating.
  Subject: (1) the REGENERATED attribute read/write sets of the solver and the mutators / global writers / foreign
  stores of the API modules (`BC.Gen.RW`, extracted from the current source on every run); (2) an abstract model of a
  stateful calculator whose public computations start by re-deriving all per-shot state, for which history- and
  interleaving-independence are proved for all histories and all schedules.
-/
import Mathlib.Logic.Function.Basic
import BC.Gen.RW

namespace BC.Props.C10
open BC.Gen

/-! ### what the source says now (regenerated) -/

/-- **C10_init_overwrites** (full, regenerated, kernel-checked): every attribute of the calculator object that the
    computations (`trajectory`, `zero_angle`, `_integrate` and the methods they call on `self`) read is assigned by
    `_init_trajectory` — the first thing both public computations do — or by the constructor from the configuration;
    the only attribute a computation itself assigns (`barrel_elevation` in `zero_angle`) is among those re-initialised. -/
theorem C10_init_overwrites :
    (∀ a ∈ computeReads, a ∈ initWrites ∨ a ∈ ctorWrites) ∧
    (∀ a ∈ computeWrites, a ∈ initWrites) ∧
    (∀ e ∈ initFirst, e.2 = true) ∧ initFirst.map (·.1) = ["trajectory", "zero_angle"] ∧
    ctorWrites = ["_config", "gravity_vector"] ∧
    -- `_init_trajectory` itself reads nothing it has not assigned earlier, except what the constructor set
    -- (no value surviving from an earlier call, e.g. a cache, enters the per-shot state) …
    (∀ a ∈ initReadsBeforeWrite, a ∈ ctorWrites) ∧
    -- … and no dynamic attribute access (getattr/setattr/__dict__ on self) hides reads or writes from this analysis
    dynamicSelfAccess = [] := by decide

/-- **C10_no_hidden_state** (full, regenerated, kernel-checked): the only functions writing module globals are the two
    documented setters of the global default step; the only attribute stores into objects other than `self` are
    `set_weapon_zero`'s `shot.weapon.zero_elevation` and the initialisation of freshly created result quantities; the only
    methods of the argument classes that assign to `self` outside construction are the documented mutators (humidity
    setter and its density update, winds setter, `calc_powder_sens`, and `convert`, which changes the DISPLAY unit only). -/
theorem C10_no_hidden_state :
    globalWriters = ["trajectory_calc/__init__.py:reset_globals:_globalUsePowderSensitivity,_globalMaxCalcStepSizeFeet",
                     "trajectory_calc/__init__.py:set_global_max_calc_step_size:_globalMaxCalcStepSizeFeet"] ∧
    foreignStores = ["interface.py:Calculator.set_weapon_zero:shot.weapon.zero_elevation",
      "trajectory_calc/_trajectory_calc.py:_new_feet:d._value", "trajectory_calc/_trajectory_calc.py:_new_feet:d._defined_units",
      "trajectory_calc/_trajectory_calc.py:_new_fps:d._value", "trajectory_calc/_trajectory_calc.py:_new_fps:d._defined_units",
      "trajectory_calc/_trajectory_calc.py:_new_rad:d._value", "trajectory_calc/_trajectory_calc.py:_new_rad:d._defined_units",
      "trajectory_calc/_trajectory_calc.py:_new_ft_lb:d._value", "trajectory_calc/_trajectory_calc.py:_new_ft_lb:d._defined_units",
      "trajectory_calc/_trajectory_calc.py:_new_lb:d._value", "trajectory_calc/_trajectory_calc.py:_new_lb:d._defined_units"] ∧
    selfStoresOutsideInit = ["conditions.py:Atmo.humidity:_humidity:setter", "conditions.py:Atmo.update_density_ratio:_density_ratio",
      "conditions.py:Shot.winds:_winds:setter", "munition.py:Ammo.calc_powder_sens:temp_modifier",
      "unit.py:AbstractDimension.convert:_defined_units"] := by decide

/-! ### the abstract calculator -/

/-- A calculator object with state `σ`: a public call with arguments `a` first runs `init` (which re-derives the
    per-shot state from the arguments) and then `compute`, which may read and write the state and produces the
    outcome (a result or an exception, both in `B`).  `frame` is the content of `C10_init_overwrites`: after `init`
    the outcome does not depend on what the state was before. -/
structure Calc (σ A B : Type) where
  init : σ → A → σ
  compute : σ → A → σ × B
  frame : ∀ s s' a, (compute (init s a) a).2 = (compute (init s' a) a).2

variable {σ A B : Type}

/-- one public call -/
def Calc.call (c : Calc σ A B) (s : σ) (a : A) : σ × B := c.compute (c.init s a) a

/-- a history of calls on one calculator: the outcomes in order -/
def Calc.run (c : Calc σ A B) : σ → List A → List B
  | _, [] => []
  | s, a :: as => (c.call s a).2 :: c.run (c.call s a).1 as

/-- **C10_history_independent** (full, induction over histories): in ANY finite history of calls on a long-used
    calculator — including calls whose outcome is an exception, after which the state is whatever the failed call
    left — the outcome of every call equals the outcome of that call on a fresh calculator (`fresh` arbitrary). -/
theorem C10_history_independent (c : Calc σ A B) (s fresh : σ) (hist : List A) :
    c.run s hist = hist.map (fun a => (c.call fresh a).2) := by
  induction hist generalizing s with
  | nil => rfl
  | cons a as ih =>
    simp only [Calc.run, List.map_cons]
    rw [ih]
    congr 1
    exact c.frame s fresh a

/-- repeating a call gives the same outcome -/
theorem C10_deterministic (c : Calc σ A B) (s : σ) (a : A) (between : List A) :
    (c.run s ([a] ++ between ++ [a])).head? = (c.run s ([a] ++ between ++ [a])).getLast? := by
  rw [C10_history_independent c s s]
  simp only [List.map_append, List.map_cons, List.map_nil, List.cons_append, List.nil_append, List.head?_cons]
  rw [← List.cons_append, List.getLast?_append]
  simp

/-! ### several calculators, one per thread, any interleaving -/

/-- a system of calculators indexed by `Nat` (each owned by one thread); a schedule is a list of
    (calculator index, arguments) in the order the calls happen to be executed -/
def sysRun (c : Calc σ A B) : (Nat → σ) → List (Nat × A) → List (Nat × B)
  | _, [] => []
  | st, (i, a) :: rest =>
    (i, (c.call (st i) a).2) :: sysRun c (Function.update st i (c.call (st i) a).1) rest

/-- **C10_interleaving** (full, induction over schedules): for EVERY interleaving of the calls of calculators owned by
    distinct threads, each calculator produces exactly the outcomes of its own call sequence run alone. -/
theorem C10_interleaving (c : Calc σ A B) (st : Nat → σ) (sched : List (Nat × A)) (i : Nat) :
    ((sysRun c st sched).filter (fun e => e.1 == i)).map (·.2) =
      c.run (st i) ((sched.filter (fun e => e.1 == i)).map (·.2)) := by
  induction sched generalizing st with
  | nil => rfl
  | cons e rest ih =>
    obtain ⟨j, a⟩ := e
    simp only [sysRun, List.filter_cons]
    by_cases h : j = i
    · subst h
      simp only [beq_self_eq_true, if_true, List.map_cons, Calc.run]
      rw [ih]
      simp
    · have hb : (j == i) = false := by simpa using h
      simp only [hb, Bool.false_eq_true, if_false]
      rw [ih]
      simp [Function.update_of_ne (Ne.symm h)]

/-- hence under any interleaving every outcome is the outcome of the same call on a fresh calculator -/
theorem C10_interleaving_fresh (c : Calc σ A B) (st : Nat → σ) (fresh : σ) (sched : List (Nat × A)) (i : Nat) :
    ((sysRun c st sched).filter (fun e => e.1 == i)).map (·.2) =
      ((sched.filter (fun e => e.1 == i)).map (·.2)).map (fun a => (c.call fresh a).2) := by
  rw [C10_interleaving, C10_history_independent c (st i) fresh]

/-! non-vacuity: a calculator that caches a per-shot value and counts its calls satisfies `frame` -/
example : Calc (Nat × Nat) Nat Nat where
  init := fun s a => (a * 2, s.2)            -- per-shot cache re-derived, call counter kept
  compute := fun s a => ((s.1, s.2 + 1), s.1 + a)
  frame := by intro s s' a; rfl

end BC.Props.C10
