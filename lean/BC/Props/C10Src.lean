/-
  BC.Props.C10 (source ties) — `TrajectoryCalc._init_trajectory(shot_info)`, executed symbolically from the Python source on every
  run (translate/t_funcs.py): every scalar attribute it assigns is the corresponding field of the model's `Run.ofShot` — a function of
  the configuration and of the raw values of the shot ALONE (no earlier state of the calculator enters; `C10_init_overwrites`
  shows from the regenerated read/write sets that these are all the attributes the computation reads).  `Shot.barrel_elevation /
  barrel_azimuth` and `Ammo.get_velocity_for_temp` are composed with their own translations (tied in C01Src / C17Src).  The three
  statements that prepare the drag curve are matched structurally.  Core-only, generic in the number type.
-/
import BC.Gen.Funcs
import BC.Model.Traj
import BC.Props.C17Src
namespace BC.Props.C10
open BC BC.Gen BC.Model
set_option linter.unusedSectionVars false

section
variable {α : Type} [Add α] [Sub α] [Mul α] [Div α] [Neg α] [OfScientific α]
  [LT α] [DecidableLT α] [LE α] [DecidableLE α] [Fn α] [Inhabited α]

theorem C10_src_init_trajectory (cfg : Config α) (s : ShotRaw α) (table : DragTable α)
    (hv : s.ammo.mv < 0.0 ∨ 0.0 < s.ammo.mv) :
    Src.init_trajectory cfg s =
      ((Run.ofShot cfg s table).proj,
       (s.bc, (Run.ofShot cfg s table).alt0, (Run.ofShot cfg s table).muzzleVelocity, (Run.ofShot cfg s table).sightHeight,
        (Run.ofShot cfg s table).cantCos, (Run.ofShot cfg s table).cantSin, (Run.ofShot cfg s table).barrelAzimuth,
        cfg.calcStep, barrelElevationOf s)) := by
  unfold Src.init_trajectory Run.ofShot
  rw [BC.Props.C17.C17_src_velocity_for_temp s.ammo s.atmo.powderRaw hv]
  rfl

end
end BC.Props.C10
