/-
  C11 — what is recorded never changes what is computed.
  Subject: BC.Model.Traj (`iterate`, `loop`, `physStep`, `physIter`, `recordStep`, `Filter.shouldRecord`).
-/
import Mathlib.Tactic.Ring
import Mathlib.Tactic.Linarith
import Mathlib.Tactic.NormNum
import BC.Real
import Mathlib.Tactic.FieldSimp
import BC.Model.Traj
import BC.Lemmas.Filter
import BC.Lemmas.Loop
import BC.Lemmas.C11

namespace BC.Props.C11
open BC BC.Model BC.Lemmas.Loop BC.Lemmas.C11 BC.Lemmas.C02

/-- **C11_iterate_state** (full): the projectile state, wind-sock state and the step by-products after
    one loop iteration are those of the physical step alone — whatever the filter flags, the recording
    step, the time step, the filter's state or the rows recorded so far. -/
theorem C11_iterate_state (r : Run ℝ) (ff : Flags) (sf : Nat) (l l' : LoopSt ℝ)
    (h : iterate r ff sf l = .ok l') :
    ∃ p, physStep r l.s l.ws = some p ∧ l'.s = p.out.st ∧ l'.ws = p.ws ∧ l'.drag = p.out.drag ∧
      l'.mach = p.mach ∧ l'.density = p.density ∧ l'.speed = p.out.speed := by
  unfold iterate at h
  cases hp : physStep r l.s l.ws with
  | none => simp [hp] at h
  | some p =>
    refine ⟨p, rfl, ?_⟩
    simp only [hp] at h
    cases hr : recordStep r ff sf l p.density p.mach with
    | error e => simp [hr] at h
    | ok fr =>
      obtain ⟨flt', rows⟩ := fr
      simp only [hr] at h
      cases hl : limitReason r.cfg r.alt0 p.out.speed p.out.st.pos.y with
      | some reason =>
        simp only [hl] at h
        split at h <;> simp at h
      | none =>
        simp only [hl, Except.ok.injEq] at h
        subst h
        simp

/-- after a successful iteration `lastX` is the down-range position of the state just processed -/
private theorem iterate_lastX {r : Run ℝ} {ff : Flags} {sf : Nat} {l l' : LoopSt ℝ}
    (h : iterate r ff sf l = .ok l') : l'.lastX = l.s.pos.x := by
  unfold iterate at h
  cases hp : physStep r l.s l.ws with
  | none => simp [hp] at h
  | some p =>
    simp only [hp] at h
    cases hr : recordStep r ff sf l p.density p.mach with
    | error e => simp [hr] at h
    | ok fr =>
      obtain ⟨flt', rows⟩ := fr
      simp only [hr] at h
      cases hl : limitReason r.cfg r.alt0 p.out.speed p.out.st.pos.y with
      | some reason =>
        simp only [hl] at h
        split at h <;> simp at h
      | none =>
        simp only [hl, Except.ok.injEq] at h
        subst h
        rfl

/-- the induction behind `C11_loop_on_physical_sequence`, with the extra fact that `n = 0` only when the loop
    exits at once -/
private theorem loop_phys (r : Run ℝ) (ff : Flags) (sf : Nat) (bound maxRange : ℝ) (fuel : Nat)
    (l l' : LoopSt ℝ) (h : loop r ff sf bound maxRange fuel l = .ok l') :
    ∃ n, physIter r n l.s l.ws = some (l'.s, l'.ws) ∧ bound < l'.s.pos.x ∧ maxRange ≤ l'.lastX ∧
      (n = 0 → l' = l) ∧
      (0 < n → ∃ sj wj, physIter r (n - 1) l.s l.ws = some (sj, wj) ∧ l'.lastX = sj.pos.x) := by
  induction fuel generalizing l with
  | zero => simp [loop] at h
  | succ fuel ih =>
    unfold loop at h
    split_ifs at h with hb
    · cases hit : iterate r ff sf l with
      | error e => simp [hit] at h
      | ok l1 =>
        simp only [hit] at h
        obtain ⟨p, hp, hs, hw, -⟩ := C11_iterate_state r ff sf l l1 hit
        have hlast : l1.lastX = l.s.pos.x := iterate_lastX hit
        obtain ⟨n, hn, hbd, hmr, hzero, hprev⟩ := ih l1 h
        have hstep : ∀ m, physIter r (m + 1) l.s l.ws = physIter r m l1.s l1.ws := by
          intro m
          rw [physIter, hp, hs, hw]
        refine ⟨n + 1, ?_, hbd, hmr, fun h0 => absurd h0 (Nat.succ_ne_zero n), fun _ => ?_⟩
        · rw [hstep]; exact hn
        · rcases Nat.eq_zero_or_pos n with h0 | hpos
          · have hl' : l' = l1 := hzero h0
            subst h0
            refine ⟨l.s, l.ws, rfl, ?_⟩
            rw [hl', hlast]
          · obtain ⟨sj, wj, hj, hlx⟩ := hprev hpos
            refine ⟨sj, wj, ?_, hlx⟩
            have : n + 1 - 1 = (n - 1) + 1 := by omega
            rw [this, hstep]; exact hj
    · cases h
      rw [not_or, not_le, not_lt] at hb
      exact ⟨0, rfl, hb.1, hb.2, fun _ => rfl, fun h0 => absurd h0 (lt_irrefl 0)⟩

/-- **C11_loop_on_physical_sequence** (full, induction over the loop): a completed run ends on the
    physical state sequence `physIter` of the shot, at a state beyond the loop bound whose predecessor had reached
    the range; only the LENGTH of the prefix depends on the request (through the bound and the range), nothing
    else does. -/
theorem C11_loop_on_physical_sequence (r : Run ℝ) (ff : Flags) (sf : Nat) (bound maxRange : ℝ) (fuel : Nat)
    (l l' : LoopSt ℝ) (h : loop r ff sf bound maxRange fuel l = .ok l') :
    ∃ n, physIter r n l.s l.ws = some (l'.s, l'.ws) ∧ bound < l'.s.pos.x ∧ maxRange ≤ l'.lastX ∧
      (0 < n → ∃ sj wj, physIter r (n - 1) l.s l.ws = some (sj, wj) ∧ l'.lastX = sj.pos.x) := by
  obtain ⟨n, h1, h2, h3, -, h4⟩ := loop_phys r ff sf bound maxRange fuel l l' h
  exact ⟨n, h1, h2, h3, h4⟩

/-- **C11_limit_is_physical** (full): whether (and why) a run stops at a limit is decided by the physical
    step alone, not by what is being recorded. -/
theorem C11_limit_is_physical (r : Run ℝ) (ff : Flags) (sf : Nat) (l : LoopSt ℝ) (reason : Reason)
    (rows : List (Row ℝ)) (h : iterate r ff sf l = .error (.range reason rows)) :
    ∃ p, physStep r l.s l.ws = some p ∧ limitReason r.cfg r.alt0 p.out.speed p.out.st.pos.y = some reason := by
  unfold iterate at h
  cases hp : physStep r l.s l.ws with
  | none => simp [hp] at h
  | some p =>
    refine ⟨p, rfl, ?_⟩
    simp only [hp] at h
    cases hr : recordStep r ff sf l p.density p.mach with
    | error e =>
      -- the recorder can only fail with `zeroDiv`
      simp only [hr, Except.error.injEq] at h
      subst h
      unfold recordStep at hr
      dsimp only at hr
      split_ifs at hr
      split at hr
      · split at hr <;> simp at hr
      · simp at hr
    | ok fr =>
      obtain ⟨flt', rows'⟩ := fr
      simp only [hr] at h
      cases hl : limitReason r.cfg r.alt0 p.out.speed p.out.st.pos.y with
      | some reason' =>
        simp only [hl] at h
        split at h
        · simp only [Except.error.injEq, Err.range.injEq] at h
          rw [h.1]
        · simp at h
      | none =>
        simp [hl] at h

/-- **C11_range_record** (full): a row recorded by the distance trigger is the linear interpolation between
    the previous and the current integration state at the record distance; it depends on nothing else in the
    filter (not on the mask, the time step, the time of the last record, nor the event bookkeeping). -/
theorem C11_range_record (f : TFilter ℝ) (sf : Nat) (pos vel : Vec ℝ) (mach time : ℝ)
    (hstep : 0 < f.rangeStep) (hx : f.nextRecordDistance ≤ pos.x) (hprev : f.prevPos.x < pos.x) :
    let nrd := skipRecords f.rangeStep pos.x sf f.nextRecordDistance
    let ratio := (nrd - f.prevPos.x) / (pos.x - f.prevPos.x)
    (f.shouldRecord sf pos vel mach time).2 =
        some ⟨lerp f.prevTime time ratio, f.prevPos.lerp pos ratio, f.prevVel.lerp vel ratio,
              lerp f.prevMach mach ratio⟩ ∧
    (f.prevPos.lerp pos ratio).x = nrd ∧
    (f.shouldRecord sf pos vel mach time).1.nextRecordDistance = nrd + f.rangeStep := by
  intro nrd ratio
  have hrt : f.rtB pos = true := (f.rtB_iff pos).2 ⟨hstep, hx⟩
  have hd : f.dist sf pos vel mach time =
      some ⟨lerp f.prevTime time ratio, f.prevPos.lerp pos ratio, f.prevVel.lerp vel ratio,
              lerp f.prevMach mach ratio⟩ := by
    simp [TFilter.dist, hrt, hprev, ratio, nrd]
  rw [TFilter.shouldRecord_eq]
  refine ⟨?_, ?_, ?_⟩
  · simp [hd]
  · have hne : pos.x - f.prevPos.x ≠ 0 := ne_of_gt (by linarith)
    rw [Vec.lerp_x]
    simp only [ratio]
    field_simp
    ring
  · simp [TFilter.core, hrt, nrd]

/-- the filter fields other than the mask -/
def SameButMask (f g : TFilter ℝ) : Prop := { g with filter := f.filter } = f

/-- **C11_extra_superset_step** (full): run side by side on the same state, the plain filter (mask RANGE)
    and the extra-data filter (mask ALL) stay equal except for the mask, set the same flags, and whenever
    the plain one records a row the extra one records the same row; a row recorded only by the extra one
    is an event row: its flag has no RANGE bit and has a ZERO_UP, ZERO_DOWN or MACH bit.

    STATEMENT CHANGED: the hypothesis `hapex : g.currentFlag.apex = false` was added.  Without it the last
    conjunct is false (see `C11_extra_superset_step_original_false` below): `shouldRecord` never touches the
    APEX bit of `currentFlag`, so a filter entered with that bit already set records (under mask ALL) a row
    whose flag is APEX only.  In the loop the hypothesis always holds: `recordStep` clears `currentFlag` to
    `fNONE` before every call of `shouldRecord`. -/
theorem C11_extra_superset_step (f g : TFilter ℝ) (hfg : SameButMask f g) (hf : f.filter = fRANGE)
    (hg : g.filter = fALL) (hapex : g.currentFlag.apex = false) (sf : Nat) (pos vel : Vec ℝ) (mach time : ℝ) :
    let a := f.shouldRecord sf pos vel mach time
    let b := g.shouldRecord sf pos vel mach time
    SameButMask a.1 b.1 ∧ a.1.filter = fRANGE ∧ b.1.filter = fALL ∧
    (a.2.isSome → b.2 = a.2) ∧
    (a.2 = none → b.2.isSome → b.1.currentFlag.range = false ∧
        (b.1.currentFlag.zeroUp || b.1.currentFlag.zeroDown || b.1.currentFlag.mach) = true) := by
  intro a b
  unfold SameButMask at hfg
  rw [hf] at hfg
  subst hfg
  have hcore : ({ g with filter := fRANGE }).core sf pos vel mach time =
      { g.core sf pos vel mach time with filter := fRANGE } := rfl
  have hdist : ({ g with filter := fRANGE }).dist sf pos vel mach time = g.dist sf pos vel mach time := rfl
  have hcapex : (g.core sf pos vel mach time).currentFlag.apex = false := hapex
  have ha : a = _ := TFilter.shouldRecord_eq _ sf pos vel mach time
  have hb : b = _ := TFilter.shouldRecord_eq _ sf pos vel mach time
  rw [hcore, hdist] at ha
  rw [ha, hb, hg]
  generalize g.dist sf pos vel mach time = D at *
  have hflt : (g.core sf pos vel mach time).filter = fALL := hg
  generalize g.core sf pos vel mach time = c at *
  obtain ⟨flt, ⟨c1, c2, c3, c4, c5⟩, sz, ts, rs, tolr, nrd, pm, pt, pp, pv, pvm, la⟩ := c
  simp only at hcapex hflt
  subst hcapex hflt
  refine ⟨rfl, rfl, rfl, ?_, ?_⟩
  · cases D <;> cases c4 <;> simp [Flags.anyCommon, fRANGE, fALL]
  · cases D <;> cases c4 <;> simp [Flags.anyCommon, fRANGE, fALL]

/-- counterexample filter: APEX bit already set in `currentFlag` -/
noncomputable def cexG : TFilter ℝ :=
  ⟨fALL, ⟨false, false, false, false, true⟩, fNONE, 0, 0, 0, 0, 0, 0, ⟨0, 0, 0⟩, ⟨0, 0, 0⟩, 0, 0⟩

/-- the statement of `C11_extra_superset_step` WITHOUT `hapex` (as originally written) is false -/
theorem C11_extra_superset_step_original_false : ¬ (∀ (f g : TFilter ℝ) (_ : SameButMask f g) (_ : f.filter = fRANGE)
    (_ : g.filter = fALL) (sf : Nat) (pos vel : Vec ℝ) (mach time : ℝ),
    let a := f.shouldRecord sf pos vel mach time
    let b := g.shouldRecord sf pos vel mach time
    SameButMask a.1 b.1 ∧ a.1.filter = fRANGE ∧ b.1.filter = fALL ∧
    (a.2.isSome → b.2 = a.2) ∧
    (a.2 = none → b.2.isSome → b.1.currentFlag.range = false ∧
        (b.1.currentFlag.zeroUp || b.1.currentFlag.zeroDown || b.1.currentFlag.mach) = true)) := by
  intro h
  have := (h { cexG with filter := fRANGE } cexG rfl rfl rfl 0 ⟨0, 0, 0⟩ ⟨0, 0, 0⟩ 0 0).2.2.2.2
  simp [TFilter.shouldRecord_eq, TFilter.core, TFilter.dist, TFilter.rtB, TFilter.ttB, TFilter.upB,
    TFilter.downB, TFilter.machB, cexG, Flags.anyCommon, fALL, fRANGE, fNONE] at this
  exact absurd this (by norm_num)

/-- **C11_time_step_keeps_distance_rows** (full): a time step only adds records: two filters that differ only
    in the time step and the time of the last record produce the same distance-trigger bookkeeping
    (`nextRecordDistance`), the same event flags, and whenever the one WITHOUT time step records a row, the
    one with it records the same row. -/
theorem C11_time_step_keeps_distance_rows (f g : TFilter ℝ)
    (hfg : { g with timeStep := f.timeStep, timeOfLastRecord := f.timeOfLastRecord } = f)
    (hf : f.timeStep = 0) (sf : Nat) (pos vel : Vec ℝ) (mach time : ℝ) :
    let a := f.shouldRecord sf pos vel mach time
    let b := g.shouldRecord sf pos vel mach time
    { b.1 with timeStep := a.1.timeStep, timeOfLastRecord := a.1.timeOfLastRecord,
               currentFlag := a.1.currentFlag } = a.1 ∧
    b.1.currentFlag.zeroUp = a.1.currentFlag.zeroUp ∧ b.1.currentFlag.zeroDown = a.1.currentFlag.zeroDown ∧
    b.1.currentFlag.mach = a.1.currentFlag.mach ∧
    (a.1.currentFlag.range = true → b.1.currentFlag.range = true) ∧
    (a.2.isSome → b.2 = a.2) := by
  intro a b
  rw [hf] at hfg
  generalize ht0 : f.timeOfLastRecord = t0 at hfg
  subst hfg
  have htt : ({ g with timeStep := 0, timeOfLastRecord := t0 }).ttB pos time = false := by
    rw [Bool.eq_false_iff, Ne, TFilter.ttB_iff]
    simp
  have hdist : ({ g with timeStep := 0, timeOfLastRecord := t0 }).dist sf pos vel mach time =
      g.dist sf pos vel mach time := rfl
  have ha : a = _ := TFilter.shouldRecord_eq _ sf pos vel mach time
  have hb : b = _ := TFilter.shouldRecord_eq _ sf pos vel mach time
  rw [hdist] at ha
  rw [ha, hb]
  refine ⟨rfl, rfl, rfl, rfl, ?_, ?_⟩
  · simp only [TFilter.core, htt]
    have : ({ g with timeStep := 0, timeOfLastRecord := t0 }).rtB pos = g.rtB pos := rfl
    rw [this]
    cases g.currentFlag.range <;> cases g.rtB pos <;> simp
  · have e0 : (({ g with timeStep := 0, timeOfLastRecord := t0 }).core sf pos vel mach time).currentFlag =
        ⟨g.currentFlag.zeroUp || g.upB pos, g.currentFlag.zeroDown || g.downB pos,
          g.currentFlag.mach || g.machB (vel.mag / mach),
          g.currentFlag.range || (g.rtB pos ||
            ({ g with timeStep := 0, timeOfLastRecord := t0 } : TFilter ℝ).ttB pos time),
          g.currentFlag.apex⟩ := rfl
    have e1 : (g.core sf pos vel mach time).currentFlag =
        ⟨g.currentFlag.zeroUp || g.upB pos, g.currentFlag.zeroDown || g.downB pos,
          g.currentFlag.mach || g.machB (vel.mag / mach),
          g.currentFlag.range || (g.rtB pos || g.ttB pos time), g.currentFlag.apex⟩ := rfl
    have e2 : ({ g with timeStep := 0, timeOfLastRecord := t0 } : TFilter ℝ).filter = g.filter := rfl
    rw [e0, e1, e2, htt]
    generalize g.dist sf pos vel mach time = D
    cases D with
    | some d => simp
    | none =>
      simp only [Flags.anyCommon, Option.isNone_none, Bool.and_true, Bool.or_false]
      intro h
      split_ifs at h with h1
      · have h2 : ((g.currentFlag.zeroUp || g.upB pos) && g.filter.zeroUp ||
            (g.currentFlag.zeroDown || g.downB pos) && g.filter.zeroDown ||
            (g.currentFlag.mach || g.machB (vel.mag / mach)) && g.filter.mach ||
            (g.currentFlag.range || (g.rtB pos || g.ttB pos time)) && g.filter.range ||
            g.currentFlag.apex && g.filter.apex) = true := by
          revert h1
          cases g.currentFlag.zeroUp <;> cases g.upB pos <;> cases g.filter.zeroUp <;>
          cases g.currentFlag.range <;> cases g.rtB pos <;> cases g.ttB pos time <;>
          cases g.filter.range <;> simp
        rw [if_pos h2, if_pos h1]
      · simp at h

/-! ### the extra-data run simulates the plain run (lifting `C11_extra_superset_step` to whole runs) -/

/-- the two loop states of a plain (mask RANGE) and an extra-data (mask ALL) run of the same shot, side by side -/
structure Sim (a b : LoopSt ℝ) : Prop where
  s : a.s = b.s
  ws : a.ws = b.ws
  drag : a.drag = b.drag
  mach : a.mach = b.mach
  density : a.density = b.density
  speed : a.speed = b.speed
  lastX : a.lastX = b.lastX
  flt : SameButMask a.flt b.flt
  fa : a.flt.filter = fRANGE
  fb : b.flt.filter = fALL
  /-- the plain rows are exactly the extra rows that carry the RANGE bit … -/
  rows : a.rows = b.rows.filter (fun row => row.flag.range)
  /-- … and every other extra row is an event row -/
  events : ∀ row ∈ b.rows, row.flag.range = false → (row.flag.zeroUp || row.flag.zeroDown || row.flag.mach) = true

/-- the recorder's part of `C11_extra_superset_iterate`: from the results `A`, `B` of `shouldRecord` in the two runs,
    related as `C11_extra_superset_step` says, to the filter and rows after `recordStep` -/
private theorem recOut_sim (r : Run ℝ) (drag density : ℝ) (rowsA rowsB : List (Row ℝ))
    (A B : TFilter ℝ × Option (BaseTraj ℝ)) (frA : TFilter ℝ × List (Row ℝ))
    (hS : SameButMask A.1 B.1)
    (hsome : A.2.isSome → B.2 = A.2)
    (hnone : A.2 = none → B.2.isSome → B.1.currentFlag.range = false ∧
        (B.1.currentFlag.zeroUp || B.1.currentFlag.zeroDown || B.1.currentFlag.mach) = true)
    (hrange : A.2.isSome → A.1.currentFlag.range = true)
    (hrows : rowsA = rowsB.filter (fun row => row.flag.range))
    (hev : ∀ row ∈ rowsB, row.flag.range = false → (row.flag.zeroUp || row.flag.zeroDown || row.flag.mach) = true)
    (ha : recOut r drag rowsA density A = .ok frA) :
    (∃ frB, recOut r drag rowsB density B = .ok frB ∧ frA.1 = A.1 ∧ frB.1 = B.1 ∧
        frA.2 = frB.2.filter (fun row => row.flag.range) ∧
        ∀ row ∈ frB.2, row.flag.range = false → (row.flag.zeroUp || row.flag.zeroDown || row.flag.mach) = true) ∨
    recOut r drag rowsB density B = .error .zeroDiv := by
  obtain ⟨fA, dA⟩ := A
  obtain ⟨fB, dB⟩ := B
  have hcf : fA.currentFlag = fB.currentFlag := by
    have := congrArg TFilter.currentFlag hS
    exact this.symm
  simp only at hsome hnone hrange hcf
  cases dA with
  | some d =>
    have hB : dB = some d := hsome rfl
    subst hB
    have hr : fA.currentFlag.range = true := hrange rfl
    simp only [recOut, ← hcf] at ha ⊢
    cases hrow : mkRow r d.time d.pos d.vel d.vel.mag d.mach density drag fA.currentFlag with
    | none => simp [hrow] at ha
    | some row =>
      simp only [hrow, Except.ok.injEq] at ha ⊢
      subst ha
      have hflag : row.flag.range = true := by rw [mkRow_flag hrow]; exact hr
      refine Or.inl ⟨_, rfl, rfl, rfl, ?_, ?_⟩
      · simp [hflag, hrows]
      · intro row' hm hf
        rcases List.mem_cons.1 hm with rfl | hm
        · rw [hflag] at hf; cases hf
        · exact hev _ hm hf
  | none =>
    simp only [recOut, Except.ok.injEq] at ha
    subst ha
    cases dB with
    | none =>
      exact Or.inl ⟨_, rfl, rfl, rfl, hrows, hev⟩
    | some d =>
      obtain ⟨h1, h2⟩ := hnone rfl rfl
      cases hrow : mkRow r d.time d.pos d.vel d.vel.mag d.mach density drag fB.currentFlag with
      | none => exact Or.inr (by simp only [recOut, hrow])
      | some row =>
        have hflag : row.flag = fB.currentFlag := mkRow_flag hrow
        refine Or.inl ⟨(fB, row :: rowsB), by simp only [recOut, hrow], rfl, rfl, ?_, ?_⟩
        · simp [hflag, h1, hrows]
        · intro row' hm hf
          rcases List.mem_cons.1 hm with rfl | hm
          · rw [hflag]; exact h2
          · exact hev _ hm hf

/-- **C11_extra_superset_iterate** (full): one loop iteration preserves the simulation (or the extra-data run
    stops with the division error of `create_trajectory_row` on a row only it records). -/
theorem C11_extra_superset_iterate (r : Run ℝ) (sf : Nat) (a b a' : LoopSt ℝ) (hsim : Sim a b)
    (ha : iterate r fRANGE sf a = .ok a') :
    (∃ b', iterate r fALL sf b = .ok b' ∧ Sim a' b') ∨ iterate r fALL sf b = .error .zeroDiv := by
  obtain ⟨p, fltA, rowsA, hp, hrec, hlim, rfl⟩ := iterate_ok_inv ha
  have hpb : physStep r b.s b.ws = some p := by rw [← hsim.s, ← hsim.ws]; exact hp
  rw [iterate_eq hpb hlim, recordStep_eq (by decide)]
  rw [recordStep_eq (by decide)] at hrec
  -- the two filters handed to `shouldRecord`
  have hcl : SameButMask ({ a.flt with currentFlag := fNONE } : TFilter ℝ) { b.flt with currentFlag := fNONE } :=
    by
    have h := congrArg (fun f : TFilter ℝ => ({ f with currentFlag := fNONE } : TFilter ℝ)) hsim.flt
    exact h
  obtain ⟨hS, hfa, hfb, hsome, hnone⟩ := C11_extra_superset_step _ _ hcl hsim.fa hsim.fb rfl sf a.s.pos a.s.vel
    p.mach a.s.time
  have hrange := shouldRecord_some_range ({ a.flt with currentFlag := fNONE } : TFilter ℝ) hsim.fa sf a.s.pos a.s.vel
    p.mach a.s.time
  rw [← hsim.s, ← hsim.drag]
  rcases recOut_sim r a.drag p.density a.rows b.rows _ _ (fltA, rowsA) hS hsome hnone hrange hsim.rows hsim.events hrec
    with ⟨frB, hB, h1, h2, h3, h4⟩ | hB
  · left
    rw [hB]
    refine ⟨_, rfl, ?_⟩
    simp only at h1
    exact
      { s := rfl, ws := rfl, drag := rfl, mach := rfl, density := rfl, speed := rfl, lastX := rfl
        flt := by
          show SameButMask fltA frB.1
          rw [h1, h2]; exact hS
        fa := by
          show fltA.filter = fRANGE
          rw [h1]; exact hfa
        fb := by
          show frB.1.filter = fALL
          rw [h2]; exact hfb
        rows := h3
        events := h4 }
  · right
    rw [hB]

/-- **C11_extra_superset** (full, induction over the loop): a completed extra-data run contains every row of the
    plain run of the same request, in order (the plain rows are exactly its rows flagged RANGE), and every additional
    row is flagged as an event (ZERO_UP, ZERO_DOWN or MACH).  The only way the extra-data run can fail where the plain
    one completes is the division error of `create_trajectory_row` (Mach 1 = 0) on a row that only it records. -/
theorem C11_extra_superset (r : Run ℝ) (sf : Nat) (bound maxRange : ℝ) (fuel : Nat) (a b a' : LoopSt ℝ)
    (hsim : Sim a b) (ha : loop r fRANGE sf bound maxRange fuel a = .ok a') :
    (∃ b', loop r fALL sf bound maxRange fuel b = .ok b' ∧ Sim a' b') ∨
    loop r fALL sf bound maxRange fuel b = .error .zeroDiv := by
  induction fuel generalizing a b with
  | zero => simp [loop] at ha
  | succ fuel ih =>
    unfold loop at ha ⊢
    rw [← hsim.s, ← hsim.lastX]
    split_ifs at ha ⊢ with hc
    · cases hit : iterate r fRANGE sf a with
      | error e => simp [hit] at ha
      | ok a1 =>
        simp only [hit] at ha
        rcases C11_extra_superset_iterate r sf a b a1 hsim hit with ⟨b1, hb1, hsim1⟩ | hb
        · simp only [hb1]
          exact ih a1 b1 hsim1 ha
        · right
          simp only [hb]
    · cases ha
      exact Or.inl ⟨b, rfl, hsim⟩

/-- the start states of the plain and the extra-data run of the same request are in `Sim` -/
theorem C11_start_sim (r : Run ℝ) (e step ts : ℝ) : Sim (startSt r e step fRANGE ts) (startSt r e step fALL ts) :=
  { s := rfl, ws := rfl, drag := rfl, mach := rfl, density := rfl, speed := rfl, lastX := rfl
    flt := rfl, fa := rfl, fb := rfl, rows := rfl
    events := by intro row hm; cases hm }

/-- the event bits of a row's flag -/
def isEvent (row : Row ℝ) : Bool := row.flag.zeroUp || row.flag.zeroDown || row.flag.mach

/-- **C11_extra_superset_rows_tail** (full, closing row included): for the same request, when the plain run
    (`integrate … fRANGE`) completes with `rowsP`, the extra-data run (`integrate … fALL`) either stops with the
    division error of `create_trajectory_row`, or completes with `rowsX` such that
    * `rowsP` is the list of the RANGE-flagged rows of `rowsX`, in order, followed by `tail`, where `tail` is empty or
      is the single closing flag-NONE row (`len(ranges) < 2` branch: the plain run recorded fewer than two rows);
    * every row of `rowsX` without the RANGE bit is an event row (ZERO_UP, ZERO_DOWN or MACH), or it is that same
      closing flag-NONE row (the extra-data run also recorded fewer than two rows).
    NB in the corner case where the plain run appends the closing row but the extra-data run recorded ≥ 2 rows, the
    closing row of the plain result is NOT in the extra-data result. -/
theorem C11_extra_superset_rows_tail (r : Run ℝ) (e maxRange step ts : ℝ) (fuel sf : Nat) (rowsP : List (Row ℝ))
    (hP : integrate r e maxRange step fRANGE ts fuel sf = .ok rowsP) :
    integrate r e maxRange step fALL ts fuel sf = .error .zeroDiv ∨
    ∃ rowsX tail, integrate r e maxRange step fALL ts fuel sf = .ok rowsX ∧
      rowsP = rowsX.filter (fun row => row.flag.range) ++ tail ∧
      (tail = [] ∨ ∃ row, tail = [row] ∧ row.flag = fNONE) ∧
      ∀ row ∈ rowsX, row.flag.range = false → isEvent row = true ∨ (row.flag = fNONE ∧ tail = [row]) := by
  obtain ⟨a', hloopA, hcl⟩ := integrate_ok_inv hP
  rw [integrate_eq]
  rcases C11_extra_superset r sf _ maxRange fuel _ _ a' (C11_start_sim r e step ts) hloopA with
    ⟨b', hloopB, hsim⟩ | hB
  swap
  · left; rw [hB]
  rw [hloopB]
  have hlen : a'.rows.length ≤ b'.rows.length := by
    rw [hsim.rows]; exact List.length_filter_le _ _
  rcases hcl with ⟨h2, rfl⟩ | ⟨h2, row, hrow, rfl⟩
  · -- no closing row in either run
    right
    refine ⟨b'.rows.reverse, [], ?_, ?_, Or.inl rfl, ?_⟩
    · simp only [closeRows, if_pos (le_trans h2 hlen)]
    · rw [List.append_nil, List.filter_reverse, hsim.rows]
    · intro row hm hf
      exact Or.inl (hsim.events row (List.mem_reverse.1 hm) hf)
  · have hrf : row.flag = fNONE := mkRow_flag hrow
    have hrr : row.flag.range = false := by rw [hrf]; rfl
    by_cases hb2 : 2 ≤ b'.rows.length
    · -- the plain run closes with a flag-NONE row, the extra-data run does not
      right
      refine ⟨b'.rows.reverse, [row], ?_, ?_, Or.inr ⟨row, rfl, hrf⟩, ?_⟩
      · simp only [closeRows, if_pos hb2]
      · rw [List.filter_reverse, ← hsim.rows, List.reverse_cons]
      · intro row' hm hf
        exact Or.inl (hsim.events row' (List.mem_reverse.1 hm) hf)
    · -- both close with the same flag-NONE row
      have hrowB : mkRow r b'.s.time b'.s.pos b'.s.vel b'.speed b'.mach b'.density b'.drag fNONE = some row := by
        rw [← hsim.s, ← hsim.speed, ← hsim.mach, ← hsim.density, ← hsim.drag]; exact hrow
      right
      refine ⟨(row :: b'.rows).reverse, [row], ?_, ?_, Or.inr ⟨row, rfl, hrf⟩, ?_⟩
      · simp only [closeRows, if_neg hb2, hrowB]
      · rw [List.reverse_cons, List.reverse_cons, List.filter_append, List.filter_reverse, ← hsim.rows]
        simp [hrr]
      · intro row' hm hf
        rcases List.mem_cons.1 (List.mem_reverse.1 hm) with rfl | hm
        · exact Or.inr ⟨hrf, rfl⟩
        · exact Or.inl (hsim.events row' hm hf)

/-- **C11_extra_superset_rows** (full): for the same request, when the plain run completes without having to append
    the closing flag-NONE row (it recorded at least two rows, i.e. all its rows are flagged RANGE), the extra-data
    run — unless it stops with the division error of `create_trajectory_row` on a row only it records — returns a
    list whose RANGE-flagged rows are exactly the rows of the plain run, in order, all other rows being event rows
    (ZERO_UP, ZERO_DOWN or MACH). -/
theorem C11_extra_superset_rows (r : Run ℝ) (e maxRange step ts : ℝ) (fuel sf : Nat) (rowsP : List (Row ℝ))
    (hP : integrate r e maxRange step fRANGE ts fuel sf = .ok rowsP)
    (hfull : ∀ row ∈ rowsP, row.flag.range = true) :
    integrate r e maxRange step fALL ts fuel sf = .error .zeroDiv ∨
    ∃ rowsX, integrate r e maxRange step fALL ts fuel sf = .ok rowsX ∧
      rowsP = rowsX.filter (fun row => row.flag.range) ∧
      ∀ row ∈ rowsX, row.flag.range = false → isEvent row = true := by
  rcases C11_extra_superset_rows_tail r e maxRange step ts fuel sf rowsP hP with h | ⟨rowsX, tail, hX, hrows, ht, hev⟩
  · exact Or.inl h
  · have htail : tail = [] := by
      rcases ht with ht | ⟨row, rfl, hrf⟩
      · exact ht
      · have := hfull row (by rw [hrows]; simp)
        rw [hrf] at this
        cases this
    subst htail
    refine Or.inr ⟨rowsX, hX, by simpa using hrows, ?_⟩
    intro row hm hf
    rcases hev row hm hf with h | ⟨-, h⟩
    · exact h
    · cases h

end BC.Props.C11
