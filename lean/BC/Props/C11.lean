/-
  C11 — what is recorded never changes what is computed.
  Subject: BC.Model.Traj (`iterate`, `loop`, `physStep`, `physIter`, `recordStep`, `Filter.shouldRecord`).
-/
import Mathlib.Tactic.Ring
import Mathlib.Tactic.Linarith
import Mathlib.Tactic.NormNum
import BC.Real
import Mathlib.Tactic.FieldSimp
import BC.Model.Traj
import BC.Lemmas.Filter

namespace BC.Props.C11
open BC BC.Model

/-- **C11_iterate_state** (full): the projectile state, wind-sock state and the step by-products after
    one loop iteration are those of the physical step alone — whatever the filter flags, the recording
    step, the time step, the filter's state or the rows recorded so far. -/
theorem C11_iterate_state (r : Run ℝ) (ff : Flags) (sf : Nat) (l l' : LoopSt ℝ)
    (h : iterate r ff sf l = .ok l') :
    ∃ p, physStep r l.s l.ws = some p ∧ l'.s = p.out.st ∧ l'.ws = p.ws ∧ l'.drag = p.out.drag ∧
      l'.mach = p.mach ∧ l'.density = p.density ∧ l'.speed = p.out.speed := by
  unfold iterate at h
  cases hp : physStep r l.s l.ws with
  | none => simp [hp] at h
  | some p =>
    refine ⟨p, rfl, ?_⟩
    simp only [hp] at h
    cases hr : recordStep r ff sf l p.density p.mach with
    | error e => simp [hr] at h
    | ok fr =>
      obtain ⟨flt', rows⟩ := fr
      simp only [hr] at h
      cases hl : limitReason r.cfg r.alt0 p.out.speed p.out.st.pos.y with
      | some reason =>
        simp only [hl] at h
        split at h <;> simp at h
      | none =>
        simp only [hl, Except.ok.injEq] at h
        subst h
        simp

/-- after a successful iteration `lastX` is the down-range position of the state just processed -/
private theorem iterate_lastX {r : Run ℝ} {ff : Flags} {sf : Nat} {l l' : LoopSt ℝ}
    (h : iterate r ff sf l = .ok l') : l'.lastX = l.s.pos.x := by
  unfold iterate at h
  cases hp : physStep r l.s l.ws with
  | none => simp [hp] at h
  | some p =>
    simp only [hp] at h
    cases hr : recordStep r ff sf l p.density p.mach with
    | error e => simp [hr] at h
    | ok fr =>
      obtain ⟨flt', rows⟩ := fr
      simp only [hr] at h
      cases hl : limitReason r.cfg r.alt0 p.out.speed p.out.st.pos.y with
      | some reason =>
        simp only [hl] at h
        split at h <;> simp at h
      | none =>
        simp only [hl, Except.ok.injEq] at h
        subst h
        rfl

/-- the induction behind `C11_loop_on_physical_sequence`, with the extra fact that `n = 0` only when the loop
    exits at once -/
private theorem loop_phys (r : Run ℝ) (ff : Flags) (sf : Nat) (bound maxRange : ℝ) (fuel : Nat)
    (l l' : LoopSt ℝ) (h : loop r ff sf bound maxRange fuel l = .ok l') :
    ∃ n, physIter r n l.s l.ws = some (l'.s, l'.ws) ∧ bound < l'.s.pos.x ∧ maxRange ≤ l'.lastX ∧
      (n = 0 → l' = l) ∧
      (0 < n → ∃ sj wj, physIter r (n - 1) l.s l.ws = some (sj, wj) ∧ l'.lastX = sj.pos.x) := by
  induction fuel generalizing l with
  | zero => simp [loop] at h
  | succ fuel ih =>
    unfold loop at h
    split_ifs at h with hb
    · cases hit : iterate r ff sf l with
      | error e => simp [hit] at h
      | ok l1 =>
        simp only [hit] at h
        obtain ⟨p, hp, hs, hw, -⟩ := C11_iterate_state r ff sf l l1 hit
        have hlast : l1.lastX = l.s.pos.x := iterate_lastX hit
        obtain ⟨n, hn, hbd, hmr, hzero, hprev⟩ := ih l1 h
        have hstep : ∀ m, physIter r (m + 1) l.s l.ws = physIter r m l1.s l1.ws := by
          intro m
          rw [physIter, hp, hs, hw]
        refine ⟨n + 1, ?_, hbd, hmr, fun h0 => absurd h0 (Nat.succ_ne_zero n), fun _ => ?_⟩
        · rw [hstep]; exact hn
        · rcases Nat.eq_zero_or_pos n with h0 | hpos
          · have hl' : l' = l1 := hzero h0
            subst h0
            refine ⟨l.s, l.ws, rfl, ?_⟩
            rw [hl', hlast]
          · obtain ⟨sj, wj, hj, hlx⟩ := hprev hpos
            refine ⟨sj, wj, ?_, hlx⟩
            have : n + 1 - 1 = (n - 1) + 1 := by omega
            rw [this, hstep]; exact hj
    · cases h
      rw [not_or, not_le, not_lt] at hb
      exact ⟨0, rfl, hb.1, hb.2, fun _ => rfl, fun h0 => absurd h0 (lt_irrefl 0)⟩

/-- **C11_loop_on_physical_sequence** (full, induction over the loop): a completed run ends on the
    physical state sequence `physIter` of the shot, at a state beyond the loop bound whose predecessor had reached
    the range; only the LENGTH of the prefix depends on the request (through the bound and the range), nothing
    else does. -/
theorem C11_loop_on_physical_sequence (r : Run ℝ) (ff : Flags) (sf : Nat) (bound maxRange : ℝ) (fuel : Nat)
    (l l' : LoopSt ℝ) (h : loop r ff sf bound maxRange fuel l = .ok l') :
    ∃ n, physIter r n l.s l.ws = some (l'.s, l'.ws) ∧ bound < l'.s.pos.x ∧ maxRange ≤ l'.lastX ∧
      (0 < n → ∃ sj wj, physIter r (n - 1) l.s l.ws = some (sj, wj) ∧ l'.lastX = sj.pos.x) := by
  obtain ⟨n, h1, h2, h3, -, h4⟩ := loop_phys r ff sf bound maxRange fuel l l' h
  exact ⟨n, h1, h2, h3, h4⟩

/-- **C11_limit_is_physical** (full): whether (and why) a run stops at a limit is decided by the physical
    step alone, not by what is being recorded. -/
theorem C11_limit_is_physical (r : Run ℝ) (ff : Flags) (sf : Nat) (l : LoopSt ℝ) (reason : Reason)
    (rows : List (Row ℝ)) (h : iterate r ff sf l = .error (.range reason rows)) :
    ∃ p, physStep r l.s l.ws = some p ∧ limitReason r.cfg r.alt0 p.out.speed p.out.st.pos.y = some reason := by
  unfold iterate at h
  cases hp : physStep r l.s l.ws with
  | none => simp [hp] at h
  | some p =>
    refine ⟨p, rfl, ?_⟩
    simp only [hp] at h
    cases hr : recordStep r ff sf l p.density p.mach with
    | error e =>
      -- the recorder can only fail with `zeroDiv`
      simp only [hr, Except.error.injEq] at h
      subst h
      unfold recordStep at hr
      dsimp only at hr
      split_ifs at hr
      split at hr
      · split at hr <;> simp at hr
      · simp at hr
    | ok fr =>
      obtain ⟨flt', rows'⟩ := fr
      simp only [hr] at h
      cases hl : limitReason r.cfg r.alt0 p.out.speed p.out.st.pos.y with
      | some reason' =>
        simp only [hl] at h
        split at h
        · simp only [Except.error.injEq, Err.range.injEq] at h
          rw [h.1]
        · simp at h
      | none =>
        simp [hl] at h

/-- **C11_range_record** (full): a row recorded by the distance trigger is the linear interpolation between
    the previous and the current integration state at the record distance; it depends on nothing else in the
    filter (not on the mask, the time step, the time of the last record, nor the event bookkeeping). -/
theorem C11_range_record (f : TFilter ℝ) (sf : Nat) (pos vel : Vec ℝ) (mach time : ℝ)
    (hstep : 0 < f.rangeStep) (hx : f.nextRecordDistance ≤ pos.x) (hprev : f.prevPos.x < pos.x) :
    let nrd := skipRecords f.rangeStep pos.x sf f.nextRecordDistance
    let ratio := (nrd - f.prevPos.x) / (pos.x - f.prevPos.x)
    (f.shouldRecord sf pos vel mach time).2 =
        some ⟨lerp f.prevTime time ratio, f.prevPos.lerp pos ratio, f.prevVel.lerp vel ratio,
              lerp f.prevMach mach ratio⟩ ∧
    (f.prevPos.lerp pos ratio).x = nrd ∧
    (f.shouldRecord sf pos vel mach time).1.nextRecordDistance = nrd + f.rangeStep := by
  intro nrd ratio
  have hrt : f.rtB pos = true := (f.rtB_iff pos).2 ⟨hstep, hx⟩
  have hd : f.dist sf pos vel mach time =
      some ⟨lerp f.prevTime time ratio, f.prevPos.lerp pos ratio, f.prevVel.lerp vel ratio,
              lerp f.prevMach mach ratio⟩ := by
    simp [TFilter.dist, hrt, hprev, ratio, nrd]
  rw [TFilter.shouldRecord_eq]
  refine ⟨?_, ?_, ?_⟩
  · simp [hd]
  · have hne : pos.x - f.prevPos.x ≠ 0 := ne_of_gt (by linarith)
    rw [Vec.lerp_x]
    simp only [ratio]
    field_simp
    ring
  · simp [TFilter.core, hrt, nrd]

/-- the filter fields other than the mask -/
def SameButMask (f g : TFilter ℝ) : Prop := { g with filter := f.filter } = f

/-- **C11_extra_superset_step** (full): run side by side on the same state, the plain filter (mask RANGE)
    and the extra-data filter (mask ALL) stay equal except for the mask, set the same flags, and whenever
    the plain one records a row the extra one records the same row; a row recorded only by the extra one
    is an event row: its flag has no RANGE bit and has a ZERO_UP, ZERO_DOWN or MACH bit.

    STATEMENT CHANGED: the hypothesis `hapex : g.currentFlag.apex = false` was added.  Without it the last
    conjunct is false (see `C11_extra_superset_step_original_false` below): `shouldRecord` never touches the
    APEX bit of `currentFlag`, so a filter entered with that bit already set records (under mask ALL) a row
    whose flag is APEX only.  In the loop the hypothesis always holds: `recordStep` clears `currentFlag` to
    `fNONE` before every call of `shouldRecord`. -/
theorem C11_extra_superset_step (f g : TFilter ℝ) (hfg : SameButMask f g) (hf : f.filter = fRANGE)
    (hg : g.filter = fALL) (hapex : g.currentFlag.apex = false) (sf : Nat) (pos vel : Vec ℝ) (mach time : ℝ) :
    let a := f.shouldRecord sf pos vel mach time
    let b := g.shouldRecord sf pos vel mach time
    SameButMask a.1 b.1 ∧ a.1.filter = fRANGE ∧ b.1.filter = fALL ∧
    (a.2.isSome → b.2 = a.2) ∧
    (a.2 = none → b.2.isSome → b.1.currentFlag.range = false ∧
        (b.1.currentFlag.zeroUp || b.1.currentFlag.zeroDown || b.1.currentFlag.mach) = true) := by
  intro a b
  unfold SameButMask at hfg
  rw [hf] at hfg
  subst hfg
  have hcore : ({ g with filter := fRANGE }).core sf pos vel mach time =
      { g.core sf pos vel mach time with filter := fRANGE } := rfl
  have hdist : ({ g with filter := fRANGE }).dist sf pos vel mach time = g.dist sf pos vel mach time := rfl
  have hcapex : (g.core sf pos vel mach time).currentFlag.apex = false := hapex
  have ha : a = _ := TFilter.shouldRecord_eq _ sf pos vel mach time
  have hb : b = _ := TFilter.shouldRecord_eq _ sf pos vel mach time
  rw [hcore, hdist] at ha
  rw [ha, hb, hg]
  generalize g.dist sf pos vel mach time = D at *
  have hflt : (g.core sf pos vel mach time).filter = fALL := hg
  generalize g.core sf pos vel mach time = c at *
  obtain ⟨flt, ⟨c1, c2, c3, c4, c5⟩, sz, ts, rs, tolr, nrd, pm, pt, pp, pv, pvm, la⟩ := c
  simp only at hcapex hflt
  subst hcapex hflt
  refine ⟨rfl, rfl, rfl, ?_, ?_⟩
  · cases D <;> cases c4 <;> simp [Flags.anyCommon, fRANGE, fALL]
  · cases D <;> cases c4 <;> simp [Flags.anyCommon, fRANGE, fALL]

/-- counterexample filter: APEX bit already set in `currentFlag` -/
noncomputable def cexG : TFilter ℝ :=
  ⟨fALL, ⟨false, false, false, false, true⟩, fNONE, 0, 0, 0, 0, 0, 0, ⟨0, 0, 0⟩, ⟨0, 0, 0⟩, 0, 0⟩

/-- the statement of `C11_extra_superset_step` WITHOUT `hapex` (as originally written) is false -/
theorem C11_extra_superset_step_original_false : ¬ (∀ (f g : TFilter ℝ) (_ : SameButMask f g) (_ : f.filter = fRANGE)
    (_ : g.filter = fALL) (sf : Nat) (pos vel : Vec ℝ) (mach time : ℝ),
    let a := f.shouldRecord sf pos vel mach time
    let b := g.shouldRecord sf pos vel mach time
    SameButMask a.1 b.1 ∧ a.1.filter = fRANGE ∧ b.1.filter = fALL ∧
    (a.2.isSome → b.2 = a.2) ∧
    (a.2 = none → b.2.isSome → b.1.currentFlag.range = false ∧
        (b.1.currentFlag.zeroUp || b.1.currentFlag.zeroDown || b.1.currentFlag.mach) = true)) := by
  intro h
  have := (h { cexG with filter := fRANGE } cexG rfl rfl rfl 0 ⟨0, 0, 0⟩ ⟨0, 0, 0⟩ 0 0).2.2.2.2
  simp [TFilter.shouldRecord_eq, TFilter.core, TFilter.dist, TFilter.rtB, TFilter.ttB, TFilter.upB,
    TFilter.downB, TFilter.machB, cexG, Flags.anyCommon, fALL, fRANGE, fNONE] at this
  exact absurd this (by norm_num)

/-- **C11_time_step_keeps_distance_rows** (full): a time step only adds records: two filters that differ only
    in the time step and the time of the last record produce the same distance-trigger bookkeeping
    (`nextRecordDistance`), the same event flags, and whenever the one WITHOUT time step records a row, the
    one with it records the same row. -/
theorem C11_time_step_keeps_distance_rows (f g : TFilter ℝ)
    (hfg : { g with timeStep := f.timeStep, timeOfLastRecord := f.timeOfLastRecord } = f)
    (hf : f.timeStep = 0) (sf : Nat) (pos vel : Vec ℝ) (mach time : ℝ) :
    let a := f.shouldRecord sf pos vel mach time
    let b := g.shouldRecord sf pos vel mach time
    { b.1 with timeStep := a.1.timeStep, timeOfLastRecord := a.1.timeOfLastRecord,
               currentFlag := a.1.currentFlag } = a.1 ∧
    b.1.currentFlag.zeroUp = a.1.currentFlag.zeroUp ∧ b.1.currentFlag.zeroDown = a.1.currentFlag.zeroDown ∧
    b.1.currentFlag.mach = a.1.currentFlag.mach ∧
    (a.1.currentFlag.range = true → b.1.currentFlag.range = true) ∧
    (a.2.isSome → b.2 = a.2) := by
  intro a b
  rw [hf] at hfg
  generalize ht0 : f.timeOfLastRecord = t0 at hfg
  subst hfg
  have htt : ({ g with timeStep := 0, timeOfLastRecord := t0 }).ttB pos time = false := by
    rw [Bool.eq_false_iff, Ne, TFilter.ttB_iff]
    simp
  have hdist : ({ g with timeStep := 0, timeOfLastRecord := t0 }).dist sf pos vel mach time =
      g.dist sf pos vel mach time := rfl
  have ha : a = _ := TFilter.shouldRecord_eq _ sf pos vel mach time
  have hb : b = _ := TFilter.shouldRecord_eq _ sf pos vel mach time
  rw [hdist] at ha
  rw [ha, hb]
  refine ⟨rfl, rfl, rfl, rfl, ?_, ?_⟩
  · simp only [TFilter.core, htt]
    have : ({ g with timeStep := 0, timeOfLastRecord := t0 }).rtB pos = g.rtB pos := rfl
    rw [this]
    cases g.currentFlag.range <;> cases g.rtB pos <;> simp
  · have e0 : (({ g with timeStep := 0, timeOfLastRecord := t0 }).core sf pos vel mach time).currentFlag =
        ⟨g.currentFlag.zeroUp || g.upB pos, g.currentFlag.zeroDown || g.downB pos,
          g.currentFlag.mach || g.machB (vel.mag / mach),
          g.currentFlag.range || (g.rtB pos ||
            ({ g with timeStep := 0, timeOfLastRecord := t0 } : TFilter ℝ).ttB pos time),
          g.currentFlag.apex⟩ := rfl
    have e1 : (g.core sf pos vel mach time).currentFlag =
        ⟨g.currentFlag.zeroUp || g.upB pos, g.currentFlag.zeroDown || g.downB pos,
          g.currentFlag.mach || g.machB (vel.mag / mach),
          g.currentFlag.range || (g.rtB pos || g.ttB pos time), g.currentFlag.apex⟩ := rfl
    have e2 : ({ g with timeStep := 0, timeOfLastRecord := t0 } : TFilter ℝ).filter = g.filter := rfl
    rw [e0, e1, e2, htt]
    generalize g.dist sf pos vel mach time = D
    cases D with
    | some d => simp
    | none =>
      simp only [Flags.anyCommon, Option.isNone_none, Bool.and_true, Bool.or_false]
      intro h
      split_ifs at h with h1
      · have h2 : ((g.currentFlag.zeroUp || g.upB pos) && g.filter.zeroUp ||
            (g.currentFlag.zeroDown || g.downB pos) && g.filter.zeroDown ||
            (g.currentFlag.mach || g.machB (vel.mag / mach)) && g.filter.mach ||
            (g.currentFlag.range || (g.rtB pos || g.ttB pos time)) && g.filter.range ||
            g.currentFlag.apex && g.filter.apex) = true := by
          revert h1
          cases g.currentFlag.zeroUp <;> cases g.upB pos <;> cases g.filter.zeroUp <;>
          cases g.currentFlag.range <;> cases g.rtB pos <;> cases g.ttB pos time <;>
          cases g.filter.range <;> simp
        rw [if_pos h2, if_pos h1]
      · simp at h

end BC.Props.C11
