/-
  BC.Props.C11 (source ties) — what is recorded never feeds back into the state: the filter is a function of its own state and the point handed to it.  The methods of `_TrajectoryDataFilter`, executed symbolically from the
  Python source on every run (translate/t_funcs.py), equal the model functions the C11 theorems are about
  (proofs in BC/Lemmas/SrcFilter.lean).  Core-only, generic in the number type.
-/
import BC.Lemmas.SrcFilter
import BC.Lemmas.SrcLoop
namespace BC.Props.C11
open BC BC.Gen BC.Model BC.Lemmas
set_option linter.unusedSectionVars false

section
variable {α : Type} [Add α] [Sub α] [Mul α] [Div α] [Neg α] [OfScientific α]
  [LT α] [DecidableLT α] [LE α] [DecidableLE α] [Fn α]

theorem C11_src_should_record (f : TFilter α) (fuel : Nat) (p v : Vec α) (m t : α) :
    Src.filter_should_record f fuel p v m t = f.shouldRecord fuel p v m t := SrcFilter.should_record_eq f fuel p v m t
theorem C11_src_clear_current_flag (f : TFilter α) :
    Src.filter_clear_current_flag f = { f with currentFlag := fNONE } := SrcFilter.clear_current_flag_eq f

/-- ONE ITERATION OF THE LOOP: the model's `iterate` is the whole body of the `while` loop of `_integrate`, executed symbolically from
    the source (`Src.loop_body`), for every loop state (BC/Lemmas/SrcLoop.lean) -/
theorem C11_src_iterate (r : Run α) (air : α → α × α) (ff : Flags) (sf : Nat) (l : LoopSt α)
    (hair : ∀ a, r.env.air a = some (air a))
    (hmax : l.ws.maxDist = cMaxWindDistanceFeet)
    (hm : nz (air (r.alt0 + l.s.pos.y)).2 = true)
    (hd : ∀ d, (({ l.flt with currentFlag := fNONE } : TFilter α).shouldRecord sf l.s.pos l.s.vel (air (r.alt0 + l.s.pos.y)).2 l.s.time).2 = some d →
      nz d.mach = true) :
    iterate r ff sf l =
      match (Src.loop_body r air ff sf l).reason with
      | some reason => .error (.range reason ((Src.loop_body r air ff sf l).limitRow :: (Src.loop_body r air ff sf l).rows).reverse)
      | none => .ok ⟨(Src.loop_body r air ff sf l).st, (Src.loop_body r air ff sf l).ws, (Src.loop_body r air ff sf l).flt,
                     (Src.loop_body r air ff sf l).rows, (Src.loop_body r air ff sf l).drag, (Src.loop_body r air ff sf l).mach,
                     (Src.loop_body r air ff sf l).density, (Src.loop_body r air ff sf l).speed, (Src.loop_body r air ff sf l).lastX⟩ :=
  SrcLoop.iterate_eq r air ff sf l hair hmax hm hd

/-- the `while` loop: test the source's loop condition, run the source's loop body -/
theorem C11_src_loop (r : Run α) (ff : Flags) (sf : Nat) (maxRange minStep : α) (fuel : Nat) (l : LoopSt α) :
    loop r ff sf (maxRange + minStep) maxRange (fuel + 1) l =
      if Src.loop_condition l.s.pos.x maxRange minStep l.lastX then
        match iterate r ff sf l with
        | .error e => .error e
        | .ok l' => loop r ff sf (maxRange + minStep) maxRange fuel l'
      else .ok l := SrcLoop.loop_eq r ff sf maxRange minStep fuel l

end
end BC.Props.C11
