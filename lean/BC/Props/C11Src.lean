/-
  BC.Props.C11 (source ties) — what is recorded never feeds back into the state: the filter is a function of its own state and the point handed to it.  The methods of `_TrajectoryDataFilter`, executed symbolically from the
  Python source on every run (translate/t_funcs.py), equal the model functions the C11 theorems are about
  (proofs in BC/Lemmas/SrcFilter.lean).  Core-only, generic in the number type.
-/
import BC.Lemmas.SrcFilter
namespace BC.Props.C11
open BC BC.Gen BC.Model BC.Lemmas
set_option linter.unusedSectionVars false

section
variable {α : Type} [Add α] [Sub α] [Mul α] [Div α] [Neg α] [OfScientific α]
  [LT α] [DecidableLT α] [LE α] [DecidableLE α] [Fn α]

theorem C11_src_should_record (f : TFilter α) (fuel : Nat) (p v : Vec α) (m t : α) :
    Src.filter_should_record f fuel p v m t = f.shouldRecord fuel p v m t := SrcFilter.should_record_eq f fuel p v m t
theorem C11_src_clear_current_flag (f : TFilter α) :
    Src.filter_clear_current_flag f = { f with currentFlag := fNONE } := SrcFilter.clear_current_flag_eq f

end
end BC.Props.C11
