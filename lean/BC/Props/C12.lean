/-
  C12 — wind acts by segment, in order of distance, symmetrically and causally.
  Subject: BC.Model.Traj (`windVector`, `WindSock`, `sortWinds`, `step`, `physStep`, `physIter`).
-/
import Mathlib.Tactic.Ring
import Mathlib.Tactic.FieldSimp
import Mathlib.Tactic.Linarith
import Mathlib.Tactic.NormNum
import BC.Real
import BC.Model.Traj
import BC.Lemmas.Vec
import BC.Lemmas.C12

namespace BC.Props.C12
open BC BC.Model BC.Lemmas.VecL BC.Lemmas.C12

def mirrorV (v : Vec ℝ) : Vec ℝ := ⟨v.x, v.y, -v.z⟩
def mirrorS (s : St ℝ) : St ℝ := ⟨mirrorV s.pos, mirrorV s.vel, s.time⟩
def mirrorW (ws : WindSock ℝ) : WindSock ℝ :=
  { ws with winds := ws.winds.map (fun w => ⟨w.untilFt, mirrorV w.vec⟩), vec := mirrorV ws.vec }

/-- **C12_mirror_wind** (full): mirroring a wind direction left-right (d ↦ −d ≡ 360° − d) negates the
    cross component of the wind vector and keeps the down-range component. -/
theorem C12_mirror_wind (v d : ℝ) : windVector v (-d) = mirrorV (windVector v d) := by
  simp only [windVector, mirrorV, fn_cos, fn_sin, Real.cos_neg, Real.sin_neg, Vec.mk.injEq]
  refine ⟨trivial, trivial, ?_⟩
  ring

private theorem mirror_sub_mag (a b : Vec ℝ) : ((mirrorV a).sub (mirrorV b)).mag = (a.sub b).mag := by
  simp only [Vec.sub, Vec.mag, mirrorV, fn_sqrt]
  congr 1
  ring

/-- **C12_mirror_step** (full): one integration step commutes with the mirror z ↦ −z. -/
theorem C12_mirror_step (cs g : ℝ) (dbm : ℝ → ℝ) (w : Vec ℝ) (density mach : ℝ) (s : St ℝ) :
    (step cs g dbm (mirrorV w) density mach (mirrorS s)).st = mirrorS (step cs g dbm w density mach s).st ∧
    (step cs g dbm (mirrorV w) density mach (mirrorS s)).drag = (step cs g dbm w density mach s).drag ∧
    (step cs g dbm (mirrorV w) density mach (mirrorS s)).speed = (step cs g dbm w density mach s).speed := by
  have hm : ((mirrorS s).vel.sub (mirrorV w)).mag = (s.vel.sub w).mag := mirror_sub_mag s.vel w
  obtain ⟨a1, a2, a3, a4, a5, a6, a7, a8, a9⟩ := step_fields cs g dbm (mirrorV w) density mach (mirrorS s)
  obtain ⟨b1, b2, b3, b4, b5, b6, b7, b8, b9⟩ := step_fields cs g dbm w density mach s
  rw [hm] at a1 a2 a3 a4 a5 a6 a7 a8
  have vx : (step cs g dbm (mirrorV w) density mach (mirrorS s)).st.vel.x = (step cs g dbm w density mach s).st.vel.x := by
    rw [a2, b2]; rfl
  have vy : (step cs g dbm (mirrorV w) density mach (mirrorS s)).st.vel.y = (step cs g dbm w density mach s).st.vel.y := by
    rw [a3, b3]; rfl
  have vz : (step cs g dbm (mirrorV w) density mach (mirrorS s)).st.vel.z = -(step cs g dbm w density mach s).st.vel.z := by
    rw [a4, b4]; simp only [mirrorS, mirrorV]; ring
  refine ⟨st_ext (vec_ext ?_ ?_ ?_) (vec_ext vx vy vz) ?_, ?_, ?_⟩
  · rw [a5, vx]; simp only [mirrorS, mirrorV]; rw [b5]
  · rw [a6, vy]; simp only [mirrorS, mirrorV]; rw [b6]
  · rw [a7, vz]; simp only [mirrorS, mirrorV]; rw [b7]; ring
  · rw [a1]; simp only [mirrorS]; rw [b1]
  · rw [a8, b8]
  · rw [a9, b9]
    simp only [Vec.mag, vx, vy, vz, fn_sqrt]
    congr 1
    ring

private theorem mirror_advance (ws : WindSock ℝ) : (mirrorW ws).advance = mirrorW ws.advance := by
  have hg : (mirrorW ws).winds[(mirrorW ws).current + 1]? =
      (ws.winds[ws.current + 1]?).map (fun w => (⟨w.untilFt, mirrorV w.vec⟩ : WindSeg ℝ)) := by
    simp only [mirrorW, Array.getElem?_map]
  cases h : ws.winds[ws.current + 1]? with
  | none =>
    rw [h] at hg
    rw [advance_none ws h, advance_none _ hg]
    simp [mirrorW, mirrorV]
  | some w =>
    rw [h] at hg
    rw [advance_some ws w h, advance_some _ _ hg]
    simp [mirrorW]

private theorem mirror_update (ws : WindSock ℝ) (x : ℝ) : (mirrorW ws).update x = mirrorW (ws.update x) := by
  unfold WindSock.update
  have : (mirrorW ws).nextRange = ws.nextRange := rfl
  rw [this]
  split_ifs
  · exact mirror_advance ws
  · rfl

private theorem mirror_physStep (r : Run ℝ) (s : St ℝ) (ws : WindSock ℝ) :
    physStep r (mirrorS s) (mirrorW ws) =
      (physStep r s ws).map (fun p => ⟨mirrorW p.ws, p.density, p.mach, ⟨mirrorS p.out.st, p.out.drag, p.out.speed⟩⟩) := by
  unfold physStep
  have hx : (mirrorS s).pos.x = s.pos.x := rfl
  have hy : (mirrorS s).pos.y = s.pos.y := rfl
  rw [hx, hy, mirror_update]
  cases h : r.env.air (r.alt0 + s.pos.y) with
  | none => rfl
  | some dm =>
    obtain ⟨density, mach⟩ := dm
    simp only [Option.map_some]
    have hv : (mirrorW (ws.update s.pos.x)).vec = mirrorV (ws.update s.pos.x).vec := rfl
    rw [hv]
    obtain ⟨h1, h2, h3⟩ := C12_mirror_step r.cfg.calcStep r.cfg.gravity r.env.dbm (ws.update s.pos.x).vec density mach s
    congr 2
    generalize step r.cfg.calcStep r.cfg.gravity r.env.dbm (mirrorV (ws.update s.pos.x).vec) density mach (mirrorS s) = o at *
    cases o
    simp_all

/-- **C12_mirror_run** (full, induction over the steps): with all wind vectors mirrored and the start state
    mirrored, the whole state sequence is the mirror image: z and v_z negated, everything else equal. -/
theorem C12_mirror_run (r : Run ℝ) (n : Nat) (s : St ℝ) (ws : WindSock ℝ) :
    physIter r n (mirrorS s) (mirrorW ws) = (physIter r n s ws).map (fun p => (mirrorS p.1, mirrorW p.2)) := by
  induction n generalizing s ws with
  | zero => simp [physIter]
  | succ n ih =>
    unfold physIter
    rw [mirror_physStep]
    cases h : physStep r s ws with
    | none => rfl
    | some p =>
      simp only [Option.map_some]
      exact ih _ _

/-- **C12_zero_wind** (full): a zero-speed wind is the zero vector whatever its direction. -/
theorem C12_zero_wind (d : ℝ) : windVector 0 d = (⟨0, 0, 0⟩ : Vec ℝ) := by
  simp [windVector, fpsOf, getIn, BC.Gen.fromRaw, BC.Gen.Velocity.fromRaw, h00]


/-- **C12_zero_winds_sock** (full): a list of zero-speed winds acts exactly like no wind: the sock's vector
    is the zero vector initially and after every update. -/
theorem C12_zero_winds_sock (winds : Array (WindSeg ℝ)) (maxDist : ℝ)
    (hz : ∀ w ∈ winds.toList, w.vec = (⟨0, 0, 0⟩ : Vec ℝ)) :
    (WindSock.init winds maxDist).vec = ⟨0, 0, 0⟩ ∧
    ∀ ws : WindSock ℝ, ws.winds = winds → ws.vec = ⟨0, 0, 0⟩ → ∀ x, (ws.update x).vec = ⟨0, 0, 0⟩ ∧ (ws.update x).winds = winds := by
  have hz' : ∀ (i : Nat) (w : WindSeg ℝ), winds[i]? = some w → w.vec = ⟨0, 0, 0⟩ := by
    intro i w h
    exact hz w (Array.mem_toList_iff.mpr (Array.mem_of_getElem? h))
  constructor
  · unfold WindSock.init
    cases h : winds[0]? with
    | none => simp only [vec_zero]
    | some w => simp only [hz' 0 w h]
  · intro ws hw hv x
    refine ⟨?_, by rw [update_winds, hw]⟩
    unfold WindSock.update
    split_ifs
    · cases h : ws.winds[ws.current + 1]? with
      | none => rw [advance_none ws h]
      | some w => rw [advance_some ws w h]; exact hz' _ w (hw ▸ h)
    · exact hv

/-- the sock's cache is consistent with its index: the vector / next range of segment `current`,
    or the zero vector / max distance beyond the last segment -/
def SockInv (ws : WindSock ℝ) : Prop :=
  match ws.winds[ws.current]? with
  | some w => ws.vec = w.vec ∧ ws.nextRange = w.untilFt
  | none => ws.vec = ⟨0, 0, 0⟩ ∧ ws.nextRange = ws.maxDist

private theorem sockInv_advance (ws : WindSock ℝ) : SockInv ws.advance := by
  cases h : ws.winds[ws.current + 1]? with
  | none => rw [advance_none ws h]; simp [SockInv, h]
  | some w => rw [advance_some ws w h]; simp [SockInv, h]

/-- **C12_sock_invariant** (full): the invariant holds initially and is preserved by every update;
    an update moves on by exactly one segment iff the position has reached the current until-distance,
    and not at all otherwise — so segments apply in list order, each from the previous one's end up to
    its own until-distance, and the zero vector beyond the last. -/
theorem C12_sock_invariant (winds : Array (WindSeg ℝ)) (maxDist : ℝ) :
    SockInv (WindSock.init winds maxDist) ∧ (WindSock.init winds maxDist).current = 0 ∧
    ∀ ws : WindSock ℝ, SockInv ws → ∀ x,
      SockInv (ws.update x) ∧ (ws.update x).winds = ws.winds ∧ (ws.update x).maxDist = ws.maxDist ∧
      (ws.nextRange ≤ x → (ws.update x).current = ws.current + 1) ∧
      (x < ws.nextRange → ws.update x = ws) := by
  refine ⟨?_, ?_, ?_⟩
  · unfold WindSock.init
    cases h : winds[0]? with
    | none => simp [SockInv, h, vec_zero]
    | some w => simp [SockInv, h]
  · unfold WindSock.init
    cases h : winds[0]? <;> rfl
  · intro ws hinv x
    refine ⟨?_, update_winds ws x, update_maxDist ws x, ?_, ?_⟩
    · unfold WindSock.update
      split_ifs
      · exact sockInv_advance ws
      · exact hinv
    · intro h
      unfold WindSock.update
      rw [if_pos h, advance_current]
    · intro h
      unfold WindSock.update
      rw [if_neg (not_le.mpr h)]

/-- **C12_sorted_any_order** (full): winds are applied in order of until-distance whatever order they are
    given in: the sorted list is a permutation, ascending, and — for distinct until-distances — the same
    for every ordering of the input. -/
theorem C12_sorted_any_order (ws ws' : List (ℝ × ℝ × ℝ)) :
    (sortWinds ws).Perm ws ∧ (sortWinds ws).Pairwise (fun a b => a.2.2 ≤ b.2.2) ∧
    (ws.Perm ws' → ws.Pairwise (fun a b => a.2.2 ≠ b.2.2) → sortWinds ws = sortWinds ws') := by
  exact ⟨sortWinds_perm ws, sortWinds_sorted ws, sortWinds_eq_of_perm ws ws'⟩

/-- two socks that are in the same segment `≤ k` and whose wind lists agree on segments `0..k` -/
def SockAgree (k : Nat) (a b : WindSock ℝ) : Prop :=
  a.current = b.current ∧ a.current ≤ k ∧ a.nextRange = b.nextRange ∧ a.vec = b.vec ∧ a.maxDist = b.maxDist ∧
  ∀ i, i ≤ k → a.winds[i]? = b.winds[i]?

private theorem agree_update (k : Nat) (a b : WindSock ℝ) (x : ℝ) (hab : SockAgree k a b)
    (hk : (a.update x).current ≤ k) : SockAgree k (a.update x) (b.update x) := by
  obtain ⟨h1, h2, h3, h4, h5, h6⟩ := hab
  unfold WindSock.update at hk ⊢
  rw [← h3]
  split_ifs with hx
  · rw [if_pos hx, advance_current] at hk
    have hw := h6 (a.current + 1) hk
    have hw' : a.winds[a.current + 1]? = b.winds[b.current + 1]? := by rw [← h1]; exact hw
    cases h : a.winds[a.current + 1]? with
    | none =>
      rw [advance_none a h, advance_none b (hw' ▸ h)]
      exact ⟨by simp only [h1], hk, h5, rfl, h5, h6⟩
    | some w =>
      rw [advance_some a w h, advance_some b w (hw' ▸ h)]
      exact ⟨by simp only [h1], hk, rfl, rfl, h5, h6⟩
  · exact ⟨h1, h2, h3, h4, h5, h6⟩

private theorem agree_physStep (r : Run ℝ) (k : Nat) (s : St ℝ) (a b : WindSock ℝ) (p : Phys ℝ)
    (hab : SockAgree k a b) (h : physStep r s a = some p) (hk : p.ws.current ≤ k) :
    ∃ p', physStep r s b = some p' ∧ p'.out = p.out ∧ SockAgree k p.ws p'.ws := by
  unfold physStep at h ⊢
  cases hair : r.env.air (r.alt0 + s.pos.y) with
  | none => simp [hair] at h
  | some dm =>
    obtain ⟨density, mach⟩ := dm
    simp only [hair, Option.some.injEq] at h ⊢
    subst h
    have hag := agree_update k a b s.pos.x hab hk
    refine ⟨_, rfl, ?_, hag⟩
    simp only [hag.2.2.2.1]

/-- **C12_causal** (full, induction over the steps): changing or adding segments beyond segment `k`
    (those that begin at until-distance `k` or later) leaves the state sequence unchanged for as long as
    the projectile has not left segment `k`. -/
theorem C12_causal (r : Run ℝ) (k n : Nat) (s s' : St ℝ) (a b a' : WindSock ℝ)
    (hinv : SockInv a ∧ SockInv b) (hab : SockAgree k a b)
    (h : physIter r n s a = some (s', a')) (hk : a'.current ≤ k) :
    ∃ b', physIter r n s b = some (s', b') ∧ SockAgree k a' b' := by
  -- the invariants are not needed: `SockAgree` already carries the cached vector / next range
  obtain ⟨-, -⟩ := hinv
  induction n generalizing s a b with
  | zero =>
    simp only [physIter, Option.some.injEq, Prod.mk.injEq] at h ⊢
    obtain ⟨rfl, rfl⟩ := h
    exact ⟨b, ⟨rfl, rfl⟩, hab⟩
  | succ n ih =>
    unfold physIter at h ⊢
    cases hp : physStep r s a with
    | none => simp [hp] at h
    | some p =>
      simp only [hp] at h
      have hmono := physIter_current_ge r n _ _ _ _ h
      obtain ⟨p', hp', hout, hag⟩ := agree_physStep r k s a b p hab hp (le_trans hmono hk)
      simp only [hp', hout]
      exact ih _ _ _ hag h

/-- **C12_crosswind_step** (full): with a cross wind from the shooter's left (wind vector z-component
    `w.z > 0`), while `0 ≤ drag·dt ≤ 1`, the lateral velocity stays between 0 and the wind's cross speed and
    the projectile never moves left: it is deflected to the right. -/
theorem C12_crosswind_step (cs g : ℝ) (dbm : ℝ → ℝ) (w : Vec ℝ) (density mach : ℝ) (s : St ℝ)
    (hcs : 0 ≤ cs) (hw : 0 ≤ w.z) (hv : 0 ≤ s.vel.z ∧ s.vel.z ≤ w.z)
    (hk : 0 ≤ (step cs g dbm w density mach s).drag * (cs / max 1 (s.vel.sub w).mag) ∧
          (step cs g dbm w density mach s).drag * (cs / max 1 (s.vel.sub w).mag) ≤ 1) :
    0 ≤ (step cs g dbm w density mach s).st.vel.z ∧ (step cs g dbm w density mach s).st.vel.z ≤ w.z ∧
    s.pos.z ≤ (step cs g dbm w density mach s).st.pos.z := by
  obtain ⟨-, -, -, b4, -, -, b7, b8, -⟩ := step_fields cs g dbm w density mach s
  obtain ⟨hd0, -⟩ := dt_bounds cs (s.vel.sub w).mag hcs
  rw [b8] at hk
  generalize cs / max 1 (s.vel.sub w).mag = dt at *
  generalize density * (s.vel.sub w).mag * dbm ((s.vel.sub w).mag / mach) = drag at *
  obtain ⟨hv0, hv1⟩ := hv
  obtain ⟨hk0, hk1⟩ := hk
  have e : (step cs g dbm w density mach s).st.vel.z = (1 - drag * dt) * s.vel.z + (drag * dt) * w.z := by
    rw [b4]; ring
  have h1 : 0 ≤ (step cs g dbm w density mach s).st.vel.z := by
    rw [e]; have := mul_nonneg (sub_nonneg.mpr hk1) hv0; have := mul_nonneg hk0 hw; linarith
  have h2 : (step cs g dbm w density mach s).st.vel.z ≤ w.z := by
    rw [e]; have := mul_nonneg (sub_nonneg.mpr hk1) (sub_nonneg.mpr hv1); nlinarith
  refine ⟨h1, h2, ?_⟩
  rw [b7]
  have := mul_nonneg h1 hd0
  linarith

end BC.Props.C12
