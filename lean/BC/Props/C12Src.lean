/-
  BC.Props.C12 (source ties) — the wind sock `_WindSock` (`__init__` with `update_cache`, `vector_for_range`, `current_vector`) and
  `Wind.vector`, executed symbolically from the Python source on every run (translate/t_funcs.py), equal the model's
  `WindSock.init / update` and `windVector`.  An element of the wind tuple stands for a `Wind` object through the two reads the
  sock performs on it (`.vector`, `.until_distance >> Distance.Foot`); the sock's horizon `Wind.MAX_DISTANCE_FEET` is the class
  constant `cMaxWindDistanceFeet`, which the model keeps as a parameter (hence the hypothesis `maxDist = cMaxWindDistanceFeet`).
  Core-only, generic in the number type.
-/
import BC.Gen.Funcs
import BC.Model.Traj
namespace BC.Props.C12
open BC BC.Gen BC.Model
set_option linter.unusedSectionVars false
set_option linter.unusedSimpArgs false

section
variable {α : Type} [Add α] [Sub α] [Mul α] [Div α] [Neg α] [OfScientific α]
  [LT α] [DecidableLT α] [LE α] [DecidableLE α] [Fn α]

theorem C12_src_wind_vector (v d : α) : Src.wind_vector v d = windVector v d := rfl

/-- `_WindSock.__init__(winds)`: first segment active, or calm to the horizon when there is none -/
theorem C12_src_sock_init (winds : Array (WindSeg α)) :
    Src.sock_init winds cMaxWindDistanceFeet = WindSock.init winds cMaxWindDistanceFeet := by
  unfold Src.sock_init WindSock.init Vec.zero
  by_cases h : 0 < winds.size
  · simp only [h, ↓reduceIte, Array.getElem?_eq_getElem h, Option.getD_some]
  · have : winds[0]? = none := by simp at h; simp [h]
    simp only [h, ↓reduceIte, this]

/-- `vector_for_range(x)`: the new state of the sock is the model's `update`, the returned vector its wind -/
theorem C12_src_sock_vector_for_range (ws : WindSock α) (x : α) (hm : ws.maxDist = cMaxWindDistanceFeet) :
    Src.sock_vector_for_range ws x = (ws.update x, (ws.update x).vec) := by
  unfold Src.sock_vector_for_range WindSock.update WindSock.advance Vec.zero
  by_cases hx : ws.nextRange ≤ x
  · by_cases h : ws.current + 1 < ws.winds.size
    · have h' : ¬ ws.winds.size ≤ ws.current + 1 := by omega
      simp only [hx, h, h', ↓reduceIte, Array.getElem?_eq_getElem h, Option.getD_some]
    · have h' : ws.winds.size ≤ ws.current + 1 := by omega
      have : ws.winds[ws.current + 1]? = none := by simp [h']
      simp only [hx, h, h', ↓reduceIte, this, hm]
  · simp only [hx, ↓reduceIte]

theorem C12_src_sock_current_vector (ws : WindSock α) : Src.sock_current_vector ws = ws.vec := rfl

/-- `Shot.winds` = `tuple(sorted(self._winds, key=…))` (matched structurally; `sorted` is stable): the key is the raw magnitude of the
    until-distance — what the model's `sortWinds` / `insertWind` compare -/
theorem C12_src_winds_sort_key (untilRaw : α) : Src.winds_sort_key untilRaw = untilRaw := rfl

end
end BC.Props.C12
