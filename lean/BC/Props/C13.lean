/-
  C13 — a quantity's magnitude is immutable and comparisons follow magnitude.
  Subject: BC.Model.Quantity (hand-written heap model of AbstractDimension objects), the REGENERATED
  unit chains (`BC.Gen.fromRaw`) and the REGENERATED read-set of `__hash__` (`BC.Gen.hashReads`).
-/
import Mathlib.Tactic.Linarith
import Mathlib.Tactic.NormNum
import BC.Real
import BC.Model.Quantity
import BC.Props.C06

namespace BC.Props.C13
open BC BC.Model BC.Gen

/-- the magnitudes and dimensions of all quantities on the heap -/
def mags (h : List (Q ℝ)) : List (Dim × ℝ) := h.map fun q => (q.dim, q.value)

theorem step_mags (h : List (Q ℝ)) (op : QOp ℝ) : mags (qstep h op).1 = mags h := by
  cases op with
  | convert i u =>
    simp only [qstep]
    cases hq : h[i]? with
    | none => rfl
    | some q =>
      simp only [mags, List.map_set]
      obtain ⟨hi, rfl⟩ := List.getElem?_eq_some_iff.mp hq
      apply List.ext_getElem (by simp)
      intro j h1 h2
      by_cases hj : i = j
      · subst hj; simp
      · simp [List.getElem_set, hj]
  | _ => simp only [qstep] <;> (repeat' split) <;> rfl

/-- **C13_value_invariant** (full, induction over operation sequences): after any finite sequence of
    conversions, reads, formatting, comparisons, hashing and passing-as-argument, every quantity still
    has the dimension and raw magnitude it was constructed with. -/
theorem C13_value_invariant (h : List (Q ℝ)) (ops : List (QOp ℝ)) : mags (qrun h ops).1 = mags h := by
  induction ops generalizing h with
  | nil => rfl
  | cons op ops ih =>
    simp only [qrun]
    rw [ih, step_mags]

/-- **C13_read_stable** (full): whatever the history, reading quantity `i` in unit `u` afterwards gives
    what reading it at construction gave: `fromRaw` of the original magnitude (or the conversion error). -/
theorem C13_read_stable (h : List (Q ℝ)) (ops : List (QOp ℝ)) (i : Nat) (u : U) (q : Q ℝ)
    (hq : h[i]? = some q) :
    (qstep (qrun h ops).1 (.getIn i u)).2 = readIn q u := by
  have hm := C13_value_invariant h ops
  have : ((qrun h ops).1.map fun q => (q.dim, q.value))[i]? = some (q.dim, q.value) := by
    have := congrArg (fun l => l[i]?) hm
    simpa [mags, hq] using this
  rw [List.getElem?_map] at this
  cases hq' : (qrun h ops).1[i]? with
  | none => simp [hq'] at this
  | some q' =>
    simp only [hq', Option.map_some, Option.some.injEq, Prod.mk.injEq] at this
    simp only [qstep, hq', readIn, this.1, this.2]

/-- **C13_compare_by_magnitude** (full): all six comparisons between two quantities, and between a
    quantity and a plain number, are decided by the raw magnitudes alone, irrespective of display units. -/
theorem C13_compare_by_magnitude (a b : ℝ) :
    (cmpVal .lt a b = true ↔ a < b) ∧ (cmpVal .le a b = true ↔ a ≤ b) ∧
    (cmpVal .gt a b = true ↔ a > b) ∧ (cmpVal .ge a b = true ↔ a ≥ b) ∧
    (cmpVal .eq a b = true ↔ a = b) ∧ (cmpVal .ne a b = true ↔ a ≠ b) := by
  refine ⟨by simp [cmpVal], by simp [cmpVal], by simp [cmpVal], by simp [cmpVal], ?_, ?_⟩
  · simp only [cmpVal, Bool.and_eq_true, decide_eq_true_eq]
    exact ⟨fun h => le_antisymm h.1 h.2, fun h => ⟨h.le, h.ge⟩⟩
  · simp only [cmpVal, Bool.not_eq_true', Bool.and_eq_false_iff, decide_eq_false_iff_not, not_le]
    exact ⟨fun h => by rcases h with h | h <;> [exact ne_of_gt h; exact ne_of_lt h],
      fun h => (lt_or_gt_of_ne h).symm⟩

theorem C13_compare_ignores_units (op : Cmp) (q r : Q ℝ) (u v : U) (h : List (Q ℝ)) :
    (qstep [q, r] (.cmpQ op 0 1)).2 = (qstep [{ q with units := u }, { r with units := v }] (.cmpQ op 0 1)).2 := by
  simp [qstep]

/-- **C13_foreign_unit_raises** (full, over the regenerated chains): reading a quantity in a unit of
    another dimension is a conversion error for every dimension and every foreign unit — never a number. -/
theorem C13_foreign_unit_raises (q : Q ℝ) (u : U) (hu : U.dim u ≠ some q.dim) :
    readIn q u = .errUnitConv := by
  have := (C06.C06_dim_consistent q.dim u q.value).2
  cases hf : fromRaw q.dim q.value u with
  | none => simp [readIn, hf]
  | some x => exact absurd (this.1 (by simp [hf])) hu

/-- **C13_hash** (full, regenerated): `__hash__` reads the raw magnitude only, so equal quantities hash
    equally and the hash cannot change when the display unit does. -/
theorem C13_hash : hashReads = some ["_value"] ∧
    (∀ q r : Q ℝ, q.value = r.value → hashKey q = hashKey r) ∧
    (∀ (q : Q ℝ) (u : U), hashKey { q with units := u } = hashKey q) := by
  refine ⟨by decide, fun q r h => h, fun q u => rfl⟩

/-- **C13_truthy** (full, regenerated): `AbstractDimension` defines neither `__bool__` nor `__len__`,
    so every quantity object is truthy (the `x or default` idiom never replaces a quantity). -/
theorem C13_truthy : "__bool__" ∉ dimDunders ∧ "__len__" ∉ dimDunders := by decide

/-! non-vacuity -/
example : (qrun [(⟨.Distance, 36, .Yard⟩ : Q ℝ)] [.convert 0 .Foot, .getIn 0 .Celsius, .str 0]).1.map (·.value) = [36] := by
  simp [qrun, qstep]

end BC.Props.C13
