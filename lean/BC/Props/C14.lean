/-
  C14 — multi-BC drag models realise the interpolated BC and leave inputs intact.
  Subject: BC.Model.MultiBC (hand-written model of BCPoint / linear_interpolation / DragModelMultiBC).
-/
import Mathlib.Tactic.Ring
import Mathlib.Tactic.FieldSimp
import Mathlib.Tactic.Linarith
import Mathlib.Tactic.NormNum
import BC.Real
import BC.Model.MultiBC
import BC.Lemmas.C14

namespace BC.Props.C14
open BC BC.Model BC.Lemmas.C14

def Ascending (k : Nat) (x : Nat → ℝ) : Prop := ∀ i j, i < j → j < k → x i < x j

/-- **C14_interp_correct** (full): for strictly ascending `xp` (k ≥ 1 points) `linear_interpolation`
    clamps outside the points and is the linear interpolant on the bracketing interval inside. -/
theorem C14_interp_correct (k : Nat) (xp yp : Nat → ℝ) (hk : 1 ≤ k) (hx : Ascending k xp) (xi : ℝ) :
    (xi ≤ xp 0 → linInterp k xp yp xi = yp 0) ∧
    (xp (k - 1) ≤ xi → linInterp k xp yp xi = yp (k - 1)) ∧
    (∀ j, j + 1 < k → xp j ≤ xi → xi < xp (j + 1) →
      linInterp k xp yp xi = yp j + (yp (j + 1) - yp j) / (xp (j + 1) - xp j) * (xi - xp j)) := by
  have hx' : Asc k xp := hx
  refine ⟨?_, ?_, ?_⟩
  · intro h
    unfold linInterp
    rw [if_pos h]
  · intro h
    unfold linInterp
    split_ifs with h0
    · rcases Nat.eq_zero_or_pos (k - 1) with hz | hz
      · rw [hz]
      · exfalso
        have := hx 0 (k - 1) hz (by omega)
        linarith
    · rfl
  · intro j hj h1 h2
    unfold linInterp
    split_ifs with h0 hk1
    · have hj0 : j = 0 := by
        rcases Nat.eq_zero_or_pos j with hz | hz
        · exact hz
        · exfalso
          have := hx 0 j hz (by omega)
          linarith
      subst hj0
      have : xi = xp 0 := le_antisymm h0 h1
      rw [this]; ring
    · exfalso
      have := hx'.mono (show j + 1 ≤ k - 1 by omega) (by omega)
      linarith
    · exact interpLoop_correct k xp yp hx' xi j h1 h2 k 0 (k - 1) (by omega) (by omega)
        (by omega) (by omega)

/-- **C14_interp_homogeneous** (full): dividing all BC values by the model BC divides the interpolant. -/
theorem C14_interp_homogeneous (k : Nat) (xp yp : Nat → ℝ) (c xi : ℝ) :
    linInterp k xp (fun i => yp i / c) xi = linInterp k xp yp xi / c := by
  unfold linInterp
  split_ifs
  · rfl
  · rfl
  · exact interpLoop_div xp yp c xi k 0 (k - 1)

/-- **C14_effective_bc** (full): at every Mach number of the underlying table the effective BC
    (standard drag × model BC / model drag) equals the interpolated BC of the sorted points. -/
theorem C14_effective_bc (pts table : List (ℝ × ℝ)) (bc : ℝ) (hbc : bc ≠ 0) (i : Nat) (hi : i < table.length)
    (hcd : (table.getD i (0, 0)).2 ≠ 0) :
    let s := (sortByMach pts).toArray
    let bcAt := linInterp s.size (fun j => (s.getD j default).2) (fun j => (s.getD j default).1) (table.getD i (0, 0)).1
    bcAt ≠ 0 →
    ((multiBCTable pts table bc).getD i (0, 0)).1 = (table.getD i (0, 0)).1 ∧
    (table.getD i (0, 0)).2 * bc / ((multiBCTable pts table bc).getD i (0, 0)).2 = bcAt := by
  intro s bcAt hne
  have hrow : (multiBCTable pts table bc).getD i (0, 0)
      = ((table.getD i (0, 0)).1, (table.getD i (0, 0)).2 / (bcAt / bc)) := by
    unfold multiBCTable
    simp only
    rw [List.getD_eq_getElem?_getD, List.getElem?_map, List.getD_eq_getElem?_getD,
      List.getElem?_eq_getElem hi]
    simp only [Option.map_some, Option.getD_some]
    rw [C14_interp_homogeneous]
    simp only [bcAt, s, List.getD_eq_getElem?_getD, List.getElem?_eq_getElem hi, Option.getD_some]
  rw [hrow]
  refine ⟨rfl, ?_⟩
  simp only
  field_simp

/-- **C14_sort_sorted** (full): the points used are a permutation of those given, ascending in Mach. -/
theorem C14_sort_sorted (pts : List (ℝ × ℝ)) :
    (sortByMach pts).Perm pts ∧ (sortByMach pts).Pairwise (fun p q => p.2 ≤ q.2) := by
  exact ⟨sortByMach_perm pts, sortByMach_sorted pts⟩

/-- **C14_order_independent** (full): with distinct Mach values the result does not depend on the order
    the points are given in. -/
theorem C14_order_independent (pts pts' : List (ℝ × ℝ)) (hp : pts.Perm pts')
    (hd : pts.Pairwise (fun p q => p.2 ≠ q.2)) : sortByMach pts = sortByMach pts' := by
  exact sortByMach_eq_of_perm pts pts' hp hd

/-- **C14_single_point** (full): a single BC point scales the whole CD column by `bc/BC₀`, i.e. the
    model is the plain single-BC model (its retardation `cd'·K/bc = cd·K/BC₀`). -/
theorem C14_single_point (b m0 bc : ℝ) (table : List (ℝ × ℝ)) :
    multiBCTable [(b, m0)] table bc = table.map (fun r => (r.1, r.2 / (b / bc))) := by
  have hlin : ∀ (xp yp : Nat → ℝ) (xi : ℝ), linInterp 1 xp yp xi = yp 0 := by
    intro xp yp xi
    unfold linInterp
    split_ifs
    · rfl
    · rfl
    · simp [interpLoop]
  unfold multiBCTable
  simp only [sortByMach, insertByMach]
  apply List.map_congr_left
  intro r _
  have hs : (#[(b, m0)] : Array (ℝ × ℝ)).size = 1 := rfl
  rw [hs, hlin]
  simp

/-- **C14_bcpoint** (full): BCPoint validation and the Mach number of a velocity point. -/
theorem C14_bcpoint (bc : ℝ) (mach v : Option ℝ) :
    (bc ≤ 0 → bcPoint bc mach v = .error .bcNonPositive) ∧
    (0 < bc → mach.isSome → v.isSome → bcPoint bc mach v = .error .bothGiven) ∧
    (0 < bc → mach = none → v = none → bcPoint bc mach v = .error .noneGiven) ∧
    (∀ m, 0 < bc → mach = some m → v = none → bcPoint bc mach v = .ok (bc, m)) ∧
    (∀ w, 0 < bc → mach = none → v = some w →
      bcPoint bc mach v = .ok (bc, w / (Real.sqrt 288.15 * 20.0467))) := by
  have h00 : (0.0 : ℝ) = 0 := by norm_num
  have hc : (bcMachC : ℝ) = Real.sqrt 288.15 * 20.0467 := by
    unfold bcMachC
    rw [fn_sqrt]
    norm_num
  refine ⟨?_, ?_, ?_, ?_, ?_⟩
  · intro h
    unfold bcPoint
    rw [h00, if_pos h]
  · intro h hm hv
    unfold bcPoint
    rw [h00, if_neg (not_le.mpr h)]
    cases mach <;> cases v <;> simp_all
  · intro h hm hv
    subst hm; subst hv
    unfold bcPoint
    rw [h00, if_neg (not_le.mpr h)]
  · intro m h hm hv
    subst hm; subst hv
    unfold bcPoint
    rw [h00, if_neg (not_le.mpr h)]
  · intro w h hm hv
    subst hm; subst hv
    unfold bcPoint
    rw [h00, if_neg (not_le.mpr h), hc]

/-! ### non-vacuity -/

/-- `Ascending` is satisfiable (three points), so `C14_interp_correct` is not vacuous. -/
example : Ascending 3 (fun i => (i : ℝ)) := by
  intro i j hij _
  exact Nat.cast_lt.mpr hij

/-- the inner-interval clause of `C14_interp_correct` has instances: `1 ≤ 1.5 < 2`. -/
example : ∃ (xp : Nat → ℝ) (xi : ℝ) (j : Nat), Ascending 3 xp ∧ j + 1 < 3 ∧ xp j ≤ xi ∧ xi < xp (j + 1) :=
  ⟨fun i => (i : ℝ), 3 / 2, 1, fun i j hij _ => Nat.cast_lt.mpr hij, by norm_num, by norm_num,
    by norm_num⟩

/-- distinct-Mach hypothesis of `C14_order_independent` is satisfiable with a non-trivial permutation. -/
example : ([(1, 2), (3, 1)] : List (ℝ × ℝ)).Perm [(3, 1), (1, 2)] ∧
    ([(1, 2), (3, 1)] : List (ℝ × ℝ)).Pairwise (fun p q => p.2 ≠ q.2) := by
  refine ⟨List.Perm.swap _ _ _, ?_⟩
  simp

/-- hypotheses of `C14_effective_bc` are satisfiable: one point `BC = 1/2`, one row, `bc = 1`. -/
example : ∃ (pts table : List (ℝ × ℝ)) (bc : ℝ) (i : Nat), bc ≠ 0 ∧ i < table.length ∧
    (table.getD i (0, 0)).2 ≠ 0 ∧
    linInterp (sortByMach pts).toArray.size (fun j => ((sortByMach pts).toArray.getD j default).2)
      (fun j => ((sortByMach pts).toArray.getD j default).1) (table.getD i (0, 0)).1 ≠ 0 := by
  refine ⟨[(1 / 2, 1)], [(1, 1)], 1, 0, one_ne_zero, by simp, by simp, ?_⟩
  simp [sortByMach, insertByMach, linInterp]

end BC.Props.C14
