/-
  BC.Props.C14 (source ties) — `linear_interpolation` (clamps, initial bracket, loop condition, in-segment test, interpolated
  value, both moves of the bracket), `sectional_density`, `BCPoint._machC` and the Mach number of a velocity-specified BC point,
  executed symbolically from the Python source on every run (translate/t_funcs.py), are the pieces of the model's
  `linInterp / interpLoop / sectionalDensity / bcMachC / bcPoint`; the statements of `DragModelMultiBC` that string them together
  (sorted copy by Mach, the three list comprehensions, `make_data_points`) are matched structurally by the translator.  Core-only.
-/
import BC.Gen.Funcs
import BC.Model.MultiBC
namespace BC.Props.C14
open BC BC.Gen BC.Model
set_option linter.unusedSectionVars false

section
variable {α : Type} [Add α] [Sub α] [Mul α] [Div α] [Neg α] [OfScientific α]
  [LT α] [DecidableLT α] [LE α] [DecidableLE α] [Fn α]

theorem C14_src_sectional_density (w d : α) : Src.sectional_density w d = sectionalDensity w d := rfl
theorem C14_src_machC : (Src.bc_machC : α) = bcMachC := rfl
theorem C14_src_bcpoint_mach_of_v (v : α) : Src.bcpoint_mach_of_v v = v / bcMachC := rfl

/-- one query of `linear_interpolation`: the two clamps, then the bisection from the initial bracket -/
theorem C14_src_lin_interp (k : Nat) (xp yp : Nat → α) (xi : α) :
    linInterp k xp yp xi =
      if Src.interp_low xp xi then Src.interp_low_value yp
      else if Src.interp_high k xp xi then Src.interp_high_value k yp
      else interpLoop xp yp xi k (Src.interp_init k).1 (Src.interp_init k).2 := rfl

/-- one iteration of the bisection: in-segment test and interpolated value, else the bracket moves left or right -/
theorem C14_src_interp_loop (xp yp : Nat → α) (xi : α) (fuel left right : Nat) :
    interpLoop xp yp xi (fuel + 1) left right =
      if Src.interp_cond left right then
        if Src.interp_in_segment xp xi left right then Src.interp_value xp yp xi left right
        else if Src.interp_goes_left xp xi left right then
          interpLoop xp yp xi fuel (Src.interp_left_move left right).1 (Src.interp_left_move left right).2
        else interpLoop xp yp xi fuel (Src.interp_right_move left right).1 (Src.interp_right_move left right).2
      else yp left := by
  conv => lhs; unfold interpLoop
  rfl

end
end BC.Props.C14
