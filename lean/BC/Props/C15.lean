/-
  C15 — event rows mark each sight-line and sonic crossing once, within one step.
  Subject: the event half of `TFilter` in BC.Model.Traj (`setupSeenZero`, `checkZero`, `checkMach`,
  `shouldRecord`), fed with an ARBITRARY sequence of states.
-/
import Mathlib.Tactic.Ring
import Mathlib.Tactic.Linarith
import Mathlib.Tactic.NormNum
import BC.Real
import Mathlib.Tactic.Tauto
import Mathlib.Data.List.GetD
import BC.Model.Traj
import BC.Lemmas.Filter

namespace BC.Props.C15
open BC BC.Model

/-- one state as the loop hands it to the filter: position, velocity, Mach 1 (fps), time -/
abbrev Obs := Vec ℝ × Vec ℝ × ℝ × ℝ

/-- the filter after seeing one state (the loop clears the current flag first) -/
noncomputable def see (sf : Nat) (f : TFilter ℝ) (o : Obs) : TFilter ℝ × Option (BaseTraj ℝ) :=
  ({ f with currentFlag := fNONE }).shouldRecord sf o.1 o.2.1 o.2.2.1 o.2.2.2

/-- flags raised state by state when the filter is fed a sequence of states -/
noncomputable def feed (sf : Nat) : TFilter ℝ → List Obs → List Flags
  | _, [] => []
  | f, o :: rest => (see sf f o).1.currentFlag :: feed sf (see sf f o).1 rest

/-- the filter state after a sequence -/
noncomputable def after (sf : Nat) : TFilter ℝ → List Obs → TFilter ℝ
  | f, [] => f
  | f, o :: rest => after sf (see sf f o).1 rest

/-- on or above the sight line, beyond the muzzle -/
def Above (look : ℝ) (o : Obs) : Prop := 0 < o.1.x ∧ o.1.x * Real.tan look ≤ o.1.y
/-- below the sight line, beyond the muzzle -/
def Below (look : ℝ) (o : Obs) : Prop := 0 < o.1.x ∧ o.1.y < o.1.x * Real.tan look

/-! ### `see` in normal form (from `TFilter.shouldRecord_eq`) -/

private theorem see_fst (sf : Nat) (f : TFilter ℝ) (o : Obs) :
    (see sf f o).1 = ({ f with currentFlag := fNONE } : TFilter ℝ).core sf o.1 o.2.1 o.2.2.1 o.2.2.2 := by
  unfold see; rw [TFilter.shouldRecord_eq]

private theorem see_snd (sf : Nat) (f : TFilter ℝ) (o : Obs) :
    (see sf f o).2 =
      if ((see sf f o).1.currentFlag.anyCommon f.filter && (f.dist sf o.1 o.2.1 o.2.2.1 o.2.2.2).isNone) = true
      then some ⟨o.2.2.2, o.1, o.2.1, o.2.2.1⟩ else f.dist sf o.1 o.2.1 o.2.2.1 o.2.2.2 := by
  unfold see; rw [TFilter.shouldRecord_eq]; rfl

private theorem see_cf (sf : Nat) (f : TFilter ℝ) (o : Obs) :
    (see sf f o).1.currentFlag =
      ⟨f.upB o.1, f.downB o.1, f.machB (o.2.1.mag / o.2.2.1), f.rtB o.1 || f.ttB o.1 o.2.2.2, false⟩ := by
  rw [see_fst]
  show (⟨false || f.upB o.1, false || f.downB o.1, false || f.machB (o.2.1.mag / o.2.2.1),
    false || (f.rtB o.1 || f.ttB o.1 o.2.2.2), false⟩ : Flags) = _
  simp only [Bool.false_or]

private theorem see_sz (sf : Nat) (f : TFilter ℝ) (o : Obs) :
    (see sf f o).1.seenZero =
      ⟨f.seenZero.zeroUp || f.upB o.1, f.seenZero.zeroDown || f.downB o.1, f.seenZero.mach,
        f.seenZero.range, f.seenZero.apex⟩ := by
  rw [see_fst]; rfl

/-- **C15_zero_up_step** (full): ZERO_UP is raised on a state iff it has not been seen before and the state
    is beyond the muzzle on or above the sight line; it is then marked as seen. -/
theorem C15_zero_up_step (sf : Nat) (f : TFilter ℝ) (o : Obs) :
    ((see sf f o).1.currentFlag.zeroUp = true ↔ f.seenZero.zeroUp = false ∧ Above f.lookAngle o) ∧
    ((see sf f o).1.seenZero.zeroUp = true ↔ f.seenZero.zeroUp = true ∨ Above f.lookAngle o) ∧
    (see sf f o).1.lookAngle = f.lookAngle := by
  refine ⟨?_, ?_, ?_⟩
  · rw [see_cf]; simp only [TFilter.upB_iff, Above]; tauto
  · rw [see_sz]; simp only [Bool.or_eq_true, TFilter.upB_iff, Above]
    cases f.seenZero.zeroUp <;> simp
  · rw [see_fst]; rfl

/-- **C15_zero_down_step** (full): ZERO_DOWN is raised iff ZERO_UP had been seen BEFORE this state, ZERO_DOWN
    not yet, and the state is beyond the muzzle below the sight line. -/
theorem C15_zero_down_step (sf : Nat) (f : TFilter ℝ) (o : Obs) :
    ((see sf f o).1.currentFlag.zeroDown = true ↔
        f.seenZero.zeroUp = true ∧ f.seenZero.zeroDown = false ∧ Below f.lookAngle o) ∧
    ((see sf f o).1.seenZero.zeroDown = true ↔
        f.seenZero.zeroDown = true ∨ (f.seenZero.zeroUp = true ∧ Below f.lookAngle o)) := by
  refine ⟨?_, ?_⟩
  · rw [see_cf]; simp only [TFilter.downB_iff, Below]; tauto
  · rw [see_sz]; simp only [Bool.or_eq_true, TFilter.downB_iff, Below]
    cases f.seenZero.zeroDown <;> simp
    tauto

/-- **C15_at_most_once** (full, induction over the state sequence): in any run ZERO_UP is raised on at most
    one state and ZERO_DOWN on at most one state; none at all for a crossing pre-marked as seen. -/
theorem C15_at_most_once (sf : Nat) (f : TFilter ℝ) (obs : List Obs) :
    ((feed sf f obs).filter (·.zeroUp)).length ≤ 1 ∧ ((feed sf f obs).filter (·.zeroDown)).length ≤ 1 ∧
    (f.seenZero.zeroUp = true → (feed sf f obs).filter (·.zeroUp) = []) ∧
    (f.seenZero.zeroDown = true → (feed sf f obs).filter (·.zeroDown) = []) := by
  induction obs generalizing f with
  | nil => simp [feed]
  | cons o rest ih =>
    obtain ⟨hu1, hu2, -⟩ := C15_zero_up_step sf f o
    obtain ⟨hd1, hd2⟩ := C15_zero_down_step sf f o
    obtain ⟨i1, i2, i3, i4⟩ := ih (see sf f o).1
    simp only [feed]
    refine ⟨?_, ?_, ?_, ?_⟩
    · by_cases hz : (see sf f o).1.currentFlag.zeroUp = true
      · rw [List.filter_cons_of_pos (by simpa using hz), i3 (hu2.2 (Or.inr (hu1.1 hz).2))]; simp
      · rw [List.filter_cons_of_neg (by simpa using hz)]; exact i1
    · by_cases hz : (see sf f o).1.currentFlag.zeroDown = true
      · have h := hd1.1 hz
        rw [List.filter_cons_of_pos (by simpa using hz), i4 (hd2.2 (Or.inr ⟨h.1, h.2.2⟩))]; simp
      · rw [List.filter_cons_of_neg (by simpa using hz)]; exact i2
    · intro hs
      have hz : ¬ (see sf f o).1.currentFlag.zeroUp = true := fun h => by
        have := (hu1.1 h).1; rw [hs] at this; cases this
      rw [List.filter_cons_of_neg (by simpa using hz)]
      exact i3 (hu2.2 (Or.inl hs))
    · intro hs
      have hz : ¬ (see sf f o).1.currentFlag.zeroDown = true := fun h => by
        have := (hd1.1 h).2.1; rw [hs] at this; cases this
      rw [List.filter_cons_of_neg (by simpa using hz)]
      exact i4 (hd2.2 (Or.inl hs))

/-! ### the filter state after a prefix, by index -/

private theorem after_append (sf : Nat) (l1 l2 : List Obs) (f : TFilter ℝ) :
    after sf f (l1 ++ l2) = after sf (after sf f l1) l2 := by
  induction l1 generalizing f with
  | nil => rfl
  | cons o rest ih => simp only [List.cons_append, after]; exact ih _

private theorem after_take_succ (sf : Nat) (f : TFilter ℝ) (obs : List Obs) (n : Nat) (hn : n < obs.length) :
    after sf f (obs.take (n + 1)) = (see sf (after sf f (obs.take n)) (obs.getD n default)).1 := by
  rw [List.take_add_one, after_append, List.getD_eq_getElem _ _ hn, List.getElem?_eq_getElem hn]
  rfl

private theorem feed_getD (sf : Nat) (f : TFilter ℝ) (obs : List Obs) (n : Nat) (hn : n < obs.length) :
    (feed sf f obs).getD n fNONE = (see sf (after sf f (obs.take n)) (obs.getD n default)).1.currentFlag := by
  induction obs generalizing f n with
  | nil => simp at hn
  | cons o rest ih =>
    cases n with
    | zero => simp [feed, after]
    | succ n =>
      simp only [feed, List.getD_cons_succ, List.take_succ_cons, after]
      exact ih _ n (by simpa using hn)

private theorem after_lookAngle (sf : Nat) (f : TFilter ℝ) (obs : List Obs) :
    (after sf f obs).lookAngle = f.lookAngle := by
  induction obs generalizing f with
  | nil => rfl
  | cons o rest ih => simp only [after]; rw [ih, (C15_zero_up_step sf f o).2.2]

private theorem after_seenUp (sf : Nat) (f : TFilter ℝ) (obs : List Obs) (n : Nat) (hn : n ≤ obs.length) :
    (after sf f (obs.take n)).seenZero.zeroUp = true ↔
      f.seenZero.zeroUp = true ∨ ∃ i, i < n ∧ Above f.lookAngle (obs.getD i default) := by
  induction n with
  | zero => simp [after]
  | succ n ih =>
    rw [after_take_succ sf f obs n hn, (C15_zero_up_step _ _ _).2.1, after_lookAngle, ih (by omega),
      Nat.exists_lt_succ_right, or_assoc]

private theorem after_seenDown (sf : Nat) (f : TFilter ℝ) (obs : List Obs) (n : Nat) (hn : n ≤ obs.length) :
    (after sf f (obs.take n)).seenZero.zeroDown = true ↔
      f.seenZero.zeroDown = true ∨ ∃ j, j < n ∧
        (f.seenZero.zeroUp = true ∨ ∃ i, i < j ∧ Above f.lookAngle (obs.getD i default)) ∧
        Below f.lookAngle (obs.getD j default) := by
  induction n with
  | zero => simp [after]
  | succ n ih =>
    rw [after_take_succ sf f obs n hn, (C15_zero_down_step _ _ _).2, after_lookAngle, ih (by omega),
      after_seenUp sf f obs n (by omega), Nat.exists_lt_succ_right, or_assoc]

/-- **C15_zero_up_exact** (full): with ZERO_UP not pre-marked, it is raised exactly on the FIRST state that is
    beyond the muzzle on or above the sight line — so the state before it (if any) was still below the line or
    at the muzzle: the crossing happened within that one step. -/
theorem C15_zero_up_exact (sf : Nat) (f : TFilter ℝ) (hf : f.seenZero.zeroUp = false) (obs : List Obs) (n : Nat)
    (hn : n < obs.length) :
    ((feed sf f obs).getD n fNONE).zeroUp = true ↔
      Above f.lookAngle (obs.getD n default) ∧ ∀ j, j < n → ¬ Above f.lookAngle (obs.getD j default) := by
  rw [feed_getD sf f obs n hn, (C15_zero_up_step _ _ _).1, after_lookAngle, ← Bool.not_eq_true,
    after_seenUp sf f obs n (le_of_lt hn), hf]
  simp only [Bool.false_eq_true, false_or, not_exists, not_and]
  tauto

/-- **C15_zero_down_exact** (full): with ZERO_DOWN not pre-marked, it is raised exactly on the first state below
    the sight line (beyond the muzzle) that comes strictly after ZERO_UP has been seen (pre-marked or raised). -/
theorem C15_zero_down_exact (sf : Nat) (f : TFilter ℝ) (hf : f.seenZero.zeroDown = false) (obs : List Obs) (n : Nat)
    (hn : n < obs.length) :
    ((feed sf f obs).getD n fNONE).zeroDown = true ↔
      Below f.lookAngle (obs.getD n default) ∧
      (f.seenZero.zeroUp = true ∨ ∃ i, i < n ∧ Above f.lookAngle (obs.getD i default)) ∧
      ∀ j, j < n → (f.seenZero.zeroUp = true ∨ ∃ i, i < j ∧ Above f.lookAngle (obs.getD i default)) →
        ¬ Below f.lookAngle (obs.getD j default) := by
  rw [feed_getD sf f obs n hn, (C15_zero_down_step _ _ _).1, after_lookAngle, ← Bool.not_eq_true,
    after_seenUp sf f obs n (le_of_lt hn), after_seenDown sf f obs n (le_of_lt hn), hf]
  simp only [Bool.false_eq_true, false_or, not_exists, not_and]
  tauto

/-- **C15_setup_seen_zero** (full): pre-marking: sight on or below the bore (`height ≥ 0`) marks ZERO_UP as
    seen; sight above the bore with the barrel pointing below the sight line marks ZERO_DOWN; nothing else. -/
theorem C15_setup_seen_zero (f : TFilter ℝ) (hf : f.seenZero = fNONE) (height be look : ℝ) :
    ((f.setupSeenZero height be look).seenZero.zeroUp = true ↔ 0 ≤ height) ∧
    ((f.setupSeenZero height be look).seenZero.zeroDown = true ↔ height < 0 ∧ be < look) ∧
    (f.setupSeenZero height be look).lookAngle = look := by
  refine ⟨?_, ?_, rfl⟩ <;> (unfold TFilter.setupSeenZero; simp only [lit0, hf, fNONE])
  · by_cases h1 : 0 ≤ height
    · simp [h1]
    · by_cases h2 : height < 0 ∧ be < look <;> simp [h1, h2]
  · by_cases h1 : 0 ≤ height
    · have : ¬ height < 0 := not_lt.2 h1
      simp [h1, this]
    · by_cases h2 : height < 0 ∧ be < look
      · simp [h1, h2]
      · simp only [h1, h2, if_false]; simp

/-- **C15_mach_step** (full): MACH is raised on a state iff the speed/sound-speed ratio was above 1 on the
    previous state and is at most 1 now — each time that happens, and only then. -/
theorem C15_mach_step (sf : Nat) (f : TFilter ℝ) (o : Obs) :
    ((see sf f o).1.currentFlag.mach = true ↔ 1 < f.prevVMach ∧ o.2.1.mag / o.2.2.1 ≤ 1) ∧
    (see sf f o).1.prevVMach = o.2.1.mag / o.2.2.1 := by
  refine ⟨?_, ?_⟩
  · rw [see_cf]; exact TFilter.machB_iff _ _
  · rw [see_fst]; rfl

/-- **C15_event_row_is_state_or_interpolant** (full): when an event flag is raised on a state and the mask
    contains it, a row is recorded for that step: either the state itself or (when the distance trigger fired
    in the same step) the interpolated distance record between the previous state and this one. -/
theorem C15_event_row (sf : Nat) (f : TFilter ℝ) (o : Obs)
    (hev : (see sf f o).1.currentFlag.anyCommon f.filter = true) :
    (see sf f o).2.isSome ∧
    ((see sf f o).2 = some ⟨o.2.2.2, o.1, o.2.1, o.2.2.1⟩ ∨
     (0 < f.rangeStep ∧ f.nextRecordDistance ≤ o.1.x ∧ f.prevPos.x < o.1.x)) := by
  rw [see_snd, hev]
  cases hD : f.dist sf o.1 o.2.1 o.2.2.1 o.2.2.2 with
  | none => simp
  | some d =>
    refine ⟨by simp, Or.inr ?_⟩
    unfold TFilter.dist at hD
    split_ifs at hD with hc
    exact ⟨((f.rtB_iff o.1).1 hc.1).1, ((f.rtB_iff o.1).1 hc.1).2, hc.2⟩

/-- **C15_record_time_between** (full): the time of a recorded row lies between the previous state's time and
    this state's time (rows are therefore in time order with all other rows), provided the filter's
    bookkeeping invariant `prevPos.x ≤ nextRecordDistance` holds — which `C15_bookkeeping` shows is preserved. -/
theorem C15_record_time_between (sf : Nat) (f : TFilter ℝ) (o : Obs) (d : BaseTraj ℝ)
    (hinv : f.prevPos.x ≤ f.nextRecordDistance) (ht : f.prevTime ≤ o.2.2.2)
    (hd : (see sf f o).2 = some d) : f.prevTime ≤ d.time ∧ d.time ≤ o.2.2.2 := by
  rw [see_snd] at hd
  split_ifs at hd with hc
  · simp only [Option.some.injEq] at hd
    subst hd
    exact ⟨ht, le_refl _⟩
  · unfold TFilter.dist at hd
    split_ifs at hd with hc2
    simp only [Option.some.injEq] at hd
    subst hd
    obtain ⟨hstep, hx⟩ := (f.rtB_iff o.1).1 hc2.1
    have hp := hc2.2
    have h1 := skipRecords_ge f.rangeStep o.1.x (le_of_lt hstep) sf f.nextRecordDistance
    have h2 := skipRecords_le f.rangeStep o.1.x sf f.nextRecordDistance hx
    have hpos : 0 < o.1.x - f.prevPos.x := by linarith
    exact lerp_between _ _ _ ht (div_nonneg (by linarith) (le_of_lt hpos))
      ((div_le_one hpos).2 (by linarith))

/-- **C15_bookkeeping** (full): `prevPos.x ≤ nextRecordDistance` is preserved (given enough fuel for the skip
    loop, i.e. the loop ended because its condition became false), and the previous-state fields become this state. -/
theorem C15_bookkeeping (sf : Nat) (f : TFilter ℝ) (o : Obs) (hstep : 0 < f.rangeStep)
    (hinv : f.prevPos.x ≤ f.nextRecordDistance)
    (hfuel : ¬ (skipRecords f.rangeStep o.1.x sf f.nextRecordDistance + f.rangeStep < o.1.x)) :
    (see sf f o).1.prevPos.x ≤ (see sf f o).1.nextRecordDistance ∧
    (see sf f o).1.prevPos = o.1 ∧ (see sf f o).1.prevVel = o.2.1 ∧ (see sf f o).1.prevMach = o.2.2.1 ∧
    (see sf f o).1.prevTime = o.2.2.2 ∧ (see sf f o).1.rangeStep = f.rangeStep := by
  have _ := hinv  -- not needed: the new `prevPos.x` is the current `x`
  rw [see_fst]
  refine ⟨?_, rfl, rfl, rfl, rfl, rfl⟩
  show o.1.x ≤ (if f.rtB o.1 = true then skipRecords f.rangeStep o.1.x sf f.nextRecordDistance + f.rangeStep
      else f.nextRecordDistance)
  split_ifs with hrt
  · exact not_lt.1 hfuel
  · rw [TFilter.rtB_iff] at hrt
    by_contra hcon
    exact hrt ⟨hstep, by linarith⟩

end BC.Props.C15
