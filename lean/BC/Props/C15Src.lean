/-
  BC.Props.C15 (source ties) — the event detectors (zero crossings, Mach crossing).  The methods of `_TrajectoryDataFilter`, executed symbolically from the
  Python source on every run (translate/t_funcs.py), equal the model functions the C15 theorems are about
  (proofs in BC/Lemmas/SrcFilter.lean).  Core-only, generic in the number type.
-/
import BC.Lemmas.SrcFilter
namespace BC.Props.C15
open BC BC.Gen BC.Model BC.Lemmas
set_option linter.unusedSectionVars false

section
variable {α : Type} [Add α] [Sub α] [Mul α] [Div α] [Neg α] [OfScientific α]
  [LT α] [DecidableLT α] [LE α] [DecidableLE α] [Fn α]

theorem C15_src_setup_seen_zero (f : TFilter α) (h b l : α) :
    Src.filter_setup_seen_zero f h b l = f.setupSeenZero h b l := SrcFilter.setup_seen_zero_eq f h b l
theorem C15_src_check_zero_crossing (f : TFilter α) (p : Vec α) :
    Src.filter_check_zero_crossing f p = f.checkZero p := SrcFilter.check_zero_eq f p
theorem C15_src_check_mach_crossing (f : TFilter α) (v m : α) :
    Src.filter_check_mach_crossing f v m = f.checkMach v m := SrcFilter.check_mach_eq f v m
theorem C15_src_should_record (f : TFilter α) (fuel : Nat) (p v : Vec α) (m t : α) :
    Src.filter_should_record f fuel p v m t = f.shouldRecord fuel p v m t := SrcFilter.should_record_eq f fuel p v m t

end
end BC.Props.C15
