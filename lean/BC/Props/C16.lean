/-
  C16 — danger space is the contiguous stretch of trajectory within the target.
  Subject: BC.Model.Danger (hand-written model of HitResult.danger_space).
-/
import Mathlib.Tactic.Ring
import Mathlib.Tactic.Linarith
import Mathlib.Tactic.NormNum
import BC.Real
import BC.Model.Danger
import BC.Lemmas.Lookup

namespace BC.Props.C16
open BC BC.Model BC.Lemmas.Lookup

/-- **C16_out_of_range** (full): a range beyond the computed trajectory is an error, and only that. -/
theorem C16_out_of_range (n : Nat) (dist drop : Nat → ℝ) (atRange h : ℝ) :
    dangerSpace n dist drop atRange h = none ↔ ∀ i, i < n → dist i < atRange := by
  obtain ⟨s1, s2⟩ := scanFirst_spec (fun i => decide (atRange ≤ dist i)) n 0
  unfold dangerSpace indexAtDistance
  simp only
  rcases scanFirst_cases (fun i => decide (atRange ≤ dist i)) n 0 with hs | ⟨k, hs⟩
  · have hall := s1.1 hs
    rw [hs]
    constructor
    · intro _ i hi
      have := hall i (Nat.zero_le _) (by omega)
      simpa using this
    · intro _; simp
  · obtain ⟨_, k2, k3, _⟩ := (s2 k).1 hs
    rw [hs]
    have hnot : ¬ ((k : Int) < 0) := by omega
    rw [if_neg hnot]
    constructor
    · intro hcon; cases hcon
    · intro hall
      have := hall k (by omega)
      simp only [decide_eq_true_eq] at k3
      linarith

/-- **C16_brackets** (full): the target row is the first row at or beyond the requested range and the
    two bounds bracket it. -/
theorem C16_brackets (n : Nat) (dist drop : Nat → ℝ) (atRange h : ℝ) (r : DangerIdx)
    (hr : dangerSpace n dist drop atRange h = some r) :
    r.at_ < n ∧ atRange ≤ dist r.at_ ∧ (∀ i, i < r.at_ → dist i < atRange) ∧
    r.begin_ ≤ r.at_ ∧ r.at_ ≤ r.end_ ∧ r.end_ < n := by
  obtain ⟨k, hk, k1, k2, ra, rb, re⟩ := dangerSpace_some n dist drop atRange h r hr
  rw [ra, rb, re]
  refine ⟨hk, k1, k2, (beginScan_spec drop (drop k) (h / 2) k).1, ?_, ?_⟩
  · rcases endScan_spec drop (drop k) (h / 2) (n - 1) (n - (k + 1)) (k + 1) with ⟨e1, _⟩ | ⟨e1, _⟩
    · rw [e1]; omega
    · omega
  · rcases endScan_spec drop (drop k) (h / 2) (n - 1) (n - (k + 1)) (k + 1) with
      ⟨e1, _⟩ | ⟨_, e2, _⟩
    · rw [e1]; omega
    · omega

/-- **C16_inside_within_half** (full): every row strictly between the bounds (other than the target row
    itself) has a drop within half the target height of the drop at the target row, above or below. -/
theorem C16_inside_within_half (n : Nat) (dist drop : Nat → ℝ) (atRange h : ℝ) (r : DangerIdx)
    (hr : dangerSpace n dist drop atRange h = some r) (j : Nat)
    (h1 : r.begin_ < j) (h2 : j < r.end_) (hj : j ≠ r.at_) :
    |drop j - drop r.at_| < h / 2 := by
  obtain ⟨k, hk, k1, k2, ra, rb, re⟩ := dangerSpace_some n dist drop atRange h r hr
  rw [ra] at hj ⊢
  rw [rb] at h1
  rw [re] at h2
  by_cases hjk : j < k
  · exact (beginScan_spec drop (drop k) (h / 2) k).2.1 j h1 hjk
  · rw [abs_sub_comm]
    rcases endScan_spec drop (drop k) (h / 2) (n - 1) (n - (k + 1)) (k + 1) with
      ⟨e1, e2⟩ | ⟨_, _, _, e4⟩
    · rw [e1] at h2
      exact e2 j (by omega) (by omega)
    · exact e4 j (by omega) h2

/-- **C16_bounds** (full): each bound is the first/last row or a row whose drop differs from the target
    row's by at least half the target height. -/
theorem C16_bounds (n : Nat) (dist drop : Nat → ℝ) (atRange h : ℝ) (r : DangerIdx)
    (hr : dangerSpace n dist drop atRange h = some r) :
    (r.begin_ = 0 ∨ h / 2 ≤ |drop r.begin_ - drop r.at_|) ∧
    (r.end_ = n - 1 ∨ h / 2 ≤ |drop r.end_ - drop r.at_|) := by
  obtain ⟨k, hk, k1, k2, ra, rb, re⟩ := dangerSpace_some n dist drop atRange h r hr
  rw [ra, rb, re]
  refine ⟨(beginScan_spec drop (drop k) (h / 2) k).2.2, ?_⟩
  rcases endScan_spec drop (drop k) (h / 2) (n - 1) (n - (k + 1)) (k + 1) with
    ⟨e1, _⟩ | ⟨_, _, e3, _⟩
  · left; exact e1
  · right; rw [abs_sub_comm]; exact e3

/-- **C16_monotone_height** (full): increasing the target height never shrinks the danger space. -/
theorem C16_monotone_height (n : Nat) (dist drop : Nat → ℝ) (atRange h h' : ℝ) (hh : h ≤ h')
    (r r' : DangerIdx) (hr : dangerSpace n dist drop atRange h = some r)
    (hr' : dangerSpace n dist drop atRange h' = some r') :
    r'.at_ = r.at_ ∧ r'.begin_ ≤ r.begin_ ∧ r.end_ ≤ r'.end_ := by
  obtain ⟨k, hk, k1, k2, ra, rb, re⟩ := dangerSpace_some n dist drop atRange h r hr
  obtain ⟨k', hk', k1', k2', ra', rb', re'⟩ := dangerSpace_some n dist drop atRange h' r' hr'
  have hkk : k' = k := by
    rcases Nat.lt_trichotomy k' k with hlt | heq | hgt
    · have := k2 k' hlt; linarith
    · exact heq
    · have := k2' k hgt; linarith
  subst hkk
  have hhalf : h / 2 ≤ h' / 2 := by linarith
  rw [ra, rb, re, ra', rb', re']
  refine ⟨rfl, beginScan_mono drop (drop k') (h / 2) (h' / 2) hhalf k', ?_⟩
  exact endScan_mono drop (drop k') (h / 2) (h' / 2) hhalf (n - 1) (n - (k' + 1)) (k' + 1) (by omega)

/-! non-vacuity: the hypothesis `dangerSpace … = some r` is satisfiable -/
example : ∃ r, dangerSpace 3 (fun i => (i : ℝ)) (fun i => if i = 1 then 0 else 5) 1 1 = some r := by
  cases hd : dangerSpace 3 (fun i => (i : ℝ)) (fun i => if i = 1 then 0 else 5) 1 1 with
  | some r => exact ⟨r, rfl⟩
  | none =>
    have := (C16_out_of_range _ _ _ _ _).1 hd 2 (by omega)
    norm_num at this

end BC.Props.C16
