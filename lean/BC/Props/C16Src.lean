/-
  BC.Props.C16 (source ties) — `HitResult.danger_space`: half the target height and the two scan tests, executed symbolically from
  the Python source on every run (translate/t_funcs.py), are those of the model's `dangerSpace / beginScan / endScan`; the shape of
  the scans (`reversed(self.trajectory[:row_num])` with fall-back `self.trajectory[0]`, `self.trajectory[row_num + 1:]` with
  fall-back `self.trajectory[-1]`, `return prime_row`), the coercions of the two arguments, the out-of-range guard and the returned
  `DangerSpace(...)` are matched structurally by the translator (it fails closed when they change).  Core-only.
-/
import BC.Gen.Funcs
import BC.Model.Danger
namespace BC.Props.C16
open BC BC.Gen BC.Model
set_option linter.unusedSectionVars false

section
variable {α : Type} [Add α] [Sub α] [Mul α] [Div α] [Neg α] [OfScientific α]
  [LT α] [DecidableLT α] [LE α] [DecidableLE α] [Fn α]

theorem C16_src_begin_scan (drop : Nat → α) (center half : α) (k : Nat) :
    beginScan drop center half (k + 1) =
      if Src.danger_begin_danger_hit half center (drop k) then k else beginScan drop center half k := by
  conv => lhs; unfold beginScan

theorem C16_src_end_scan (drop : Nat → α) (center half : α) (last fuel i : Nat) :
    endScan drop center half last (fuel + 1) i =
      if Src.danger_end_danger_hit half center (drop i) then i else endScan drop center half last fuel (i + 1) := by
  conv => lhs; unfold endScan

/-- the half height the scans compare with is `target_height.raw_value / 2.0` -/
theorem C16_src_half (n : Nat) (dist drop : Nat → α) (atRange height : α) :
    dangerSpace n dist drop atRange height =
      (let idx := indexAtDistance n dist atRange
       if idx < 0 then none else
       some ⟨idx.toNat, beginScan drop (drop idx.toNat) (Src.danger_half height) idx.toNat,
             endScan drop (drop idx.toNat) (Src.danger_half height) (n - 1) (n - (idx.toNat + 1)) (idx.toNat + 1)⟩) := rfl

end
end BC.Props.C16
