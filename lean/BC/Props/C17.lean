/-
  C17 — powder temperature sensitivity is linear, anchored and reproduces calibration.
  Subject: BC.Model.Ammo (hand-written model of Ammo.calc_powder_sens / get_velocity_for_temp,
  temperatures read through the REGENERATED Fahrenheit→Celsius chain).
-/
import Mathlib.Tactic.Ring
import Mathlib.Tactic.FieldSimp
import Mathlib.Tactic.Linarith
import Mathlib.Tactic.NormNum
import BC.Real
import BC.Model.Ammo

namespace BC.Props.C17
open BC BC.Model BC.Gen

/-- the regenerated chain reads a raw °F value in Celsius as `(F − 32)·5/9` -/
theorem celsiusOf_eq (f : ℝ) : celsiusOf f = (f - 32) * 5 / 9 := by
  norm_num [celsiusOf, getIn, fromRaw, Temperature.fromRaw]

/-- **C17_disabled** (full): with sensitivity off the muzzle velocity is the stated one at every temperature. -/
theorem C17_disabled (a : Ammo ℝ) (h : a.usePowderSens = false) (tF : ℝ) :
    velocityForTemp a tF = a.mv := by
  simp [velocityForTemp, h]

/-- **C17_linear_anchored** (full): enabled, the velocity is the affine function
    `v₀ + modifier · (v₀/15) · (T − T₀)` of the powder temperature in °C (so it equals the stated velocity
    at the stated powder temperature, and changes by the fraction `modifier` of `v₀` per 15 °C);
    a zero stated velocity stays zero. -/
theorem C17_linear_anchored (a : Ammo ℝ) (h : a.usePowderSens = true) (tF : ℝ) :
    velocityForTemp a tF =
      a.mv + a.tempModifier * (a.mv / 15) * (celsiusOf tF - celsiusOf a.powderTemp) := by
  by_cases hv : a.mv = 0
  · norm_num [velocityForTemp, h, hv]
  · have : a.mv < 0 ∨ 0 < a.mv := lt_or_gt_of_ne hv
    simp only [velocityForTemp, h, Bool.not_true, Bool.false_eq_true, if_false]
    norm_num [this]
    field_simp
    ring

theorem C17_anchored (a : Ammo ℝ) (h : a.usePowderSens = true) :
    velocityForTemp a a.powderTemp = a.mv := by
  rw [C17_linear_anchored a h]; ring

/-- **C17_calibration_reproduces** (full): after calibrating the modifier from a second measurement
    `(v₁, T₁)` the ammunition reproduces that measurement — whichever of the two is faster or warmer. -/
theorem C17_calibration_reproduces (a : Ammo ℝ) (v1 tF1 m : ℝ) (hv0 : a.mv ≠ 0)
    (hc : calcPowderSens a v1 tF1 = .ok m) :
    velocityForTemp { a with tempModifier := m, usePowderSens := true } tF1 = v1 := by
  rw [C17_linear_anchored _ rfl]
  simp only [calcPowderSens] at hc
  split_ifs at hc with hcond
  · obtain ⟨_, ht⟩ := hcond
    have ht' : celsiusOf tF1 - celsiusOf a.powderTemp ≠ 0 := by
      have h00 : (0.0:ℝ) = 0 := by norm_num
      rw [h00] at ht
      rcases ht with h | h
      · exact ne_of_lt h
      · exact ne_of_gt h
    have hv : a.mv < 0.0 ∨ 0.0 < a.mv := by
      have h00 : (0.0:ℝ) = 0 := by norm_num
      rw [h00]; exact lt_or_gt_of_ne hv0
    simp only [hv, if_true, Except.ok.injEq] at hc
    subst hc
    norm_num
    field_simp
    ring

/-- **C17_calibration_rejects** (full): a second measurement with the same velocity or the same
    temperature is rejected (ValueError), never turned into a modifier. -/
theorem C17_calibration_rejects (a : Ammo ℝ) (v1 tF1 : ℝ)
    (h : v1 = a.mv ∨ tF1 = a.powderTemp) : calcPowderSens a v1 tF1 = .error .value := by
  rcases h with h | h <;> subst h <;> norm_num [calcPowderSens]

/-! non-vacuity: baseline 800 m/s at 59 °F, second measurement slower and colder / faster and colder -/
example : calcPowderSens (⟨800, 59, 0, false⟩ : Ammo ℝ) 780 32 = .ok (1 / 40) := by
  norm_num [calcPowderSens, celsiusOf_eq]
example : calcPowderSens (⟨800, 59, 0, false⟩ : Ammo ℝ) 820 32 = .ok (-(1 / 40)) := by
  norm_num [calcPowderSens, celsiusOf_eq]

end BC.Props.C17
