/-
  BC.Props.C17 (source ties) — `Ammo.get_velocity_for_temp` and `Ammo.calc_powder_sens`, executed symbolically by
  translate/t_funcs.py.  `a / b` is translated as the field division; the two places where Python raises instead
  (`15 / v0` with `v0 = 0`: ZeroDivisionError, caught in `get_velocity_for_temp`, propagated by `calc_powder_sens`) are the
  explicit guards of the model, hence the hypothesis `v0 ≠ 0` (as `nz`) of the ties.  Core-only.
-/
import BC.Gen.Funcs
import BC.Model.Ammo
namespace BC.Props.C17
open BC BC.Gen BC.Model
set_option linter.unusedSectionVars false

section
variable {α : Type} [Add α] [Sub α] [Mul α] [Div α] [Neg α] [OfScientific α]
  [LT α] [DecidableLT α] [LE α] [DecidableLE α] [Fn α]

/-- sensitivity switched off: the stated muzzle velocity, whatever the temperature -/
theorem C17_src_velocity_disabled (a : Ammo α) (tF : α) (h : a.usePowderSens = false) :
    Src.velocity_for_temp a tF = a.mv ∧ velocityForTemp a tF = a.mv := by
  unfold Src.velocity_for_temp velocityForTemp; simp [h]

/-- sensitivity on, non-zero baseline velocity: the source expression is the model's -/
theorem C17_src_velocity_for_temp (a : Ammo α) (tF : α) (hv : a.mv < 0.0 ∨ 0.0 < a.mv) :
    Src.velocity_for_temp a tF = velocityForTemp a tF := by
  unfold Src.velocity_for_temp velocityForTemp
  cases hs : a.usePowderSens
  · simp
  · simp only [Bool.not_true, Bool.false_eq_true, if_false, if_pos hv]; rfl

/-- the guard of `calc_powder_sens` (`if v_delta == 0 or t_delta == 0: raise ValueError`) is the model's `.value` branch,
    and past it (with a non-zero baseline velocity) the returned modifier is the source expression -/
theorem C17_src_calc_powder_sens (a : Ammo α) (v1 tF1 : α) (hv : a.mv < 0.0 ∨ 0.0 < a.mv) :
    calcPowderSens a v1 tF1 =
      if Src.calc_powder_sens_raises a v1 tF1 then .error .value else .ok (Src.calc_powder_sens a v1 tF1) := by
  have e1 : getIn .Velocity v1 .MPS = v1 := rfl
  have e2 : getIn .Velocity a.mv .MPS = a.mv := rfl
  unfold calcPowderSens Src.calc_powder_sens_raises Src.calc_powder_sens nz celsiusOf
  simp only [e1, e2]
  simp only [← Bool.decide_or]
  by_cases h1 : (v1 - a.mv < 0.0 ∨ 0.0 < v1 - a.mv) <;>
    by_cases h2 : (getIn .Temperature tF1 .Celsius - getIn .Temperature a.powderTemp .Celsius < 0.0 ∨ 0.0 < getIn .Temperature tF1 .Celsius - getIn .Temperature a.powderTemp .Celsius)
  · rw [if_pos ⟨h1, h2⟩, if_pos hv]
    simp only [decide_eq_true h1, decide_eq_true h2, Bool.not_true, Bool.or_false, Bool.false_eq_true, if_false]
  · rw [if_neg (fun h => h2 h.2)]
    simp only [decide_eq_false h2, Bool.not_false, Bool.or_true, if_true]
  · rw [if_neg (fun h => h1 h.1)]
    simp only [decide_eq_false h1, Bool.not_false, Bool.true_or, if_true]
  · rw [if_neg (fun h => h1 h.1)]
    simp only [decide_eq_false h1, Bool.not_false, Bool.true_or, if_true]

end
end BC.Props.C17
