/-
  C18 — configuration is honoured, local to its calculator, and parsed faithfully.
  Subject: BC.Model.Config (hand model of create_interface_config and the global default step),
  BC.Model.Parse (hand model of _parse_unit / _parse_value / PreferredUnits.set) over the REGENERATED enumeration,
  alias table, preferred-unit slots (BC.Gen.Units) and constants (BC.Gen.Consts), and `step` of BC.Model.Traj.
-/
import Mathlib.Tactic.Ring
import Mathlib.Tactic.Linarith
import Mathlib.Tactic.NormNum
import Batteries.Data.Char.AsciiCasing
import BC.Real
import BC.Model.Config
import BC.Model.Parse
import BC.Lemmas.Vec

namespace BC.Props.C18
open BC BC.Model BC.Gen BC.Lemmas.VecL

/-! ### solver settings -/

/-- **C18_config_merge** (full): every one of the eight settings is the override if given, else the default read off the
    current source (the REGENERATED module constants; the two documented numbers, standard gravity and the 0.5 ft step, are
    pinned in `C18_defaults`); the default maximum step is the CURRENT global step. -/
theorem C18_config_merge (g : ℝ) (o : Overrides ℝ) :
    (createConfig g o).maxCalcStep = o.maxCalcStep.getD g ∧
    (createConfig g o).chartResolution = o.chartResolution.getD globalChartResolution ∧
    (createConfig g o).zeroAccuracy = o.zeroAccuracy.getD cZeroFindingAccuracy ∧
    (createConfig g o).minVelocity = o.minVelocity.getD cMinimumVelocity ∧
    (createConfig g o).maxDrop = o.maxDrop.getD cMaximumDrop ∧
    (createConfig g o).maxIterations = o.maxIterations.getD cMaxIterations_nat ∧
    (createConfig g o).gravity = o.gravity.getD cGravityConstant ∧
    (createConfig g o).minAltitude = o.minAltitude.getD cMinimumAltitude := by
  refine ⟨rfl, rfl, rfl, rfl, rfl, rfl, rfl, rfl⟩

/-- **C18_defaults** (full, regenerated): documented defaults — standard gravity, 0.5 ft initial global step — and
    the mapping of defaults to configuration fields, read off the current source. -/
theorem C18_defaults :
    (World.init : World ℝ).globalStep = 0.5 ∧ (cGravityConstant : ℝ) = -32.17405 ∧
    configFields = ["max_calc_step_size_feet", "chart_resolution", "cZeroFindingAccuracy", "cMinimumVelocity",
                    "cMaximumDrop", "cMaxIterations", "cGravityConstant", "cMinimumAltitude"] ∧
    configDefaults = [("max_calc_step_size_feet", "_globalMaxCalcStepSizeFeet"), ("chart_resolution", "_globalChartResolution"),
                      ("cZeroFindingAccuracy", "cZeroFindingAccuracy"), ("cMinimumVelocity", "cMinimumVelocity"),
                      ("cMaximumDrop", "cMaximumDrop"), ("cMaxIterations", "cMaxIterations"),
                      ("cGravityConstant", "cGravityConstant"), ("cMinimumAltitude", "cMinimumAltitude")] := by
  refine ⟨?_, ?_, by decide, by decide⟩ <;> norm_num [World.init, globalMaxCalcStepSizeFeet, cGravityConstant]

/-- **C18_set_rejects_nonpositive** (full): a non-positive global step is a ValueError and changes nothing. -/
theorem C18_set_rejects_nonpositive (w : World ℝ) (raw : ℝ) (h : raw ≤ 0) :
    wstep w (.setStep raw) = (w, .valueError) := by
  have : raw ≤ (0.0:ℝ) := by norm_num; exact h
  simp [wstep, this]

theorem wrun_append (w : World ℝ) (a b : List (WOp ℝ)) : wrun w (a ++ b) = wrun (wrun w a) b := by
  induction a generalizing w with
  | nil => rfl
  | cons op ops ih => simp [wrun, ih]

/-- every operation only APPENDS calculators; existing ones are never touched -/
theorem wstep_calcs_prefix (w : World ℝ) (op : WOp ℝ) : ∃ t, (wstep w op).1.calcs = w.calcs ++ t := by
  cases op with
  | setStep raw => simp only [wstep]; split_ifs <;> exact ⟨[], by simp⟩
  | reset => exact ⟨[], by simp [wstep]⟩
  | newCalc o => exact ⟨[createConfig w.globalStep o], by simp [wstep]⟩

theorem wrun_calcs_prefix (w : World ℝ) (ops : List (WOp ℝ)) : ∃ t, (wrun w ops).calcs = w.calcs ++ t := by
  induction ops generalizing w with
  | nil => exact ⟨[], by simp [wrun]⟩
  | cons op ops ih =>
    obtain ⟨t1, h1⟩ := wstep_calcs_prefix w op
    obtain ⟨t2, h2⟩ := ih (wstep w op).1
    exact ⟨t1 ++ t2, by simp [wrun, h2, h1]⟩

/-- **C18_global_step_history** (full, induction over operation histories): in ANY history of set / reset /
    create operations, a calculator is built from its own overrides and the global step in force WHEN it is
    created, and no later operation (setting the global step, creating other calculators) changes it. -/
theorem C18_global_step_history (w : World ℝ) (before after : List (WOp ℝ)) (o : Overrides ℝ) :
    (wrun w (before ++ [.newCalc o] ++ after)).calcs[(wrun w before).calcs.length]? =
      some (createConfig (wrun w before).globalStep o) := by
  rw [List.append_assoc, wrun_append, wrun_append]
  obtain ⟨t, ht⟩ := wrun_calcs_prefix (wrun (wrun w before) [.newCalc o]) after
  rw [ht]
  simp [wrun, wstep]

/-- the global step after a history is the last successfully set (or reset) value -/
theorem C18_global_step_last (w : World ℝ) (ops : List (WOp ℝ)) (raw : ℝ) (h : 0 < raw) :
    (wrun w (ops ++ [.setStep raw])).globalStep = feetOf raw ∧
    (wrun w (ops ++ [.reset])).globalStep = 0.5 ∧
    (∀ o, (wrun w (ops ++ [.newCalc o])).globalStep = (wrun w ops).globalStep) ∧
    (∀ bad, bad ≤ 0 → (wrun w (ops ++ [.setStep bad])).globalStep = (wrun w ops).globalStep) := by
  have h0 : ¬ raw ≤ (0.0:ℝ) := by norm_num; exact h
  refine ⟨?_, ?_, ?_, ?_⟩
  · simp [wrun_append, wrun, wstep, h0]
  · simp [wrun_append, wrun, wstep, globalMaxCalcStepSizeFeet]
  · intro o; simp [wrun_append, wrun, wstep]
  · intro bad hb
    have : bad ≤ (0.0:ℝ) := by norm_num; exact hb
    simp [wrun_append, wrun, wstep, this]

/-- **C18_step_bound** (full): no integration step advances the projectile through the air by more than the
    configured maximum step: the air-relative advance `|v − wind|·dt` is at most `calc_step = max_step/2`. -/
theorem C18_step_bound (maxStep : ℝ) (hm : 0 ≤ maxStep) (g : ℝ) (dbm : ℝ → ℝ) (w : Vec ℝ) (density mach : ℝ) (s : St ℝ) :
    let cs := maxStep / 2
    let o := step cs g dbm w density mach s
    (s.vel.sub w).mag * (o.st.time - s.time) ≤ cs ∧ cs ≤ maxStep := by
  intro cs o
  have hcs : 0 ≤ cs := by positivity
  have hdt : o.st.time - s.time = cs / max 1 (s.vel.sub w).mag := by
    simp only [o, step, max1_eq]; ring
  have hpos : (0:ℝ) < max 1 (s.vel.sub w).mag := lt_of_lt_of_le one_pos (le_max_left _ _)
  refine ⟨?_, by simp only [cs]; linarith⟩
  rw [hdt, ← mul_div_assoc, div_le_iff₀ hpos]
  have hmag : (s.vel.sub w).mag ≤ max 1 (s.vel.sub w).mag := le_max_right _ _
  nlinarith

/-! ### names, aliases, value strings -/

/-- **C18_lower_tables** (full, regenerated, kernel-evaluated): the lower-cased tables the look-ups compare against
    are the enumeration names and the alias table, lower-cased. -/
theorem C18_lower_tables :
    namesLower = U.all.map (fun u => (u.pyName.toLower, u)) ∧
    aliasesLower = aliases.map (fun g => (g.1.map String.toLower, g.2)) := by
  constructor <;> decide +kernel

set_option maxHeartbeats 1000000 in
/-- **C18_names_resolve** (full, regenerated, kernel-evaluated over the whole enumeration): every unit's
    enumeration name — as written, and upper-cased with surrounding blanks — resolves to that unit, radian included. -/
theorem C18_names_resolve : ∀ u ∈ U.all,
    parseUnit prefFields u.pyName = some u ∧ parseUnit prefFields (" " ++ u.pyName.toUpper ++ "  ") = some u := by
  decide +kernel

set_option maxHeartbeats 1000000 in
/-- **C18_aliases_resolve** (full, regenerated, kernel-evaluated over the whole alias table): every alias of the
    documented table — as written, and upper-cased with surrounding blanks — resolves to its unit. -/
theorem C18_aliases_resolve : ∀ g ∈ aliases, ∀ a ∈ g.1,
    parseUnit prefFields a = some g.2 ∧ parseUnit prefFields ("  " ++ a.toUpper ++ " ") = some g.2 := by
  decide +kernel

private theorem isWs_of_isAlpha (c : Char) (h : c.isAlpha = true) : isWs c = false := by
  simp only [isWs, Bool.or_eq_false_iff, beq_eq_false_iff_ne, ne_eq]
  refine ⟨⟨⟨⟨⟨?_, ?_⟩, ?_⟩, ?_⟩, ?_⟩, ?_⟩ <;> (rintro rfl; exact absurd h (by decide))

private theorem isWs_toUpper (c : Char) : isWs c.toUpper = isWs c := by
  by_cases h : c.isLower = true
  · have ha : c.isAlpha = true := by simp [Char.isAlpha, h]
    rw [isWs_of_isAlpha c ha, isWs_of_isAlpha _ (by simpa using ha)]
  · rw [Char.toUpper_eq_of_not_isLower h]

private theorem isWs_toLower (c : Char) : isWs c.toLower = isWs c := by
  by_cases h : c.isUpper = true
  · have ha : c.isAlpha = true := by simp [Char.isAlpha, h]
    rw [isWs_of_isAlpha c ha, isWs_of_isAlpha _ (by simpa using ha)]
  · rw [Char.toLower_eq_of_not_isUpper h]

private theorem normChars_map (f : Char → Char) (hws : ∀ c, isWs (f c) = isWs c)
    (hlow : ∀ c, (f c).toLower = c.toLower) (cs : List Char) : normChars (cs.map f) = normChars cs := by
  have hp : (isWs ∘ f) = isWs := funext hws
  unfold normChars
  rw [List.dropWhile_map, hp, ← List.map_reverse, List.dropWhile_map, hp, ← List.map_reverse, List.map_map]
  congr 1
  funext c
  exact hlow c

/-- **C18_case_blind** (full): resolution does not depend on the letter case of the input: upper-casing or
    lower-casing every character leaves the normalised name — all that the look-up reads — unchanged. -/
theorem C18_case_blind (cs : List Char) :
    normChars (cs.map Char.toUpper) = normChars cs ∧ normChars (cs.map Char.toLower) = normChars cs :=
  ⟨normChars_map _ isWs_toUpper Char.toLower_toUpper_eq_toLower cs,
   normChars_map _ isWs_toLower Char.toLower_toLower_eq_toLower cs⟩

/-- **C18_unknown_safe** (full): a name resolves ONLY to the current unit of a slot with that name, to the unit
    whose (lower-cased) enumeration name it is, or to the unit of an alias group containing it (lower-cased) —
    never to another unit; anything else is `none` (UnitAliasError / settings left unchanged). -/
theorem C18_unknown_safe (p : Prefs) (s : String) (u : U) (h : parseUnit p s = some u) :
    p.get? (normName s) = some u ∨ (normName s, u) ∈ namesLower ∨
    ∃ g ∈ aliasesLower, g.2 = u ∧ normName s ∈ g.1 := by
  unfold parseUnit at h
  simp only at h
  split at h
  · rename_i v hv; left; rw [hv]; exact h
  · split at h
    · rename_i v hv
      right; left
      simp only [Option.some.injEq] at h; subst h
      simp only [unitByName, Option.map_eq_some_iff] at hv
      obtain ⟨e, he, rfl⟩ := hv
      have h1 := List.find?_some he
      have h2 := List.mem_of_find?_eq_some he
      simp only [beq_iff_eq] at h1
      rw [← h1]; exact h2
    · right; right
      simp only [unitByAlias, Option.map_eq_some_iff] at h
      obtain ⟨g, hg, rfl⟩ := h
      refine ⟨g, List.mem_of_find?_eq_some hg, rfl, ?_⟩
      have := List.find?_some hg
      simpa [List.any_eq_true] using this

/-- **C18_set_pref** (full): `PreferredUnits.set` with a string stores exactly the parsed unit (radian like any
    other); an unknown slot or an unparsable value leaves every setting unchanged. -/
theorem C18_set_pref (p : Prefs) (slot value : String) :
    (p.get? slot = none → setPrefStr p slot value = p) ∧
    (parseUnit p value = none → setPrefStr p slot value = p) ∧
    (∀ u, p.get? slot ≠ none → parseUnit p value = some u → setPrefStr p slot value = p.set slot u) := by
  refine ⟨?_, ?_, ?_⟩
  · intro h; simp [setPrefStr, h]
  · intro h; unfold setPrefStr; cases p.get? slot <;> simp [h]
  · intro u hs hv
    unfold setPrefStr
    cases hq : p.get? slot with
    | none => exact absurd hq hs
    | some _ => simp [hv]

/-- radian is not special (regression of the falsy-`Unit.Radian` defect) -/
theorem C18_radian :
    (setPrefStr prefFields "angular" "radian").get? "angular" = some .Radian ∧
    parseValueStr prefFields "1rad" = .withUnit "1" .Radian ∧
    parseValueStr prefFields " -2.5 MoA" = .withUnit "-2.5" .MOA ∧
    parseValueStr prefFields "12." = .number "12." ∧ parseValueStr prefFields "ft" = .errParse ∧
    parseValueStr prefFields "3 parsecs" = .errAlias ∧ parseUnit prefFields "set" = none := by
  decide +kernel

end BC.Props.C18
