/-
  C19 — sight click counts are the angular correction divided by the click value.
  Subject: BC.Model.Sight (hand-written model of Sight.__init__ / _adjust_sfp_reticle_steps /
  get_adjustment).
-/
import Mathlib.Tactic.Ring
import Mathlib.Tactic.FieldSimp
import Mathlib.Tactic.Linarith
import Mathlib.Tactic.NormNum
import BC.Real
import BC.Model.Sight

namespace BC.Props.C19
open BC BC.Model

/-- the effective click the property specifies, per focal plane -/
noncomputable def effClick (fp : FocalPlane) (nominal scale td mag : ℝ) : ℝ :=
  match fp with
  | .FFP => nominal
  | .SFP => nominal * (scale / td) * mag
  | .LWIR => nominal / mag

/-- **C19_clicks** (full): the clicks returned are correction / effective click, separately for
    elevation (vertical click) and windage (horizontal click), for all three focal planes. -/
theorem C19_clicks (s : Sight ℝ) (td drop wind mag : ℝ) :
    s.adjustment td drop wind mag =
      (drop / effClick s.fp s.vClick s.scale td mag, wind / effClick s.fp s.hClick s.scale td mag) := by
  cases hfp : s.fp <;> simp [Sight.adjustment, Sight.steps, effClick, hfp] <;> ring_nf <;> simp

/-- **C19_ffp_independent** (full): a first-focal-plane sight ignores distance and magnification. -/
theorem C19_ffp_independent (s : Sight ℝ) (h : s.fp = .FFP) (td td' drop wind mag mag' : ℝ) :
    s.adjustment td drop wind mag = s.adjustment td' drop wind mag' := by
  simp [Sight.adjustment, Sight.steps, h]

/-- **C19_linear** (full): click counts are linear in the correction (hence keep its sign). -/
theorem C19_linear (s : Sight ℝ) (td mag c d1 w1 d2 w2 : ℝ) :
    s.adjustment td (c * d1 + d2) (c * w1 + w2) mag =
      (c * (s.adjustment td d1 w1 mag).1 + (s.adjustment td d2 w2 mag).1,
       c * (s.adjustment td d1 w1 mag).2 + (s.adjustment td d2 w2 mag).2) := by
  simp only [Sight.adjustment]; refine Prod.ext ?_ ?_ <;> simp <;> ring

/-- **C19_sign** (full): with positive effective clicks, the sign of each click count is the sign of
    the correction. -/
theorem C19_sign (s : Sight ℝ) (td drop wind mag : ℝ)
    (hv : 0 < effClick s.fp s.vClick s.scale td mag) (hh : 0 < effClick s.fp s.hClick s.scale td mag) :
    (0 < (s.adjustment td drop wind mag).1 ↔ 0 < drop) ∧ (0 < (s.adjustment td drop wind mag).2 ↔ 0 < wind) := by
  rw [C19_clicks]
  exact ⟨div_pos_iff_of_pos_right hv, div_pos_iff_of_pos_right hh⟩

/-- the calibration distance an SFP sight is built with is acceptable: given and positive -/
def ScaleOk (f : FocalPlane) (scale : Option ℝ) : Prop := f = .SFP → ∃ s, scale = some s ∧ 0 < s

/-- **C19_validation** (full): unknown focal plane, SFP without (or with a non-positive) calibration distance, click
    sizes of a wrong type or non-positive are rejected at construction, in that order; everything else is
    accepted unchanged. -/
theorem C19_validation (fp : Option FocalPlane) (scale : Option ℝ) (scale1 : ℝ) (h v : Option ℝ) :
    (fp = none → Sight.new fp scale scale1 h v = .error .wrongFocalPlane) ∧
    (fp = some .SFP → scale = none → Sight.new fp scale scale1 h v = .error .scaleRequired) ∧
    (∀ f, fp = some f → (f = .SFP → scale ≠ none) → (h = none ∨ v = none) →
        Sight.new fp scale scale1 h v = .error .clickType) ∧
    (∀ s hc vc, fp = some .SFP → scale = some s → s ≤ 0 → h = some hc → v = some vc →
        Sight.new fp scale scale1 h v = .error .scaleRequired) ∧
    (∀ f hc vc, fp = some f → ScaleOk f scale → h = some hc → v = some vc → (hc ≤ 0 ∨ vc ≤ 0) →
        Sight.new fp scale scale1 h v = .error .clickNonPositive) ∧
    (∀ f hc vc, fp = some f → ScaleOk f scale → h = some hc → v = some vc → 0 < hc → 0 < vc →
        Sight.new fp scale scale1 h v = .ok ⟨f, scale.getD scale1, hc, vc⟩) := by
  have h00 : (0.0:ℝ) = 0 := by norm_num
  refine ⟨?_, ?_, ?_, ?_, ?_, ?_⟩
  · rintro rfl; rfl
  · rintro rfl rfl; rfl
  · rintro f rfl hs hn
    have : (scale.isNone && f == .SFP) = false := by
      cases f <;> cases scale <;> simp_all
    simp only [Sight.new, this]
    cases h <;> cases v <;> simp_all
  · rintro s hc vc rfl rfl hs rfl rfl
    simp [Sight.new, h00, hs]
  · rintro f hc vc rfl hok rfl rfl hn
    have h1 : (scale.isNone && f == .SFP) = false := by
      cases f <;> cases scale <;> simp_all [ScaleOk]
    have h2 : (f == .SFP && decide (scale.getD scale1 ≤ (0.0:ℝ))) = false := by
      cases f <;> simp_all [ScaleOk]
      obtain ⟨s, rfl, hs⟩ := hok
      simpa using hs
    simp only [Sight.new, h1, h2]
    norm_num [hn]
  · rintro f hc vc rfl hok rfl rfl p1 p2
    have h1 : (scale.isNone && f == .SFP) = false := by
      cases f <;> cases scale <;> simp_all [ScaleOk]
    have h2 : (f == .SFP && decide (scale.getD scale1 ≤ (0.0:ℝ))) = false := by
      cases f <;> simp_all [ScaleOk]
      obtain ⟨s, rfl, hs⟩ := hok
      simpa using hs
    simp only [Sight.new, h1, h2]
    norm_num [not_le.mpr p1, not_le.mpr p2]

/-! non-vacuity: SFP sight, 0.25 mil horizontal and 0.25 MOA vertical clicks, calibrated at 100 m -/
example : (⟨.SFP, 3937, 0.000245, 0.0000727⟩ : Sight ℝ).adjustment 7874 0.001 0 10
    = (0.001 / (0.0000727 * (3937 / 7874) * 10), 0 / (0.000245 * (3937 / 7874) * 10)) := by
  rw [C19_clicks]; rfl

end BC.Props.C19
