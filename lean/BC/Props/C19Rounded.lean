/-
  BC.Props.C19 (rounded interpretation) — the click counts under the standard model of floating-point arithmetic.  `Sight.adjustment`
  (tied to `Sight.get_adjustment` by `C19_src_adjustment_*`) is read over `RR R` (BC/Rounded.lean: every operation followed by an
  arbitrary rounding of relative error `u`).  For a second-focal-plane sight the effective click is the product chain
  `click · calibration / target · magnification` (three roundings) and the click count one more division: the computed count is the
  exact count `correction / (click · calibration / target · magnification)` times `(1 + δ)/p` with `|p − 1| ≤ (1+u)³ − 1`, hence within
  `(1+u)/(2 − (1+u)³) − 1  (≈ 4u)` of it — relative error of a few ulps, for every sight and every correction.
-/
import BC.Props.C06Rounded
import BC.Model.Sight
namespace BC.Props.C19
open BC BC.Model BC.Props.C06

variable {R : Rounding}

/-- division by a quantity known up to `n` roundings, followed by one rounding -/
theorem near_quot {n : Nat} {x y : ℝ} (h : Near R n x y) (hA : (1 + R.u) ^ n - 1 < 1) (a : ℝ) (hx : x ≠ 0) :
    |R.rnd (a / y) - a / x| ≤ ((1 + R.u) / (2 - (1 + R.u) ^ n) - 1) * |a / x| := by
  obtain ⟨p, hy, hp⟩ := h
  set A := (1 + R.u) ^ n - 1 with hAdef
  have hA0 : 0 ≤ A := le_trans (abs_nonneg _) hp
  have hp_pos : 0 < p := by
    have := abs_le.mp hp
    linarith
  have hp_lo : 1 - A ≤ p := by have := abs_le.mp hp; linarith
  obtain ⟨δ, hδ, hr⟩ := R.rel (a / y)
  have hpne : p ≠ 0 := ne_of_gt hp_pos
  have e1 : R.rnd (a / y) = (a / x) * ((1 + δ) / p) := by
    rw [hr, hy]; field_simp
  have hden : 2 - (1 + R.u) ^ n = 1 - A := by rw [hAdef]; ring
  have h1A : 0 < 1 - A := by linarith
  -- |(1+δ)/p - 1| ≤ (1+u)/(1-A) - 1
  have hq : |(1 + δ) / p - 1| ≤ (1 + R.u) / (1 - A) - 1 := by
    have hδ' := abs_le.mp hδ
    have hp' := abs_le.mp hp
    rw [abs_le]
    constructor
    · -- lower: (1+δ)/p ≥ (1-u)/(1+A) ≥ 2 - (1+u)/(1-A)
      have hlow : (1 - R.u) / (1 + A) ≤ (1 + δ) / p := by
        rw [div_le_div_iff₀ (by linarith) hp_pos]
        nlinarith [R.u_nonneg, R.u_lt_one]
      have hsum : (1 - R.u) / (1 + A) + (1 + R.u) / (1 - A) = (2 + 2 * R.u * A) / ((1 + A) * (1 - A)) := by
        have h1 : (1 + A) ≠ 0 := by linarith
        have h2 : (1 - A) ≠ 0 := by linarith
        field_simp
        ring
      have hge : 2 ≤ (2 + 2 * R.u * A) / ((1 + A) * (1 - A)) := by
        rw [le_div_iff₀ (by nlinarith)]
        nlinarith [R.u_nonneg, mul_nonneg hA0 R.u_nonneg, mul_nonneg hA0 hA0]
      linarith
    · have hup : (1 + δ) / p ≤ (1 + R.u) / (1 - A) := by
        rw [div_le_div_iff₀ hp_pos h1A]
        nlinarith [R.u_nonneg]
      linarith
  rw [e1, hden]
  have : (a / x) * ((1 + δ) / p) - a / x = (a / x) * ((1 + δ) / p - 1) := by ring
  rw [this, abs_mul, mul_comm]
  exact mul_le_mul_of_nonneg_right hq (abs_nonneg _)

/-- **C19_clicks_rounded** (second focal plane, elevation; windage is the same statement with `hClick`): with any rounding of relative
    error `u` (`(1+u)³ < 2`) the computed click count is within `(1+u)/(2 − (1+u)³) − 1` (≈ 4u) of
    `correction / (click · calibration / target · magnification)`. -/
theorem C19_clicks_rounded (R : Rounding) (hu : (1 + R.u) ^ 3 - 1 < 1) (s : Sight (RR R)) (hfp : s.fp = .SFP)
    (td drop wind mag : RR R)
    (hne : s.vClick.val * s.scale.val / td.val * mag.val ≠ 0) :
    |(s.adjustment td drop wind mag).1.val - drop.val / (s.vClick.val * s.scale.val / td.val * mag.val)| ≤
      ((1 + R.u) / (2 - (1 + R.u) ^ 3) - 1) * |drop.val / (s.vClick.val * s.scale.val / td.val * mag.val)| := by
  have hsteps : Near R 3 (s.vClick.val * s.scale.val / td.val * mag.val) (s.vClick * s.scale / td * mag).val :=
    near_mul (near_div (near_mul (near_zero (R := R) s.vClick.val) s.scale.val) td.val) mag.val
  have := near_quot hsteps hu drop.val hne
  unfold Sight.adjustment Sight.steps
  rw [hfp]
  exact this

end BC.Props.C19
