/-
  BC.Props.C19 (source ties) — `Sight.get_adjustment` (with `_adjust_sfp_reticle_steps` and its nested `get_sfp_step` inlined),
  executed symbolically for each focal plane by translate/t_funcs.py, is the model's click law.  Core-only.
-/
import BC.Gen.Funcs
import BC.Model.Sight
namespace BC.Props.C19
open BC BC.Gen BC.Model
set_option linter.unusedSectionVars false

section
variable {α : Type} [Add α] [Sub α] [Mul α] [Div α] [Neg α] [OfScientific α]
  [LT α] [DecidableLT α] [LE α] [DecidableLE α] [Fn α]

theorem C19_src_adjustment_SFP (s : Sight α) (td drop wind mag : α) (h : s.fp = .SFP) :
    Src.sight_adjustment_SFP s td drop wind mag = s.adjustment td drop wind mag := by
  unfold Sight.adjustment Sight.steps; rw [h]; rfl
theorem C19_src_adjustment_FFP (s : Sight α) (td drop wind mag : α) (h : s.fp = .FFP) :
    Src.sight_adjustment_FFP s td drop wind mag = s.adjustment td drop wind mag := by
  unfold Sight.adjustment Sight.steps; rw [h]; rfl
theorem C19_src_adjustment_LWIR (s : Sight α) (td drop wind mag : α) (h : s.fp = .LWIR) :
    Src.sight_adjustment_LWIR s td drop wind mag = s.adjustment td drop wind mag := by
  unfold Sight.adjustment Sight.steps; rw [h]; rfl

end
end BC.Props.C19
