/-
  C20 — trajectory look-ups return the first row satisfying the query.
  Subject: BC.Model.Lookup (hand-written model of helpers.py bisect-based look-ups and
  HitResult.index_at_distance).
-/
import Mathlib.Tactic.Ring
import Mathlib.Tactic.Linarith
import Mathlib.Tactic.NormNum
import BC.Real
import BC.Model.Lookup
import BC.Lemmas.Lookup

namespace BC.Props.C20
open BC BC.Model BC.Lemmas.Lookup

/-- non-decreasing key on `[0, n)` -/
def NonDecr (n : Nat) (k : Nat → ℝ) : Prop := ∀ i j, i ≤ j → j < n → k i ≤ k j

/-- **C20_scan_spec** (full): the sequential scan returns the first index satisfying the condition, or −1. -/
theorem C20_scan_spec (cond : Nat → Bool) (n : Nat) :
    (scanFirst cond n 0 = -1 ↔ ∀ i, i < n → cond i = false) ∧
    (∀ k : Nat, scanFirst cond n 0 = (k : Int) ↔ k < n ∧ cond k = true ∧ ∀ i, i < k → cond i = false) := by
  obtain ⟨s1, s2⟩ := scanFirst_spec cond n 0
  refine ⟨?_, ?_⟩
  · rw [s1]
    constructor
    · intro h i hi; exact h i (Nat.zero_le _) (by omega)
    · intro h i _ hi; exact h i (by omega)
  · intro k
    rw [s2 k]
    constructor
    · rintro ⟨_, h2, h3, h4⟩
      exact ⟨by omega, h3, fun i hi => h4 i (Nat.zero_le _) hi⟩
    · rintro ⟨h2, h3, h4⟩
      exact ⟨Nat.zero_le _, by omega, h3, fun i _ hi => h4 i hi⟩

/-- **C20_bisect_first_true** (full): for a condition that is monotone along the rows (false…true),
    the bisect-based search returns exactly what the sequential scan returns — any length incl. 0 and 1. -/
theorem C20_bisect_first_true (cond : Nat → Bool) (n : Nat)
    (hmono : ∀ i j, i ≤ j → j < n → cond i = true → cond j = true) :
    bisectCond n cond = scanFirst cond n 0 :=
  bisectCond_eq_scan cond n hmono

/-- **C20_distance** (full): bisect look-up by distance = linear scan `index_at_distance`, for
    non-decreasing distances (repeated values allowed). -/
theorem C20_distance (n : Nat) (dist : Nat → ℝ) (h : NonDecr n dist) (d : ℝ) :
    findIndexForDistance n dist d = indexAtDistance n dist d := by
  unfold findIndexForDistance indexAtDistance
  apply bisectCond_eq_scan
  intro i j hij hj hi
  rw [decide_eq_true_eq] at hi ⊢
  exact le_trans hi (h i j hij hj)

/-- **C20_time_strict** (full): look-up by time (strict variant) = sequential scan for `time ≥ t`. -/
theorem C20_time_strict (n : Nat) (time : Nat → ℝ) (h : NonDecr n time) (t : ℝ) :
    findIndexForTimeStrict n time t = scanFirst (fun i => decide (t ≤ time i)) n 0 := by
  have h00 : (0.0 : ℝ) = 0 := by norm_num
  have hfun : (fun i => decide ((0.0 : ℝ) ≤ time i - t)) = (fun i => decide (t ≤ time i)) := by
    funext i
    rw [h00]
    simp only [sub_nonneg]
  unfold findIndexForTimeStrict
  rw [hfun]
  apply bisectCond_eq_scan
  intro i j hij hj hi
  rw [decide_eq_true_eq] at hi ⊢
  exact le_trans hi (h i j hij hj)

/-- **C20_nearest** (full): the nearest-time variant returns a row minimising `|time − t|`, the
    earliest such row; −1 on an empty trajectory. -/
theorem C20_nearest (n : Nat) (time : Nat → ℝ) (h : NonDecr n time) (t : ℝ) :
    (n = 0 → nearestIndex n time t = -1) ∧
    (0 < n → ∃ k : Nat, nearestIndex n time t = (k : Int) ∧ k < n ∧
      (∀ i, i < n → |time k - t| ≤ |time i - t|) ∧
      (∀ i, i < k → |time k - t| < |time i - t|)) := by
  refine ⟨?_, ?_⟩
  · intro h0; simp [nearestIndex, h0]
  · intro hn; exact nearestIndex_spec n time h t hn

/-- **C20_nearest_deviation** (full): the allowed deviation only turns the answer into −1. -/
theorem C20_nearest_deviation (n : Nat) (time : Nat → ℝ) (t dev : ℝ) :
    findIndexForTimeNearest n time t dev = nearestIndex n time t ∨
    findIndexForTimeNearest n time t dev = -1 := by
  unfold findIndexForTimeNearest
  simp only
  split_ifs
  · right; rfl
  · left; rfl
  · right; rfl

/-- **C20_nearest_deviation_iff** (full) -/
theorem C20_nearest_deviation_iff (n : Nat) (time : Nat → ℝ) (t dev : ℝ) (k : Nat)
    (hk : nearestIndex n time t = (k : Int)) :
    findIndexForTimeNearest n time t dev = (if |time k - t| ≤ dev then (k : Int) else -1) := by
  unfold findIndexForTimeNearest
  simp only [hk, fn_abs, Int.toNat_natCast]
  have hnot : ¬ ((k : Int) < 0) := by omega
  rw [if_neg hnot]

/-- **C20_apex** (full): for a single-peaked height column (strictly increasing up to `p`,
    non-increasing after) the apex helper returns `p`; −1 for an empty list. -/
theorem C20_apex (n : Nat) (hgt : Nat → ℝ) :
    (n = 0 → apexIndex n hgt = -1) ∧
    (∀ p, p < n → (∀ i, i < p → hgt i < hgt (i + 1)) → (∀ i, p ≤ i → i + 1 < n → hgt (i + 1) ≤ hgt i) →
      apexIndex n hgt = (p : Int)) := by
  refine ⟨?_, ?_⟩
  · intro h0; simp [apexIndex, h0]
  · intro p hp hinc hdec
    have hn : n ≠ 0 := by omega
    unfold apexIndex
    rw [if_neg hn]
    rw [apexLoop_spec n hgt p hinc hdec n 0 (n - 1) (by omega) (Nat.zero_le _) (by omega) (by omega)]

/-! non-vacuity: a trajectory with repeated time values -/
example : NonDecr 4 (fun i => if i = 0 then 0 else if i ≤ 2 then 1 else 2) := by
  intro i j hij hj
  have : j = 0 ∨ j = 1 ∨ j = 2 ∨ j = 3 := by omega
  rcases this with rfl | rfl | rfl | rfl
  · have : i = 0 := by omega
    subst this; norm_num
  · have : i = 0 ∨ i = 1 := by omega
    rcases this with rfl | rfl <;> norm_num
  · have : i = 0 ∨ i = 1 ∨ i = 2 := by omega
    rcases this with rfl | rfl | rfl <;> norm_num
  · have : i = 0 ∨ i = 1 ∨ i = 2 ∨ i = 3 := by omega
    rcases this with rfl | rfl | rfl | rfl <;> norm_num

end BC.Props.C20
