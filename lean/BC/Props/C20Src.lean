/-
  BC.Props.C20 (source ties) — helpers.py: the apex bisection (bracket, loop condition, rising test, both moves), the monotone
  conditions the distance and strict-time look-ups bisect for, the key, the neighbour comparison and the deviation test of the
  nearest-time look-up, executed symbolically from the Python source on every run (translate/t_funcs.py), are the pieces of the
  model's `apexLoop / apexIndex / findIndexForDistance / findIndexForTimeStrict / nearestIndex / findIndexForTimeNearest`.
  `bisect.bisect_left` itself is library code (modelled from CPython's `bisect.py`, DESIGN.md section 3).  Core-only.
-/
import BC.Gen.Funcs
import BC.Model.Lookup
namespace BC.Props.C20
open BC BC.Gen BC.Model
set_option linter.unusedSectionVars false

section
variable {α : Type} [Add α] [Sub α] [Mul α] [Div α] [Neg α] [OfScientific α]
  [LT α] [DecidableLT α] [LE α] [DecidableLE α] [Fn α]

theorem C20_src_apex_loop (h : Nat → α) (fuel l r : Nat) :
    apexLoop h (fuel + 1) l r =
      if Src.apex_cond l r then
        if Src.apex_rising h l r then apexLoop h fuel (Src.apex_move_right l r).1 (Src.apex_move_right l r).2
        else apexLoop h fuel (Src.apex_move_left l r).1 (Src.apex_move_left l r).2
      else l := by
  conv => lhs; unfold apexLoop
  rfl

theorem C20_src_apex_index (n : Nat) (h : Nat → α) :
    apexIndex n h = if n = 0 then (-1 : Int) else ((apexLoop h n (Src.apex_init n).1 (Src.apex_init n).2 : Nat) : Int) := rfl

theorem C20_src_distance_cond (n : Nat) (dist : Nat → α) (d : α) :
    findIndexForDistance n dist d = bisectCond n (fun i => decide (Src.lookup_distance_cond (dist i) d)) := rfl

theorem C20_src_time_cond (n : Nat) (time : Nat → α) (t : α) :
    findIndexForTimeStrict n time t = bisectCond n (fun i => decide (Src.lookup_time_cond (time i) t)) := rfl

/-- nearest-time look-up: key, neighbour comparison (ties go to the earlier row) -/
theorem C20_src_nearest (n : Nat) (time : Nat → α) (t : α) :
    nearestIndex n time t =
      (if n = 0 then (-1 : Int) else
       let pos := bisectLeft (fun i => decide (Src.lookup_time_key (time i) < t)) n 0 n
       if pos = 0 then (0 : Int) else
       let best := if pos = n then n - 1 else if Src.lookup_before_is_nearer time (pos - 1) pos t then pos - 1 else pos
       ((bisectLeft (fun i => decide (Src.lookup_time_key (time i) < Src.lookup_time_key (time best))) n 0 n : Nat) : Int)) := rfl

theorem C20_src_deviation (n : Nat) (time : Nat → α) (t dev : α) :
    findIndexForTimeNearest n time t dev =
      (let i := nearestIndex n time t
       if i < 0 then -1 else if Src.lookup_within_deviation time i.toNat t dev then i else -1) := rfl

end
end BC.Props.C20
