/-
  BC.Real — interpretation R: the same generic model read over ℝ.
  `Fn ℝ` maps every primitive to Mathlib's real function; the `@[simp]` lemmas
  below unfold the class projections so that `simp`/`norm_num`/`ring` see plain
  Mathlib terms.
-/
import Mathlib.Analysis.SpecialFunctions.Pow.Real
import Mathlib.Analysis.SpecialFunctions.Trigonometric.Arctan
import Mathlib.Analysis.SpecialFunctions.Complex.Arg
import Mathlib.Analysis.SpecialFunctions.Sqrt
import BC.Num

namespace BC

noncomputable instance instFnReal : Fn ℝ where
  sqrt := Real.sqrt
  pow := fun x y => x ^ y
  exp := Real.exp
  sin := Real.sin
  cos := Real.cos
  tan := Real.tan
  atan := Real.arctan
  atan2 := fun y x => Complex.arg ⟨x, y⟩
  abs := fun x => |x|
  pymod := fun x y => x - y * ⌊x / y⌋
  pi := Real.pi

@[simp] theorem fn_sqrt (x : ℝ) : Fn.sqrt x = Real.sqrt x := rfl
@[simp] theorem fn_pow (x y : ℝ) : Fn.pow x y = x ^ y := rfl
@[simp] theorem fn_exp (x : ℝ) : Fn.exp x = Real.exp x := rfl
@[simp] theorem fn_sin (x : ℝ) : Fn.sin x = Real.sin x := rfl
@[simp] theorem fn_cos (x : ℝ) : Fn.cos x = Real.cos x := rfl
@[simp] theorem fn_tan (x : ℝ) : Fn.tan x = Real.tan x := rfl
@[simp] theorem fn_atan (x : ℝ) : Fn.atan x = Real.arctan x := rfl
@[simp] theorem fn_atan2 (y x : ℝ) : Fn.atan2 y x = Complex.arg ⟨x, y⟩ := rfl
@[simp] theorem fn_abs (x : ℝ) : Fn.abs x = |x| := rfl
@[simp] theorem fn_pymod (x y : ℝ) : Fn.pymod x y = x - y * ⌊x / y⌋ := rfl
@[simp] theorem fn_pi : (Fn.pi : ℝ) = Real.pi := rfl

end BC
