/-
  BC.Ref.SI — hand-written reference: the size of each unit in the SI unit of
  its dimension, from the defining documents (international yard and pound 1959,
  grain = 64.79891 mg, nautical mile = 1852 m, standard gravity 9.80665 m/s²,
  conventional millimetre / inch of mercury 133.322387415 Pa / 3386.389 Pa, ...).
  Independent of the repository; used by C06 as the specification.
-/
import Mathlib.Analysis.SpecialFunctions.Trigonometric.Basic
import BC.Gen.Units

namespace BC.Ref
open BC.Gen

/-- standard gravity, m/s² (CGPM 1901) -/
def g0 : ℝ := 9.80665
/-- international avoirdupois pound, kg -/
def lbKg : ℝ := 0.45359237
/-- inch, m -/
def inchM : ℝ := 0.0254

/-- Size of one unit in the SI unit of its dimension (m, J, Pa, m/s, kg, rad).
    Temperature scales and the two tangent-defined angular units are not
    multiplicative; they are specified separately (`tempToK`, `tanUnit`). -/
noncomputable def SI : U → ℝ
  | .Radian => 1
  | .Degree => Real.pi / 180
  | .MOA => Real.pi / 180 / 60
  | .Mil => 2 * Real.pi / 6400
  | .MRad => 1 / 1000
  | .Thousandth => 2 * Real.pi / 6000
  | .InchesPer100Yd => 0
  | .CmPer100m => 0
  | .OClock => 2 * Real.pi / 12
  | .Inch => inchM
  | .Foot => 12 * inchM
  | .Yard => 36 * inchM
  | .Mile => 63360 * inchM
  | .NauticalMile => 1852
  | .Millimeter => 1 / 1000
  | .Centimeter => 1 / 100
  | .Meter => 1
  | .Kilometer => 1000
  | .Line => inchM / 10
  | .FootPound => lbKg * g0 * (12 * inchM)
  | .Joule => 1
  | .MmHg => 133.322387415
  | .InHg => 133.322387415 * 25.4
  | .Bar => 100000
  | .hPa => 100
  | .PSI => lbKg * g0 / (inchM * inchM)
  | .Fahrenheit => 0
  | .Celsius => 0
  | .Kelvin => 0
  | .Rankin => 0
  | .MPS => 1
  | .KMH => 1000 / 3600
  | .FPS => 12 * inchM
  | .MPH => 63360 * inchM / 3600
  | .KT => 1852 / 3600
  | .Grain => 0.00006479891
  | .Ounce => lbKg / 16
  | .Gram => 1 / 1000
  | .Pound => lbKg
  | .Kilogram => 1
  | .Newton => 1 / g0

/-- temperature scale → kelvin (exact affine definitions) -/
noncomputable def tempToK : U → ℝ → ℝ
  | .Kelvin, x => x
  | .Celsius, x => x + 273.15
  | .Fahrenheit, x => (x + 459.67) * 5 / 9
  | .Rankin, x => x * 5 / 9
  | _, x => x

/-- `tan` of the angle that one unit of a tangent-defined angular unit subtends -/
noncomputable def tanUnit : U → ℝ
  | .InchesPer100Yd => 1 / 3600
  | .CmPer100m => 1 / 10000
  | _ => 0

end BC.Ref
