/-
  BC.Rounded — interpretation E: the same generic model read over the reals WITH ROUNDING.
  A `Rounding` is any function `rnd : ℝ → ℝ` with relative error at most `u < 1` (the standard model of floating-point arithmetic:
  every operation returns the exact result times `1 + δ`, `|δ| ≤ u`; binary64 round-to-nearest without overflow/underflow has
  `u = 2⁻⁵³`).  In `RR R` every arithmetic operation, every decimal literal and every elementary function is followed by `R.rnd`.
  Theorems over `RR R` are universally quantified over `R`, hence hold for binary64 wherever no overflow/underflow occurs.
-/
import Mathlib.Tactic.Ring
import Mathlib.Tactic.Linarith
import Mathlib.Tactic.FieldSimp
import Mathlib.Tactic.Positivity
import BC.Real

namespace BC

structure Rounding where
  rnd : ℝ → ℝ
  u : ℝ
  u_nonneg : 0 ≤ u
  u_lt_one : u < 1
  err : ∀ x, |rnd x - x| ≤ u * |x|

/-- the reals, with every operation rounded by `R` -/
def RR (_R : Rounding) : Type := ℝ

namespace RR
variable {R : Rounding}

def mk (x : ℝ) : RR R := x
def val (x : RR R) : ℝ := x

noncomputable instance : Add (RR R) := ⟨fun a b => mk (R.rnd (a.val + b.val))⟩
noncomputable instance : Sub (RR R) := ⟨fun a b => mk (R.rnd (a.val - b.val))⟩
noncomputable instance : Mul (RR R) := ⟨fun a b => mk (R.rnd (a.val * b.val))⟩
noncomputable instance : Div (RR R) := ⟨fun a b => mk (R.rnd (a.val / b.val))⟩
noncomputable instance : Neg (RR R) := ⟨fun a => mk (-a.val)⟩          -- negation is exact
noncomputable instance : OfScientific (RR R) := ⟨fun m s e => mk (R.rnd (OfScientific.ofScientific m s e : ℝ))⟩
instance : LT (RR R) := ⟨fun a b => a.val < b.val⟩
instance : LE (RR R) := ⟨fun a b => a.val ≤ b.val⟩
noncomputable instance : DecidableLT (RR R) := fun a b => Classical.propDecidable (a.val < b.val)
noncomputable instance : DecidableLE (RR R) := fun a b => Classical.propDecidable (a.val ≤ b.val)
noncomputable instance : Fn (RR R) where
  sqrt := fun x => mk (R.rnd (Real.sqrt x.val))
  pow := fun x y => mk (R.rnd (x.val ^ y.val))
  exp := fun x => mk (R.rnd (Real.exp x.val))
  sin := fun x => mk (R.rnd (Real.sin x.val))
  cos := fun x => mk (R.rnd (Real.cos x.val))
  tan := fun x => mk (R.rnd (Real.tan x.val))
  atan := fun x => mk (R.rnd (Real.arctan x.val))
  atan2 := fun y x => mk (R.rnd (Complex.arg ⟨x.val, y.val⟩))
  abs := fun x => mk |x.val|
  pymod := fun x y => mk (R.rnd (x.val - y.val * ⌊x.val / y.val⌋))
  pi := mk (R.rnd Real.pi)

theorem mul_val (a b : RR R) : (a * b).val = R.rnd (a.val * b.val) := rfl
theorem div_val (a b : RR R) : (a / b).val = R.rnd (a.val / b.val) := rfl
theorem lit_val (m : Nat) (s : Bool) (e : Nat) :
    (OfScientific.ofScientific m s e : RR R).val = R.rnd (OfScientific.ofScientific m s e : ℝ) := rfl

end RR

namespace Rounding
variable (R : Rounding)

/-- every rounded value is the exact one times `1 + δ` with `|δ| ≤ u` -/
theorem rel (a : ℝ) : ∃ δ, |δ| ≤ R.u ∧ R.rnd a = a * (1 + δ) := by
  by_cases h : a = 0
  · refine ⟨0, by simpa using R.u_nonneg, ?_⟩
    have := R.err 0
    simp only [abs_zero, mul_zero, sub_zero] at this
    have h0 : R.rnd 0 = 0 := abs_nonpos_iff.mp this
    simp [h, h0]
  · refine ⟨(R.rnd a - a) / a, ?_, by field_simp; ring⟩
    rw [abs_div]
    have ha : 0 < |a| := abs_pos.mpr h
    rw [div_le_iff₀ ha]
    exact R.err a

/-- a non-zero number does not round to zero -/
theorem rnd_ne_zero {a : ℝ} (h : a ≠ 0) : R.rnd a ≠ 0 := by
  intro h0
  have := R.err a
  rw [h0, zero_sub, abs_neg] at this
  have ha : 0 < |a| := abs_pos.mpr h
  nlinarith [R.u_lt_one]

end Rounding

/-- `|p - 1| ≤ A`, `|q - 1| ≤ B`  ⟹  `|p q - 1| ≤ (1 + A)(1 + B) - 1` -/
theorem rel_comp {p q A B : ℝ} (hp : |p - 1| ≤ A) (hq : |q - 1| ≤ B) : |p * q - 1| ≤ (1 + A) * (1 + B) - 1 := by
  have hA : 0 ≤ A := le_trans (abs_nonneg _) hp
  have hB : 0 ≤ B := le_trans (abs_nonneg _) hq
  have : p * q - 1 = (p - 1) * (q - 1) + (p - 1) + (q - 1) := by ring
  rw [this]
  calc |(p - 1) * (q - 1) + (p - 1) + (q - 1)|
      ≤ |(p - 1) * (q - 1)| + |p - 1| + |q - 1| := abs_add_three _ _ _
    _ = |p - 1| * |q - 1| + |p - 1| + |q - 1| := by rw [abs_mul]
    _ ≤ A * B + A + B := by
        have := mul_le_mul hp hq (abs_nonneg _) hA
        linarith
    _ = (1 + A) * (1 + B) - 1 := by ring

end BC
