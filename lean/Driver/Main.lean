/-
  Driver.Main — line protocol over interpretation F (`α := Float`).

  One operation per input line, one answer line per operation.  Floats cross the
  boundary as the decimal value of their 64-bit pattern; float answers are written
  `f<bits>`.  Nothing the real code rejects is defaulted: malformed or rejected
  operations answer `err:<kind>`.
-/
import Driver.Ops
import Driver.TrajOps
import Driver.MiscOps

open BC Driver

def allOps : List (String × P String) := Driver.table ++ Driver.trajTable ++ Driver.miscTable

def dispatch (op : String) (args : List String) : String :=
  match allOps.find? (·.1 == op) with
  | some (_, p) => runP p args
  | none => "err:badop"

partial def loop (h : IO.FS.Stream) (out : IO.FS.Stream) : IO Unit := do
  let line ← h.getLine
  if line.isEmpty then return ()
  let toks := (line.trimAscii.toString.splitOn " ").filter (· ≠ "")
  let ans := match toks with
    | [] => "err:empty"
    | op :: args => dispatch op args
  out.putStrLn ans
  loop h out

def main : IO Unit := do
  let out ← IO.getStdout
  loop (← IO.getStdin) out
  out.flush
