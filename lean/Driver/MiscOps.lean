/-
  Driver.MiscOps — line-protocol operations for parsing and configuration (C18) and coercion (C07).
  Strings travel hex-encoded (UTF-8 bytes).
-/
import Driver.Ops
import Driver.TrajOps
import BC.Model.Parse
import BC.Model.Config

namespace Driver
open BC BC.Gen BC.Model

def hexVal (c : Char) : Option Nat :=
  if '0' ≤ c ∧ c ≤ '9' then some (c.toNat - '0'.toNat)
  else if 'a' ≤ c ∧ c ≤ 'f' then some (c.toNat - 'a'.toNat + 10)
  else none

def unhex (s : String) : Option String :=
  let rec go : List Char → ByteArray → Option ByteArray
    | [], acc => some acc
    | a :: b :: rest, acc =>
      match hexVal a, hexVal b with
      | some x, some y => go rest (acc.push (UInt8.ofNat (x * 16 + y)))
      | _, _ => none
    | _, _ => none
  if s == "-" then some "" else
  match go s.toList ByteArray.empty with
  | some bytes => String.fromUTF8? bytes
  | none => none

def hexOf (s : String) : String :=
  if s.isEmpty then "-" else
  let digits := "0123456789abcdef".toList.toArray
  String.ofList (s.toUTF8.toList.flatMap fun b => [digits[(b.toNat / 16)]!, digits[(b.toNat % 16)]!])

def pStr : P String := do
  match unhex (← tok) with
  | some s => pure s
  | none => failure

/-- the 15 preferred-unit slots, as unit codes in declaration order -/
def pPrefs : P Prefs := do
  let rec go : List (String × U) → List (String × U) → P Prefs
    | [], acc => pure acc.reverse
    | (name, _) :: rest, acc => do let u ← pUnit; go rest ((name, u) :: acc)
  go prefFields []

def outPrefs (p : Prefs) : String := " ".intercalate (p.map fun e => toString e.2.code)

def opParseUnit : P String := do
  let p ← pPrefs; let s ← pStr
  pure (match parseUnit p s with
    | some u => s!"ok {u.code}"
    | none => "none")

def opParseValue : P String := do
  let p ← pPrefs; let s ← pStr
  pure (match parseValueStr p s with
    | .number t => "num " ++ hexOf t
    | .withUnit t u => s!"unit {u.code} " ++ hexOf t
    | .errAlias => "err:alias"
    | .errParse => "err:parse")

def opSetPref : P String := do
  let p ← pPrefs; let slot ← pStr; let v ← pStr
  pure (outPrefs (setPrefStr p slot v))

def pOptNat : P (Option Nat) := do
  let t ← tok
  if t == "-" then pure none else
  match t.toNat? with
  | some n => pure (some n)
  | none => failure

def pOverrides : P (Overrides Float) := do
  let a ← pOptF; let b ← pOptF; let c ← pOptF; let d ← pOptF; let e ← pOptF; let n ← pOptNat; let g ← pOptF; let h ← pOptF
  pure ⟨a, b, c, d, e, n, g, h⟩

def pWOp : P (WOp Float) := do
  match (← tok) with
  | "s" => do pure (.setStep (← pF))
  | "r" => pure .reset
  | "n" => do pure (.newCalc (← pOverrides))
  | _ => failure

def outConfig (c : Config Float) : String :=
  outFs [c.maxCalcStep, c.chartResolution, c.zeroAccuracy, c.minVelocity, c.maxDrop] ++ s!" {c.maxIterations} " ++
  outFs [c.gravity, c.minAltitude]

/-- `cfgops`: a history of set / reset / create operations from the initial world → per-op outcome, the final
    global step and every calculator's configuration -/
def opCfgOps : P String := do
  let ops ← pList pWOp
  let rec go : World Float → List (WOp Float) → List String → World Float × List String
    | w, [], acc => (w, acc.reverse)
    | w, op :: rest, acc =>
      let (w', o) := wstep w op
      go w' rest ((match o with | .ok => "ok" | .valueError => "err:value") :: acc)
  let (w, outs) := go World.init ops []
  pure (" ".intercalate outs ++ " | " ++ outF w.globalStep ++ " | " ++ " ; ".intercalate (w.calcs.map outConfig))

def miscTable : List (String × P String) := [
  ("parse_unit", opParseUnit), ("parse_value", opParseValue), ("setpref", opSetPref), ("cfgops", opCfgOps)]

end Driver
