/-
  Driver.Ops — the operations of the line protocol (interpretation F of the model).
  Inputs: floats as decimal u64 bit patterns, naturals, `-` for an absent optional.
  Outputs: `f<bits>` for floats, plain integers, `T`/`F`, small error enums `err:<kind>`.
-/
import BC.Num
import BC.Gen.Units
import BC.Gen.Tables
import BC.Model.Drag
import BC.Model.Conv
import BC.Model.Ammo
import BC.Model.Sight
import BC.Model.Quantity
import BC.Model.Lookup
import BC.Model.Danger
import BC.Model.MultiBC

namespace Driver
open BC BC.Gen BC.Model

/-! ### token parser -/

abbrev P := StateT (List String) Option

def tok : P String := do
  match (← get) with
  | [] => failure
  | t :: ts => set ts; pure t

def pNat : P Nat := do
  let t ← tok
  match t.toNat? with
  | some n => pure n
  | none => failure

def pF : P Float := do pure (ofBitsNat (← pNat))

/-- optional float: `-` = absent -/
def pOptF : P (Option Float) := do
  let t ← tok
  if t == "-" then pure none else
  match t.toNat? with
  | some n => pure (some (ofBitsNat n))
  | none => failure

def pList {β : Type} (p : P β) : P (List β) := do
  let n ← pNat
  let rec go : Nat → List β → P (List β)
    | 0, acc => pure acc.reverse
    | k + 1, acc => do let x ← p; go k (x :: acc)
  go n []

def pUnit : P U := do
  let c ← pNat
  match U.all.find? (fun u => u.code == c) with
  | some u => pure u
  | none => failure

def pDim : P Dim := do
  match Dim.all[(← pNat)]? with
  | some d => pure d
  | none => failure

def pEnd : P Unit := do
  match (← get) with
  | [] => pure ()
  | _ => failure

def runP (p : P String) (args : List String) : String :=
  match (do let r ← p; pEnd; pure r).run args with
  | some (s, _) => s
  | none => "err:parse"

def outF (x : Float) : String := "f" ++ fbits x
def outFs (xs : List Float) : String := " ".intercalate (xs.map outF)
def outB (b : Bool) : String := if b then "T" else "F"
def outI (i : Int) : String := toString i

def optF : Option Float → String
  | some x => "ok " ++ outF x
  | none => "err:unitconv"

/-! ### units -/

def opToRaw : P String := do
  let d ← pDim; let u ← pUnit; let x ← pF
  pure (optF (toRaw d x u))

def opFromRaw : P String := do
  let d ← pDim; let u ← pUnit; let x ← pF
  pure (optF (fromRaw d x u))

def opConv : P String := do
  let d ← pDim; let u ← pUnit; let v ← pUnit; let x ← pF
  pure (optF ((toRaw d x u).bind fun r => fromRaw d r v))

def opUDim : P String := do
  let u ← pUnit
  pure (match U.dim u with
    | some d => "ok " ++ toString (Dim.all.findIdx (· == d))
    | none => "err:unittype")

/-! ### quantities (C13) -/

def pCmp : P Cmp := do
  match (← tok) with
  | "eq" => pure .eq | "ne" => pure .ne | "lt" => pure .lt
  | "le" => pure .le | "gt" => pure .gt | "ge" => pure .ge
  | _ => failure

def pQ : P (Q Float) := do
  let d ← pDim; let v ← pF; let u ← pUnit
  pure ⟨d, v, u⟩

def pQOp : P (QOp Float) := do
  match (← tok) with
  | "c" => do let i ← pNat; let u ← pUnit; pure (.convert i u)
  | "g" => do let i ← pNat; let u ← pUnit; pure (.getIn i u)
  | "v" => do pure (.unitValue (← pNat))
  | "r" => do pure (.rawValue (← pNat))
  | "s" => do pure (.str (← pNat))
  | "q" => do let op ← pCmp; let i ← pNat; let j ← pNat; pure (.cmpQ op i j)
  | "n" => do let op ← pCmp; let i ← pNat; let x ← pF; pure (.cmpN op i x)
  | "h" => do let i ← pNat; let j ← pNat; pure (.hash i j)
  | "u" => do pure (.units (← pNat))
  | _ => failure

def outQ : QOut Float → String
  | .num x => outF x
  | .bool b => outB b
  | .unit u => "u" ++ toString u.code
  | .ok => "ok"
  | .errUnitConv => "E"
  | .errIndex => "X"

def opQops : P String := do
  let h ← pList pQ
  let ops ← pList pQOp
  let (h', outs) := qrun h ops
  pure (" ".intercalate (outs.map outQ) ++ " | " ++
    " ".intercalate (h'.map fun q => outF q.value ++ " u" ++ toString q.units.code))

/-! ### ammunition (C17) -/

def pBool : P Bool := do
  match (← tok) with
  | "T" => pure true
  | "F" => pure false
  | _ => failure

def opAmmoV : P String := do
  let mv ← pF; let pt ← pF; let md ← pF; let use ← pBool; let t ← pF
  pure (outF (velocityForTemp ⟨mv, pt, md, use⟩ t))

def opAmmoCal : P String := do
  let mv ← pF; let pt ← pF; let v1 ← pF; let t1 ← pF
  pure (match calcPowderSens ⟨mv, pt, 0.0, false⟩ v1 t1 with
    | .ok m => "ok " ++ outF m
    | .error .value => "err:value"
    | .error .zeroDiv => "err:zerodiv")

/-! ### sight (C19) -/

def pFP : P (Option FocalPlane) := do
  match (← tok) with
  | "FFP" => pure (some .FFP) | "SFP" => pure (some .SFP) | "LWIR" => pure (some .LWIR)
  | _ => pure none

def sightErr : SightErr → String
  | .wrongFocalPlane => "err:focalplane"
  | .scaleRequired => "err:scale"
  | .clickType => "err:clicktype"
  | .clickNonPositive => "err:clickpos"

def opSightNew : P String := do
  let fp ← pFP; let sc ← pOptF; let sc1 ← pF; let h ← pOptF; let v ← pOptF
  pure (match Sight.new fp sc sc1 h v with
    | .ok s => "ok " ++ outFs [s.scale, s.hClick, s.vClick]
    | .error e => sightErr e)

def opSightAdj : P String := do
  let fp ← pFP; let sc ← pF; let h ← pF; let v ← pF
  let td ← pF; let drop ← pF; let wind ← pF; let mag ← pF
  match fp with
  | none => pure "err:focalplane"
  | some fp =>
    let r := (⟨fp, sc, h, v⟩ : Sight Float).adjustment td drop wind mag
    pure (outFs [r.1, r.2])

/-! ### look-ups (C20) and danger space (C16) -/

def arrFn (a : Array Float) : Nat → Float := fun i => a.getD i 0.0

def opLkDist : P String := do
  let d ← pF; let xs ← pList pF
  let a := xs.toArray
  pure (outI (findIndexForDistance a.size (arrFn a) d) ++ " " ++ outI (indexAtDistance a.size (arrFn a) d))

def opLkTStrict : P String := do
  let t ← pF; let xs ← pList pF
  let a := xs.toArray
  pure (outI (findIndexForTimeStrict a.size (arrFn a) t))

def opLkTNear : P String := do
  let t ← pF; let dev ← pF; let xs ← pList pF
  let a := xs.toArray
  pure (outI (findIndexForTimeNearest a.size (arrFn a) t dev))

def opLkApex : P String := do
  let xs ← pList pF
  let a := xs.toArray
  pure (outI (apexIndex a.size (arrFn a)))

def opDanger : P String := do
  let atR ← pF; let hgt ← pF
  let rows ← pList (do let d ← pF; let p ← pF; pure (d, p))
  let a := rows.toArray
  pure (match dangerSpace a.size (fun i => (a.getD i (0.0, 0.0)).1) (fun i => (a.getD i (0.0, 0.0)).2) atR hgt with
    | some r => s!"ok {r.at_} {r.begin_} {r.end_}"
    | none => "err:arith")

/-! ### multi-BC (C14) -/

def pPair : P (Float × Float) := do let a ← pF; let b ← pF; pure (a, b)

def opInterp : P String := do
  let xi ← pF
  let pts ← pList pPair
  let a := pts.toArray
  pure (outF (linInterp a.size (fun i => (a.getD i (0.0, 0.0)).1) (fun i => (a.getD i (0.0, 0.0)).2) xi))

def opBCPoint : P String := do
  let bc ← pF; let m ← pOptF; let v ← pOptF
  pure (match bcPoint bc m v with
    | .ok (b, m) => "ok " ++ outFs [b, m]
    | .error .bcNonPositive => "err:bc"
    | .error .bothGiven => "err:both"
    | .error .noneGiven => "err:none")

def opMbc : P String := do
  let bc ← pF
  let pts ← pList pPair      -- (BC, Mach)
  let table ← pList pPair    -- (Mach, CD)
  pure (outFs ((multiBCTable pts table bc).map (·.2)))

def opSecDens : P String := do
  let w ← pF; let d ← pF
  pure (outF (sectionalDensity w d))

/-! ### drag curve (C09) -/

def opCd : P String := do
  let table ← pList pPair
  let qs ← pList pF
  match DragTable.build table.toArray with
  | none => pure "err:index"
  | some t => pure (outFs (qs.map t.cd))

def opCurve : P String := do
  let table ← pList pPair
  match DragTable.build table.toArray with
  | none => pure "err:index"
  | some t => pure (outFs (t.curve.toList.flatMap fun c => [c.a, c.b, c.c]))

def opDbm : P String := do
  let bc ← pF
  let table ← pList pPair
  let qs ← pList pF
  match DragTable.build table.toArray with
  | none => pure "err:index"
  | some t => pure (outFs (qs.map (t.dragByMach bc)))

def shippedTable (name : String) : Option (List (Float × Float)) :=
  match name with
  | "TableG1" => some TableG1 | "TableG7" => some TableG7 | "TableG2" => some TableG2
  | "TableG5" => some TableG5 | "TableG6" => some TableG6 | "TableG8" => some TableG8
  | "TableGI" => some TableGI | "TableGS" => some TableGS | "TableRA4" => some TableRA4
  | _ => none

/-- the regenerated table itself, as bits (validates the tables translator) -/
def opTable : P String := do
  match shippedTable (← tok) with
  | some t => pure (outFs (t.flatMap fun r => [r.1, r.2]))
  | none => pure "err:notable"

def table : List (String × P String) := [
  ("toraw", opToRaw), ("fromraw", opFromRaw), ("conv", opConv), ("udim", opUDim),
  ("qops", opQops), ("ammo_v", opAmmoV), ("ammo_cal", opAmmoCal),
  ("sight_new", opSightNew), ("sight_adj", opSightAdj),
  ("lk_dist", opLkDist), ("lk_tstrict", opLkTStrict), ("lk_tnear", opLkTNear), ("lk_apex", opLkApex),
  ("danger", opDanger), ("interp", opInterp), ("bcpoint", opBCPoint), ("mbc", opMbc), ("secdens", opSecDens),
  ("cd", opCd), ("curve", opCurve), ("dbm", opDbm), ("table", opTable)]

end Driver
