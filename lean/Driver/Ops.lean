import BC.Num
import BC.Gen.Units

namespace Driver
open BC BC.Gen

def fl (s : String) : Option Float := s.toNat?.map ofBitsNat
def outF (x : Float) : String := "f" ++ fbits x
def outFs (xs : List Float) : String := " ".intercalate (xs.map outF)

def unitOfCode (c : Nat) : Option U := U.all.find? (fun u => u.code == c)
def dimOfIdx (i : Nat) : Option Dim := Dim.all[i]?

def optF : Option Float → String
  | some x => "ok " ++ outF x
  | none => "err:unitconv"

/-- `toraw dim unit bits`, `fromraw dim unit bits`, `conv dim u v bits` -/
def opUnits (op : String) (args : List String) : String :=
  match op, args with
  | "toraw", [d, u, x] =>
    match d.toNat? >>= dimOfIdx, u.toNat? >>= unitOfCode, fl x with
    | some d, some u, some x => optF (toRaw d x u)
    | _, _, _ => "err:parse"
  | "fromraw", [d, u, x] =>
    match d.toNat? >>= dimOfIdx, u.toNat? >>= unitOfCode, fl x with
    | some d, some u, some x => optF (fromRaw d x u)
    | _, _, _ => "err:parse"
  | "conv", [d, u, v, x] =>
    match d.toNat? >>= dimOfIdx, u.toNat? >>= unitOfCode, v.toNat? >>= unitOfCode, fl x with
    | some d, some u, some v, some x => optF ((toRaw d x u).bind fun r => fromRaw d r v)
    | _, _, _, _ => "err:parse"
  | "udim", [u] =>
    match u.toNat? >>= unitOfCode with
    | some u => match U.dim u with
      | some d => "ok " ++ toString (Dim.all.findIdx (· == d))
      | none => "err:unittype"
    | none => "err:parse"
  | _, _ => "err:badop"

def dispatch (op : String) (args : List String) : String :=
  match op with
  | "toraw" | "fromraw" | "conv" | "udim" => opUnits op args
  | _ => "err:badop"

end Driver
