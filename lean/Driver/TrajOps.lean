/-
  Driver.TrajOps — line-protocol operations for the atmosphere, row and trajectory models.
-/
import Driver.Ops
import BC.Model.Atmo
import BC.Model.Row
import BC.Model.Traj

namespace Driver
open BC BC.Gen BC.Model

def pVec : P (Vec Float) := do let x ← pF; let y ← pF; let z ← pF; pure ⟨x, y, z⟩

def outAtmo (a : Atmo Float) : String :=
  outFs [a.altRaw, a.pressRaw, a.tempRaw, a.powderRaw, a.a0, a.t0, a.p0, a.mach, a.humidity, a.densityRatio]

def pAtmo : P (Atmo Float) := do
  let altRaw ← pF; let pressRaw ← pF; let tempRaw ← pF; let powderRaw ← pF
  let a0 ← pF; let t0 ← pF; let p0 ← pF; let mach ← pF; let humidity ← pF; let densityRatio ← pF
  pure ⟨altRaw, pressRaw, tempRaw, powderRaw, a0, t0, p0, mach, humidity, densityRatio⟩

def opAtmoNew : P String := do
  let alt ← pF; let p ← pOptF; let t ← pOptF; let pw ← pOptF; let h ← pF
  pure (match Atmo.new alt p t pw h with
    | .ok a => "ok " ++ outAtmo a
    | .error _ => "err:humidity")

def opVacuumNew : P String := do
  let alt ← pF; let t ← pOptF
  pure (match Vacuum.new alt t with
    | .ok a => "ok " ++ outAtmo a
    | .error _ => "err:humidity")

def opAtmoSetHum : P String := do
  let a ← pAtmo; let vac ← pBool; let h ← pF
  pure (match a.setHumidity vac h with
    | .ok b => "ok " ++ outAtmo b
    | .error _ => "err:humidity")

def opAtmoAt : P String := do
  let a ← pAtmo
  let alts ← pList pF
  pure (" ".intercalate (alts.map fun z => match a.densityMachAt z with
    | some r => outFs [r.1, r.2]
    | none => "err:domain"))

def opAtmoStd : P String := do
  let alt ← pF
  pure (outFs [standardTemperatureF alt, mkRaw .Pressure (standardPressureHPa alt) .hPa])

def opAirDensity : P String := do
  let t ← pF; let p ← pF; let h ← pF
  pure (outF (airDensity t p h))

def outRow (r : Row Float) : String :=
  outFs [r.time, r.distance, r.velocity, r.mach, r.height, r.targetDrop, r.dropAdj, r.windage, r.windageAdj,
         r.lookDistance, r.angle, r.densityFactor, r.drag, r.energy, r.ogw] ++ " " ++ toString r.flag.toNat

def outRows (rs : List (Row Float)) : String :=
  s!"rows {rs.length} " ++ " ".intercalate (rs.map outRow)

def opRow : P String := do
  let time ← pF; let r ← pVec; let v ← pVec; let velocity ← pF; let mach ← pF; let spin ← pF
  let look ← pF; let dens ← pF; let drag ← pF; let weight ← pF; let flag ← pNat
  pure (match createRow time r v velocity mach spin look dens drag weight (Flags.ofNat flag) with
    | some row => "ok " ++ outRow row
    | none => "err:zerodiv")

def opSpin : P String := do
  let twist ← pF; let len ← pF; let dia ← pF; let w ← pF; let mv ← pF; let press ← pF; let tF ← pF
  let ts ← pList pF
  let stab := stabilityCoefficient twist len dia w mv press tF
  let p : Proj Float := ⟨twist, len, dia, w, stab, 0.0⟩
  pure (outF stab ++ " " ++ outFs (ts.map (spinDrift p)))

def pConfig : P (Config Float) := do
  let a ← pF; let b ← pF; let c ← pF; let d ← pF; let e ← pF; let n ← pNat; let g ← pF; let h ← pF
  pure ⟨a, b, c, d, e, n, g, h⟩

def pAmmo : P (Ammo Float) := do
  let mv ← pF; let pt ← pF; let md ← pF; let use ← pBool
  pure ⟨mv, pt, md, use⟩

def pShot : P (ShotRaw Float × DragTable Float) := do
  let look ← pF; let rel ← pF; let cant ← pF; let zeroEl ← pF; let sh ← pF
  let twist ← pF; let len ← pF; let dia ← pF; let w ← pF; let bc ← pF
  let ammo ← pAmmo
  let atmo ← pAtmo
  let winds ← pList (do let v ← pF; let d ← pF; let u ← pF; pure (v, d, u))
  let maxWind ← pF
  let table ← pList pPair
  match DragTable.build table.toArray with
  | none => failure
  | some t => pure (⟨look, rel, cant, zeroEl, sh, twist, len, dia, w, bc, ammo, atmo, winds, maxWind⟩, t)

def reasonStr : Reason → String
  | .minVelocity => "minvel"
  | .maxDrop => "maxdrop"
  | .minAltitude => "minalt"

def outErr : Err Float → String
  | .range reason rows => "err:range " ++ reasonStr reason ++ " " ++ outRows rows
  | .zeroDiv => "err:zerodiv"
  | .mathDomain => "err:domain"
  | .outOfFuel => "err:fuel"
  | .zeroFinding e i el => s!"err:zero {outF e} {i} {outF el}"

def loopFuel : Nat := 200000000
def skipFuel : Nat := 100000000

/-- `fire`: cfg shot rangeFt stepFt flags timeStep → rows -/
def opFire : P String := do
  let cfg ← pConfig
  let (s, t) ← pShot
  let maxRange ← pF; let step ← pF; let flags ← pNat; let ts ← pF
  let r := Run.ofShot cfg s t
  pure (match integrate r (barrelElevationOf s) maxRange step (Flags.ofNat flags) ts loopFuel skipFuel with
    | .ok rows => "ok " ++ outRows rows
    | .error e => outErr e)

/-- `zero`: cfg shot distFt → elevation (total barrel elevation, rad) -/
def opZero : P String := do
  let cfg ← pConfig
  let (s, t) ← pShot
  let dist ← pF
  let r := Run.ofShot cfg s t
  pure (match zeroAngleOfShot r dist loopFuel skipFuel with
    | .ok e => "ok " ++ outF e
    | .error e => outErr e)

/-- `init`: the per-shot derived values of `_init_trajectory` -/
def opInit : P String := do
  let cfg ← pConfig
  let (s, t) ← pShot
  let r := Run.ofShot cfg s t
  let s0 := initialState r (barrelElevationOf s)
  pure (outFs [barrelElevationOf s, barrelAzimuthOf s, r.muzzleVelocity, r.proj.stability, r.alt0, r.sightHeight,
    r.cfg.calcStep, s0.pos.x, s0.pos.y, s0.pos.z, s0.vel.x, s0.vel.y, s0.vel.z] ++
    " " ++ outFs (r.winds.toList.flatMap fun w => [w.untilFt, w.vec.x, w.vec.y, w.vec.z]))

def trajTable : List (String × P String) := [
  ("atmo_new", opAtmoNew), ("vacuum_new", opVacuumNew), ("atmo_at", opAtmoAt), ("atmo_sethum", opAtmoSetHum), ("atmo_std", opAtmoStd),
  ("air_density", opAirDensity), ("row", opRow), ("spin", opSpin), ("fire", opFire), ("zero", opZero),
  ("init", opInit)]

end Driver
