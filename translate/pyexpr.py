"""Python-AST expression -> Lean expression text (over the generic number type).

Supported subset: int/float constants, names (through an environment),
+ - * / % ** , unary minus, calls to the math functions of `BC.Fn`, comparisons
(only as `if` tests).  Anything else raises Unsupported: the translator fails
closed and the caller reports the translation obligation as broken.
"""
import ast


class Unsupported(Exception):
    pass


MATH_FUNCS = {
    'sqrt': 'Fn.sqrt', 'exp': 'Fn.exp', 'sin': 'Fn.sin', 'cos': 'Fn.cos', 'tan': 'Fn.tan',
    'atan': 'Fn.atan', 'fabs': 'Fn.abs', 'abs': 'Fn.abs',
}
MATH_FUNCS2 = {'pow': 'Fn.pow', 'atan2': 'Fn.atan2'}


def lean_float(v) -> str:
    """A Lean scientific literal denoting exactly the decimal Python's repr prints."""
    if isinstance(v, bool):
        raise Unsupported('bool constant')
    if isinstance(v, int):
        if v < 0:
            return f'(-{-v}.0)'
        return f'{v}.0'
    if isinstance(v, float):
        if v != v or v in (float('inf'), float('-inf')):
            raise Unsupported('non-finite constant')
        s = repr(v)
        neg = s.startswith('-')
        if neg:
            s = s[1:]
        if 'e' in s:
            m, e = s.split('e')
            if '.' not in m:
                m += '.0'
            s = f'{m}e{int(e)}'
        elif '.' not in s:
            s += '.0'
        return f'(-{s})' if neg else s
    raise Unsupported(f'constant {v!r}')


class ExprTr:
    def __init__(self, env, consts=None):
        self.env = dict(env)          # python name -> lean text
        self.consts = consts or {}    # python name -> lean text for module constants
        self.uses_fn = False
        self.uses_lt = False

    def tr(self, e) -> str:
        if isinstance(e, ast.Constant):
            return lean_float(e.value)
        if isinstance(e, ast.Name):
            if e.id in self.env:
                return self.env[e.id]
            if e.id == 'pi':
                self.uses_fn = True
                return 'Fn.pi'
            if e.id in self.consts:
                return self.consts[e.id]
            raise Unsupported(f'name {e.id}')
        if isinstance(e, ast.Attribute):
            if isinstance(e.value, ast.Name) and e.value.id == 'math' and e.attr == 'pi':
                self.uses_fn = True
                return 'Fn.pi'
            raise Unsupported(f'attribute {ast.dump(e)}')
        if isinstance(e, ast.UnaryOp) and isinstance(e.op, ast.USub):
            if isinstance(e.operand, ast.Constant):
                return lean_float(-e.operand.value)
            return f'(-{self.tr(e.operand)})'
        if isinstance(e, ast.UnaryOp) and isinstance(e.op, ast.UAdd):
            return self.tr(e.operand)
        if isinstance(e, ast.BinOp):
            a, b = self.tr(e.left), self.tr(e.right)
            if isinstance(e.op, ast.Add):
                return f'({a} + {b})'
            if isinstance(e.op, ast.Sub):
                return f'({a} - {b})'
            if isinstance(e.op, ast.Mult):
                return f'({a} * {b})'
            if isinstance(e.op, ast.Div):
                return f'({a} / {b})'
            if isinstance(e.op, ast.Mod):
                self.uses_fn = True
                return f'(Fn.pymod {a} {b})'
            if isinstance(e.op, ast.Pow):
                self.uses_fn = True
                return f'(Fn.pow {a} {b})'
            raise Unsupported(f'binop {type(e.op).__name__}')
        if isinstance(e, ast.Call):
            f = e.func
            name = None
            if isinstance(f, ast.Name):
                name = f.id
            elif isinstance(f, ast.Attribute) and isinstance(f.value, ast.Name) and f.value.id == 'math':
                name = f.attr
            if e.keywords:
                raise Unsupported('keyword call')
            if name in MATH_FUNCS and len(e.args) == 1:
                self.uses_fn = True
                return f'({MATH_FUNCS[name]} {self.tr(e.args[0])})'
            if name in MATH_FUNCS2 and len(e.args) == 2:
                self.uses_fn = True
                return f'({MATH_FUNCS2[name]} {self.tr(e.args[0])} {self.tr(e.args[1])})'
            raise Unsupported(f'call {ast.dump(f)}')
        raise Unsupported(f'expr {type(e).__name__}')

    def test(self, e) -> str:
        """An `if` test: a single comparison."""
        if isinstance(e, ast.Compare) and len(e.ops) == 1:
            a, b = self.tr(e.left), self.tr(e.comparators[0])
            op = e.ops[0]
            self.uses_lt = True
            if isinstance(op, ast.Gt):
                return f'{b} < {a}'
            if isinstance(op, ast.Lt):
                return f'{a} < {b}'
            if isinstance(op, ast.GtE):
                return f'{b} ≤ {a}'
            if isinstance(op, ast.LtE):
                return f'{a} ≤ {b}'
        raise Unsupported(f'test {ast.dump(e)}')
