#!/usr/bin/env python3
"""T7: function bodies -> BC/Gen/Funcs.lean.

A small symbolic evaluator for the straight-line numeric functions of the package: it executes the Python AST of a
function on symbolic arguments and emits ONE Lean expression (locals inlined, `if` statements merged into `if … then … else`,
nested helper functions / other methods of the package inlined at their call sites).  The result is a definition
`BC.Gen.Src.<name>` over the generic number type; the property files prove `Src.<name> … = Model.<name> …` (mostly by `rfl`),
so the hand-written model functions are tied to what the source says NOW by the kernel, not only by the differential run.

Modelling rules (the same the hand-written model follows, DESIGN.md section 2.1):
  * Python float and int constants in arithmetic -> decimal literals of the number type (int∘int with + - * is folded first,
    as CPython's compiler does); `a / b` is the field division (ZeroDivisionError is modelled where the model says so);
  * `x ** y`, `math.pow(x, y)` -> `Fn.pow`; `math.fabs` -> `Fn.abs`; `max(a, b)` -> `if a < b then b else a`
    (CPython keeps the first maximal argument); `min(a, b)` -> `if b < a then b else a`;
  * truthiness of a number and `x != 0` -> `nz x`;
  * `q >> Dim.Unit` on a quantity with raw value r -> `getIn .Dim r .Unit`; `Dim.Unit(x)` -> quantity with raw `mkRaw .Dim x .Unit`;
    `q.raw_value` -> r;
  * `warnings.warn(...)`, doc strings, `logger.*` -> no effect;
  * objects: `Vector(x, y, z)` (methods and operators inlined from vector/_vector.py), `object.__new__(C)` followed by
    attribute stores (the `_new_feet` family), keyword-constructed records.
Anything else raises Unsupported (fail closed: obligation `translate:funcs` broken, previous file kept).
"""
import ast
import sys
from pathlib import Path

sys.path.insert(0, str(Path(__file__).resolve().parent))
from pyexpr import Unsupported, lean_float  # noqa: E402

DIMS = {'Angular', 'Distance', 'Energy', 'Pressure', 'Temperature', 'Velocity', 'Weight'}


# ------------------------------------------------------------------ symbolic values
class Num:
    def __init__(self, s):
        self.s = s


class IntC:
    """an int constant not yet used in float context"""
    def __init__(self, v):
        self.v = v


class Qty:
    def __init__(self, dim, raw):
        self.dim, self.raw = dim, raw


class Vec:
    def __init__(self, x, y, z):
        self.x, self.y, self.z = x, y, z


class Lst:
    def __init__(self, items):
        self.items = items


class Tup(Lst):
    pass


class Obj:
    def __init__(self, cls, fields=None):
        self.cls, self.fields = cls, dict(fields or {})


class Cond:
    """kind 'bool' (Lean Bool) or 'prop' (Lean Prop)"""
    def __init__(self, kind, s):
        self.kind, self.s = kind, s

    def as_bool(self):
        return self.s if self.kind == 'bool' else f'decide ({self.s})'

    def as_if(self):
        return self.s


class Flg:
    """a TrajFlag value: Lean expression of type Model.Flags"""
    def __init__(self, s):
        self.s = s


class FlagConst:
    def __init__(self, field):
        self.field = field


class NoneV:
    pass


class OptV:
    """an optional record: Lean expression of an Option type"""
    def __init__(self, s):
        self.s = s


FLAG_FIELDS = {'ZERO_UP': 'zeroUp', 'ZERO_DOWN': 'zeroDown', 'MACH': 'mach', 'RANGE': 'range', 'APEX': 'apex'}


class IntSym:
    """a symbolic natural number (an index / a length)"""
    def __init__(self, s):
        self.s = s


class SymArr:
    """the tuple of winds of a wind sock: Lean `Array (Model.WindSeg α)`; an element stands for a Wind object through the two
    reads the sock performs on it (`.vector` -> `.vec`, `.until_distance >> Distance.Foot` -> `.untilFt`)"""
    def __init__(self, s):
        self.s = s


class WindElem:
    def __init__(self, s):
        self.s = s


class ReasonV:
    """a RangeError reason: Lean expression of type Model.Reason"""
    def __init__(self, s):
        self.s = s


REASONS = {'MinimumVelocityReached': '.minVelocity', 'MaximumDropReached': '.maxDrop', 'MinimumAltitudeReached': '.minAltitude'}


class SeqV:
    """a symbolic sequence given by Lean functions of the index: kind 'points' (DragDataPoint: .Mach -> x i, .CD -> y i),
    'floats' (x i), 'curve' (CurvePoint: (cv i).a/.b/.c); `n` = its length"""
    def __init__(self, kind, names, n='n'):
        self.kind, self.names, self.n = kind, names, n


class RowsV:
    """the list of rows recorded so far (newest first): Lean expression of type List (Model.Row α)"""
    def __init__(self, s):
        self.s = s


class RowV:
    """a TrajectoryData row: Lean expression of type Model.Row α"""
    def __init__(self, s):
        self.s = s


class ComposedQ:
    """a method of another object that is translated on its own and returns a quantity: `name` applied to the raw values of the
    quantity arguments is the raw value of the result"""
    def __init__(self, dim, name):
        self.dim, self.name = dim, name


class StrC:
    def __init__(self, v):
        self.v = v


class Opaque:
    """a callable kept abstract: a Lean function parameter"""
    def __init__(self, name):
        self.name = name


class Closure:
    def __init__(self, fdef, env, cls=None):
        self.fdef, self.env, self.cls = fdef, env, cls


class Retv:
    """a returned value together with the attribute state of `self` at the return statement"""
    def __init__(self, v, st):
        self.v, self.st = v, st


def num(v):
    if isinstance(v, Num):
        return v.s
    if isinstance(v, IntC):
        return lean_float(v.v)
    raise Unsupported(f'number expected, got {type(v).__name__}')


# ------------------------------------------------------------------ evaluator
class Evaluator:
    def __init__(self, modules, consts):
        self.modules = modules      # name -> ast.Module
        self.consts = consts        # set of constant names available in BC.Gen
        self.classes = {}
        self.funcs = {}
        self.notes = []
        self.guards = []
        self.fuel = 'skipFuel'
        self.lets = []
        self.compose = set()
        self.compose_rows = False
        for mod in modules.values():
            for n in mod.body:
                if isinstance(n, ast.ClassDef):
                    self.classes[n.name] = n
                elif isinstance(n, ast.FunctionDef):
                    self.funcs[n.name] = n

    def method(self, cls, name):
        c = self.classes.get(cls)
        if c is None:
            return None
        for n in c.body:
            if isinstance(n, ast.FunctionDef) and n.name == name:
                return n
        return None

    def class_const(self, cls, name):
        c = self.classes.get(cls)
        if c is None:
            return None
        for n in c.body:
            if isinstance(n, ast.AnnAssign) and isinstance(n.target, ast.Name) and n.target.id == name and n.value is not None:
                return n.value
            if isinstance(n, ast.Assign) and len(n.targets) == 1 and isinstance(n.targets[0], ast.Name) and n.targets[0].id == name:
                return n.value
        return None

    # ---------------------------------------------------------------- expressions
    def dotted(self, e):
        if isinstance(e, ast.Name):
            return e.id
        if isinstance(e, ast.Attribute):
            d = self.dotted(e.value)
            return None if d is None else d + '.' + e.attr
        return None

    def ev(self, e, env):
        if isinstance(e, ast.Constant):
            if isinstance(e.value, str):
                return StrC(e.value)
            if e.value is None:
                return NoneV()
            if isinstance(e.value, bool):
                raise Unsupported(f'constant {e.value!r}')
            if isinstance(e.value, int):
                return IntC(e.value)
            return Num(lean_float(e.value))
        if isinstance(e, ast.Name):
            if e.id in env:
                return env[e.id]
            if e.id in self.consts:
                return Num(e.id)
            raise Unsupported(f'name {e.id}')
        if isinstance(e, ast.Attribute):
            d = self.dotted(e)
            if d is not None and d in env:
                return env[d]
            if d == 'math.pi':
                return Num('Fn.pi')
            if d and d.startswith('RangeError.') and d.split('.', 1)[1] in REASONS:
                return ReasonV(REASONS[d.split('.', 1)[1]])
            if d and d.startswith('TrajFlag.'):
                n = d.split('.', 1)[1]
                if n == 'NONE':
                    return Flg('fNONE')
                if n == 'ALL':
                    return Flg('fALL')
                if n in FLAG_FIELDS:
                    return FlagConst(FLAG_FIELDS[n])
                raise Unsupported(d)
            # class-level constant, e.g. Atmo.cLowestTempC
            if isinstance(e.value, ast.Name) and e.value.id in self.classes:
                cv = self.class_const(e.value.id, e.attr)
                if cv is not None:
                    return self.ev(cv, {})
            base = self.ev(e.value, env)
            if isinstance(base, Vec) and e.attr in ('x', 'y', 'z'):
                return getattr(base, e.attr)
            if isinstance(base, Qty) and e.attr == 'raw_value':
                return Num(base.raw)
            if isinstance(base, WindElem) and e.attr == 'vector':
                return vec(f'{base.s}.vec')
            if isinstance(base, WindElem) and e.attr == 'until_distance':
                return Qty('Distance:ft', base.s)
            if isinstance(base, Obj) and e.attr in base.fields:
                return base.fields[e.attr]
            raise Unsupported(f'attribute {d or ast.dump(e)}')
        if isinstance(e, ast.UnaryOp):
            if isinstance(e.op, ast.USub):
                v = self.ev(e.operand, env)
                if isinstance(v, IntC):
                    return IntC(-v.v)
                if isinstance(v, Vec):
                    return self.call_method('Vector', '__neg__', v, [], env)
                if isinstance(e.operand, ast.Constant):
                    return Num(lean_float(-e.operand.value))
                return Num(f'(-{num(v)})')
            if isinstance(e.op, ast.UAdd):
                return self.ev(e.operand, env)
            if isinstance(e.op, ast.Not):
                c = self.cond(e.operand, env)
                if c.kind == 'static':
                    return Cond('static', not c.s)
                return Cond('bool', f'!({c.as_bool()})')
            raise Unsupported('unary op')
        if isinstance(e, ast.BinOp):
            return self.binop(e, env)
        if isinstance(e, ast.NamedExpr) and isinstance(e.target, ast.Name):
            v = self.ev(e.value, env)
            env[e.target.id] = v
            return v
        if isinstance(e, ast.IfExp):
            c = self.cond(e.test, env)
            a, b = self.ev(e.body, env), self.ev(e.orelse, env)
            return self.merge(c, a, b)
        if isinstance(e, ast.Subscript):
            base = self.ev(e.value, env)
            idx = e.slice
            if isinstance(base, Lst) and isinstance(idx, ast.Constant) and isinstance(idx.value, int):
                return base.items[idx.value]
            if isinstance(base, SeqV):
                i = self.ev(idx, env)
                if not isinstance(i, (IntSym, IntC)):
                    raise Unsupported('sequence index')
                it = i.s if isinstance(i, IntSym) else str(i.v) if i.v >= 0 else f'({base.n} - {-i.v})'   # seq[-k] = seq[len - k]
                if base.kind == 'points':
                    return Obj('DragDataPoint', {'Mach': Num(f'({base.names[0]} {it})'), 'CD': Num(f'({base.names[1]} {it})')})
                if base.kind == 'floats':
                    return Num(f'({base.names[0]} {it})')
                if base.kind == 'heights':
                    return Obj('TrajectoryData', {'height': Qty('Distance', f'({base.names[0]} {it})')})
                if base.kind == 'rows':
                    return Obj('TrajectoryData', {'time': Num(f'({base.names[0]} {it})')})
                return Obj('CurvePoint', {k: Num(f'({base.names[0]} {it}).{k}') for k in 'abc'})
            if isinstance(base, SymArr):
                i = self.ev(idx, env)
                if isinstance(i, (IntSym, IntC)):
                    it = i.s if isinstance(i, IntSym) else str(i.v)
                    return WindElem(f'(({base.s})[{it}]?.getD (Model.WindSeg.mk 0.0 (Model.Vec.mk 0.0 0.0 0.0)))')
            raise Unsupported('subscript')
        if isinstance(e, (ast.List, ast.Tuple)):
            items = [self.ev(x, env) for x in e.elts]
            return Tup(items) if isinstance(e, ast.Tuple) else Lst(items)
        if isinstance(e, ast.Call):
            return self.call(e, env)
        if isinstance(e, ast.BoolOp) and isinstance(e.op, ast.Or) and len(e.values) == 2 and isinstance(e.values[1], ast.Call) \
                and self.dotted(e.values[1].func) == 'tuple' and not e.values[1].args:
            v = self.ev(e.values[0], env)
            if isinstance(v, SymArr):
                return v        # `winds or tuple()`: an empty tuple is replaced by an empty tuple
        if isinstance(e, (ast.Compare, ast.BoolOp)):
            return self.cond(e, env)
        raise Unsupported(f'expression {type(e).__name__}')

    def binop(self, e, env):
        op = e.op
        a = self.ev(e.left, env)
        if isinstance(op, ast.RShift):
            if isinstance(a, Qty) and a.dim == 'Distance:any':
                return Num(a.raw)
            if isinstance(a, Qty) and a.dim == 'Distance:ft' and self.dotted(e.right) == 'Distance.Foot':
                return Num(f'{a.raw}.untilFt')
            if isinstance(a, Qty):
                d = self.dotted(e.right)
                if d and '.' in d:
                    dim, unit = d.split('.', 1)
                    if dim in DIMS and dim == a.dim:
                        return Num(f'(getIn .{dim} {a.raw} .{unit})')
            raise Unsupported('>> on a non-quantity or foreign unit')
        if isinstance(op, ast.LShift) and isinstance(a, Qty):
            return a            # `q << unit` re-labels the display unit, the magnitude is untouched (C13)
        b = self.ev(e.right, env)
        if isinstance(a, Flg):
            if isinstance(op, ast.BitOr) and isinstance(b, FlagConst):
                return Flg(f'{{ {a.s} with {b.field} := true }}')
            if isinstance(op, ast.BitAnd) and isinstance(b, FlagConst):
                return Cond('bool', f'({a.s}).{b.field}')
            if isinstance(op, ast.BitAnd) and isinstance(b, Flg):
                return Cond('bool', f'(Flags.anyCommon ({a.s}) ({b.s}))')
            raise Unsupported('flag operator')
        if isinstance(a, Vec) or isinstance(b, Vec):
            name = {ast.Add: '__add__', ast.Sub: '__sub__', ast.Mult: '__mul__'}.get(type(op))
            if name is None:
                raise Unsupported('vector operator')
            if isinstance(a, Vec):
                return self.call_method('Vector', name, a, [b], env)
            return self.call_method('Vector', {'__add__': '__radd__', '__sub__': '__rsub__', '__mul__': '__rmul__'}[name], b, [a], env)
        if isinstance(a, IntSym) and isinstance(b, IntC) and isinstance(op, ast.Add) and b.v >= 0:
            return IntSym(f'({a.s} + {b.v})')
        if isinstance(a, (IntSym, IntC)) and isinstance(b, (IntSym, IntC)) and (isinstance(a, IntSym) or isinstance(b, IntSym)):
            x = a.s if isinstance(a, IntSym) else str(a.v)
            y = b.s if isinstance(b, IntSym) else str(b.v)
            if (isinstance(a, IntC) and a.v < 0) or (isinstance(b, IntC) and b.v < 0):
                raise Unsupported('negative index constant')
            # indices are natural numbers: `-` is the truncated subtraction (the code only forms in-range indices)
            t = {ast.Add: f'({x} + {y})', ast.Sub: f'({x} - {y})', ast.FloorDiv: f'({x} / {y})'}.get(type(op))
            if t is None:
                raise Unsupported('index arithmetic')
            return IntSym(t)
        if isinstance(a, IntC) and isinstance(b, IntC) and isinstance(op, (ast.Add, ast.Sub, ast.Mult)):
            v = {ast.Add: a.v + b.v, ast.Sub: a.v - b.v, ast.Mult: a.v * b.v}[type(op)]
            return IntC(v)
        x, y = num(a), num(b)
        if isinstance(op, ast.Add):
            return Num(f'({x} + {y})')
        if isinstance(op, ast.Sub):
            return Num(f'({x} - {y})')
        if isinstance(op, ast.Mult):
            return Num(f'({x} * {y})')
        if isinstance(op, ast.Div):
            return Num(f'({x} / {y})')
        if isinstance(op, ast.Pow):
            return Num(f'(Fn.pow {x} {y})')
        if isinstance(op, ast.Mod):
            return Num(f'(Fn.pymod {x} {y})')
        raise Unsupported(f'binop {type(op).__name__}')

    def truth(self, v):
        if isinstance(v, Cond):
            return v
        if isinstance(v, Flg):
            return Cond('bool', f'!({v.s}).isNone')
        if isinstance(v, Vec):
            return Cond('static', True)     # a NamedTuple of three fields is truthy
        if isinstance(v, NoneV):
            return Cond('static', False)
        if isinstance(v, (Num, IntC)):
            return Cond('bool', f'nz {num(v)}')
        raise Unsupported(f'truthiness of {type(v).__name__}')

    def cond(self, e, env):
        if isinstance(e, ast.Call) and self.dotted(e.func) == 'isinstance' and len(e.args) == 2:
            v = self.ev(e.args[0], env)
            names = [self.dotted(x) for x in (e.args[1].elts if isinstance(e.args[1], ast.Tuple) else [e.args[1]])]
            if not all(n in ('int', 'float', 'Vector') for n in names):
                raise Unsupported('isinstance against ' + str(names))
            is_num, is_vec = isinstance(v, (Num, IntC)), isinstance(v, Vec)
            if not (is_num or is_vec):
                raise Unsupported('isinstance of ' + type(v).__name__)
            return Cond('static', (is_num and ('int' in names or 'float' in names)) or (is_vec and 'Vector' in names))
        if isinstance(e, ast.Call) and self.dotted(e.func) == 'get_debug' and not e.args:
            return Cond('static', False)       # debug logging: no effect on the computation
        if isinstance(e, ast.Call) and self.dotted(e.func) == 'bool' and len(e.args) == 1:
            return self.cond(e.args[0], env)
        if isinstance(e, ast.Compare) and len(e.ops) == 2:
            # a OP1 b OP2 c  ==  (a OP1 b) and (b OP2 c)
            c1 = self.cond(ast.Compare(left=e.left, ops=[e.ops[0]], comparators=[e.comparators[0]]), env)
            c2 = self.cond(ast.Compare(left=e.comparators[0], ops=[e.ops[1]], comparators=[e.comparators[1]]), env)
            if c1.kind == 'prop' and c2.kind == 'prop':
                return Cond('prop', f'({c1.s} ∧ {c2.s})')
            raise Unsupported('chained comparison')
        if isinstance(e, ast.Compare) and len(e.ops) == 1 and isinstance(e.ops[0], (ast.Is, ast.IsNot)):
            a, b = self.ev(e.left, env), self.ev(e.comparators[0], env)
            if not isinstance(b, NoneV):
                raise Unsupported('`is` other than against None')
            pos = isinstance(e.ops[0], ast.Is)
            if isinstance(a, NoneV):
                return Cond('static', pos)
            if isinstance(a, OptV):
                return Cond('bool', f'({a.s}).isNone' if pos else f'({a.s}).isSome')
            return Cond('static', not pos)
        if isinstance(e, ast.Compare) and len(e.ops) == 1 and not isinstance(e.ops[0], (ast.Is, ast.IsNot)) and \
                any(isinstance(self.ev(x, env), IntSym) for x in (e.left, e.comparators[0])):
            a, b = self.ev(e.left, env), self.ev(e.comparators[0], env)
            a = IntSym(str(a.v)) if isinstance(a, IntC) and a.v >= 0 else a
            b = IntSym(str(b.v)) if isinstance(b, IntC) and b.v >= 0 else b
            if not (isinstance(a, IntSym) and isinstance(b, IntSym)):
                raise Unsupported('index compared with a non-index')
            op = e.ops[0]
            t = {ast.Lt: f'{a.s} < {b.s}', ast.Gt: f'{b.s} < {a.s}', ast.LtE: f'{a.s} ≤ {b.s}', ast.GtE: f'{b.s} ≤ {a.s}'}.get(type(op))
            if t is None:
                raise Unsupported('index comparison')
            return Cond('prop', t)
        if isinstance(e, ast.Compare) and len(e.ops) == 1:
            a, b = self.ev(e.left, env), self.ev(e.comparators[0], env)
            op = e.ops[0]
            if isinstance(a, Qty) and isinstance(b, Qty) and a.dim == b.dim:
                a, b = Num(a.raw), Num(b.raw)      # quantities compare by their raw magnitudes (C13)
            if isinstance(a, IntC) and isinstance(b, IntC):
                r = {ast.Eq: a.v == b.v, ast.NotEq: a.v != b.v, ast.Lt: a.v < b.v, ast.LtE: a.v <= b.v, ast.Gt: a.v > b.v, ast.GtE: a.v >= b.v}.get(type(op))
                if r is None:
                    raise Unsupported('comparison of constants')
                return Cond('static', r)
            if isinstance(op, (ast.NotEq, ast.Eq)) and isinstance(a, StrC) and isinstance(b, StrC):
                return Cond('static', (a.v == b.v) == isinstance(op, ast.Eq))
            if isinstance(op, (ast.NotEq, ast.Eq)):
                other = None
                if isinstance(b, IntC) and b.v == 0:
                    other = a
                elif isinstance(a, IntC) and a.v == 0:
                    other = b
                if other is None:
                    raise Unsupported('== / != other than against 0')
                c = f'nz {num(other)}'
                return Cond('bool', c if isinstance(op, ast.NotEq) else f'!({c})')
            x, y = num(a), num(b)
            if isinstance(op, ast.Gt):
                return Cond('prop', f'{y} < {x}')
            if isinstance(op, ast.Lt):
                return Cond('prop', f'{x} < {y}')
            if isinstance(op, ast.GtE):
                return Cond('prop', f'{y} ≤ {x}')
            if isinstance(op, ast.LtE):
                return Cond('prop', f'{x} ≤ {y}')
            raise Unsupported('comparison')
        if isinstance(e, ast.BoolOp):
            cs = [self.cond(v, env) for v in e.values]
            if any(c.kind == 'static' for c in cs):
                raise Unsupported('static operand of and/or')
            if all(c.kind == 'prop' for c in cs):
                j = ' ∧ ' if isinstance(e.op, ast.And) else ' ∨ '
                return Cond('prop', '(' + j.join(c.s for c in cs) + ')')
            j = ' && ' if isinstance(e.op, ast.And) else ' || '
            return Cond('bool', '(' + j.join(c.as_bool() for c in cs) + ')')
        return self.truth(self.ev(e, env))

    def merge(self, c, a, b):
        """value of `a if c else b`"""
        if isinstance(a, Vec) and isinstance(b, Vec):
            return Vec(self.merge(c, a.x, b.x), self.merge(c, a.y, b.y), self.merge(c, a.z, b.z))
        if isinstance(a, Tup) and isinstance(b, Tup) and len(a.items) == len(b.items):
            return Tup([self.merge(c, x, y) for x, y in zip(a.items, b.items)])
        if isinstance(a, Qty) and isinstance(b, Qty) and a.dim == b.dim:
            if a.raw == b.raw:
                return a
            return Qty(a.dim, f'(if {c.as_if()} then {a.raw} else {b.raw})')
        if isinstance(a, (Num, IntC)) and isinstance(b, (Num, IntC)):
            x, y = num(a), num(b)
            if x == y:
                return Num(x)
            return Num(f'(if {c.as_if()} then {x} else {y})')
        if isinstance(a, SymArr) and isinstance(b, SymArr):
            if a.s == b.s:
                return a
            return SymArr(f'(if {c.as_if()} then {a.s} else {b.s})')
        if isinstance(a, RowsV) and isinstance(b, RowsV):
            if a.s == b.s:
                return a
            return RowsV(f'(if {c.as_if()} then {a.s} else {b.s})')
        if isinstance(a, ReasonV) and isinstance(b, ReasonV):
            if a.s == b.s:
                return a
            return ReasonV(f'(if {c.as_if()} then {a.s} else {b.s})')
        if isinstance(a, IntSym) and isinstance(b, IntSym):
            if a.s == b.s:
                return a
            return IntSym(f'(if {c.as_if()} then {a.s} else {b.s})')
        if isinstance(a, FlagConst):
            a = Flg(f'{{ fNONE with {a.field} := true }}')
        if isinstance(b, FlagConst):
            b = Flg(f'{{ fNONE with {b.field} := true }}')
        if isinstance(a, Flg) and isinstance(b, Flg):
            if a.s == b.s:
                return a
            return Flg(f'(if {c.as_if()} then {a.s} else {b.s})')
        if isinstance(a, (NoneV, OptV, Obj)) and isinstance(b, (NoneV, OptV, Obj)):
            x, y = self.opt(a), self.opt(b)
            if x == y:
                return a
            return OptV(f'(if {c.as_if()} then {x} else {y})')
        raise Unsupported(f'cannot merge {type(a).__name__} / {type(b).__name__} over a condition')

    def obj_call(self, d, call, env, stmt):
        """`obj.method(args)` on the recording filter / the wind sock held in a local variable (loop body of `_integrate`): composed
        with the separately translated method (`filter_*`, `sock_vector_for_range`), bound by `let`; returns the value (or True for a
        statement), None when `obj` is not such an object"""
        obj, meth = d.split('.')
        cls = env.get(obj + '.__class__')
        if obj == 'self' or cls not in ('_TrajectoryDataFilter', '_WindSock'):
            return None
        args = [self.ev(a, env) for a in call.args]
        at = ' '.join(f'⟨{num(a.x)}, {num(a.y)}, {num(a.z)}⟩' if isinstance(a, Vec) else num(a) for a in args)
        name = f'o{len(self.lets) + 1}'
        if cls == '_TrajectoryDataFilter':
            st = filter_state({('self.' + k[len(obj) + 1:]): v for k, v in env.items() if k.startswith(obj + '.')} | {'self.__class__': cls})
            def rebind(prefix):   # noqa: E306
                for py, ln, kind in FILTER_FIELDS:
                    env[f'{obj}.{py}'] = Flg(f'{prefix}.{ln}') if kind == 'flg' else vec(f'{prefix}.{ln}') if kind == 'vec' else Num(f'{prefix}.{ln}')
            if meth == 'clear_current_flag' and not args:
                self.lets.append((name, f'filter_clear_current_flag {st}'))
                rebind(name)
                return True
            if meth == 'setup_seen_zero' and len(args) == 3:
                self.lets.append((name, f'filter_setup_seen_zero {st} {at}'))
                rebind(name)
                return True
            if meth == 'should_record' and len(args) == 4:
                self.lets.append((name, f'filter_should_record {st} {self.fuel} {at}'))
                rebind(f'{name}.1')
                return OptV(f'{name}.2')
            raise Unsupported(f'filter method {meth} in the loop body')
        # wind sock
        w = {k[len(obj) + 1:]: v for k, v in env.items() if k.startswith(obj + '.')}
        st = sock_state({'self.' + k: v for k, v in w.items()}, False).replace('maxDist := ws.maxDist', 'maxDist := l.ws.maxDist')
        if meth == 'current_vector' and not args:
            return env[f'{obj}._last_vector_cache']
        if meth == 'vector_for_range' and len(args) == 1:
            self.lets.append((name, f'sock_vector_for_range {st} {at}'))
            env[f'{obj}.winds'], env[f'{obj}.current'] = SymArr(f'{name}.1.winds'), IntSym(f'{name}.1.current')
            env[f'{obj}.next_range'], env[f'{obj}._last_vector_cache'] = Num(f'{name}.1.nextRange'), vec(f'{name}.1.vec')
            return vec(f'{name}.2')
        raise Unsupported(f'wind sock method {meth} in the loop body')

    def opt(self, v):
        """Lean text of an optional BaseTrajData"""
        if isinstance(v, NoneV):
            return 'none'
        if isinstance(v, OptV):
            return v.s
        if isinstance(v, Obj) and v.cls == 'BaseTrajData' and set(v.fields) == {'time', 'position', 'velocity', 'mach'}:
            f = v.fields
            v3 = lambda w: f'⟨{num(w.x)}, {num(w.y)}, {num(w.z)}⟩'   # noqa: E731
            return f'(some (Model.BaseTraj.mk {num(f["time"])} {v3(f["position"])} {v3(f["velocity"])} {num(f["mach"])}))'
        raise Unsupported('optional value of an unknown record')

    # ---------------------------------------------------------------- calls
    MATH1 = {'sqrt': 'Fn.sqrt', 'exp': 'Fn.exp', 'sin': 'Fn.sin', 'cos': 'Fn.cos', 'tan': 'Fn.tan', 'atan': 'Fn.atan', 'fabs': 'Fn.abs'}
    MATH2 = {'pow': 'Fn.pow', 'atan2': 'Fn.atan2'}

    def call(self, e, env):
        f = e.func
        d = self.dotted(f)
        if d == 'object.__new__' and len(e.args) == 1 and isinstance(e.args[0], ast.Name):
            return Obj(e.args[0].id)
        args = [self.ev(a, env) for a in e.args]
        kw = {k.arg: self.ev(k.value, env) for k in e.keywords}
        if d and d.startswith('math.'):
            n = d[5:]
            if n in self.MATH1 and len(args) == 1:
                return Num(f'({self.MATH1[n]} {num(args[0])})')
            if n in self.MATH2 and len(args) == 2:
                return Num(f'({self.MATH2[n]} {num(args[0])} {num(args[1])})')
            raise Unsupported(f'math.{n}')
        if d and d.count('.') == 1 and not kw:
            r = self.obj_call(d, e, env, stmt=False)
            if r is not None:
                return r
        if d == '_WindSock' and self.compose_rows and len(args) == 1 and not kw and isinstance(args[0], SymArr):
            name = f'o{len(self.lets) + 1}'
            self.lets.append((name, f'sock_init {args[0].s} cMaxWindDistanceFeet'))
            return Obj('_WindSock', {'__let__': name})
        if d == '_TrajectoryDataFilter' and self.compose_rows and not args and set(kw) == {'filter_flags', 'range_step', 'initial_position', 'initial_velocity', 'time_step'}:
            name = f'o{len(self.lets) + 1}'
            v3 = lambda v: f'⟨{num(v.x)}, {num(v.y)}, {num(v.z)}⟩'   # noqa: E731
            self.lets.append((name, f'filter_init {kw["filter_flags"].s} {num(kw["range_step"])} {v3(kw["initial_position"])} {v3(kw["initial_velocity"])} {num(kw["time_step"])}'))
            return Obj('_TrajectoryDataFilter', {'__let__': name})
        if d == 'create_trajectory_row' and self.compose_rows and len(args) == 11 and not kw:
            at = []
            for a in args:
                at.append(f'⟨{num(a.x)}, {num(a.y)}, {num(a.z)}⟩' if isinstance(a, Vec) else a.s if isinstance(a, Flg) else num(a))
            return RowV('(row ' + ' '.join(at) + ')')
        if d in ('abs',) and len(args) == 1:
            return Num(f'(Fn.abs {num(args[0])})')
        if d == 'len' and len(args) == 1 and isinstance(args[0], SymArr):
            return IntSym(f'({args[0].s}).size')
        if d == 'len' and len(args) == 1 and isinstance(args[0], SeqV):
            return IntSym(args[0].n)
        if d == 'int' and len(args) == 1 and isinstance(args[0], (IntSym, IntC)):
            return args[0]
        if d == 'float' and len(args) == 1:
            return Num(num(args[0]))
        if d == 'max' and len(args) == 2:
            x, y = num(args[0]), num(args[1])
            return Num(f'(if {x} < {y} then {y} else {x})')
        if d == 'min' and len(args) == 2:
            x, y = num(args[0]), num(args[1])
            return Num(f'(if {y} < {x} then {y} else {x})')
        if d == 'Vector' and len(args) == 3:
            return Vec(*[Num(num(a)) for a in args])
        if d == 'object.__new__' and len(e.args) == 1 and isinstance(e.args[0], ast.Name):
            return Obj(e.args[0].id)
        if d and d.startswith('PreferredUnits.') and len(args) == 1 and not kw:
            if isinstance(args[0], Qty):
                return args[0]      # a quantity passes through a preferred-unit coercion unchanged (C07_quantity_keeps_raw)
            raise Unsupported('preferred-unit coercion of a bare number')
        if d and '.' in d:
            head, tail = d.split('.', 1)
            # unit constructor  Dim.Unit(x)
            if head in DIMS and '.' not in tail and len(args) == 1 and not kw:
                return Qty(head, f'(mkRaw .{head} {num(args[0])} .{tail})')
            # static / class method  Cls.meth(args)
            if head in self.classes and '.' not in tail:
                m = self.method(head, tail)
                if m is not None:
                    return self.apply(m, None, args, kw, env, head)
            if isinstance(env.get(d), ComposedQ):
                if not all(isinstance(a, Qty) for a in args):
                    raise Unsupported('composed call with a non-quantity argument')
                return Qty(env[d].dim, '(' + env[d].name + ''.join(' ' + a.raw for a in args) + ')')
            if isinstance(env.get(d), Opaque) and env[d].name.startswith('pair:'):
                t = '(' + env[d].name[5:] + ''.join(' ' + num(a) for a in args) + ')'
                return Tup([Num(t + '.1'), Num(t + '.2')])
            if isinstance(env.get(d), Opaque) and env[d].name == 'id' and len(args) == 1:
                return args[0]
            if isinstance(env.get(d), Opaque):
                return Num('(' + env[d].name + ''.join(' ' + num(a) for a in args) + ')')
            # method on self
            if head == 'self' and '.' not in tail and 'self.__class__' in env:
                cls = env['self.__class__']
                m = self.method(cls, tail)
                if m is not None:
                    return self.apply(m, 'self', args, kw, env, cls)
            # method on a value
            if isinstance(f, ast.Attribute):
                try:
                    base = self.ev(f.value, env)
                except Unsupported:
                    base = None
                if isinstance(base, Vec):
                    return self.call_method('Vector', f.attr, base, args, env)
        if isinstance(f, ast.Attribute) and d is None:
            base = self.ev(f.value, env)
            if isinstance(base, Vec):
                return self.call_method('Vector', f.attr, base, args, env)
        if isinstance(f, ast.Name) and isinstance(env.get(f.id), Opaque):
            if env[f.id].name == 'id' and len(args) == 1:
                return args[0]
            return Num('(' + env[f.id].name + ''.join(' ' + num(a) for a in args) + ')')
        if isinstance(f, ast.Name):
            if f.id in env and isinstance(env[f.id], Closure):
                c = env[f.id]
                return self.apply(c.fdef, None, args, kw, c.env, c.cls, scope=c.env)
            if f.id in self.funcs:
                return self.apply(self.funcs[f.id], None, args, kw, {}, None)
            if not args and kw and f.id[:1].isupper():
                return Obj(f.id, kw)     # keyword-constructed record (TrajectoryData(...))
            if f.id in self.classes and args and not kw:
                fields = [n.target.id for n in self.classes[f.id].body if isinstance(n, ast.AnnAssign) and isinstance(n.target, ast.Name)]
                if len(fields) == len(args):
                    return Obj(f.id, dict(zip(fields, args)))     # positional NamedTuple
        raise Unsupported(f'call {d or ast.dump(f)[:80]}')

    def call_method(self, cls, name, selfv, args, env):
        m = self.method(cls, name)
        if m is None:
            raise Unsupported(f'{cls}.{name}')
        return self.apply(m, selfv, args, {}, env, cls)

    def apply(self, fdef, selfv, args, kw, env, cls, scope=None, allow_none=False):
        """inline a call: bind the parameters, execute the body symbolically (`scope`: the enclosing scope of a nested def)"""
        params = [a.arg for a in fdef.args.args]
        deco = {self.dotted(d) for d in fdef.decorator_list}
        new = dict(scope) if scope is not None else {}
        if params and params[0] == 'self' and 'staticmethod' not in deco:
            params = params[1:]
            if selfv == 'self':
                # same object: keep the caller's view of self
                for k, v in env.items():
                    if k.startswith('self.') or k == 'self':
                        new[k] = v
            elif isinstance(selfv, Vec):
                new['self'] = selfv
                new['self.__class__'] = 'Vector'
            else:
                raise Unsupported(f'method {fdef.name} without a receiver')
        if selfv == 'self' or cls:
            new.setdefault('self.__class__', cls)
        defaults = fdef.args.defaults
        for i, p in enumerate(params):
            if i < len(args):
                new[p] = args[i]
            elif p in kw:
                new[p] = kw[p]
            else:
                j = i - (len(params) - len(defaults))
                if j < 0:
                    raise Unsupported(f'missing argument {p} of {fdef.name}')
                new[p] = self.ev(defaults[j], {})
        r = self.block(fdef.body, new)
        if selfv == 'self':
            # attribute stores made by the callee are stores on the caller's object
            for k, v in new.items():
                if k.startswith('self.') and k != 'self.__class__':
                    env[k] = v
        if r is None and not allow_none:
            raise Unsupported(f'{fdef.name} may fall off its end')
        return r

    # ---------------------------------------------------------------- statements
    def block(self, stmts, env):
        """executes statements; returns the returned value or None (falls through); `env` is updated in place — also with the
        attribute stores made on the path(s) that returned (the state of `self` at the return statements, merged over the paths)"""
        r = self._block(stmts, env)
        if r is None:
            return None
        for k, v in r.st.items():
            env[k] = v
        for k in [k for k in env if k.startswith('self.') and k != 'self.__class__' and k not in r.st]:
            del env[k]
        return r.v

    def _snap(self, env):
        return {k: v for k, v in env.items() if k.startswith('self.') and k != 'self.__class__'}

    def _merge_state(self, c, s1, s2):
        out = {}
        for k in set(s1) | set(s2):
            a, b = s1.get(k), s2.get(k)
            if a is None or b is None:
                continue
            if a is b or isinstance(a, (Closure, str, Opaque)) or isinstance(b, (Closure, str, Opaque)):
                out[k] = a
            else:
                out[k] = self.merge(c, a, b)
        return out

    def _block(self, stmts, env):
        for i, s in enumerate(stmts):
            if isinstance(s, ast.Expr):
                if isinstance(s.value, ast.Constant) and isinstance(s.value.value, str):
                    continue
                if isinstance(s.value, ast.Call):
                    d = self.dotted(s.value.func) or ''
                    if d.startswith('warnings.') or d.startswith('logger.'):
                        continue
                    if d.endswith('.append') and d.count('.') == 1 and isinstance(env.get(d[:-7]), RowsV) and len(s.value.args) == 1:
                        rv = self.ev(s.value.args[0], env)
                        if not isinstance(rv, RowV):
                            raise Unsupported('something other than a row appended to the rows')
                        env[d[:-7]] = RowsV(f'({rv.s} :: {env[d[:-7]].s})')
                        continue
                    if d.count('.') == 1 and self.obj_call(d, s.value, env, stmt=True):
                        continue
                    if d.endswith('.append') and d.count('.') == 1 and isinstance(env.get(d[:-7]), Lst) and len(s.value.args) == 1:
                        env[d[:-7]] = Lst(env[d[:-7]].items + [self.ev(s.value.args[0], env)])
                        continue
                    if d.startswith('self.') and d.count('.') == 1 and env.get('self.__class__') == '_TrajectoryDataFilter' \
                            and d[5:] in self.compose:
                        # a state-transforming method that is translated on its own: applied to the current state, bound by `let`
                        args = [self.ev(a, env) for a in s.value.args]
                        name = f'f{len(self.lets) + 1}'
                        at = ' '.join(f'⟨{num(a.x)}, {num(a.y)}, {num(a.z)}⟩' if isinstance(a, Vec) else num(a) for a in args)
                        self.lets.append((name, f'filter_{d[5:]} {filter_state(env)} {at}'))
                        for py, ln, kind in FILTER_FIELDS:
                            env['self.' + py] = Flg(f'{name}.{ln}') if kind == 'flg' else vec(f'{name}.{ln}') if kind == 'vec' else Num(f'{name}.{ln}')
                        continue
                    if d.startswith('self.') and d.count('.') == 1 and 'self.__class__' in env:
                        m = self.method(env['self.__class__'], d[5:])
                        if m is not None:
                            args = [self.ev(a, env) for a in s.value.args]
                            self.apply(m, 'self', args, {}, env, env['self.__class__'], allow_none=True)
                            continue
                raise Unsupported('expression statement')
            if isinstance(s, ast.FunctionDef):
                env[s.name] = Closure(s, env, env.get('self.__class__'))
                continue
            if isinstance(s, ast.Return):
                if s.value is None:
                    raise Unsupported('bare return')
                return Retv(self.ev(s.value, env), self._snap(env))
            if isinstance(s, (ast.Assign, ast.AnnAssign)):
                if isinstance(s, ast.AnnAssign):
                    if s.value is None:
                        continue
                    targets, value = [s.target], s.value
                else:
                    targets, value = s.targets, s.value
                if all(isinstance(t, ast.Attribute) and t.attr == '_defined_units' for t in targets):
                    continue    # the display unit of a freshly built quantity: not part of its magnitude
                v = self.ev(value, env)
                for t in targets:
                    self.assign(t, v, env)
                continue
            if isinstance(s, ast.AugAssign):
                cur = self.ev(s.target, env)
                if isinstance(cur, Vec):
                    name = {ast.Add: '__iadd__', ast.Sub: '__isub__', ast.Mult: '__imul__'}.get(type(s.op))
                    if name is None:
                        raise Unsupported('augmented vector operator')
                    self.assign(s.target, self.call_method('Vector', name, cur, [self.ev(s.value, env)], env), env)
                    continue
                fake = ast.BinOp(left=s.target, op=s.op, right=s.value)
                self.assign(s.target, self.ev(fake, env), env)
                continue
            if isinstance(s, ast.If) and not s.orelse and isinstance(s.test, ast.Compare) and len(s.test.ops) == 1 \
                    and isinstance(s.test.ops[0], ast.IsNot) and isinstance(s.test.left, ast.NamedExpr) \
                    and isinstance(s.test.comparators[0], ast.Constant) and s.test.comparators[0].value is None:
                # if (data := f(...)) is not None: <append a row built from data>
                nm = s.test.left.target.id
                v = self.ev(s.test.left.value, env)
                if not isinstance(v, OptV):
                    raise Unsupported('walrus pattern on a non-optional value')
                e1 = dict(env)
                e1[nm] = Obj('BaseTrajData', {'time': Num('d.time'), 'position': vec('d.pos'), 'velocity': vec('d.vel'), 'mach': Num('d.mach')})
                if self._block(s.body, e1) is not None:
                    raise Unsupported('return inside the walrus branch')
                changed = [k for k in e1 if k != nm and e1[k] is not env.get(k)]
                if len(changed) != 1 or not isinstance(e1[changed[0]], RowsV) or not isinstance(env.get(changed[0]), RowsV):
                    raise Unsupported(f'the walrus branch changes {changed}')
                k = changed[0]
                env[k] = RowsV(f'(match {v.s} with | some d => {e1[k].s} | none => {env[k].s})')
                env[nm] = v
                continue
            if isinstance(s, ast.If) and len(s.body) == 1 and isinstance(s.body[0], ast.Raise) and not s.orelse:
                c = self.cond(s.test, env)
                if c.kind == 'static':
                    if c.s:
                        raise Unsupported('a raise that is always reached')
                    continue
                self.guards.append(c)      # the call is rejected when this holds: emitted as `<name>_raises`
                continue
            if isinstance(s, ast.If):
                c = self.cond(s.test, env)
                if c.kind == 'static':
                    r = self._block(s.body if c.s else s.orelse, env)
                    if r is not None:
                        return r
                    continue
                e1, e2 = dict(env), dict(env)
                rest = stmts[i + 1:]
                r1 = self._block(s.body, e1)
                r2 = self._block(s.orelse, e2)
                if r1 is None and r2 is None:
                    for k in set(e1) | set(e2):
                        a, b = e1.get(k), e2.get(k)
                        if a is b:
                            continue
                        if a is None or b is None:
                            env.pop(k, None)       # defined on one path only: unusable afterwards
                            continue
                        if isinstance(a, Closure) or isinstance(b, Closure) or isinstance(a, str) or isinstance(b, str):
                            continue
                        env[k] = self.merge(c, a, b)
                    continue
                if r1 is None:
                    r1 = self._block(rest, e1)
                if r2 is None:
                    r2 = self._block(rest, e2)
                if r1 is None or r2 is None:
                    raise Unsupported('a path falls off the end of the function')
                return Retv(self.merge(c, r1.v, r2.v), self._merge_state(c, r1.st, r2.st))
            if isinstance(s, (ast.Pass, ast.Assert)):
                continue
            if isinstance(s, ast.While):
                self.while_loop(s, env)
                continue
            if isinstance(s, ast.Try):
                # `a / b` is the field division; the ZeroDivisionError handler is modelled by an explicit guard in the model
                if not all(isinstance(h.type, ast.Name) and h.type.id == 'ZeroDivisionError' for h in s.handlers) or s.orelse or s.finalbody:
                    raise Unsupported('try statement other than `except ZeroDivisionError`')
                self.notes.append('try/except ZeroDivisionError: body translated with field division')
                r = self._block(s.body, env)
                if r is not None:
                    return r
                continue
            if isinstance(s, ast.Raise):
                raise Unsupported('a reachable raise statement')
            raise Unsupported(f'statement {type(s).__name__}')
        return None

    def while_loop(self, s, env):
        """`while c(z): z = b(z)` for ONE loop-carried variable -> `whileF (fun z => c) (fun z => b) fuel z0` (fuel: a parameter of
        the generated definition, as in the model; termination is not claimed here)"""
        if s.orelse:
            raise Unsupported('while/else')
        tg = set()
        for n in s.body:
            if isinstance(n, ast.AugAssign):
                t = n.target
            elif isinstance(n, ast.Assign) and len(n.targets) == 1:
                t = n.targets[0]
            else:
                raise Unsupported('statement in a while body')
            d = self.dotted(t)
            if d is None:
                raise Unsupported('while body target')
            tg.add(d)
        if len(tg) != 1:
            raise Unsupported('a while loop with several loop-carried variables')
        var = tg.pop()
        init = env.get(var)
        if not isinstance(init, (Num, IntC)):
            raise Unsupported('loop-carried variable is not a number')
        e2 = dict(env)
        e2[var] = Num('z')
        c = self.cond(s.test, e2)
        r = self.block(s.body, e2)
        if r is not None:
            raise Unsupported('return inside a while loop')
        for k in e2:
            if k != var and e2[k] is not env.get(k):
                raise Unsupported('while body changes ' + k)
        env[var] = Num(f'(whileF (fun z => {c.as_bool()}) (fun z => {num(e2[var])}) {self.fuel} {num(init)})')

    def assign(self, t, v, env):
        if isinstance(t, ast.Name) and isinstance(v, Obj) and '__let__' in v.fields:
            nm, o = v.fields['__let__'], t.id
            env[o + '.__class__'] = v.cls
            if v.cls == '_WindSock':
                env[o + '.winds'], env[o + '.current'] = SymArr(f'{nm}.winds'), IntSym(f'{nm}.current')
                env[o + '.next_range'], env[o + '._last_vector_cache'] = Num(f'{nm}.nextRange'), vec(f'{nm}.vec')
                env[o + '._length'] = IntSym(f'({nm}.winds).size')
            else:
                for py, ln, kind in FILTER_FIELDS:
                    env[f'{o}.{py}'] = Flg(f'{nm}.{ln}') if kind == 'flg' else vec(f'{nm}.{ln}') if kind == 'vec' else Num(f'{nm}.{ln}')
            return
        if isinstance(t, ast.Name):
            env[t.id] = v
            return
        if isinstance(t, ast.Tuple) and isinstance(v, Lst) and len(t.elts) == len(v.items):
            for tt, vv in zip(t.elts, v.items):
                self.assign(tt, vv, env)
            return
        if isinstance(t, ast.Attribute) and isinstance(t.value, ast.Name) and t.value.id == 'self' and not isinstance(env.get('self'), Obj):
            env['self.' + t.attr] = v
            return
        if isinstance(t, ast.Attribute) and isinstance(t.value, ast.Name) and isinstance(env.get(t.value.id), Obj):
            o = env[t.value.id]
            if t.attr == '_defined_units':
                return
            o.fields[t.attr] = v
            return
        raise Unsupported('assignment target')


# ------------------------------------------------------------------ what is translated
SOURCES = {
    'conditions': 'py_ballisticcalc/conditions.py',
    'calc': 'py_ballisticcalc/trajectory_calc/_trajectory_calc.py',
    'vector': 'py_ballisticcalc/vector/_vector.py',
    'munition': 'py_ballisticcalc/munition.py',
    'trajdata': 'py_ballisticcalc/trajectory_data/_trajectory_data.py',
    'dragmodel': 'py_ballisticcalc/drag_model.py',
    'helpers': 'py_ballisticcalc/helpers.py',
    'interface': 'py_ballisticcalc/interface.py',
}

N = Num


def q(dim, s):
    return Qty(dim, s)


def vec(p):
    return Vec(Num(f'{p}.x'), Num(f'{p}.y'), Num(f'{p}.z'))


ATMO_SELF = {'self._a0': N('a.a0'), 'self._t0': N('a.t0'), 'self._p0': N('a.p0'), 'self._mach': N('a.mach'),
             'self._density_ratio': N('a.densityRatio'), 'self.__class__': 'Atmo'}

# (lean name, class or None, python function, binders, environment, result shape)
SPECS = [
    ('standard_temperature', 'Atmo', 'standard_temperature', '(alt : α)', {'altitude': q('Distance', 'alt')}, 'raw'),
    ('standard_pressure', 'Atmo', 'standard_pressure', '(alt : α)', {'altitude': q('Distance', 'alt')}, 'raw'),
    ('machF', 'Atmo', 'machF', '(f : α)', {'fahrenheit': N('f')}, 'num'),
    ('machK', 'Atmo', 'machK', '(k : α)', {'kelvin': N('k')}, 'num'),
    ('machC', 'Atmo', 'machC', '(c : α)', {'celsius': N('c')}, 'num'),
    ('calculate_air_density', 'Atmo', 'calculate_air_density', '(t p humidity : α)',
     {'t': N('t'), 'p': N('p'), 'humidity': N('humidity')}, 'num'),
    ('temperature_at_altitude', 'Atmo', 'temperature_at_altitude', '(a : Model.Atmo α) (altitude : α)',
     dict(ATMO_SELF, altitude=N('altitude')), 'num'),
    ('pressure_at_altitude', 'Atmo', 'pressure_at_altitude', '(a : Model.Atmo α) (altitude : α)',
     dict(ATMO_SELF, altitude=N('altitude')), 'num'),
    ('density_and_mach', 'Atmo', 'get_density_factor_and_mach_for_altitude', '(a : Model.Atmo α) (altitude : α)',
     dict(ATMO_SELF, altitude=N('altitude')), 'pair'),
    ('density_metric', 'Atmo', 'density_metric', '(a : Model.Atmo α)', dict(ATMO_SELF), 'num'),
    ('density_imperial', 'Atmo', 'density_imperial', '(a : Model.Atmo α)', dict(ATMO_SELF), 'num'),
    ('wind_vector', 'Wind', 'vector', '(velRaw dirRaw : α)',
     {'self.velocity': q('Velocity', 'velRaw'), 'self.direction_from': q('Angular', 'dirRaw'), 'self.__class__': 'Wind'}, 'vec'),
    ('barrel_elevation', 'Shot', 'barrel_elevation', '(look cant zero rel : α)',
     {'self.look_angle': q('Angular', 'look'), 'self.cant_angle': q('Angular', 'cant'),
      'self.weapon.zero_elevation': q('Angular', 'zero'), 'self.relative_angle': q('Angular', 'rel'), 'self.__class__': 'Shot'}, 'raw'),
    ('barrel_azimuth', 'Shot', 'barrel_azimuth', '(cant zero rel : α)',
     {'self.cant_angle': q('Angular', 'cant'), 'self.weapon.zero_elevation': q('Angular', 'zero'),
      'self.relative_angle': q('Angular', 'rel'), 'self.__class__': 'Shot'}, 'raw'),
    ('get_correction', None, 'get_correction', '(distance offset : α)', {'distance': N('distance'), 'offset': N('offset')}, 'num'),
    ('calculate_energy', None, 'calculate_energy', '(w v : α)', {'bullet_weight': N('w'), 'velocity': N('v')}, 'num'),
    ('calculate_ogw', None, 'calculate_ogw', '(w v : α)', {'bullet_weight': N('w'), 'velocity': N('v')}, 'num'),
    ('spin_drift', 'TrajectoryCalc', 'spin_drift', '(stability twist time : α)',
     {'self.stability_coefficient': N('stability'), 'self.twist': N('twist'), 'time': N('time'), 'self.__class__': 'TrajectoryCalc'}, 'num'),
    ('stability_coefficient', 'TrajectoryCalc', 'calc_stability_coefficient', '(twist length diameter weight mv pressRaw tempRaw : α)',
     {'self.twist': N('twist'), 'self.length': N('length'), 'self.diameter': N('diameter'), 'self.weight': N('weight'),
      'self.muzzle_velocity': N('mv'), 'atmo.pressure': q('Pressure', 'pressRaw'), 'atmo.temperature': q('Temperature', 'tempRaw'),
      'self.__class__': 'TrajectoryCalc'}, 'num'),
    ('drag_by_mach', 'TrajectoryCalc', 'drag_by_mach', '(cd bc : α)',
     {'self._bc': N('bc'), 'mach': N('0.0'), '_calculate_by_curve_and_mach_list': 'CD', 'self.__class__': 'TrajectoryCalc'}, 'num'),
    ('vec_magnitude', 'Vector', 'magnitude', '(v : Model.Vec α)', {'self': vec('v'), 'self.__class__': 'Vector'}, 'num'),
    ('vec_mul_by_const', 'Vector', 'mul_by_const', '(v : Model.Vec α) (c : α)', {'self': vec('v'), 'a': N('c'), 'self.__class__': 'Vector'}, 'vec'),
    ('vec_mul_by_vector', 'Vector', 'mul_by_vector', '(v w : Model.Vec α)', {'self': vec('v'), 'b': vec('w'), 'self.__class__': 'Vector'}, 'num'),
    ('vec_add', 'Vector', '__add__', '(v w : Model.Vec α)', {'self': vec('v'), 'other': vec('w'), 'self.__class__': 'Vector'}, 'vec'),
    ('vec_sub', 'Vector', '__sub__', '(v w : Model.Vec α)', {'self': vec('v'), 'other': vec('w'), 'self.__class__': 'Vector'}, 'vec'),
    ('vec_neg', 'Vector', '__neg__', '(v : Model.Vec α)', {'self': vec('v'), 'self.__class__': 'Vector'}, 'vec'),
    ('sight_adjustment_SFP', 'Sight', 'get_adjustment', '(s : Model.Sight α) (td drop wind mag : α)', 'SIGHT:SFP', 'clicks'),
    ('sight_adjustment_FFP', 'Sight', 'get_adjustment', '(s : Model.Sight α) (td drop wind mag : α)', 'SIGHT:FFP', 'clicks'),
    ('sight_adjustment_LWIR', 'Sight', 'get_adjustment', '(s : Model.Sight α) (td drop wind mag : α)', 'SIGHT:LWIR', 'clicks'),
    ('velocity_for_temp', 'Ammo', 'get_velocity_for_temp', '(a : Model.Ammo α) (tF : α)',
     {'self.use_powder_sensitivity': Cond('bool', 'a.usePowderSens'), 'self.mv': q('Velocity', 'a.mv'),
      'self.powder_temp': q('Temperature', 'a.powderTemp'), 'self.temp_modifier': N('a.tempModifier'),
      'current_temp': q('Temperature', 'tF'), 'self.__class__': 'Ammo'}, 'raw'),
    ('calc_powder_sens', 'Ammo', 'calc_powder_sens', '(a : Model.Ammo α) (v1 tF1 : α)',
     {'self.mv': q('Velocity', 'a.mv'), 'self.powder_temp': q('Temperature', 'a.powderTemp'),
      'other_velocity': q('Velocity', 'v1'), 'other_temperature': q('Temperature', 'tF1'), 'self.__class__': 'Ammo'}, 'num'),
    ('sectional_density', None, 'sectional_density', '(w d : α)', {'weight': N('w'), 'diameter': N('d')}, 'num'),
    ('bc_machC', 'BCPoint', '_machC', '', {}, 'num'),
    ('row', None, 'create_trajectory_row',
     '(time : α) (r v : Model.Vec α) (velocity mach spin look densityFactor drag weight : α) (flag : Model.Flags)',
     {'time': N('time'), 'range_vector': vec('r'), 'velocity_vector': vec('v'), 'velocity': N('velocity'), 'mach': N('mach'),
      'spin_drift': N('spin'), 'look_angle': N('look'), 'density_factor': N('densityFactor'), 'drag': N('drag'),
      'weight': N('weight'), 'flag': N('flag')}, 'row'),
]

ROW_FIELDS = [('time', 'time'), ('distance', 'distance'), ('velocity', 'velocity'), ('mach', 'mach'), ('height', 'height'),
              ('target_drop', 'targetDrop'), ('drop_adj', 'dropAdj'), ('windage', 'windage'), ('windage_adj', 'windageAdj'),
              ('look_distance', 'lookDistance'), ('angle', 'angle'), ('density_factor', 'densityFactor'), ('drag', 'drag'),
              ('energy', 'energy'), ('ogw', 'ogw'), ('flag', 'flag')]


def emit(ev, spec):
    lname, cls, fname, binders, env, shape = spec
    fdef = ev.method(cls, fname) if cls else ev.funcs.get(fname)
    if fdef is None:
        raise Unsupported(f'{cls or ""}.{fname} not found in the source')
    if isinstance(env, str) and env.startswith('SIGHT:'):
        env = {'self.focal_plane': StrC(env[6:]), 'self.scale_factor': q('Distance', 's.scale'), 'self.h_click_size': q('Angular', 's.hClick'),
               'self.v_click_size': q('Angular', 's.vClick'), 'target_distance': q('Distance', 'td'), 'drop_adj': q('Angular', 'drop'),
               'windage_adj': q('Angular', 'wind'), 'magnification': N('mag'), 'self.__class__': 'Sight'}
    env = dict(env)
    ev.guards = []
    if lname == 'drag_by_mach':
        # cd = _calculate_by_curve_and_mach_list(...) is the curve look-up (modelled and proved separately): a parameter here
        env.pop('_calculate_by_curve_and_mach_list')
        body = [s for s in fdef.body]
        new = []
        for s in body:
            if isinstance(s, ast.Assign) and isinstance(s.value, ast.Call) and \
                    ev.dotted(s.value.func) == '_calculate_by_curve_and_mach_list':
                env[s.targets[0].id] = Num('cd')
                continue
            new.append(s)
        r = ev.block(new, env)
    else:
        r = ev.block(fdef.body, env)
    if r is None:
        raise Unsupported(f'{fname} falls off its end')
    if shape == 'num':
        ty, body = 'α', num(r)
    elif shape == 'raw':
        if not isinstance(r, Qty):
            raise Unsupported(f'{fname}: a quantity was expected')
        ty, body = 'α', r.raw
    elif shape == 'pair':
        if not (isinstance(r, Lst) and len(r.items) == 2):
            raise Unsupported(f'{fname}: a pair was expected')
        ty, body = 'α × α', f'({num(r.items[0])}, {num(r.items[1])})'
    elif shape == 'vec':
        if not isinstance(r, Vec):
            raise Unsupported(f'{fname}: a vector was expected')
        ty, body = 'Model.Vec α', f'⟨{num(r.x)}, {num(r.y)}, {num(r.z)}⟩'
    elif shape == 'clicks':
        if not (isinstance(r, Obj) and r.cls == 'SightClicks' and set(r.fields) == {'vertical', 'horizontal'}):
            raise Unsupported(f'{fname}: a SightClicks was expected')
        ty, body = 'α × α', f'({num(r.fields["vertical"])}, {num(r.fields["horizontal"])})'
    elif shape == 'row':
        if not (isinstance(r, Obj) and r.cls == 'TrajectoryData'):
            raise Unsupported(f'{fname}: a TrajectoryData was expected')
        if set(r.fields) != {p for p, _ in ROW_FIELDS}:
            raise Unsupported(f'{fname}: TrajectoryData fields changed: {sorted(r.fields)}')
        parts = []
        for p, l in ROW_FIELDS:
            v = r.fields[p]
            if isinstance(v, Obj):      # the _new_feet family: the stored raw value
                if '_value' not in v.fields:
                    raise Unsupported(f'{fname}: {p} has no _value')
                v = v.fields['_value']
            parts.append(f'{l} := {num(v)}')
        ty, body = 'Model.Row α', '{ ' + ', '.join(parts) + ' }'
    else:
        raise Unsupported(shape)
    src = f'{cls + "." if cls else ""}{fname}'
    out = f'/-- `{src}` -/\ndef {lname} {binders} : {ty} :=\n  {body}\n'
    if ev.guards:
        g = ' || '.join(c.as_bool() for c in ev.guards)
        out += f'/-- `{src}` raises (guard statements `if …: raise`) -/\ndef {lname}_raises {binders} : Bool :=\n  ({g})\n'
    return out


FILTER_FIELDS = [('filter', 'filter', 'flg'), ('current_flag', 'currentFlag', 'flg'), ('seen_zero', 'seenZero', 'flg'),
                 ('time_step', 'timeStep', 'num'), ('range_step', 'rangeStep', 'num'), ('time_of_last_record', 'timeOfLastRecord', 'num'),
                 ('next_record_distance', 'nextRecordDistance', 'num'), ('previous_mach', 'prevMach', 'num'),
                 ('previous_time', 'prevTime', 'num'), ('previous_position', 'prevPos', 'vec'), ('previous_velocity', 'prevVel', 'vec'),
                 ('previous_v_mach', 'prevVMach', 'num'), ('look_angle', 'lookAngle', 'num')]


def filter_env(extra):
    env = {'self.__class__': '_TrajectoryDataFilter'}
    for py, ln, kind in FILTER_FIELDS:
        env['self.' + py] = Flg(f'f.{ln}') if kind == 'flg' else vec(f'f.{ln}') if kind == 'vec' else Num(f'f.{ln}')
    env.update(extra)
    return env


def filter_state(env):
    parts = []
    for py, ln, kind in FILTER_FIELDS:
        v = env.get('self.' + py)
        if kind == 'flg':
            if not isinstance(v, Flg):
                raise Unsupported(f'filter field {py} is not a flag value')
            parts.append(f'{ln} := {v.s}')
        elif kind == 'vec':
            if not isinstance(v, Vec):
                raise Unsupported(f'filter field {py} is not a vector')
            parts.append(f'{ln} := ⟨{num(v.x)}, {num(v.y)}, {num(v.z)}⟩')
        else:
            parts.append(f'{ln} := {num(v)}')
    extra = {k for k in env if k.startswith('self.') and k != 'self.__class__'} - {'self.' + f[0] for f in FILTER_FIELDS}
    if extra:
        raise Unsupported(f'the recording filter has attributes the model does not know: {sorted(extra)}')
    return '{ ' + ', '.join(parts) + ' }'


# (lean name, python method, binders, extra environment, returns data?)
FILTER_SPECS = [
    ('filter_init', '__init__', '(flags : Model.Flags) (rangeStep : α) (pos vel : Model.Vec α) (timeStep : α)',
     {'filter_flags': Flg('flags'), 'range_step': N('rangeStep'), 'initial_position': vec('pos'), 'initial_velocity': vec('vel'),
      'time_step': N('timeStep')}, False, True),
    ('filter_setup_seen_zero', 'setup_seen_zero', '(f : Model.TFilter α) (height barrelElevation lookAngle : α)',
     {'height': N('height'), 'barrel_elevation': N('barrelElevation'), 'look_angle': N('lookAngle')}, False, False),
    ('filter_clear_current_flag', 'clear_current_flag', '(f : Model.TFilter α)', {}, False, False),
    ('filter_check_next_time', 'check_next_time', '(f : Model.TFilter α) (time : α)', {'time': N('time')}, False, False),
    ('filter_check_mach_crossing', 'check_mach_crossing', '(f : Model.TFilter α) (velocity mach : α)',
     {'velocity': N('velocity'), 'mach': N('mach')}, False, False),
    ('filter_check_zero_crossing', 'check_zero_crossing', '(f : Model.TFilter α) (pos : Model.Vec α)', {'range_vector': vec('pos')}, False, False),
    ('filter_should_record', 'should_record', "(f : Model.TFilter α) (skipFuel : Nat) (pos vel : Model.Vec α) (mach time : α)",
     {'position': vec('pos'), 'velocity': vec('vel'), 'mach': N('mach'), 'time': N('time')}, True, False),
]


def emit_filter(ev, spec):
    lname, meth, binders, extra, has_data, fresh = spec
    m = ev.method('_TrajectoryDataFilter', meth)
    if m is None:
        raise Unsupported(f'_TrajectoryDataFilter.{meth} not found')
    env = {'self.__class__': '_TrajectoryDataFilter'} if fresh else filter_env({})
    env.update(extra)
    ev.lets = []
    ev.compose = {'check_zero_crossing', 'check_mach_crossing'} if meth == 'should_record' else set()
    r = ev.block(m.body, env)
    st = filter_state(env)
    lets = ''.join(f'let {n} := {t}\n  ' for n, t in ev.lets)
    ev.lets, ev.compose = [], set()
    doc = f'/-- `_TrajectoryDataFilter.{meth}`: the state of the filter after the call'
    if has_data:
        if r is None:
            raise Unsupported(f'{meth} returns nothing')
        return (doc + ' and the returned record -/\n'
                f'def {lname} {binders} : Model.TFilter α × Option (Model.BaseTraj α) :=\n  {lets}({st}, {ev.opt(r)})\n')
    if r is not None:
        raise Unsupported(f'{meth} returns a value')
    return doc + f' -/\ndef {lname} {binders} : Model.TFilter α :=\n  {st}\n'


def sock_env(fresh):
    env = {'self.__class__': '_WindSock'}      # Wind.MAX_DISTANCE_FEET resolves to the class constant (cMaxWindDistanceFeet)
    if not fresh:
        env.update({'self.winds': SymArr('ws.winds'), 'self.current': IntSym('ws.current'), 'self.next_range': Num('ws.nextRange'),
                    'self._last_vector_cache': vec('ws.vec'), 'self._length': IntSym('(ws.winds).size')})
    return env


def sock_state(env, fresh):
    w, c, n, v = env.get('self.winds'), env.get('self.current'), env.get('self.next_range'), env.get('self._last_vector_cache')
    if not (isinstance(w, SymArr) and isinstance(c, (IntSym, IntC)) and isinstance(v, Vec)):
        raise Unsupported('wind sock state not recognised')
    known = {'self.winds', 'self.current', 'self.next_range', 'self._last_vector_cache', 'self._length', 'self.__class__'}
    extra = {k for k in env if k.startswith('self.')} - known
    if extra:
        raise Unsupported(f'the wind sock has attributes the model does not know: {sorted(extra)}')
    ct = c.s if isinstance(c, IntSym) else str(c.v)
    return (f'{{ winds := {w.s}, current := {ct}, nextRange := {num(n)}, vec := ⟨{num(v.x)}, {num(v.y)}, {num(v.z)}⟩, '
            f'maxDist := {"maxDist" if fresh else "ws.maxDist"} }}')


def emit_sock(ev):
    out = []
    m = ev.method('_WindSock', '__init__')
    if m is None:
        raise Unsupported('_WindSock.__init__ not found')
    env = sock_env(True)
    env['winds'] = SymArr('winds')
    if ev.block(m.body, env) is not None:
        raise Unsupported('_WindSock.__init__ returns a value')
    out.append('/-- `_WindSock.__init__(winds)` (with `update_cache()` inlined); an element of `winds` stands for a `Wind` through its\n'
               '    `.vector` and `.until_distance >> Distance.Foot` -/\n'
               'def sock_init (winds : Array (Model.WindSeg α)) (maxDist : α) : Model.WindSock α :=\n  ' + sock_state(env, True) + '\n')
    m = ev.method('_WindSock', 'vector_for_range')
    if m is None:
        raise Unsupported('_WindSock.vector_for_range not found')
    env = sock_env(False)
    env['next_range'] = Num('x')
    r = ev.block(m.body, env)
    if not isinstance(r, Vec):
        raise Unsupported('vector_for_range does not return a vector')
    out.append('/-- `_WindSock.vector_for_range(x)`: the state of the sock after the call and the returned wind vector -/\n'
               'def sock_vector_for_range (ws : Model.WindSock α) (x : α) : Model.WindSock α × Model.Vec α :=\n  ('
               + sock_state(env, False) + f', ⟨{num(r.x)}, {num(r.y)}, {num(r.z)}⟩)\n')
    m = ev.method('_WindSock', 'current_vector')
    env = sock_env(False)
    r = ev.block(m.body, env) if m is not None else None
    if not isinstance(r, Vec):
        raise Unsupported('current_vector does not return a vector')
    out.append('/-- `_WindSock.current_vector()` -/\n'
               f'def sock_current_vector (ws : Model.WindSock α) : Model.Vec α :=\n  ⟨{num(r.x)}, {num(r.y)}, {num(r.z)}⟩\n')
    return '\n'.join(out)


def emit_loop_parts(ev):
    """further slices of `TrajectoryCalc._integrate`: the initial state, `min_step`, the loop condition, the limit checks"""
    f = ev.method('TrajectoryCalc', '_integrate')
    out = []
    # --- initial state: the assignments to range_vector / velocity_vector before the loop
    pre = []
    for n in f.body:
        if isinstance(n, ast.While):
            break
        pre.append(n)
    def assigned(n, name):   # noqa: E306
        t = n.targets[0] if isinstance(n, ast.Assign) else n.target if isinstance(n, ast.AnnAssign) else None
        return isinstance(t, ast.Name) and t.id == name
    init = [n for n in pre if assigned(n, 'velocity') or assigned(n, 'range_vector') or assigned(n, 'velocity_vector') or assigned(n, 'time')]
    if len(init) != 4:
        raise Unsupported('the initial-state assignments of _integrate were not recognised')
    env = {'self.muzzle_velocity': Num('r.muzzleVelocity'), 'self.cant_cosine': Num('r.cantCos'), 'self.cant_sine': Num('r.cantSin'),
           'self.sight_height': Num('r.sightHeight'), 'self.barrel_elevation': Num('barrelElevation'),
           'self.barrel_azimuth': Num('r.barrelAzimuth'), 'self.__class__': 'TrajectoryCalc'}
    if ev.block(init, env) is not None:
        raise Unsupported('return in the initial-state region')
    P, V = env['range_vector'], env['velocity_vector']
    v3 = lambda v: f'⟨{num(v.x)}, {num(v.y)}, {num(v.z)}⟩'   # noqa: E731
    out.append('/-- the state `_integrate` starts from (muzzle displaced by the canted sight height, launch along the barrel direction) -/\n'
               f'def initial_state (r : Model.Run α) (barrelElevation : α) : Model.St α :=\n  ⟨{v3(P)}, {v3(V)}, {num(env["time"])}⟩\n')
    # --- min_step
    ms = [n for n in pre if assigned(n, 'min_step')]
    if len(ms) != 1:
        raise Unsupported('min_step not found')
    v = ev.ev(ms[0].value, {'self.calc_step': Num('calcStep'), 'record_step': Num('recordStep')})
    out.append(f'/-- `min_step` -/\ndef min_step (calcStep recordStep : α) : α :=\n  {num(v)}\n')
    # --- loop condition
    loop = [n for n in f.body if isinstance(n, ast.While)][0]
    c = ev.cond(loop.test, {'range_vector': Vec(Num('x'), Num('0.0'), Num('0.0')), 'maximum_range': Num('maxRange'),
                            'min_step': Num('minStep'), 'last_x': Num('lastX')})
    if c.kind != 'prop':
        raise Unsupported('loop condition')
    out.append(f'/-- the condition of the `while` loop of `_integrate` -/\nabbrev loop_condition (x maxRange minStep lastX : α) : Prop :=\n  {c.s}\n')
    # --- limit checks: the `if` of the loop body whose test mentions _cMinimumVelocity
    lim = [n for n in loop.body if isinstance(n, ast.If) and '_cMinimumVelocity' in ast.dump(n.test)]
    if len(lim) != 1:
        raise Unsupported('the limit check of _integrate was not recognised')
    env = {'velocity': Num('velocity'), 'range_vector': Vec(Num('0.0'), Num('y'), Num('0.0')), 'self.alt0': Num('alt0'),
           '_cMinimumVelocity': Num('minVel'), '_cMaximumDrop': Num('maxDrop'), '_cMinimumAltitude': Num('minAlt'),
           'self.__class__': 'TrajectoryCalc'}
    outer = ev.cond(lim[0].test, env)
    inner = [n for n in lim[0].body if isinstance(n, ast.If)]
    rz = [n for n in lim[0].body if isinstance(n, ast.Raise)]
    if len(inner) != 1 or len(rz) != 1 or lim[0].orelse:
        raise Unsupported('the body of the limit check was not recognised')
    if ev.block(inner, env) is not None or not isinstance(env.get('reason'), ReasonV):
        raise Unsupported('the reason of the limit check was not recognised')
    if not (isinstance(rz[0].exc, ast.Call) and ev.dotted(rz[0].exc.func) == 'RangeError' and isinstance(rz[0].exc.args[0], ast.Name)
            and rz[0].exc.args[0].id == 'reason'):
        raise Unsupported('the limit check does not raise RangeError(reason, …)')
    out.append('/-- the limit check after every step: `none` = the loop goes on, `some reason` = `raise RangeError(reason, rows)` -/\n'
               'def limit_reason (minVel maxDrop minAlt alt0 velocity y : α) : Option Model.Reason :=\n'
               f'  if {outer.as_if()} then some {env["reason"].s} else none\n')
    return '\n'.join(out)


def emit_curve(ev):
    """`calculate_curve` (first segment, loop body, loop bounds, last segment) and `_calculate_by_curve_and_mach_list` (initial
    bracket, loop condition, loop body, selection, evaluation) as slices over a table given by index functions"""
    out = []
    f = ev.funcs.get('calculate_curve')
    if f is None:
        raise Unsupported('calculate_curve not found')
    loops = [i for i, n in enumerate(f.body) if isinstance(n, ast.For)]
    if len(loops) != 1:
        raise Unsupported('calculate_curve: one for loop expected')
    k = loops[0]
    pts = SeqV('points', ('x', 'y'))
    cp = lambda o: f'⟨{num(o.fields["a"])}, {num(o.fields["b"])}, {num(o.fields["c"])}⟩'   # noqa: E731
    env = {'data_points': pts}
    if ev.block(f.body[:k], env) is not None or not (isinstance(env.get('curve'), Lst) and len(env['curve'].items) == 1):
        raise Unsupported('calculate_curve: the part before the loop was not recognised')
    out.append(f'/-- `calculate_curve`: the first entry (built before the loop) -/\ndef curve_first (x y : Nat → α) : Model.CurvePoint α :=\n  {cp(env["curve"].items[0])}\n')
    loop = f.body[k]
    if not (isinstance(loop.target, ast.Name) and isinstance(loop.iter, ast.Call) and ev.dotted(loop.iter.func) == 'range' and len(loop.iter.args) == 2):
        raise Unsupported('calculate_curve: for … in range(a, b) expected')
    lo, hi = ev.ev(loop.iter.args[0], env), ev.ev(loop.iter.args[1], env)
    lot = str(lo.v) if isinstance(lo, IntC) else lo.s
    hit = str(hi.v) if isinstance(hi, IntC) else hi.s
    out.append(f'/-- `calculate_curve`: bounds of `for i in range(lo, hi)` -/\ndef curve_loop_bounds (n : Nat) : Nat × Nat :=\n  ({lot}, {hit})\n')
    e2 = dict(env)
    e2[loop.target.id] = IntSym('i')
    e2['curve'] = Lst([])
    if ev.block(loop.body, e2) is not None or len(e2['curve'].items) != 1:
        raise Unsupported('calculate_curve: the loop body was not recognised')
    out.append(f'/-- `calculate_curve`: the entry appended by iteration `i` of the loop -/\ndef curve_mid (x y : Nat → α) (i : Nat) : Model.CurvePoint α :=\n  {cp(e2["curve"].items[0])}\n')
    e3 = dict(env)
    e3['curve'] = Lst([])
    r = ev.block(f.body[k + 1:], e3)
    if not (isinstance(r, Lst) and len(r.items) == 1):
        raise Unsupported('calculate_curve: the part after the loop was not recognised')
    out.append(f'/-- `calculate_curve`: the closing entry (appended after the loop) -/\ndef curve_last (x y : Nat → α) (n : Nat) : Model.CurvePoint α :=\n  {cp(r.items[0])}\n')
    # ---- the look-up
    g = ev.funcs.get('_calculate_by_curve_and_mach_list')
    if g is None:
        raise Unsupported('_calculate_by_curve_and_mach_list not found')
    wl = [i for i, n in enumerate(g.body) if isinstance(n, ast.While)]
    if len(wl) != 1:
        raise Unsupported('_calculate_by_curve_and_mach_list: one while loop expected')
    k = wl[0]
    env = {'mach_list': SeqV('floats', ('x',)), 'curve': SeqV('curve', ('cv',)), 'mach': Num('m')}
    if ev.block(g.body[:k], env) is not None or not all(isinstance(env.get(v), (IntSym, IntC)) for v in ('mlo', 'mhi')):
        raise Unsupported('look-up: the initial bracket was not recognised')
    it = lambda v: v.s if isinstance(v, IntSym) else str(v.v)   # noqa: E731
    out.append(f'/-- `_calculate_by_curve_and_mach_list`: the initial bracket `(mlo, mhi)` -/\ndef bsearch_init (n : Nat) : Nat × Nat :=\n  ({it(env["mlo"])}, {it(env["mhi"])})\n')
    e2 = dict(env)
    e2['mlo'], e2['mhi'] = IntSym('lo'), IntSym('hi')
    c = ev.cond(g.body[k].test, e2)
    out.append(f'/-- the condition of the bisection loop -/\nabbrev bsearch_cond (lo hi : Nat) : Prop :=\n  {c.s}\n')
    if ev.block(g.body[k].body, e2) is not None:
        raise Unsupported('look-up: return inside the loop')
    out.append(f'/-- one iteration of the bisection loop on the bracket -/\ndef bsearch_step (x : Nat → α) (m : α) (lo hi : Nat) : Nat × Nat :=\n  ({it(e2["mlo"])}, {it(e2["mhi"])})\n')
    e3 = dict(env)
    e3['mlo'], e3['mhi'] = IntSym('lo'), IntSym('hi')
    r = ev.block(g.body[k + 1:], e3)
    if r is None or not isinstance(e3.get('m'), IntSym):
        raise Unsupported('look-up: the selection was not recognised')
    out.append(f'/-- the entry selected from the final bracket (nearest node) -/\ndef curve_select (x : Nat → α) (m : α) (lo hi : Nat) : Nat :=\n  {e3["m"].s}\n')
    out.append('/-- the value returned for the final bracket -/\n'
               f'def curve_value (x : Nat → α) (cv : Nat → Model.CurvePoint α) (m : α) (lo hi : Nat) : α :=\n  {num(r)}\n')
    return '\n'.join(out)


def emit_zero(ev):
    """slices of `TrajectoryCalc.zero_angle`: start elevation, zero distance, initial error, loop condition, the error and the
    correction computed from the second row of the trial trajectory, the final verdict"""
    f = ev.method('TrajectoryCalc', 'zero_angle')
    if f is None:
        raise Unsupported('zero_angle not found')
    wl = [i for i, n in enumerate(f.body) if isinstance(n, ast.While)]
    if len(wl) != 1:
        raise Unsupported('zero_angle: one while loop expected')
    k = wl[0]
    pre = [n for n in f.body[:k] if not (isinstance(n, ast.Expr) and isinstance(n.value, ast.Call) and ev.dotted(n.value.func) == 'self._init_trajectory')]
    if len(pre) != len(f.body[:k]) - 1:
        raise Unsupported('zero_angle does not start with self._init_trajectory(shot_info)')
    env = {'self.look_angle': Num('look'), 'self._config.cZeroFindingAccuracy': Num('acc'), 'self._config.cMaxIterations': IntSym('maxIter'),
           'distance': Qty('Distance:lookft', 'distFt'), 'self.__class__': 'TrajectoryCalc'}
    # `distance >> Distance.Foot`: the look-distance in feet is the parameter of the model
    pre2 = []
    for n in pre:
        if isinstance(n, ast.Assign) and isinstance(n.targets[0], ast.Name) and n.targets[0].id == 'distance_feet':
            if ast.dump(n.value) != ast.dump(ast.parse('distance >> Distance.Foot').body[0].value):
                raise Unsupported('distance_feet is not distance >> Distance.Foot')
            env['distance_feet'] = Num('distFt')
            continue
        pre2.append(n)
    if ev.block(pre2, env) is not None:
        raise Unsupported('zero_angle: return before the loop')
    out = []
    out.append(f'/-- `zero_angle`: the elevation the search starts from -/\ndef zero_start (look : α) : α :=\n  {num(env["self.barrel_elevation"])}\n')
    out.append(f'/-- `zero_angle`: horizontal distance of the aim point -/\ndef zero_distance (look distFt : α) : α :=\n  {num(env["zero_distance"])}\n')
    out.append(f'/-- `zero_angle`: the error the loop starts with -/\ndef zero_initial_error (acc : α) : α :=\n  {num(env["zero_finding_error"])}\n')
    it0 = env['iterations_count']
    out.append(f'/-- `zero_angle`: initial iteration count -/\ndef zero_initial_count : Nat :=\n  {it0.v if isinstance(it0, IntC) else it0.s}\n')
    loop = f.body[k]
    e2 = dict(env)
    e2.update({'zero_finding_error': Num('err'), 'iterations_count': IntSym('iters'), 'self.barrel_elevation': Num('el'), 'zero_distance': Num('zd')})
    c = ev.cond(loop.test, e2)
    out.append(f'/-- `zero_angle`: the loop condition -/\nabbrev zero_cond (acc : α) (maxIter : Nat) (err : α) (iters : Nat) : Prop :=\n  {c.s}\n')
    body = loop.body
    # t = self._integrate(shot_info, zero_distance, zero_distance, TrajFlag.RANGE)[1]
    want = ast.dump(ast.parse('t = self._integrate(shot_info, zero_distance, zero_distance, TrajFlag.RANGE)[1]').body[0])
    if not body or ast.dump(body[0]) != want:
        raise Unsupported('zero_angle: the trial trajectory is not `self._integrate(shot_info, zero_distance, zero_distance, TrajFlag.RANGE)[1]`')
    e2['t'] = Obj('TrajectoryData', {'height': Qty('Distance', 'row.height'), 'distance': Qty('Distance', 'row.distance')})
    ifs = [i for i, n in enumerate(body) if isinstance(n, ast.If)]
    if len(ifs) != 1:
        raise Unsupported('zero_angle: loop body shape')
    j = ifs[0]
    if ev.block(body[1:j], e2) is not None:
        raise Unsupported('zero_angle: return in the loop body')
    out.append(f'/-- `zero_angle`: the error of a trial trajectory whose second row is `row` -/\ndef zero_error (look : α) (row : Model.Row α) : α :=\n  {num(e2["zero_finding_error"])}\n')
    iff = body[j]
    c2 = ev.cond(iff.test, e2)
    if not (len(iff.orelse) == 1 and isinstance(iff.orelse[0], ast.Break)):
        raise Unsupported('zero_angle: the else branch is not `break`')
    e3 = dict(e2)
    e3['zero_finding_error'] = Num('err')
    c2b = ev.cond(iff.test, e3)
    out.append(f'/-- `zero_angle`: the trial missed (correct and go on) — otherwise `break` -/\nabbrev zero_missed (acc err : α) : Prop :=\n  {c2b.s}\n')
    if ev.block(iff.body, e2) is not None:
        raise Unsupported('zero_angle: return in the correction')
    out.append('/-- `zero_angle`: the corrected elevation after a trial that missed -/\n'
               f'def zero_correct (look : α) (row : Model.Row α) (zd el : α) : α :=\n  {num(e2["self.barrel_elevation"])}\n')
    rest = body[j + 1:]
    want = ast.dump(ast.parse('iterations_count += 1').body[0])
    if len(rest) != 1 or ast.dump(rest[0]) != want:
        raise Unsupported('zero_angle: the loop does not end with iterations_count += 1')
    # after the loop
    post = f.body[k + 1:]
    e4 = dict(env)
    e4.update({'zero_finding_error': Num('err'), 'iterations_count': IntSym('iters'), 'self.barrel_elevation': Num('el')})
    ev.guards = []
    if len(post) != 2 or not (isinstance(post[0], ast.If) and len(post[0].body) == 1 and isinstance(post[0].body[0], ast.Raise)):
        raise Unsupported('zero_angle: the part after the loop was not recognised')
    want = ast.dump(ast.parse('raise ZeroFindingError(zero_finding_error, iterations_count, Angular.Radian(self.barrel_elevation))').body[0])
    if ast.dump(post[0].body[0]) != want:
        raise Unsupported('zero_angle: the error raised after the loop changed')
    r = ev.block(post, e4)
    if not isinstance(r, Qty) or len(ev.guards) != 1:
        raise Unsupported('zero_angle: result')
    out.append(f'/-- `zero_angle`: after the loop, `raise ZeroFindingError(err, iterations, elevation)` when this holds -/\nabbrev zero_fails (acc err : α) : Prop :=\n  {ev.guards[0].s}\n')
    out.append(f'/-- `zero_angle`: the returned elevation (raw radians) -/\ndef zero_result (el : α) : α :=\n  {r.raw}\n')
    ev.guards = []
    return '\n'.join(out)


def emit_danger(ev):
    """slices of `HitResult.danger_space`: half the target height, the two scan tests; the shapes of the scans (which rows, in which
    order, the fall-back rows, the ArithmeticError guard) are matched structurally"""
    f = ev.method('HitResult', 'danger_space')
    if f is None:
        raise Unsupported('HitResult.danger_space not found')
    def stmt(src):   # noqa: E306
        return ast.dump(ast.parse(src).body[0])
    body = [n for n in f.body if not (isinstance(n, ast.Expr) and isinstance(n.value, ast.Constant))]
    dumps = [ast.dump(n) for n in body]
    for need in ('at_range = PreferredUnits.distance(at_range)', 'target_height = PreferredUnits.distance(target_height)'):
        if stmt(need) not in dumps:
            raise Unsupported('danger_space: missing `' + need + '`')
    half = [n for n in body if isinstance(n, ast.Assign) and isinstance(n.targets[0], ast.Name) and n.targets[0].id == 'target_height_half']
    if len(half) != 1:
        raise Unsupported('danger_space: target_height_half')
    hv = ev.ev(half[0].value, {'target_height': Qty('Distance', 'heightRaw')})
    out = [f'/-- `danger_space`: half the target height (raw inches) -/\ndef danger_half (heightRaw : α) : α :=\n  {num(hv)}\n']
    guard = [n for n in body if isinstance(n, ast.If) and 'index_at_distance' in ast.dump(n.test)]
    if len(guard) != 1 or ast.dump(guard[0].test) != ast.dump(ast.parse('(index := self.index_at_distance(at_range)) < 0').body[0].value) \
            or not (len(guard[0].body) == 1 and isinstance(guard[0].body[0], ast.Raise) and 'ArithmeticError' in ast.dump(guard[0].body[0])):
        raise Unsupported('danger_space: the out-of-range guard changed')
    defs = {n.name: n for n in body if isinstance(n, ast.FunctionDef)}
    shapes = {'find_begin_danger': ('reversed(self.trajectory[:row_num])', 'self.trajectory[0]'),
              'find_end_danger': ('self.trajectory[row_num + 1:]', 'self.trajectory[-1]')}
    for name, (it, fallback) in shapes.items():
        d = defs.get(name)
        if d is None:
            raise Unsupported(f'danger_space: {name} not found')
        b = [n for n in d.body if not (isinstance(n, ast.Expr) and isinstance(n.value, ast.Constant))]
        if len(b) != 3 or ast.dump(b[0]) != stmt('center_row = self.trajectory[row_num]') or not isinstance(b[1], ast.For) \
                or ast.dump(b[1].iter) != ast.dump(ast.parse(it).body[0].value) or ast.dump(b[2]) != stmt('return ' + fallback) \
                or not (isinstance(b[1].target, ast.Name) and b[1].target.id == 'prime_row') or b[1].orelse:
            raise Unsupported(f'danger_space: the scan of {name} changed shape')
        lb = b[1].body
        if len(lb) != 1 or not isinstance(lb[0], ast.If) or lb[0].orelse or len(lb[0].body) != 1 or ast.dump(lb[0].body[0]) != stmt('return prime_row'):
            raise Unsupported(f'danger_space: the loop body of {name} changed shape')
        env = {'target_height_half': Num('half'),
               'center_row': Obj('TrajectoryData', {'target_drop': Qty('Distance', 'center')}),
               'prime_row': Obj('TrajectoryData', {'target_drop': Qty('Distance', 'prime')})}
        c = ev.cond(lb[0].test, env)
        out.append(f'/-- `danger_space.{name}`: the test that ends the scan at `prime_row` -/\n'
                   f'abbrev danger_{name[5:]}_hit (half center prime : α) : Prop :=\n  {c.s}\n')
    ret = [n for n in body if isinstance(n, ast.Return)]
    want = ast.dump(ast.parse('DangerSpace(self.trajectory[index], target_height, find_begin_danger(index), find_end_danger(index), _look_angle)').body[0].value)
    if len(ret) != 1 or ast.dump(ret[0].value) != want:
        raise Unsupported('danger_space: the returned DangerSpace changed')
    return '\n'.join(out)


def emit_interp(ev):
    """slices of `linear_interpolation` (one query `xi` over `k` points given by index functions) and of `BCPoint.__init__` /
    `DragModelMultiBC` (Mach of a velocity point, the per-row scaling)"""
    f = ev.funcs.get('linear_interpolation')
    if f is None:
        raise Unsupported('linear_interpolation not found')
    fl = [n for n in f.body if isinstance(n, ast.For)]
    if len(fl) != 1 or not (isinstance(fl[0].target, ast.Name) and fl[0].target.id == 'xi' and ev.dotted(fl[0].iter) == 'x'):
        raise Unsupported('linear_interpolation: `for xi in x` expected')
    b = fl[0].body
    if len(b) != 1 or not isinstance(b[0], ast.If) or len(b[0].orelse) != 1 or not isinstance(b[0].orelse[0], ast.If):
        raise Unsupported('linear_interpolation: the if / elif / else chain changed shape')
    env = {'xp': SeqV('floats', ('xp',), 'k'), 'yp': SeqV('floats', ('yp',), 'k'), 'xi': Num('xi')}
    def appended(stmts, e):   # noqa: E306
        e = dict(e)
        e['y'] = Lst([])
        if ev.block(stmts, e) is not None or len(e['y'].items) != 1:
            raise Unsupported('linear_interpolation: a branch does not append exactly one value')
        return num(e['y'].items[0])
    out = []
    c1 = ev.cond(b[0].test, env)
    out.append(f'/-- `linear_interpolation`: query at or below the first point -/\nabbrev interp_low (xp : Nat → α) (xi : α) : Prop :=\n  {c1.s}\n')
    out.append(f'def interp_low_value (yp : Nat → α) : α :=\n  {appended(b[0].body, env)}\n')
    el = b[0].orelse[0]
    c2 = ev.cond(el.test, env)
    out.append(f'/-- `linear_interpolation`: query at or above the last point -/\nabbrev interp_high (k : Nat) (xp : Nat → α) (xi : α) : Prop :=\n  {c2.s}\n')
    out.append(f'def interp_high_value (k : Nat) (yp : Nat → α) : α :=\n  {appended(el.body, env)}\n')
    rest = el.orelse
    if len(rest) != 3 or not isinstance(rest[1], ast.While) or not isinstance(rest[2], ast.If):
        raise Unsupported('linear_interpolation: the bisection branch changed shape')
    e2 = dict(env)
    if ev.block(rest[:1], e2) is not None:
        raise Unsupported('linear_interpolation: bracket')
    it = lambda v: v.s if isinstance(v, IntSym) else str(v.v)   # noqa: E731
    out.append(f'/-- `linear_interpolation`: the initial bracket -/\ndef interp_init (k : Nat) : Nat × Nat :=\n  ({it(e2["left"])}, {it(e2["right"])})\n')
    e3 = dict(env)
    e3['left'], e3['right'] = IntSym('left'), IntSym('right')
    wl = rest[1]
    cw = ev.cond(wl.test, e3)
    out.append(f'abbrev interp_cond (left right : Nat) : Prop :=\n  {cw.s}\n')
    wb = wl.body
    if len(wb) != 3 or not isinstance(wb[1], ast.If) or not isinstance(wb[2], ast.If) or wb[1].orelse \
            or not isinstance(wb[1].body[-1], ast.Break):
        raise Unsupported('linear_interpolation: the loop body changed shape')
    if ev.block(wb[:1], e3) is not None:
        raise Unsupported('linear_interpolation: mid')
    cs = ev.cond(wb[1].test, e3)
    out.append(f'/-- the query lies in the segment starting at `mid` -/\nabbrev interp_in_segment (xp : Nat → α) (xi : α) (left right : Nat) : Prop :=\n  {cs.s}\n')
    out.append(f'def interp_value (xp yp : Nat → α) (xi : α) (left right : Nat) : α :=\n  {appended(wb[1].body[:-1], e3)}\n')
    cl = ev.cond(wb[2].test, e3)
    out.append(f'abbrev interp_goes_left (xp : Nat → α) (xi : α) (left right : Nat) : Prop :=\n  {cl.s}\n')
    ea, eb = dict(e3), dict(e3)
    if ev.block(wb[2].body, ea) is not None or ev.block(wb[2].orelse, eb) is not None:
        raise Unsupported('linear_interpolation: moves')
    out.append(f'def interp_left_move (left right : Nat) : Nat × Nat :=\n  ({it(ea["left"])}, {it(ea["right"])})\n')
    out.append(f'def interp_right_move (left right : Nat) : Nat × Nat :=\n  ({it(eb["left"])}, {it(eb["right"])})\n')
    # after the loop: if left == right: y.append(yp[left])
    want = ast.dump(ast.parse('if left == right:\n    y.append(yp[left])').body[0])
    if ast.dump(rest[2]) != want:
        raise Unsupported('linear_interpolation: the statement after the loop changed')
    # BCPoint: Mach of a velocity point; DragModelMultiBC: per-row scaling
    g = ev.method('BCPoint', '__init__')
    vm = [n for n in ast.walk(g) if isinstance(n, ast.Assign) and ev.dotted(n.targets[0]) == 'self.Mach' and 'self.V' in ast.unparse(n.value)] if g else []
    if len(vm) != 1:
        raise Unsupported('BCPoint: the Mach of a velocity point was not recognised')
    v = ev.ev(vm[0].value, {'self.V': Qty('Velocity', 'vRaw'), 'self.__class__': 'BCPoint'})
    out.append(f'/-- `BCPoint`: Mach number of a point given by velocity (`vRaw` raw m/s) -/\ndef bcpoint_mach_of_v (vRaw : α) : α :=\n  {num(v)}\n')
    h = ev.funcs.get('DragModelMultiBC')
    want_bits = ['bc_points = sorted(bc_points, key=lambda p: p.Mach)',
                 'bc_interp = linear_interpolation([x.Mach for x in drag_table], [x.Mach for x in bc_points], [x.BC / bc for x in bc_points])',
                 'drag_table = [DragDataPoint(point.Mach, point.CD / bc_interp[i]) for i, point in enumerate(drag_table)]',
                 'drag_table = make_data_points(drag_table)']
    hd = [ast.dump(n) for n in h.body] if h else []
    for wbit in want_bits:
        if ast.dump(ast.parse(wbit).body[0]) not in hd:
            raise Unsupported('DragModelMultiBC: missing `' + wbit + '`')
    return '\n'.join(out)


def emit_loop_body(ev):
    """the WHOLE body of the `while` loop of `TrajectoryCalc._integrate`, executed symbolically on a symbolic loop state: the calls
    into the recording filter and the wind sock are composed with their separately translated methods, `create_trajectory_row`
    with `row`; the limit check contributes its verdict (`limit_reason`) and the row it appends"""
    f = ev.method('TrajectoryCalc', '_integrate')
    loop = [n for n in f.body if isinstance(n, ast.While)][0]
    body = loop.body
    lim = [i for i, n in enumerate(body) if isinstance(n, ast.If) and '_cMinimumVelocity' in ast.dump(n.test)]
    if len(lim) != 1 or lim[0] != len(body) - 1:
        raise Unsupported('the limit check is not the last statement of the loop body')
    grav = ev.ev(find_self_assign(ev, 'TrajectoryCalc', '__init__', 'gravity_vector'), {'self._config.cGravityConstant': Num('r.cfg.gravity')})
    env = {'self.__class__': 'TrajectoryCalc', 'self.alt0': Num('r.alt0'), 'self.calc_step': Num('r.cfg.calcStep'), 'self.gravity_vector': grav,
           'self.drag_by_mach': Opaque('r.env.dbm'), 'self.look_angle': Num('r.proj.lookAngle'), 'self.weight': Num('r.proj.weight'),
           'self.stability_coefficient': Num('r.proj.stability'), 'self.twist': Num('r.proj.twist'),
           '_cMinimumVelocity': Num('r.cfg.minVelocity'), '_cMaximumDrop': Num('r.cfg.maxDrop'), '_cMinimumAltitude': Num('r.cfg.minAltitude'),
           'shot_info.atmo.get_density_factor_and_mach_for_altitude': Opaque('pair:air'),
           'range_vector': vec('l.s.pos'), 'velocity_vector': vec('l.s.vel'), 'time': Num('l.s.time'), 'drag': Num('l.drag'),
           'mach': Num('l.mach'), 'density_factor': Num('l.density'), 'velocity': Num('l.speed'), 'last_x': Num('l.lastX'),
           'wind_vector': vec('l.ws.vec'), 'ranges': RowsV('l.rows'), 'filter_flags': Flg('filterFlags'), 'it': IntSym('it'),
           'data_filter.__class__': '_TrajectoryDataFilter', 'wind_sock.__class__': '_WindSock',
           'wind_sock.winds': SymArr('l.ws.winds'), 'wind_sock.current': IntSym('l.ws.current'), 'wind_sock.next_range': Num('l.ws.nextRange'),
           'wind_sock._last_vector_cache': vec('l.ws.vec'), 'wind_sock._length': IntSym('(l.ws.winds).size')}
    for py, ln, kind in FILTER_FIELDS:
        env['data_filter.' + py] = Flg(f'l.flt.{ln}') if kind == 'flg' else vec(f'l.flt.{ln}') if kind == 'vec' else Num(f'l.flt.{ln}')
    ev.lets, ev.compose_rows = [], True
    try:
        # statement by statement; a variable that received a long new value is bound by `let` (same value, smaller terms)
        for st in body[:-1]:
            before = dict(env)
            if ev.block([st], env) is not None:
                raise Unsupported('return inside the loop body')
            for k in sorted(env):
                v = env[k]
                if v is before.get(k) or k.startswith('data_filter.') or k.startswith('wind_sock.'):
                    continue
                if isinstance(v, Num) and len(v.s) > 60:
                    name = f'v{len(ev.lets) + 1}'
                    ev.lets.append((name, v.s))
                    env[k] = Num(name)
                elif isinstance(v, Vec) and len(num(v.x)) + len(num(v.y)) + len(num(v.z)) > 60:
                    name = f'v{len(ev.lets) + 1}'
                    ev.lets.append((name, f'Model.Vec.mk {num(v.x)} {num(v.y)} {num(v.z)}'))
                    env[k] = vec(name)
        # the limit check: verdict (tied separately as `limit_reason`) and the appended row
        iff = body[-1]
        app = [n for n in iff.body if isinstance(n, ast.Expr) and isinstance(n.value, ast.Call) and ev.dotted(n.value.func) == 'ranges.append']
        if len(app) != 1 or iff.body.index(app[0]) != 0 or not isinstance(iff.body[-1], ast.Raise):
            raise Unsupported('the body of the limit check changed shape')
        want = ast.dump(ast.parse('raise RangeError(reason, ranges)').body[0])
        if ast.dump(iff.body[-1]) != want:
            raise Unsupported('the limit check does not raise RangeError(reason, ranges)')
        lrow = ev.ev(app[0].value.args[0], env)
        if not isinstance(lrow, RowV):
            raise Unsupported('the limit check does not append a row')
        v3 = lambda v: f'⟨{num(v.x)}, {num(v.y)}, {num(v.z)}⟩'   # noqa: E731
        w = {k[len('wind_sock.'):]: v for k, v in env.items() if k.startswith('wind_sock.')}
        ws = sock_state({'self.' + k: v for k, v in w.items()}, False).replace('maxDist := ws.maxDist', 'maxDist := l.ws.maxDist')
        flt = filter_state({('self.' + k[len('data_filter.'):]): v for k, v in env.items() if k.startswith('data_filter.')} | {'self.__class__': 'x'})
        lets = ''.join(f'let {n} := {t}\n  ' for n, t in ev.lets)
        y = env['range_vector'].y
        out = ('/-- the body of the `while` loop of `TrajectoryCalc._integrate`, executed symbolically on the loop state `l` (`air` = the\n'
               '    atmosphere look-up of the shot, returning the pair) -/\n'
               'def loop_body (r : Model.Run α) (air : α → α × α) (filterFlags : Model.Flags) (skipFuel : Nat) (l : Model.LoopSt α) : Model.LoopOut α :=\n  '
               + lets + '{ st := ⟨' + v3(env['range_vector']) + ', ' + v3(env['velocity_vector']) + ', ' + num(env['time']) + '⟩,\n    ws := ' + ws
               + ',\n    flt := ' + flt + ',\n    rows := ' + env['ranges'].s + ',\n    drag := ' + num(env['drag']) + ', mach := ' + num(env['mach'])
               + ', density := ' + num(env['density_factor']) + ', speed := ' + num(env['velocity']) + ', lastX := ' + num(env['last_x'])
               + ',\n    reason := limit_reason r.cfg.minVelocity r.cfg.maxDrop r.cfg.minAltitude r.alt0 ' + num(env['velocity']) + ' ' + num(y)
               + ',\n    limitRow := ' + lrow.s + ' }\n')
    finally:
        ev.lets, ev.compose_rows = [], False
    return out


def emit_init_trajectory(ev):
    """`TrajectoryCalc._init_trajectory(shot_info)`: every scalar attribute it assigns, as a function of the raw values of the shot
    (`Shot.barrel_elevation/azimuth` and `Ammo.get_velocity_for_temp` composed with their own translations; `get_calc_step()` and
    `calc_stability_coefficient(atmo)` inlined); the three statements that prepare the drag curve are matched structurally"""
    m = ev.method('TrajectoryCalc', '_init_trajectory')
    if m is None:
        raise Unsupported('_init_trajectory not found')
    pins = ['self._table_data: List[DragDataPoint] = shot_info.ammo.dm.drag_table',
            'self._curve: List[CurvePoint] = calculate_curve(self._table_data)',
            'self.__mach_list: List[float] = _get_only_mach_data(self._table_data)']
    pd = [ast.dump(ast.parse(x).body[0]) for x in pins]
    body = [n for n in m.body if ast.dump(n) not in pd]
    if len(body) != len(m.body) - 3:
        raise Unsupported('_init_trajectory: the statements preparing the drag curve changed')
    A = lambda x: Qty('Angular', x)    # noqa: E731
    D = lambda x: Qty('Distance', x)   # noqa: E731
    env = {'self.__class__': 'TrajectoryCalc', 'self._config.max_calc_step_size_feet': Num('cfg.maxCalcStep'),
           'shot_info.ammo.dm.BC': Num('s.bc'), 'shot_info.look_angle': A('s.lookAngle'), 'shot_info.cant_angle': A('s.cantAngle'),
           'shot_info.weapon.twist': D('s.twistRaw'), 'shot_info.weapon.sight_height': D('s.sightHeightRaw'),
           'shot_info.ammo.dm.length': D('s.lengthRaw'), 'shot_info.ammo.dm.diameter': D('s.diameterRaw'),
           'shot_info.ammo.dm.weight': Qty('Weight', 's.weightRaw'),
           'shot_info.barrel_elevation': A('(barrel_elevation s.lookAngle s.cantAngle s.zeroElevation s.relativeAngle)'),
           'shot_info.barrel_azimuth': A('(barrel_azimuth s.cantAngle s.zeroElevation s.relativeAngle)'),
           'shot_info.atmo.altitude': D('s.atmo.altRaw'), 'shot_info.atmo.powder_temp': Qty('Temperature', 's.atmo.powderRaw'),
           'shot_info.ammo.get_velocity_for_temp': ComposedQ('Velocity', 'velocity_for_temp s.ammo'),
           'shot_info.atmo': Obj('Atmo', {'pressure': Qty('Pressure', 's.atmo.pressRaw'), 'temperature': Qty('Temperature', 's.atmo.tempRaw')})}
    if ev.block(body, env) is not None:
        raise Unsupported('_init_trajectory returns a value')
    want = {'_bc', 'look_angle', 'twist', 'length', 'diameter', 'weight', 'barrel_elevation', 'barrel_azimuth', 'sight_height', 'cant_cosine',
            'cant_sine', 'alt0', 'calc_step', 'muzzle_velocity', 'stability_coefficient'}
    got = {k[5:] for k in env if k.startswith('self.') and not k.startswith('self._config') and k != 'self.__class__'}
    if got != want:
        raise Unsupported(f'_init_trajectory assigns {sorted(got ^ want)} differently from the model')
    g = lambda k: num(env['self.' + k])    # noqa: E731
    return ('/-- `_init_trajectory(shot_info)`: the projectile record, then (bc, alt0, muzzle velocity, sight height, cant cosine, cant sine,\n'
            '    barrel azimuth, calc step, barrel elevation) -/\n'
            'def init_trajectory (cfg : Model.Config α) (s : Model.ShotRaw α) : Model.Proj α × (α × α × α × α × α × α × α × α × α) :=\n'
            f'  (⟨{g("twist")}, {g("length")}, {g("diameter")}, {g("weight")}, {g("stability_coefficient")}, {g("look_angle")}⟩,\n'
            f'   ({g("_bc")}, {g("alt0")}, {g("muzzle_velocity")}, {g("sight_height")}, {g("cant_cosine")}, {g("cant_sine")}, {g("barrel_azimuth")}, '
            f'{g("calc_step")}, {g("barrel_elevation")}))\n')


def emit_lookup(ev):
    """slices of helpers.py: the apex bisection (bracket, condition, test, moves), the two monotone conditions (distance, strict
    time), the nearest-time comparison and the deviation test"""
    out = []
    f = ev.funcs.get('find_index_of_apex_in_points')
    if f is None:
        raise Unsupported('find_index_of_apex_in_points not found')
    wl = [i for i, n in enumerate(f.body) if isinstance(n, ast.While)]
    if len(wl) != 1:
        raise Unsupported('apex: one while loop expected')
    k = wl[0]
    class Heights(SeqV):   # noqa: E306
        pass
    pts = SeqV('heights', ('h',), 'n')
    env = {'trajectory_points': pts}
    pre = f.body[:k]
    guard = [n for n in pre if isinstance(n, ast.If)]
    want = ast.dump(ast.parse('if points_count == 0:\n    return -1').body[0])
    if len(guard) != 1 or ast.dump(guard[0]) != want:
        raise Unsupported('apex: the empty-trajectory guard changed')
    if ev.block([n for n in pre if not isinstance(n, ast.If)], env) is not None:
        raise Unsupported('apex: return before the loop')
    it = lambda v: v.s if isinstance(v, IntSym) else str(v.v)   # noqa: E731
    out.append(f'/-- `find_index_of_apex_in_points`: the initial bracket -/\ndef apex_init (n : Nat) : Nat × Nat :=\n  ({it(env["left"])}, {it(env["right"])})\n')
    e2 = dict(env)
    e2['left'], e2['right'] = IntSym('l'), IntSym('r')
    c = ev.cond(f.body[k].test, e2)
    out.append(f'abbrev apex_cond (l r : Nat) : Prop :=\n  {c.s}\n')
    wb = f.body[k].body
    if len(wb) != 2 or not isinstance(wb[1], ast.If):
        raise Unsupported('apex: loop body shape')
    if ev.block(wb[:1], e2) is not None:
        raise Unsupported('apex: mid')
    ct = ev.cond(wb[1].test, e2)
    out.append(f'/-- still rising at `mid` -/\nabbrev apex_rising (h : Nat → α) (l r : Nat) : Prop :=\n  {ct.s}\n')
    ea, eb = dict(e2), dict(e2)
    if ev.block(wb[1].body, ea) is not None or ev.block(wb[1].orelse, eb) is not None:
        raise Unsupported('apex: moves')
    out.append(f'def apex_move_right (l r : Nat) : Nat × Nat :=\n  ({it(ea["left"])}, {it(ea["right"])})\n')
    out.append(f'def apex_move_left (l r : Nat) : Nat × Nat :=\n  ({it(eb["left"])}, {it(eb["right"])})\n')
    if ast.dump(f.body[-1]) != ast.dump(ast.parse('return left').body[0]):
        raise Unsupported('apex: the function does not return left')
    # the monotone conditions: lambdas inside find_index_of_point_for_distance / find_index_for_time_point
    def lam(fn, which):   # noqa: E306
        g = ev.funcs.get(fn)
        ls = [n for n in ast.walk(g) if isinstance(n, ast.Lambda)] if g else []
        if len(ls) <= which:
            raise Unsupported(f'{fn}: lambda not found')
        return ls[which]
    ld = lam('find_index_of_point_for_distance', 0)
    c = ev.cond(ld.body, {ld.args.args[0].arg: Obj('TrajectoryData', {'distance': Qty('Distance:any', 'x')}), 'distance': Num('d'),
                          'distance_unit': StrC('unit')})
    out.append(f'/-- the condition `find_index_of_point_for_distance` bisects for (`x`: the row\'s distance read in the unit of the query) -/\nabbrev lookup_distance_cond (x d : α) : Prop :=\n  {c.s}\n')
    g = ev.funcs.get('find_index_for_time_point')
    ls = [n for n in ast.walk(g) if isinstance(n, ast.Lambda)]
    if len(ls) != 2:
        raise Unsupported('find_index_for_time_point: two lambdas expected')
    c = ev.cond(ls[0].body, {ls[0].args.args[0].arg: Obj('TrajectoryData', {'time': Num('x')}), 'time': Num('t')})
    out.append(f'/-- the condition the strict time look-up bisects for -/\nabbrev lookup_time_cond (x t : α) : Prop :=\n  {c.s}\n')
    v = ev.ev(ls[1].body, {ls[1].args.args[0].arg: Obj('TrajectoryData', {'time': Num('x')})})
    out.append(f'/-- the key of the nearest-time look-up -/\ndef lookup_time_key (x : α) : α :=\n  {num(v)}\n')
    # deviation test: `if index >= 0 and abs(shot.trajectory[index].time - time) <= max_time_deviation_in_seconds`
    ifs = [n for n in ast.walk(g) if isinstance(n, ast.If) and 'max_time_deviation_in_seconds' in ast.dump(n.test) and isinstance(n.test, ast.BoolOp)]
    if len(ifs) != 1:
        raise Unsupported('find_index_for_time_point: deviation test not found')
    c = ev.cond(ifs[0].test.values[1], {'shot.trajectory': SeqV('rows', ('time',), 'n'), 'index': IntSym('i'), 'time': Num('t'),
                                        'max_time_deviation_in_seconds': Num('dev')})
    out.append(f'/-- the accepted deviation of the nearest row -/\nabbrev lookup_within_deviation (time : Nat → α) (i : Nat) (t dev : α) : Prop :=\n  {c.s}\n')
    # nearest: the comparison of the two neighbours
    h = ev.funcs.get('find_nearest_index_satisfying_monotonic_condition')
    ifs = [n for n in ast.walk(h) if isinstance(n, ast.If) and 'before' in ast.dump(n.test) and 'after' in ast.dump(n.test)] if h else []
    if len(ifs) != 1:
        raise Unsupported('nearest: the comparison of the neighbours was not found')
    c = ev.cond(ifs[0].test, {'arr': SeqV('floats', ('time',), 'n'), 'before': IntSym('before'), 'after': IntSym('after'),
                              'target_value': Num('t'), 'value_getter': Opaque('id')})
    out.append(f'/-- nearest-time look-up: the row before the insertion point is at least as near as the row after it -/\nabbrev lookup_before_is_nearer (time : Nat → α) (before after : Nat) (t : α) : Prop :=\n  {c.s}\n')
    return '\n'.join(out)


def emit_loop_init(ev):
    """the statements of `_integrate` BEFORE the loop (the loop state it starts from) and AFTER it (the row appended when fewer than two
    rows were recorded), executed symbolically; the two helper objects are built by their separately translated constructors"""
    f = ev.method('TrajectoryCalc', '_integrate')
    k = [i for i, n in enumerate(f.body) if isinstance(n, ast.While)][0]
    pre = [n for n in f.body[:k] if not (isinstance(n, ast.Expr) and isinstance(n.value, ast.Constant))]
    # the three local copies of the limits are read in the loop only
    pre = [n for n in pre if not (isinstance(n, ast.Assign) and isinstance(n.targets[0], ast.Name) and n.targets[0].id.startswith('_c'))]
    env = {'self.__class__': 'TrajectoryCalc', 'self.muzzle_velocity': Num('r.muzzleVelocity'), 'self.cant_cosine': Num('r.cantCos'),
           'self.cant_sine': Num('r.cantSin'), 'self.sight_height': Num('r.sightHeight'), 'self.barrel_elevation': Num('barrelElevation'),
           'self.barrel_azimuth': Num('r.barrelAzimuth'), 'self.calc_step': Num('r.cfg.calcStep'), 'self.look_angle': Num('r.proj.lookAngle'),
           'shot_info.winds': SymArr('r.winds'), 'filter_flags': Flg('filterFlags'), 'record_step': Num('recordStep'), 'time_step': Num('timeStep')}
    ev.lets, ev.compose_rows = [], True
    try:
        if ev.block(pre, env) is not None:
            raise Unsupported('return before the loop')
        if not (isinstance(env.get('ranges'), Lst) and not env['ranges'].items):
            raise Unsupported('the list of rows does not start empty')
        v3 = lambda v: f'⟨{num(v.x)}, {num(v.y)}, {num(v.z)}⟩'   # noqa: E731
        w = {kk[len('wind_sock.'):]: v for kk, v in env.items() if kk.startswith('wind_sock.') and kk != 'wind_sock.__class__'}
        ws = sock_state({'self.' + kk: v for kk, v in w.items()}, True).replace('maxDist := maxDist', 'maxDist := cMaxWindDistanceFeet')
        flt = filter_state({('self.' + kk[len('data_filter.'):]): v for kk, v in env.items() if kk.startswith('data_filter.')} | {'self.__class__': 'x'})
        lets = ''.join(f'let {n} := {t}\n  ' for n, t in ev.lets)
        out = ('/-- the loop state `_integrate` enters its `while` loop with -/\n'
               'def loop_init (r : Model.Run α) (barrelElevation recordStep timeStep : α) (filterFlags : Model.Flags) : Model.LoopSt α :=\n  ' + lets
               + '{ s := ⟨' + v3(env['range_vector']) + ', ' + v3(env['velocity_vector']) + ', ' + num(env['time']) + '⟩, ws := ' + ws + ',\n    flt := ' + flt
               + ',\n    rows := [], drag := ' + num(env['drag']) + ', mach := ' + num(env['mach']) + ', density := ' + num(env['density_factor'])
               + ', speed := ' + num(env['velocity']) + ', lastX := ' + num(env['last_x']) + ' }\n')
        # after the loop
        post = [n for n in f.body[k + 1:] if not (isinstance(n, ast.Expr) and isinstance(n.value, ast.Call) and (ev.dotted(n.value.func) or '').startswith('logger.'))]
        if len(post) != 2 or not isinstance(post[0], ast.If) or ast.dump(post[0].test) != ast.dump(ast.parse('len(ranges) < 2').body[0].value) \
                or post[0].orelse or ast.dump(post[1]) != ast.dump(ast.parse('return ranges').body[0]) or len(post[0].body) != 1:
            raise Unsupported('the statements after the loop changed shape')
        app = post[0].body[0]
        if not (isinstance(app, ast.Expr) and isinstance(app.value, ast.Call) and ev.dotted(app.value.func) == 'ranges.append' and len(app.value.args) == 1):
            raise Unsupported('the statement after the loop does not append a row')
        e2 = {'self.__class__': 'TrajectoryCalc', 'self.look_angle': Num('r.proj.lookAngle'), 'self.weight': Num('r.proj.weight'),
              'self.stability_coefficient': Num('r.proj.stability'), 'self.twist': Num('r.proj.twist'),
              'range_vector': vec('l.s.pos'), 'velocity_vector': vec('l.s.vel'), 'time': Num('l.s.time'), 'drag': Num('l.drag'), 'mach': Num('l.mach'),
              'density_factor': Num('l.density'), 'velocity': Num('l.speed')}
        row = ev.ev(app.value.args[0], e2)
        if not isinstance(row, RowV):
            raise Unsupported('the statement after the loop does not append a row')
        out += ('\n/-- the row `_integrate` appends after the loop when fewer than two rows were recorded -/\n'
                'def final_row (r : Model.Run α) (l : Model.LoopSt α) : Model.Row α :=\n  ' + row.s + '\n')
    finally:
        ev.lets, ev.compose_rows = [], False
    return out


def emit_fire(ev):
    """`Calculator.fire` (the default recording step, a given step passing through) and `TrajectoryCalc.trajectory` (which rows are
    recorded: RANGE rows, or ALL with extra data; range and step handed to `_integrate` in feet)"""
    f = ev.method('Calculator', 'fire')
    if f is None:
        raise Unsupported('Calculator.fire not found')
    body = [n for n in f.body if not (isinstance(n, ast.Expr) and isinstance(n.value, ast.Constant))]
    want0 = ast.dump(ast.parse('trajectory_range = PreferredUnits.distance(trajectory_range)').body[0])
    iff = [n for n in body if isinstance(n, ast.If)]
    if ast.dump(body[0]) != want0 or len(iff) != 1 or ast.dump(iff[0].test) != ast.dump(ast.parse('not trajectory_step').body[0].value):
        raise Unsupported('Calculator.fire: the default-step logic changed shape')
    e1 = {'trajectory_range': Qty('Distance', 'rangeRaw')}
    if ev.block(iff[0].body, e1) is not None or not isinstance(e1.get('step'), Qty):
        raise Unsupported('Calculator.fire: default step')
    e2 = {'trajectory_step': Qty('Distance', 'stepRaw')}
    if ev.block(iff[0].orelse, e2) is not None or not isinstance(e2.get('step'), Qty):
        raise Unsupported('Calculator.fire: given step')
    tail = body[body.index(iff[0]) + 1:]
    want = [ast.dump(ast.parse(x).body[0]) for x in ('data = self._calc.trajectory(shot, trajectory_range, step, extra_data, time_step)',
                                                      'return HitResult(shot, data, extra_data)')]
    if [ast.dump(n) for n in tail] != want:
        raise Unsupported('Calculator.fire: the call into the solver changed')
    out = ['/-- `Calculator.fire`: the recording step when none is given (raw inches), as a function of the raw range -/\n'
           f'def fire_default_step (rangeRaw : α) : α :=\n  {e1["step"].raw}\n',
           '/-- `Calculator.fire`: a step given as a quantity is used as it is -/\n'
           f'def fire_given_step (stepRaw : α) : α :=\n  {e2["step"].raw}\n']
    g = ev.method('TrajectoryCalc', 'trajectory')
    if g is None:
        raise Unsupported('TrajectoryCalc.trajectory not found')
    gb = [n for n in g.body if not (isinstance(n, ast.Expr) and isinstance(n.value, ast.Constant))]
    call = [n for n in gb if isinstance(n, ast.Return)]
    init = [n for n in gb if isinstance(n, ast.Expr) and isinstance(n.value, ast.Call) and ev.dotted(n.value.func) == 'self._init_trajectory']
    wantr = ast.dump(ast.parse('self._integrate(shot_info, max_range >> Distance.Foot, dist_step >> Distance.Foot, filter_flags, time_step)').body[0].value)
    if len(call) != 1 or len(init) != 1 or ast.dump(call[0].value) != wantr or gb.index(init[0]) > gb.index(call[0]):
        raise Unsupported('TrajectoryCalc.trajectory: the call of _init_trajectory / _integrate changed')
    env = {'extra_data': Cond('bool', 'extra'), 'self.__class__': 'TrajectoryCalc'}
    if ev.block([n for n in gb if n is not call[0] and n is not init[0]], env) is not None:
        raise Unsupported('TrajectoryCalc.trajectory: flags')
    fl = env.get('filter_flags')
    if isinstance(fl, FlagConst):
        fl = Flg(f'{{ fNONE with {fl.field} := true }}')
    if not isinstance(fl, Flg):
        raise Unsupported('TrajectoryCalc.trajectory: flags')
    out.append(f'/-- `TrajectoryCalc.trajectory`: which rows are recorded -/\ndef trajectory_flags (extra : Bool) : Model.Flags :=\n  {fl.s}\n')
    rng = ev.ev(ast.parse('max_range >> Distance.Foot').body[0].value, {'max_range': Qty('Distance', 'rangeRaw')})
    out.append(f'/-- `TrajectoryCalc.trajectory`: range / step handed to `_integrate` (feet) -/\ndef trajectory_feet (raw : α) : α :=\n  {num(rng).replace("rangeRaw", "raw")}\n')
    return '\n'.join(out)


def emit_zero_glue(ev):
    """`Calculator.barrel_elevation_for_target` (stored zero = total elevation − look angle), `set_weapon_zero` (stores it, structurally),
    and the key `Shot.winds` sorts the segments by"""
    f = ev.method('Calculator', 'barrel_elevation_for_target')
    if f is None:
        raise Unsupported('barrel_elevation_for_target not found')
    body = [n for n in f.body if not (isinstance(n, ast.Expr) and isinstance(n.value, ast.Constant))]
    want = [ast.dump(ast.parse(x).body[0]) for x in ('target_distance = PreferredUnits.distance(target_distance)',
                                                      'total_elevation = self._calc.zero_angle(shot, target_distance)')]
    if len(body) != 3 or [ast.dump(n) for n in body[:2]] != want or not isinstance(body[2], ast.Return):
        raise Unsupported('barrel_elevation_for_target changed shape')
    r = ev.ev(body[2].value, {'total_elevation': Qty('Angular', 'total'), 'shot.look_angle': Qty('Angular', 'look')})
    if not isinstance(r, Qty):
        raise Unsupported('barrel_elevation_for_target does not return a quantity')
    out = ['/-- `Calculator.barrel_elevation_for_target`: the zero to store (raw radians) from the total elevation `zero_angle` returned -/\n'
           f'def stored_zero (total look : α) : α :=\n  {r.raw}\n']
    g = ev.method('Calculator', 'set_weapon_zero')
    gb = [n for n in g.body if not (isinstance(n, ast.Expr) and isinstance(n.value, ast.Constant))] if g else []
    want = [ast.dump(ast.parse(x).body[0]) for x in ('shot.weapon.zero_elevation = self.barrel_elevation_for_target(shot, zero_distance)',
                                                      'return shot.weapon.zero_elevation')]
    if [ast.dump(n) for n in gb] != want:
        raise Unsupported('set_weapon_zero changed shape')
    w = ev.method('Shot', 'winds')
    wb = [n for n in w.body if not (isinstance(n, ast.Expr) and isinstance(n.value, ast.Constant))] if w else []
    if len(wb) != 1 or not isinstance(wb[0], ast.Return):
        raise Unsupported('Shot.winds changed shape')
    c = wb[0].value
    ok = (isinstance(c, ast.Call) and ev.dotted(c.func) == 'tuple' and len(c.args) == 1 and isinstance(c.args[0], ast.Call)
          and ev.dotted(c.args[0].func) == 'sorted' and len(c.args[0].args) == 1 and ev.dotted(c.args[0].args[0]) == 'self._winds'
          and len(c.args[0].keywords) == 1 and c.args[0].keywords[0].arg == 'key' and isinstance(c.args[0].keywords[0].value, ast.Lambda))
    if not ok:
        raise Unsupported('Shot.winds is not tuple(sorted(self._winds, key=lambda ...))')
    lam = c.args[0].keywords[0].value
    k = ev.ev(lam.body, {lam.args.args[0].arg: Obj('Wind', {'until_distance': Qty('Distance', 'untilRaw')})})
    out.append(f'/-- `Shot.winds`: the key the segments are sorted by (stable `sorted`) -/\ndef winds_sort_key (untilRaw : α) : α :=\n  {num(k)}\n')
    return '\n'.join(out)


def find_self_assign(ev, cls, meth, attr):
    m = ev.method(cls, meth)
    for n in ast.walk(m) if m else []:
        if isinstance(n, (ast.Assign, ast.AnnAssign)):
            t = n.targets[0] if isinstance(n, ast.Assign) else n.target
            if isinstance(t, ast.Attribute) and isinstance(t.value, ast.Name) and t.value.id == 'self' and t.attr == attr and n.value:
                return n.value
    raise Unsupported(f'{cls}.{meth}: no assignment to self.{attr}')


def emit_step(ev):
    """the ballistic step of the `while` loop of `TrajectoryCalc._integrate`: the statements from the assignment of
    `velocity_adjusted` to `time += delta_time`, executed on a symbolic state"""
    f = ev.method('TrajectoryCalc', '_integrate')
    if f is None:
        raise Unsupported('TrajectoryCalc._integrate not found')
    loops = [n for n in f.body if isinstance(n, ast.While)]
    if len(loops) != 1:
        raise Unsupported(f'_integrate has {len(loops)} top-level while loops')
    body = loops[0].body
    # the step region starts after the recording block (`if filter_flags: …`) and ends with `time += delta_time`
    i0 = [i + 1 for i, n in enumerate(body) if isinstance(n, ast.If) and ev.dotted(n.test) == 'filter_flags']
    i1 = [i for i, n in enumerate(body) if isinstance(n, ast.AugAssign) and isinstance(n.target, ast.Name) and n.target.id == 'time']
    if len(i0) != 1 or len(i1) != 1 or i1[0] < i0[0]:
        raise Unsupported('the step region of _integrate was not recognised')
    stmts = body[i0[0]:i1[0] + 1]
    grav = ev.ev(find_self_assign(ev, 'TrajectoryCalc', '__init__', 'gravity_vector'), {'self._config.cGravityConstant': Num('gravity')})
    env = {'velocity_vector': vec('s.vel'), 'range_vector': vec('s.pos'), 'time': Num('s.time'), 'wind_vector': vec('wind'),
           'density_factor': Num('density'), 'mach': Num('mach'), 'self.calc_step': Num('calcStep'), 'self.gravity_vector': grav,
           'self.drag_by_mach': Opaque('dbm'), 'self.__class__': 'TrajectoryCalc'}
    r = ev.block(stmts, env)
    if r is not None:
        raise Unsupported('return inside the step region')
    P, V = env['range_vector'], env['velocity_vector']
    v3 = lambda v: f'⟨{num(v.x)}, {num(v.y)}, {num(v.z)}⟩'   # noqa: E731
    return ('/-- the ballistic step of `TrajectoryCalc._integrate` (from `velocity_adjusted = …` to `time += delta_time`) -/\n'
            'def step (calcStep gravity : α) (dbm : α → α) (wind : Model.Vec α) (density mach : α) (s : Model.St α) : Model.StepOut α :=\n'
            f'  ⟨⟨{v3(P)}, {v3(V)}, {num(env["time"])}⟩, {num(env["drag"])}, {num(env["velocity"])}⟩\n')


def generate(repo: Path) -> str:
    repo = Path(repo)
    mods = {k: ast.parse((repo / p).read_text()) for k, p in SOURCES.items()}
    consts = set()
    cm = ast.parse((repo / 'py_ballisticcalc/constants.py').read_text())
    for n in cm.body:
        if isinstance(n, (ast.Assign, ast.AnnAssign)):
            t = n.targets[0] if isinstance(n, ast.Assign) else n.target
            if isinstance(t, ast.Name) and t.id.startswith('c'):
                consts.add(t.id)
    ev = Evaluator(mods, consts)
    out = ['/- GENERATED by translate/t_funcs.py from the function bodies in py_ballisticcalc/conditions.py,',
           '   trajectory_calc/_trajectory_calc.py, vector/_vector.py — do not edit.  One inlined expression per function. -/',
           'import BC.Model.Traj', 'import BC.Model.Sight', 'namespace BC.Gen.Src', 'open BC BC.Gen BC.Model', '',
           'section',
           'variable {α : Type} [Add α] [Sub α] [Mul α] [Div α] [Neg α] [OfScientific α]',
           '  [LT α] [DecidableLT α] [LE α] [DecidableLE α] [Fn α]', '']
    # every definition (or group of slices of one function) is translated on its own: a construct outside the subset in one function
    # leaves a marker and the reason here, breaks exactly the ties that mention the missing definitions, and leaves the others alone
    done, failed = [], []

    def group(names, thunk):
        ev.guards, ev.lets, ev.compose = [], [], set()
        try:
            out.append(thunk())
            done.extend(names)
        except Unsupported as e:
            failed.append((names, str(e)))
            out.append('-- UNSUPPORTED ' + ' '.join(names) + ': ' + str(e).replace('\n', ' ')[:300] + '\n')
        except (KeyError, IndexError, AttributeError, TypeError, AssertionError) as e:     # a shape the slicer did not expect
            failed.append((names, f'{type(e).__name__}: {e}'))
            out.append('-- UNSUPPORTED ' + ' '.join(names) + f': {type(e).__name__}: {e}'.replace('\n', ' ')[:300] + '\n')
    for spec in SPECS:
        group([spec[0]], lambda spec=spec: emit(ev, spec))
    group(['step'], lambda: emit_step(ev))
    for spec in FILTER_SPECS:
        group([spec[0]], lambda spec=spec: emit_filter(ev, spec))
    group(['sock_init', 'sock_vector_for_range', 'sock_current_vector'], lambda: emit_sock(ev))
    group(['initial_state', 'min_step', 'loop_condition', 'limit_reason'], lambda: emit_loop_parts(ev))
    group(['curve_first', 'curve_loop_bounds', 'curve_mid', 'curve_last', 'bsearch_init', 'bsearch_cond', 'bsearch_step', 'curve_select',
           'curve_value'], lambda: emit_curve(ev))
    group(['zero_start', 'zero_distance', 'zero_initial_error', 'zero_initial_count', 'zero_cond', 'zero_error', 'zero_missed',
           'zero_correct', 'zero_fails', 'zero_result'], lambda: emit_zero(ev))
    group(['loop_body'], lambda: emit_loop_body(ev))
    group(['init_trajectory'], lambda: emit_init_trajectory(ev))
    group(['loop_init', 'final_row'], lambda: emit_loop_init(ev))
    group(['stored_zero', 'winds_sort_key'], lambda: emit_zero_glue(ev))
    group(['fire_default_step', 'fire_given_step', 'trajectory_flags', 'trajectory_feet'], lambda: emit_fire(ev))
    group(['apex_init', 'apex_cond', 'apex_rising', 'apex_move_right', 'apex_move_left', 'lookup_distance_cond', 'lookup_time_cond',
           'lookup_time_key', 'lookup_within_deviation', 'lookup_before_is_nearer'], lambda: emit_lookup(ev))
    group(['danger_half', 'danger_begin_danger_hit', 'danger_end_danger_hit'], lambda: emit_danger(ev))
    group(['interp_low', 'interp_low_value', 'interp_high', 'interp_high_value', 'interp_init', 'interp_cond', 'interp_in_segment',
           'interp_value', 'interp_goes_left', 'interp_left_move', 'interp_right_move', 'bcpoint_mach_of_v'], lambda: emit_interp(ev))
    out += ['end', '', 'def translated : List String := [' + ', '.join(f'"{n}"' for n in done) + ']',
            'def untranslated : List String := [' + ', '.join(f'"{n}"' for ns, _ in failed for n in ns) + ']', '', 'end BC.Gen.Src', '']
    generate.failed = failed
    return '\n'.join(out)


if __name__ == '__main__':
    sys.stdout.write(generate(Path(sys.argv[1] if len(sys.argv) > 1 else '/repo')))
