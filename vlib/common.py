"""Shared machinery of the checks: regeneration of the translated Lean modules,
incremental Lean build + axiom audit, driver process, verdict logic, evidence.

Exit codes of a check: 0 = property held on everything explored (known findings are
printed as KNOWN-FINDING lines), 1 = VIOLATION line printed, 2 = internal error/timeout.
"""
import fcntl
import hashlib
import json
import os
import random
import re
import shutil
import struct
import subprocess
import sys
import tempfile
import time
from pathlib import Path

VERIF = Path(__file__).resolve().parent.parent
REPO = Path(os.environ.get('VERIF_REPO', '/repo'))
LEAN = VERIF / 'lean'
EVID = VERIF / 'evidence'
REPLAYS = VERIF / 'replays'
ALLOWED_AXIOMS = {'propext', 'Classical.choice', 'Quot.sound'}
FORBIDDEN = re.compile(r'\b(sorry|admit|native_decide|bv_decide|implemented_by|unsafe)\b|^\s*axiom\s|maxHeartbeats\s+0\b',
                       re.M)

sys.path.insert(0, str(VERIF / 'translate'))


# ---------------------------------------------------------------- floats <-> bits
def f2b(x: float) -> int:
    return struct.unpack('<Q', struct.pack('<d', float(x)))[0]


def b2f(n: int) -> float:
    return struct.unpack('<d', struct.pack('<Q', n))[0]


def ulps(a: float, b: float) -> int:
    """distance in units of last place between two finite doubles (huge if signs differ a lot)"""
    def key(x):
        n = f2b(x)
        return n if n < (1 << 63) else (1 << 63) - n
    return abs(key(a) - key(b))


# ---------------------------------------------------------------- build lock
class BuildLock:
    def __enter__(self):
        self.f = open(LEAN / '.build.lock', 'w')
        fcntl.flock(self.f, fcntl.LOCK_EX)
        return self

    def __exit__(self, *a):
        fcntl.flock(self.f, fcntl.LOCK_UN)
        self.f.close()


# ---------------------------------------------------------------- translators
def _translators():
    import t_units
    reg = {'units': (t_units.generate, LEAN / 'BC/Gen/Units.lean')}
    for name, modname, fn, out in [
        ('consts', 't_consts', 'generate', 'BC/Gen/Consts.lean'),
        ('tables', 't_tables', 'generate', 'BC/Gen/Tables.lean'),
        ('sites', 't_sites', 'generate', 'BC/Gen/Sites.lean'),
        ('rw', 't_rw', 'generate', 'BC/Gen/RW.lean'),
        ('funcs', 't_funcs', 'generate', 'BC/Gen/Funcs.lean'),
    ]:
        try:
            m = __import__(modname)
            reg[name] = (getattr(m, fn), LEAN / out)
        except ImportError:
            pass
    return reg


def regen(names):
    """Regenerate the named Gen modules from REPO. Returns {name: None | error text}.
    A failing translator leaves the previous file in place (the obligation is reported broken)."""
    res = {}
    reg = _translators()
    for n in names:
        gen, out = reg[n]
        try:
            txt = gen(REPO)
            old = out.read_text() if out.exists() else None
            if old != txt:
                out.parent.mkdir(parents=True, exist_ok=True)
                out.write_text(txt)
            res[n] = None
        except Exception as e:  # Unsupported, SyntaxError, missing file ...
            res[n] = f'{type(e).__name__}: {e}'
    return res


# ---------------------------------------------------------------- lean build / audit
def run(cmd, cwd=None, timeout=None, inp=None):
    p = subprocess.run(cmd, cwd=cwd, input=inp, stdout=subprocess.PIPE, stderr=subprocess.STDOUT,
                       text=True, timeout=timeout)
    return p.returncode, p.stdout


def lake_build(targets, timeout=1500):
    rc, out = run(['lake', 'build'] + list(targets), cwd=LEAN, timeout=timeout)
    return rc == 0, out


def theorem_spans(path: Path):
    """[(name, first_line, last_line)] for theorem/lemma/example/def declarations of a Lean file."""
    lines = path.read_text().splitlines()
    starts = []
    pat = re.compile(r'^\s*(?:private\s+|protected\s+|noncomputable\s+)*(theorem|lemma|def|example|instance|abbrev)\s+([^\s:(\[{]+)?')
    for i, l in enumerate(lines, 1):
        m = pat.match(l)
        if m:
            starts.append((m.group(2) or f'example@{i}', i))
    spans = []
    for k, (n, s) in enumerate(starts):
        e = starts[k + 1][1] - 1 if k + 1 < len(starts) else len(lines)
        spans.append((n, s, e))
    return spans


def failing_decls(build_out: str):
    """{relative file: set(decl names)} for every `error: FILE:LINE:COL` of a lake build output."""
    bad = {}
    for m in re.finditer(r'error: (\S+?\.lean):(\d+):(\d+)', build_out):
        f, line = m.group(1), int(m.group(2))
        p = LEAN / f
        if not p.exists():
            continue
        name = None
        for n, s, e in theorem_spans(p):
            if s <= line <= e:
                name = n
        bad.setdefault(f, set()).add(name or f'line{line}')
    return bad


def audit(prop_id, theorems, module=None):
    """Runs `#print axioms` for the property theorems. Returns {theorem: (ok, axioms|error)}.
    `module`: the Lean module to import when it is not BC.Props.<id> (the source-tie modules BC.Props.<id>Src, whose theorems
    live in the same namespace BC.Props.<id>)."""
    ns = f'BC.Props.{prop_id}'
    body = f'import {module or ns}\n' + ''.join(f'#print axioms {ns}.{t}\n' for t in theorems)
    adir = LEAN / '.audit'
    adir.mkdir(exist_ok=True)
    f = adir / (f'{prop_id}.lean' if module is None else module.split('.')[-1] + '.lean')
    f.write_text(body)
    rc, out = run(['lake', 'env', 'lean', str(f)], cwd=LEAN, timeout=600)
    res = {}
    # messages look like:  'BC.Props.C06.C06_round_trip' depends on axioms: [propext, Classical.choice, Quot.sound]
    #                  or  'X' does not depend on any axioms
    flat = re.sub(r'\s+', ' ', out)
    for t in theorems:
        full = f'{ns}.{t}'
        m = re.search(r"'" + re.escape(full) + r"' depends on axioms: \[([^\]]*)\]", flat)
        if m:
            ax = {a.strip() for a in m.group(1).split(',') if a.strip()}
            res[t] = (ax <= ALLOWED_AXIOMS, sorted(ax))
        elif re.search(r"'" + re.escape(full) + r"' does not depend on any axioms", flat):
            res[t] = (True, [])
        else:
            res[t] = (False, 'not found in audit output: ' + out[-400:])
    return res


def strip_lean_comments(s: str) -> str:
    s = re.sub(r'/-.*?-/', ' ', s, flags=re.S)
    s = re.sub(r'--.*', ' ', s)
    return s


def forbidden_tokens():
    hits = []
    for p in list((LEAN / 'BC').rglob('*.lean')) + list((LEAN / 'Driver').rglob('*.lean')):
        s = strip_lean_comments(p.read_text())
        for m in FORBIDDEN.finditer(s):
            hits.append(f'{p.relative_to(LEAN)}: {m.group(0).strip()}')
    return hits


# ---------------------------------------------------------------- driver
class Driver:
    """Batch use of the compiled model driver: all operation lines in, all answers out."""

    def __init__(self):
        src = LEAN / '.lake/build/bin/bcdrv'
        self.tmp = tempfile.mkdtemp(prefix='bcdrv')
        self.exe = Path(self.tmp) / 'bcdrv'
        shutil.copy2(src, self.exe)

    def run(self, lines, timeout=1200):
        if not lines:
            return []
        inp = '\n'.join(lines) + '\n'
        p = subprocess.run([str(self.exe)], input=inp, stdout=subprocess.PIPE, stderr=subprocess.PIPE,
                           text=True, timeout=timeout)
        out = p.stdout.splitlines()
        if len(out) != len(lines):
            raise RuntimeError(f'driver answered {len(out)} lines for {len(lines)} ops; rc={p.returncode} '
                               f'stderr={p.stderr[-300:]}')
        return out

    def close(self):
        shutil.rmtree(self.tmp, ignore_errors=True)


def compare_tokens(py: str, lean: str, max_ulps: int):
    """-> 'bit' | 'tol' | 'mismatch'.  Tokens `f<bits>` are floats; everything else must be equal."""
    if py == lean:
        return 'bit'
    a, b = py.split(), lean.split()
    if len(a) != len(b):
        return 'mismatch'
    for x, y in zip(a, b):
        if x == y:
            continue
        if x[:1] == 'f' and y[:1] == 'f' and x[1:].isdigit() and y[1:].isdigit():
            fx, fy = b2f(int(x[1:])), b2f(int(y[1:]))
            if fx != fx and fy != fy:
                continue
            if fx != fx or fy != fy:
                return 'mismatch'
            if fx == fy or ulps(fx, fy) <= max_ulps:
                continue
            return 'mismatch'
        return 'mismatch'
    return 'tol'


class Corr:
    """Accumulates correspondence cases for one op: python answer vs driver answer."""

    def __init__(self, op, max_ulps=0, rel=0.0):
        self.op = op
        self.max_ulps = max_ulps
        self.rel = rel
        self.lines = []
        self.py = []
        self.meta = []

    def add(self, line, py_answer, meta=None):
        self.lines.append(line)
        self.py.append(py_answer)
        self.meta.append(meta)

    def finish(self, drv):
        out = drv.run(self.lines)
        bit = tol = over_budget = 0
        mism = []
        for i, (p, l) in enumerate(zip(self.py, out)):
            r = compare_tokens(p, l, self.max_ulps)
            if p == 'err:timeout' and l.strip() == 'err:fuel':
                # the real call exceeded the per-call time limit and the model exhausted its 2 000 000 steps: both say "longer than any
                # run of interest"; counted apart, not as agreement on a result
                r = 'tol'
                over_budget += 1
            if r == 'mismatch' and self.rel > 0 and rel_close(p, l, self.rel):
                r = 'tol'
            if r == 'mismatch' and _runaway(p) and _runaway(l):
                # both the implementation and the model ran away to non-physical magnitudes (> 1e13: a drag curve that goes negative
                # accelerates the projectile without bound; the two then differ chaotically in the last bits that came before): counted
                # apart, not as agreement on a result and not as a disagreement
                r = 'tol'
                over_budget += 1
            if r == 'bit':
                bit += 1
            elif r == 'tol':
                tol += 1
            else:
                mism.append({'op_line': self.lines[i][:2000], 'python': p[:2000], 'model': l[:2000], 'meta': self.meta[i]})
        return {'op': self.op, 'cases': len(self.lines), 'bit_identical': bit, 'within_tolerance': tol, 'both_over_budget': over_budget,
                'mismatch': len(mism), 'mismatches': mism[:5]}


def _runaway(ans):
    for t in ans.split():
        if t[:1] == 'f' and t[1:].isdigit():
            v = b2f(int(t[1:]))
            if v == v and abs(v) > 1e13 and abs(v) != float("inf"):
                return True
    return False


def rel_close(py, lean, rel):
    a, b = py.split(), lean.split()
    if len(a) != len(b):
        return False
    for x, y in zip(a, b):
        if x == y:
            continue
        if x[:1] == 'f' and y[:1] == 'f' and x[1:].isdigit() and y[1:].isdigit():
            fx, fy = b2f(int(x[1:])), b2f(int(y[1:]))
            if fx == fy or abs(fx - fy) <= rel * max(abs(fx), abs(fy), 1e-300) or abs(fx - fy) < 1e-12:
                continue
        return False
    return True


# ---------------------------------------------------------------- known findings / verdict
def load_known(prop_id):
    p = VERIF / 'known_findings.json'
    if not p.exists():
        return []
    return [e for e in json.loads(p.read_text()) if e.get('property') == prop_id and e.get('status') == 'open']


class Failure:
    """A concrete input on which the property fails on the real code."""

    def __init__(self, key, what, replay):
        self.key = key          # input-class key, matched against known_findings.json
        self.what = what
        self.replay = replay    # JSON-able dict: op, inputs, observed, expected, python snippet


def write_replay(prop_id, payload):
    REPLAYS.mkdir(exist_ok=True)
    txt = json.dumps(payload, indent=1, sort_keys=True, default=str)
    h = hashlib.sha1(txt.encode()).hexdigest()[:10]
    p = REPLAYS / f'{prop_id}-{h}.json'
    p.write_text(txt)
    return p


class Check:
    def __init__(self, prop_id, tier):
        self.id = prop_id
        self.tier = tier
        self.seed = int(os.environ.get('VERIF_SEED', '0'))
        self.rng = random.Random(f'{prop_id}-{self.seed}')
        self.t0 = time.time()
        self.obligations = []   # dict(name, kind, ok, detail)
        self.corr = []
        self.failures = []
        self.samples = []
        self.notes = []
        self.stats = {}
        self.search_evals = 0
        self.search_t0 = time.time()
        self.search_budget = 1e9

    def start_search(self, broken):
        """time box of the property-level search: it is a bounded effort, enlarged when an obligation broke"""
        self.search_t0 = time.time()
        self.search_budget = {('quick', False): 120, ('quick', True): 300, ('thorough', False): 1200, ('thorough', True): 2400}[(self.tier, bool(broken))]
        self.search_enlarged = bool(broken)
        self.known_keys = {k['key'] for k in load_known(self.id)}

    def over(self):
        # the enlarged search (an obligation broke) is there to FIND a failing input: a few unlisted ones are enough
        if getattr(self, 'search_enlarged', False) and sum(1 for f in self.failures if f.key not in self.known_keys) >= 3:
            return True
        if time.time() - self.search_t0 > self.search_budget:
            if 'search stopped at its time box' not in self.notes:
                self.notes.append('search stopped at its time box')
            return True
        return False

    def oblige(self, name, kind, ok, detail=''):
        self.obligations.append({'name': name, 'kind': kind, 'ok': bool(ok), 'detail': str(detail)[:1500]})

    def broken(self):
        return [o for o in self.obligations if not o['ok']]

    def elapsed(self):
        return time.time() - self.t0


def standard_build(chk: Check, gens, targets, theorems, prop_files, src=None):
    """regenerate -> build -> audit -> token grep; records obligations on chk. Returns Driver or None.
    `src` = {'module', 'file', 'theorems'}: the source-tie module of the property (theorems `Src.f = Model.f` over the function
    bodies regenerated by translate/t_funcs.py); built and audited on its own, so that a tie that no longer checks is
    reported as that tie and does not hide the state of the other theorems."""
    drv = None
    srcs = [] if not src else (list(src) if isinstance(src, (list, tuple)) else [src])
    with BuildLock():
        if any(x.get('funcs', True) for x in srcs) and 'funcs' not in gens:
            gens = list(gens) + ['funcs']
        rg = regen(gens)
        for g, err in rg.items():
            chk.oblige(f'translate:{g}', 'translation', err is None, err or 'regenerated from ' + str(REPO))
        for src in [x for x in srcs if x.get('funcs', True)]:
            # function bodies are translated one by one: a body outside the translator's subset breaks the ties of the properties that
            # mention it (and only those)
            try:
                import t_funcs
                used = ''.join((LEAN / f).read_text() for f in [src['file']] + list(src.get('lemma_files', [])) if (LEAN / f).exists())
                for names, why in getattr(t_funcs.generate, 'failed', []):
                    hit = [n for n in names if re.search(r'Src\.' + re.escape(n) + r'\b', used)]
                    if hit:
                        chk.oblige('translate:funcs:' + hit[0], 'translation', False,
                                   f'not translatable any more ({why}); source ties that mention {", ".join(hit)} cannot be checked')
            except Exception as e:  # noqa
                chk.notes.append(f'could not read the translator report: {e}')
        ok, out = lake_build(list(targets) + [x['module'] for x in srcs] + ['bcdrv'])
        bad = failing_decls(out) if not ok else {}
        if not ok and not bad:
            # build failed without a located error: everything downstream is unknown
            chk.oblige('lake-build', 'build', False, out[-1500:])
        # driver: is the executable there and fresh?
        drv_ok = ok or not any(f.startswith('Driver/') or f.startswith('BC/Model') or (f.startswith('BC/Gen') and f != 'BC/Gen/Funcs.lean')
                               or f == 'BC/Num.lean' for f in bad)
        if not ok and drv_ok:
            ok2, out2 = lake_build(['bcdrv'])
            drv_ok = ok2
            if not ok2:
                out += out2
        if drv_ok and (LEAN / '.lake/build/bin/bcdrv').exists():
            drv = Driver()
        else:
            chk.oblige('driver-build', 'build', False, out[-1500:])
        bad_here = set()
        for f in prop_files:
            bad_here |= bad.get(f, set())
        # the regenerated function bodies are imported by the source-tie modules only
        src_side = {'BC/Gen/Funcs.lean'}
        for x in srcs:
            src_side |= {x['file']} | set(x.get('lemma_files', []))
        other_bad = {f: v for f, v in bad.items() if f not in prop_files and f not in src_side}
        if other_bad:
            chk.oblige('lean-build-deps', 'build', False, json.dumps({k: sorted(map(str, v)) for k, v in other_bad.items()}))
        main_ok = ok or (bool(bad) and not other_bad and not bad_here)     # only the source-tie module failed
        aud = audit(chk.id, theorems) if main_ok else {}
        for src in srcs:
            src_file = src['file']
            sbad = bad.get(src_file, set())
            if 'BC/Gen/Funcs.lean' in bad:
                chk.oblige('translate:funcs-typechecks', 'translation', False,
                           'BC/Gen/Funcs.lean does not compile: ' + ', '.join(sorted(map(str, bad['BC/Gen/Funcs.lean']))))
                sbad = sbad | {'BC/Gen/Funcs.lean'}
            for lf in src.get('lemma_files', []):
                if lf in bad:
                    sbad = sbad | {f'{lf}:{n}' for n in map(str, bad[lf])}
            saud = audit(chk.id, src['theorems'], src['module']) if (ok or (bool(bad) and not other_bad and not sbad)) else {}
            skind = src.get('kind', 'source-tie')
            for t in src['theorems']:
                if t in sbad:
                    chk.oblige(f'theorem:{t}', skind, False,
                               'does not compile against the regenerated definitions' if skind != 'source-tie' else
                               'the function body regenerated from the source no longer equals the model function (tie does not compile)')
                elif t in saud:
                    a_ok, ax = saud[t]
                    chk.oblige(f'theorem:{t}', skind, a_ok, f'axioms={ax}')
                else:
                    chk.oblige(f'theorem:{t}', skind, False, 'not checked: ' + (', '.join(sorted(map(str, sbad))) or 'a dependency failed to build'))
            extra = sbad - set(src['theorems'])
            if extra:
                chk.oblige('source-tie-file', 'source-tie', False, f'declarations failing in {src_file}: {sorted(map(str, extra))}')
        for t in theorems:
            if t in bad_here:
                chk.oblige(f'theorem:{t}', 'theorem', False, 'does not compile against the regenerated model')
            elif t in aud:
                a_ok, ax = aud[t]
                chk.oblige(f'theorem:{t}', 'theorem', a_ok, f'axioms={ax}')
            elif bad_here:
                chk.oblige(f'theorem:{t}', 'theorem', False, 'not audited in this run: the property file did not compile because of '
                           + ', '.join(sorted(map(str, bad_here))))
            else:
                chk.oblige(f'theorem:{t}', 'theorem', False, 'not checked (build of a dependency failed)')
        extra_bad = bad_here - set(theorems)
        if extra_bad:
            chk.oblige('theorem-file', 'theorem', False, f'declarations failing in property file: {sorted(map(str, extra_bad))}')
    hits = forbidden_tokens()
    chk.oblige('no-forbidden-tokens', 'audit', not hits, '; '.join(hits[:10]))
    chk.stats['build_s'] = round(chk.elapsed(), 1)
    return drv


def finish(chk: Check, trusted_base, assumptions, rule, theorem_statements=None):
    """verdict + evidence; exits the process."""
    known = load_known(chk.id)
    known_keys = {e['key']: e for e in known}
    reported_known = set()
    new_fail = []
    for f in chk.failures:
        if f.key in known_keys:
            reported_known.add(f.key)
        else:
            new_fail.append(f)
    for k in sorted(reported_known):
        print(f"KNOWN-FINDING: property={chk.id} {known_keys[k]['what_fails']}")
    for e in known:
        if e['key'] not in reported_known:
            chk.notes.append(f"known finding {e['key']} not reproduced in this run")
    broken = chk.broken()
    violations = 0
    lines = []
    seen_keys = set()
    for f in new_fail:
        if f.key in seen_keys:
            continue
        seen_keys.add(f.key)
        p = write_replay(chk.id, {'property': chk.id, 'kind': 'failing-input', 'key': f.key, 'what': f.what, **f.replay})
        lines.append(f'VIOLATION property={chk.id} replay={p}')
        violations += 1
    if broken and not new_fail:
        p = write_replay(chk.id, {'property': chk.id, 'kind': 'obligation-broken',
                                  'broken': broken, 'correspondence': [c for c in chk.corr if c['mismatch']],
                                  'note': 'a theorem / translation / correspondence obligation no longer checks and the '
                                          'search found no input on which the property fails on the real code'})
        lines.append(f'VIOLATION property={chk.id} replay={p} no-failing-input-found')
        violations += 1
    n_obl = len(chk.obligations)
    n_ok = sum(1 for o in chk.obligations if o['ok'])
    corr_cases = sum(c['cases'] for c in chk.corr)
    cov = {
        'obligations': n_obl,
        'discharged': n_ok,
        'checker_cmd': f'cd {LEAN} && lake build BC.Props.{chk.id} && lake env lean .audit/{chk.id}.lean  (Lean 4.33.0 kernel; '
                       f'thorough tier adds: lake env leanchecker BC.Props.{chk.id})',
        'trusted_base': trusted_base,
        'obligation_list': chk.obligations,
        'theorem_statements': theorem_statements or {},
        'correspondence': chk.corr,
        'evaluations': corr_cases + chk.search_evals,
        'traces_validated_against_impl': corr_cases,
        'search_evaluations': chk.search_evals,
        'rule': rule,
        'samples': chk.samples[:12],
        'stats': chk.stats,
        'notes': chk.notes,
        'known_findings_reproduced': sorted(reported_known),
    }
    if 'distinct_nontrivial' in chk.stats:
        cov['distinct_nontrivial'] = chk.stats['distinct_nontrivial']
    ev = {
        'property_id': chk.id, 'tier': chk.tier, 'seed': chk.seed, 'level': 'proof',
        'coverage': cov, 'assumptions': assumptions, 'wall_s': round(chk.elapsed(), 2), 'violations': violations,
    }
    EVID.mkdir(exist_ok=True)
    (EVID / f'{chk.id}.json').write_text(json.dumps(ev, indent=1, default=str))
    for l in lines:
        print(l)
    print(f'[{chk.id}] tier={chk.tier} seed={chk.seed} obligations={n_ok}/{n_obl} corr_cases={corr_cases} '
          f'search_evals={chk.search_evals} failures={len(chk.failures)} (known={len(reported_known)}) '
          f'wall={chk.elapsed():.1f}s')
    sys.stdout.flush()
    sys.exit(1 if violations else 0)


def import_repo():
    """import py_ballisticcalc from REPO's working tree (quietly)."""
    import warnings
    warnings.filterwarnings('ignore')
    warnings.showwarning = lambda *a, **k: None   # _integrate calls warnings.simplefilter("once"), which re-enables output
    if str(REPO) not in sys.path:
        sys.path.insert(0, str(REPO))
    import logging
    logging.getLogger('py_balcalc').setLevel(logging.CRITICAL)
    import py_ballisticcalc
    logging.getLogger('py_balcalc').setLevel(logging.CRITICAL)
    assert Path(py_ballisticcalc.__file__).resolve().parent.parent == REPO.resolve(), \
        f'py_ballisticcalc imported from {py_ballisticcalc.__file__}, expected {REPO}'
    return py_ballisticcalc


def leanchecker(chk: Check, targets):
    """thorough tier: independent re-check of the compiled .olean files of the property modules."""
    try:
        rc, out = run(['lake', 'env', 'leanchecker'] + list(targets), cwd=LEAN, timeout=1800)
        chk.oblige('leanchecker', 'audit', rc == 0, out[-600:])
    except subprocess.TimeoutExpired:
        chk.notes.append('leanchecker timed out (not counted)')


def generic_replay(path):
    """Re-executes a replay file against the current tree: prints what the stored Python snippet gives now."""
    d = json.loads(Path(path).read_text())
    print(json.dumps({k: d[k] for k in d if k not in ('broken', 'correspondence')}, indent=1)[:3000])
    if 'python' in d:
        import_repo()
        code = d['python']
        *stmts, last = [s.strip() for s in code.split(';')]
        env = {}
        exec('; '.join(stmts), env)
        val = eval(last, env)
        print('observed now:', repr(val), ' recorded observed:', d.get('observed'), ' expected:', d.get('expected'))
    sys.exit(0)
