"""C01 — the trajectory is the solution of the point-mass equations of motion."""
import copy
import math

from vlib.common import Failure, import_repo
from vlib import shotgen as sg
from vlib import trajcorr

ID = 'C01'
GENS = ['units', 'consts']
TARGETS = ['BC.Props.C01']
PROP_FILES = ['BC/Props/C01.lean', 'BC/Lemmas/Vec.lean', 'BC/Lemmas/C01Conv.lean']
# source ties: function bodies regenerated from the Python source by translate/t_funcs.py, proved equal to the model functions
SRC = {'module': 'BC.Props.C01Src', 'file': 'BC/Props/C01Src.lean',
       'theorems': ['C01_src_step', 'C01_src_initial_state', 'C01_src_vec_magnitude', 'C01_src_vec_mul_by_const', 'C01_src_vec_add', 'C01_src_vec_sub', 'C01_src_wind_vector', 'C01_src_barrel_elevation', 'C01_src_barrel_azimuth', 'C01_src_drag_by_mach']}
THEOREMS = ['C01_step_is_scheme', 'C01_iterate_physics', 'C01_env_of_shot', 'C01_initial_state', 'C01_barrel_direction',
            'C01_vacuum_closed_form', 'C01_vacuum_bound', 'C01_converges_partial', 'C01_first_order', 'C01_model_converges_partial']
STATEMENTS = {
    'C01_src_step': 'SOURCE TIE (all C01_src_*): the statements of the while loop of TrajectoryCalc._integrate from velocity_adjusted = ... to time += delta_time, executed symbolically with the Vector operators inlined, ARE Model.step (rfl); likewise Vector.magnitude/mul_by_const/add/subtract, Wind.vector, Shot.barrel_elevation/azimuth, drag_by_mach',
    'C01_step_is_scheme': 'the loop body is semi-implicit Euler for accel = g - rho |v-w| dbm(|v-w|/c) (v-w): v\' = v + dt accel, r\' = r + dt v\', dt = calc_step/max(1,|v-w|)',
    'C01_iterate_physics': 'every iteration applies that step with the wind of the segment active at the projectile\'s x and the atmosphere at station altitude + y',
    'C01_env_of_shot': 'environment of a real shot: atmosphere altitude law, cd*2.08551e-4/BC, calc_step = max step/2, configured gravity, launch speed for the powder temperature',
    'C01_initial_state': 'muzzle = (0, -cos(cant) sh, -sin(cant) sh); velocity = mv (cos e cos a, sin e, cos e sin a); |v0| = |mv|',
    'C01_barrel_direction': 'elevation = look + cos(cant)(zero + rel), azimuth = sin(cant)(zero + rel); un-canted: vertical plane at look + zero + rel',
    'C01_vacuum_closed_form': 'density 0, ANY number of steps, ANY step-size sequence: x, z, v exact parabola; y = parabola + (g/2) sum dt^2',
    'C01_converges_partial': 'PARTIAL (stability and consistency of the step map are hypotheses): any one-step scheme that expands distances by <= 1+rho and reproduces the sampled '
                             'exact solution up to eps per step is within eps*n*exp(rho*n) after n steps (discrete Lax/Groenwall)',
    'C01_first_order': 'PARTIAL: with rho = L h and eps = C h^2 the error is <= C h T exp(L T), T = n h: first order in the maximum step',
    'C01_model_converges_partial': 'PARTIAL: instance for the model\'s own step map in a fixed environment, for every distance on states',
    'C01_vacuum_bound': '|y - parabola| <= |g|/2 * calc_step * t',
}
TRUSTED = [
    'Lean 4.33.0 kernel; Mathlib; axioms propext, Classical.choice, Quot.sound',
    'hand-written model BC/Model/Traj.lean tied to _integrate by bit-exact correspondence of whole trajectories (op fire) and of the initial state (op init) over '
    'wind segments, look/cant/zero/relative angles, station atmospheres, custom and shipped tables, solver step sizes',
    'CONVERGENCE is proved only conditionally (C01_converges_partial: Lipschitz stability and O(h^2) consistency of the step map are hypotheses; the real field is '
    'only piecewise Lipschitz: wind switches, curve-segment switches, the 30-ft shortcut); unconditionally the theorems identify the scheme and give the exact vacuum '
    'error term; first-order convergence for real drag and the Richardson clause are covered by the search against an independent RK4 reference',
]
ASSUME = ['the reference integrates the same black-box coefficient functions (Atmo.get_density_factor_and_mach_for_altitude, TrajectoryCalc.drag_by_mach), as the property\'s '
          'observe_at prescribes, with classical RK4 at 1/32 of the solver step']
RULE = ('forward shots (shipped tables, BC, mv, sight height, look/zero/relative/cant angles, station atmosphere incl. altitude, 0-3 wind segments) at the default and two '
        'refined step sizes vs an RK4 reference; vacuum shots vs the closed-form parabola; distinct_nontrivial = distinct fire lines with >= 3 rows')


def correspondence(chk, drv):
    pbc = import_repo()
    n = 40 if chk.tier == 'quick' else 3000
    trajcorr.corr_fire(chk, drv, pbc, n, cfg_default=0.6)
    trajcorr.corr_init(chk, drv, pbc, n)


def rk4_reference(pbc, calc, shot, xs, h):
    """classical RK4 in time on the stated vector field; returns {x: (y, z, speed, t)} at the requested down-range distances"""
    U = pbc.Unit
    tc = calc._calc
    tc._init_trajectory(shot)
    alt0 = tc.alt0
    g = tc.gravity_vector.y
    winds = [(w.until_distance >> U.Foot, w.vector) for w in shot.winds]

    def wind_at(x):
        for until, vec in winds:
            if x < until:
                return vec
        return pbc.Vector(0.0, 0.0, 0.0)

    def acc(r, v):
        w = wind_at(r[0])
        va = (v[0] - w.x, v[1] - w.y, v[2] - w.z)
        sp = math.sqrt(va[0] ** 2 + va[1] ** 2 + va[2] ** 2)
        rho, c = shot.atmo.get_density_factor_and_mach_for_altitude(alt0 + r[1])
        k = rho * sp * tc.drag_by_mach(sp / c)
        return (-k * va[0], g - k * va[1], -k * va[2])

    # launch state written from the property text, NOT read back from the calculator: barrel direction implied by look / zero /
    # relative / cant angles, muzzle displaced by the canted sight height, speed = the ammunition's velocity for the powder temperature
    look, cant = shot.look_angle >> U.Radian, shot.cant_angle >> U.Radian
    hold = (shot.weapon.zero_elevation >> U.Radian) + (shot.relative_angle >> U.Radian)
    be, az = look + math.cos(cant) * hold, math.sin(cant) * hold
    mv = shot.ammo.get_velocity_for_temp(shot.atmo.powder_temp) >> U.FPS
    sh = shot.weapon.sight_height >> U.Foot
    r = (0.0, -math.cos(cant) * sh, -math.sin(cant) * sh)
    v = (mv * math.cos(be) * math.cos(az), mv * math.sin(be), mv * math.cos(be) * math.sin(az))
    t = 0.0
    out = {}
    targets = sorted(xs)
    ti = 0
    while ti < len(targets) and targets[ti] <= 0:
        out[targets[ti]] = (r[1], r[2], math.sqrt(sum(c * c for c in v)), 0.0)
        ti += 1
    steps = 0
    while ti < len(targets) and steps < 5_000_000:
        sp = math.sqrt(sum(c * c for c in v))
        dt = h / max(1.0, sp)

        def add(a, b, s):
            return (a[0] + s * b[0], a[1] + s * b[1], a[2] + s * b[2])
        k1v, k1r = acc(r, v), v
        k2v, k2r = acc(add(r, k1r, dt / 2), add(v, k1v, dt / 2)), add(v, k1v, dt / 2)
        k3v, k3r = acc(add(r, k2r, dt / 2), add(v, k2v, dt / 2)), add(v, k2v, dt / 2)
        k4v, k4r = acc(add(r, k3r, dt), add(v, k3v, dt)), add(v, k3v, dt)
        r2 = tuple(r[i] + dt / 6 * (k1r[i] + 2 * k2r[i] + 2 * k3r[i] + k4r[i]) for i in range(3))
        v2 = tuple(v[i] + dt / 6 * (k1v[i] + 2 * k2v[i] + 2 * k3v[i] + k4v[i]) for i in range(3))
        while ti < len(targets) and r2[0] >= targets[ti]:
            f = (targets[ti] - r[0]) / (r2[0] - r[0])
            vv = tuple(v[i] + f * (v2[i] - v[i]) for i in range(3))
            out[targets[ti]] = (r[1] + f * (r2[1] - r[1]), r[2] + f * (r2[2] - r[2]), math.sqrt(sum(c * c for c in vv)), t + f * dt)
            ti += 1
        r, v, t = r2, v2, t + dt
        steps += 1
        if v[0] <= 0:
            break
    return out


def search(chk, broken):
    pbc = import_repo()
    U = pbc.Unit
    rng = chk.rng
    n = 4 if (chk.tier == 'quick' and not broken) else 150
    evals = 0
    for it in range(n):
        if chk.over():
            break
        h0 = 0.5
        shot, _ = sg.gen_shot(pbc, rng, flat=True, max_look=25, table=getattr(pbc, rng.choice(sg.TABLE_NAMES)))
        if shot.atmo.density_ratio == 0:
            continue
        shot.weapon.twist = U.Inch(0)    # spin drift is an add-on to the point-mass solution (C05)
        # keep wind boundaries away from recorded distances so a row is not compared across a one-step ambiguity
        R = rng.choice([600.0, 1200.0])
        step = R / 6
        calcs = [pbc.Calculator(_config={'max_calc_step_size_feet': h}) for h in (h0, h0 / 2, h0 / 4)]
        if rng.random() < 0.6:
            # long-used calculators: they have just served a SIBLING projectile — same BC, same Mach grid of the drag table, other drag
            # coefficients (a re-fitted custom table, a form-factor-scaled table); the next shot flies on its own drag curve
            sib = copy.copy(shot)
            f = rng.choice([0.6, 0.8, 1.3])
            sib.ammo = copy.copy(shot.ammo)
            sib.ammo.dm = pbc.DragModel(shot.ammo.dm.BC, [{'Mach': p.Mach, 'CD': p.CD * f} for p in shot.ammo.dm.drag_table],
                                        shot.ammo.dm.weight, shot.ammo.dm.diameter, shot.ammo.dm.length)
            for c in calcs:
                try:
                    c.fire(sib, U.Foot(300.0), U.Foot(100.0))
                except Exception:  # noqa
                    pass
        try:
            runs = [c.fire(shot, U.Foot(R), U.Foot(step)).trajectory for c in calcs]
        except pbc.RangeError:
            continue
        if not (len(runs[0]) == len(runs[1]) == len(runs[2])):
            continue
        xs = [r.distance >> U.Foot for r in runs[0]]
        ref = rk4_reference(pbc, pbc.Calculator(_config={'max_calc_step_size_feet': h0}), shot, xs, h0 / 32)   # coefficient functions from a calculator of its own
        evals += 1
        desc = {'op': 'ode', 'range_ft': R, 'mv_fps': shot.ammo.mv >> U.FPS, 'bc': shot.ammo.dm.BC, 'look_deg': shot.look_angle >> U.Degree,
                'cant_deg': shot.cant_angle >> U.Degree, 'alt_ft': shot.atmo.altitude >> U.Foot, 'winds': [(w.velocity >> U.FPS, w.direction_from >> U.Degree, w.until_distance >> U.Foot) for w in shot.winds]}
        # A wind segment switches up to one step late.  That part of the error is a SAWTOOTH in h (it does not shrink monotonically under
        # halving); its size follows from the physics: a wind change dw acting one step (h / v) too late changes the velocity by
        # D * dw * h / v (D = deceleration rate, 1/s, estimated from the rows themselves), and the position by that times the time
        # of flight.  Zero when no segment ends inside the range.
        n_sw = sum(1 for w in shot.winds if (w.until_distance >> U.Foot) < R)
        if n_sw:
            sp = [(r.velocity >> U.FPS, r.time) for r in runs[0]]
            D = max([abs(v0 - v1) / (max(t1 - t0, 1e-9) * v0) for (v0, t0), (v1, t1) in zip(sp, sp[1:])] + [0.0])
            w_max = max(w.velocity >> U.FPS for w in shot.winds)
            v_min = max(min(v for v, _ in sp), 1.0)
            dv = 2.0 * n_sw * D * 2.0 * w_max * h0 / v_min
            saw = {'height': dv, 'windage': dv, 'speed': dv, 'time': dv * sp[-1][1] / v_min + 1e-9}
        else:
            saw = {'height': 0.0, 'windage': 0.0, 'speed': 0.0, 'time': 0.0}
        for k, x in enumerate(xs):
            if x not in ref:
                continue
            ry, rz, rs, rt = ref[x]
            for name, get, refv in [('height', lambda r: r.height >> U.Foot, ry), ('windage', lambda r: r.windage >> U.Foot, rz),
                                    ('speed', lambda r: r.velocity >> U.FPS, rs), ('time', lambda r: r.time, rt)]:
                a, b, c = get(runs[0][k]), get(runs[1][k]), get(runs[2][k])
                err0, err1, err2 = abs(a - refv), abs(b - refv), abs(c - refv)
                # first-order estimate of the discretisation error from the solver's own refinements (the wind-switch delay is a
                # sawtooth in h, so the larger of the two successive estimates is used and the bound `saw` computed above is added)
                change = max(abs(a - b), 2 * abs(b - c))
                scale = max(abs(refv), 1e-3)
                floor = 2e-7 * scale + 1e-7
                # at the default step: error no more than the solver's own first-order discretisation error (a small multiple of the change under halving)
                abs_floor = saw[name] * max(runs[0][k].time, 1e-3) if name in ('height', 'windage') else saw[name]
                if err0 > 4.0 * change + floor + abs_floor:
                    chk.failures.append(Failure(f'not-the-ode-solution:{name}',
                                                f'{name} at {x:.0f} ft: solver {a!r}, reference {refv!r}: error {err0:.3e} exceeds 4 x the change under step halving {change:.3e}',
                                                {**desc, 'x_ft': x, 'quantity': name, 'observed': a, 'expected': refv, 'change_under_halving': change}))
                    break
                # convergence: the error shrinks as the step is refined
                # (below the sawtooth bound a non-monotone error is not evidence against convergence)
                if err0 > max(50 * floor, abs_floor) and not (err2 < 0.6 * err0):
                    chk.failures.append(Failure(f'no-convergence:{name}',
                                                f'{name} at {x:.0f} ft: errors {err0:.3e}, {err1:.3e}, {err2:.3e} at steps h, h/2, h/4 do not shrink',
                                                {**desc, 'x_ft': x, 'quantity': name, 'errors': [err0, err1, err2]}))
                    break
    # vacuum: closed-form parabola under the configured (standard) gravity
    for it in range(3 if (chk.tier == 'quick' and not broken) else 60):
        if chk.over():
            break
        shot, _ = sg.gen_shot(pbc, rng, flat=True, allow_cant=False, max_look=30, atmo=pbc.Vacuum(U.Foot(rng.uniform(0, 5000))))
        shot.weapon.twist = U.Inch(0)
        calc = pbc.Calculator()
        R = rng.choice([600.0, 1500.0])
        try:
            rows = calc.fire(shot, U.Foot(R), U.Foot(R / 5)).trajectory
        except pbc.RangeError:
            continue
        # launch state from the property text (un-canted here), not read back from the calculator
        be = (shot.look_angle >> U.Radian) + (shot.weapon.zero_elevation >> U.Radian) + (shot.relative_angle >> U.Radian)
        mv, g, hh = shot.ammo.get_velocity_for_temp(shot.atmo.powder_temp) >> U.FPS, -32.17405, 0.25
        y0 = -(shot.weapon.sight_height >> U.Foot)
        evals += 1
        for r in rows:
            t = r.time
            x_exp, y_exp = mv * math.cos(be) * t, y0 + mv * math.sin(be) * t + g * t * t / 2
            dev_allowed = abs(g) / 2 * hh * t + 1e-9 * max(1.0, abs(y_exp))
            if abs((r.distance >> U.Foot) - x_exp) > 1e-9 * max(1.0, x_exp) or abs((r.height >> U.Foot) - y_exp) > dev_allowed * 1.01 \
                    or abs((r.velocity >> U.FPS) - math.hypot(mv * math.cos(be), mv * math.sin(be) + g * t)) > 1e-9 * mv:
                chk.failures.append(Failure('vacuum-parabola', f'vacuum shot at t={t:.4f}s: (x, y) = ({r.distance >> U.Foot}, {r.height >> U.Foot}), closed form ({x_exp}, {y_exp}) '
                                                               f'+- {dev_allowed:.2e}', {'op': 'vacuum', 't': t, 'mv_fps': mv, 'elevation_rad': be}))
                break
    chk.search_evals += evals
