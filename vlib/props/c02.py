"""C02 — zeroing returns an elevation that actually hits the point of aim."""
import copy
import math

from vlib.common import Failure, import_repo
from vlib import shotgen as sg
from vlib import trajcorr

ID = 'C02'
GENS = ['units', 'consts']
TARGETS = ['BC.Props.C02']
PROP_FILES = ['BC/Props/C02.lean', 'BC/Lemmas/Loop.lean', 'BC/Lemmas/C02.lean']
# source ties: function bodies regenerated from the Python source by translate/t_funcs.py, proved equal to the model functions
SRC = {'module': 'BC.Props.C02Src', 'file': 'BC/Props/C02Src.lean',
       'theorems': ['C02_src_zero_error', 'C02_src_zero_correct', 'C02_src_zero_loop_step', 'C02_src_zero_loop_end', 'C02_src_zero_angle', 'C02_src_zero_start', 'C02_src_zero_result', 'C02_src_zero_miss', 'C02_src_stored_zero']}
THEOREMS = ['C02_returned_meets_accuracy', 'C02_error_otherwise', 'C02_converges_partial', 'C02_failed_zero_leaves_weapon', 'C02_zero_angle_def',
            'C02_hits_sight_line', 'C02_starts_on_sight_line', 'C02_independent_of_stored_zero']
STATEMENTS = {
    'C02_src_zero_loop_step': 'SOURCE TIE (all C02_src_*): zero_angle as slices executed symbolically from the Python source on every run (start on the sight line, zero distance, initial error/count, loop condition, error and corrected elevation from the second row of the trial trajectory, break, verdict after the loop; the _integrate call, the counter increment and the raised ZeroFindingError matched structurally) equal the pieces of zeroLoop / zeroMiss / zeroAngle / zeroAngleOfShot',
    'C02_returned_meets_accuracy': 'whenever the zero finder returns an elevation e, the sampled point of the run AT e is within the zero-finding accuracy of the sight line',
    'C02_error_otherwise': 'otherwise it raises: an error propagated unchanged from a trajectory computation, or ZeroFindingError with error > accuracy and iterations <= cap; never an angle that misses',
    'C02_converges_partial': 'PARTIAL: if every run succeeds and the miss contracts by q per iteration with q^(cap-1)*first miss <= accuracy, the zero finder returns (it does not fail). '
                             'That the real height function contracts is a hypothesis (search only)',
    'C02_failed_zero_leaves_weapon': 'set_weapon_zero stores total - look on success and keeps the OLD value when zeroing raised',
    'C02_hits_sight_line': 'zeroAngle = ok e -> the run with e to the aim distance (step = that distance, flags RANGE) has a second row, the trajectory interpolated AT the aim '
                           'distance, with |target_drop| <= accuracy * |cos(look)| (x12 raw inches): level, uphill, downhill, any wind, any environment',
    'C02_starts_on_sight_line': 'the search the code runs starts at the look angle (the theorems above hold for any start)',
    'C02_independent_of_stored_zero': 'for an un-canted shot the outcome of zeroing (angle, or error with payload) does not depend on the zero elevation stored before nor on '
                                      'the hold-over: shots differing in nothing else are zeroed alike',
    'C02_zero_angle_def': 'zero_angle aims at the point on the sight line at the look-distance: horizontal cos(look) d, and evaluates runs to that distance with no flags',
}
TRUSTED = [
    'Lean 4.33.0 kernel; Mathlib; axioms propext, Classical.choice, Quot.sound',
    'hand-written model of zero_angle (zeroLoop/zeroAngle in BC/Model/Traj.lean) tied to the implementation by bit-exact correspondence (op zero: returned angle, or error '
    'kind + iteration count + last elevation) over look angles in (-55, 55) deg, winds, stored zeros, configurations',
    'the link between "sampled point within accuracy" and "trajectory passes within accuracy + one step x slope of the aim point" is geometric and exercised by the search '
    '(fire back with the returned zero); convergence on the real height function is search only',
]
ASSUME = ['un-canted shots; CPython aborts the assignment in set_weapon_zero when the right-hand side raises']
RULE = ('un-canted shots: all shipped tables, muzzle velocities, sight heights, look angles in (-60, 60) deg, 0-3 winds, zero distances from a few yards to far, previously '
        'stored zero != 0; distinct_nontrivial = zeroings that returned an angle')


def correspondence(chk, drv):
    pbc = import_repo()
    n = 25 if chk.tier == 'quick' else 2000
    trajcorr.corr_zero(chk, drv, pbc, n)


def classify_zero_failure(pbc, calc, cfg, shot, D, X, probe_rows, err):
    """why did zeroing a target that the sight-line launch reaches fail?
    out-of-reach               - no elevation (scan to +75 deg above the sight line) puts the trajectory on or above the aim point within
                                 the calculator's limits: there is no zero, raising is right (the property's premise is only sufficient
                                 for reachability when the projectile is far from its maximum range);
    near-max-range             - a zero exists, the projectile has lost more than 65 % of its speed at the target (the last few per cent of
                                 its range), and either ZeroFindingError while the same call succeeds with cMaxIterations=400, or RangeError
                                 from an iterate that falls short: the fixed-point step assumes d(height)/d(elevation) = distance/cos^2, far
                                 too large at the end of the flight of a strongly decelerating projectile (KNOWN FINDING);
    other                      - anything else"""
    U = pbc.Unit
    look = shot.look_angle >> U.Radian
    if True:
        reachable = False
        for k in range(0, 76, 3):
            s2 = copy.copy(shot)
            s2.weapon = copy.copy(shot.weapon)
            s2.weapon.zero_elevation = U.Radian(0)
            s2.relative_angle = U.Degree(float(k))
            try:
                rows = calc.fire(s2, U.Foot(X), U.Foot(X)).trajectory
            except Exception:  # noqa
                continue
            if len(rows) >= 2 and (rows[1].target_drop >> U.Foot) >= 0:
                reachable = True
                break
        if not reachable:
            return 'out-of-reach'
    v_ratio = (probe_rows[-1].velocity >> U.FPS) / max(shot.ammo.mv >> U.FPS, 1e-9)
    if v_ratio < 0.35:
        if isinstance(err, pbc.RangeError):
            return 'near-max-range'      # a zero exists (scan above), an iterate beyond the maximum-range elevation falls short
        s3 = copy.copy(shot)
        s3.weapon = copy.copy(shot.weapon)
        try:
            pbc.Calculator(_config={**cfg, 'cMaxIterations': 400}).set_weapon_zero(s3, U.Foot(D))
            return 'near-max-range'
        except Exception:  # noqa
            pass
    return 'other'


def search(chk, broken):
    pbc = import_repo()
    U = pbc.Unit
    rng = chk.rng
    n = 25 if (chk.tier == 'quick' and not broken) else 1500
    evals = 0
    for it in range(n):
        if chk.over():
            break
        cfg = sg.gen_config(rng, 0.8)
        # (a lowered iteration cap can make any zeroing fail: "does not fail for reachable targets" is about the default cap)
        for k in ('cMinimumVelocity', 'cMaximumDrop', 'cMinimumAltitude', 'cGravityConstant', 'cMaxIterations'):
            cfg.pop(k, None)
        calc = pbc.Calculator(_config=cfg)
        full = pbc.interface_config.create_interface_config(cfg)
        shot, _ = sg.gen_shot(pbc, rng, flat=True, allow_cant=False, max_look=59.0, table=getattr(pbc, rng.choice(sg.TABLE_NAMES)))
        if rng.random() < 0.35:
            # "whatever zero the weapon stored before": a large stale zero (a slow projectile zeroed far away, a hand-entered value)
            shot.weapon.zero_elevation = U.Degree(rng.choice([rng.uniform(5, 20), rng.uniform(-10, 20), 12.0]))
            if rng.random() < 0.5:
                shot.look_angle = U.Degree(rng.choice([-1, 1]) * rng.uniform(40, 59))
        look = shot.look_angle >> U.Radian
        D = rng.choice([100.0, 300.0, 600.0, 1500.0, rng.uniform(15, 3000)])   # look-distance, ft
        X = D * math.cos(look)
        old_zero = shot.weapon.zero_elevation.raw_value
        desc = {'op': 'zero', 'look_deg': math.degrees(look), 'dist_ft': D, 'mv_fps': shot.ammo.mv >> U.FPS, 'bc': shot.ammo.dm.BC,
                'sight_in': shot.weapon.sight_height >> U.Inch, 'winds': len(shot._winds), 'stored_zero_mil': shot.weapon.zero_elevation >> U.Mil,
                'config': cfg}
        # precondition: launched along the sight line it reaches the aim point's horizontal distance within the limits
        probe = copy.copy(shot)
        probe.weapon = copy.copy(shot.weapon)
        probe.weapon.zero_elevation = U.Radian(0)
        probe.relative_angle = U.Radian(0)
        try:
            probe_rows = calc.fire(probe, U.Foot(X), U.Foot(X)).trajectory
        except Exception:  # noqa
            continue
        evals += 1
        try:
            z = calc.set_weapon_zero(shot, U.Foot(D))
        except (pbc.ZeroFindingError, pbc.RangeError) as e:
            steep = 'steep' if abs(math.degrees(look)) >= 30 else 'shallow'
            if shot.weapon.zero_elevation.raw_value != old_zero:
                chk.failures.append(Failure('failed-zero-changed-weapon', 'a failed zeroing changed weapon.zero_elevation', desc))
            kind = classify_zero_failure(pbc, calc, cfg, shot, D, X, probe_rows, e)
            chk.stats.setdefault('zero_failures', {}).setdefault(kind, 0)
            chk.stats['zero_failures'][kind] += 1
            if kind == 'out-of-reach':
                continue          # no elevation puts the trajectory on or above the aim point within the limits: raising is the right answer
            if kind == 'near-max-range':
                chk.failures.append(Failure('zero-fails:near-max-range',
                                            f'zeroing at {D:.0f} ft (look {math.degrees(look):.1f} deg, BC {shot.ammo.dm.BC:.3f}, {shot.ammo.mv >> U.FPS:.0f} fps) raised '
                                            f'{type(e).__name__} ({str(e)[:70]}) within the last few per cent of the maximum range although a zero exists',
                                            {**desc, 'error': type(e).__name__}))
                continue
            chk.failures.append(Failure(f'zero-fails:{steep}-look',
                                        f'zeroing at {D:.0f} ft with look angle {math.degrees(look):.1f} deg raised {type(e).__name__} ({str(e)[:60]}) although the target is reachable',
                                        {**desc, 'error': type(e).__name__,
                                         'python': 'from py_ballisticcalc import *; Calculator().set_weapon_zero(Shot(Weapon(2), Ammo(DragModel(0.3, TableG7), Unit.FPS(2700)), '
                                                   'look_angle=Unit.Degree(44)), Unit.Yard(500)) >> Unit.Degree'}))
            continue
        # fire back with the zero and no further hold-over
        fb = copy.copy(shot)
        fb.relative_angle = U.Radian(0)
        try:
            rows = calc.fire(fb, U.Foot(X), U.Foot(X)).trajectory
        except Exception as e:  # noqa
            chk.failures.append(Failure('fire-back-fails', f'firing with the returned zero raised {type(e).__name__}', desc))
            continue
        row = min(rows, key=lambda r: abs((r.distance >> U.Foot) - X))
        miss = abs(row.target_drop >> U.Foot)
        slope = abs(math.tan((row.angle >> U.Radian) - look))
        # "one integration step of travel": the integration advances by calc_step (half the configured maximum) through the AIR per step;
        # over the ground that is calc_step x ground speed / air speed, bounded here with the strongest wind of the shot
        wmax = max([abs(w.velocity >> U.FPS) for w in (shot.winds or [])] + [0.0])
        vg = row.velocity >> U.FPS
        travel = full.max_calc_step_size_feet / 2.0 * (vg / max(1.0, vg - wmax))
        allowed = full.cZeroFindingAccuracy + min(full.max_calc_step_size_feet, travel) * slope
        if miss > allowed * 1.05 + 1e-9:
            cls = 'level' if abs(look) < 1e-3 else ('inclined' if abs(math.degrees(look)) < 30 else 'steep')
            chk.failures.append(Failure(f'misses-sight-line:{cls}',
                                        f'zeroed at {D:.0f} ft, look {math.degrees(look):.1f} deg: the trajectory fired with the returned zero is {miss:.5f} ft from the sight line at '
                                        f'the aim point; allowed accuracy + one step x slope = {allowed:.6f} ft',
                                        {**desc, 'observed': miss, 'allowed': allowed,
                                         'python': 'from py_ballisticcalc import *; c=Calculator(); s=Shot(Weapon(2), Ammo(DragModel(0.3, TableG7), Unit.FPS(2700)), look_angle=Unit.Degree(20)); '
                                                   'c.set_weapon_zero(s, Unit.Yard(300)); import math; '
                                                   'c.fire(s, Unit.Foot(900*math.cos(math.radians(20))), Unit.Foot(900*math.cos(math.radians(20)))).trajectory[1].target_drop >> Unit.Foot'}))
        # ... and with a dense table (recording steps below the integration step are legitimate requests): the zeroed shot must pass
        # through its point of aim whatever table the user asks for
        if X <= 700 and rng.random() < 0.5:
            st = rng.choice([0.05, 0.1, 0.2])
            try:
                rows = calc.fire(fb, U.Foot(X), U.Foot(st)).trajectory
            except Exception as e:  # noqa
                continue
            below = [r for r in rows if (r.distance >> U.Foot) <= X]
            above = [r for r in rows if (r.distance >> U.Foot) >= X]
            if below and above:
                chk.stats['dense_table_fire_backs'] = chk.stats.get('dense_table_fire_backs', 0) + 1
                r0, r1 = below[-1], above[0]
                x0, x1 = r0.distance >> U.Foot, r1.distance >> U.Foot
                w1 = 0.0 if x1 == x0 else (X - x0) / (x1 - x0)
                miss2 = abs((r0.target_drop >> U.Foot) * (1 - w1) + (r1.target_drop >> U.Foot) * w1)
                if miss2 > allowed * 1.05 + 2e-6:
                    chk.failures.append(Failure('misses-sight-line:dense-table',
                                                f'zeroed at {D:.0f} ft, look {math.degrees(look):.1f} deg: fired with the returned zero and a table every {st} ft the trajectory is '
                                                f'{miss2:.6f} ft from the sight line at the aim point (with one row at the aim point: {miss:.6f} ft); allowed {allowed:.6f} ft',
                                                {**desc, 'record_step_ft': st, 'observed': miss2, 'allowed': allowed}))
    # out of reach means an ERROR, never an angle: aim points at the edge of what the limits allow.  Whatever zeroing returns must
    # survive the fire-back (the trajectory fired with it gets to the aim point, within the accuracy); a raise must leave the weapon alone
    for it in range(8 if (chk.tier == 'quick' and not broken) else 300):
        if chk.over():
            break
        cfg, shot, D = sg.gen_edge_of_reach(pbc, rng)
        calc = pbc.Calculator(_config=cfg)
        full = pbc.interface_config.create_interface_config(cfg)
        look = shot.look_angle >> U.Radian
        X = D * math.cos(look)
        old_zero = shot.weapon.zero_elevation.raw_value
        desc = {'op': 'zero-edge', 'look_deg': math.degrees(look), 'dist_ft': D, 'mv_fps': shot.ammo.mv >> U.FPS, 'bc': shot.ammo.dm.BC, 'config': cfg,
                'alt_ft': shot.atmo.altitude >> U.Foot}
        evals += 1
        try:
            calc.set_weapon_zero(shot, U.Foot(D))
        except (pbc.ZeroFindingError, pbc.RangeError):
            if shot.weapon.zero_elevation.raw_value != old_zero:
                chk.failures.append(Failure('failed-zero-changed-weapon', 'a failed zeroing changed weapon.zero_elevation', desc))
            continue
        fb = copy.copy(shot)
        fb.relative_angle = U.Radian(0)
        try:
            rows = calc.fire(fb, U.Foot(X), U.Foot(X)).trajectory
        except pbc.RangeError as e:
            chk.failures.append(Failure('angle-for-unreachable-target',
                                        f'zeroing at {D:.0f} ft on a {math.degrees(look):.1f} deg sight line under {cfg} returned an angle, but the trajectory fired with it stops at '
                                        f'{e.last_distance >> U.Foot:.1f} ft ({e.reason}) and never gets to the aim point at {X:.1f} ft: an error was due, not an angle',
                                        desc))
            continue
        row = min(rows, key=lambda r: abs((r.distance >> U.Foot) - X))
        miss = abs(row.target_drop >> U.Foot)
        slope = abs(math.tan((row.angle >> U.Radian) - look))
        allowed = full.cZeroFindingAccuracy + full.max_calc_step_size_feet * slope
        if miss > allowed * 1.05 + 1e-9:
            chk.failures.append(Failure('misses-sight-line:edge-of-reach', f'zeroed at {D:.0f} ft (edge of reach): {miss:.5f} ft from the sight line, allowed {allowed:.6f} ft',
                                        {**desc, 'observed': miss, 'allowed': allowed}))
    # known open finding (known_findings.json): the fixed witness, so that the finding is reported on every run while it stays open
    calc = pbc.Calculator()
    shot = pbc.Shot(pbc.Weapon(U.Inch(2), 0), pbc.Ammo(pbc.DragModel(0.05, pbc.TableG1), U.FPS(1600)), U.Degree(6.5), atmo=pbc.Atmo.icao(U.Foot(0)))
    D = 2500.0
    X = D * math.cos(math.radians(6.5))
    evals += 1
    try:
        probe_rows = calc.fire(shot, U.Foot(X), U.Foot(X)).trajectory
        try:
            calc.set_weapon_zero(shot, U.Foot(D))
        except (pbc.ZeroFindingError, pbc.RangeError) as e:
            kind = classify_zero_failure(pbc, calc, {}, shot, D, X, probe_rows, e)
            key = 'zero-fails:near-max-range' if kind == 'near-max-range' else 'zero-fails:witness:' + kind
            chk.failures.append(Failure(key, f'zeroing DragModel(0.05, TableG1) at 1600 fps, standard atmosphere, look 6.5 deg at 2500 ft (98 % of its maximum range) raised {type(e).__name__} '
                                             f'({str(e)[:70]}); the sight-line launch reaches the distance and the call succeeds with cMaxIterations=400',
                                        {'op': 'zero', 'python': 'from py_ballisticcalc import *; Calculator().set_weapon_zero(Shot(Weapon(Unit.Inch(2), 0), '
                                                                 'Ammo(DragModel(0.05, TableG1), Unit.FPS(1600)), Unit.Degree(6.5)), Unit.Foot(2500))'}))
    except pbc.RangeError:
        pass
    chk.search_evals += evals
