"""C03 — the range card has exactly one row at every requested distance, muzzle to range."""
import math

from vlib.common import Failure, import_repo
from vlib import shotgen as sg
from vlib import trajcorr

ID = 'C03'
GENS = ['units', 'consts']
TARGETS = ['BC.Props.C03']
PROP_FILES = ['BC/Props/C03.lean', 'BC/Lemmas/C03.lean', 'BC/Lemmas/C03Ex.lean']
# source ties: function bodies regenerated from the Python source by translate/t_funcs.py, proved equal to the model functions
SRC = {'module': 'BC.Props.C03Src', 'file': 'BC/Props/C03Src.lean', 'lemma_files': ['BC/Lemmas/SrcLoop.lean', 'BC/Lemmas/SrcFilter.lean', 'BC/Props/C12Src.lean', 'BC/Props/C05Src.lean', 'BC/Props/C04Src.lean'],
       'theorems': ['C03_src_iterate', 'C03_src_loop', 'C03_src_integrate', 'C03_src_final_row', 'C03_src_default_step', 'C03_src_given_step', 'C03_src_flags', 'C03_src_feet', 'C03_src_filter_init', 'C03_src_should_record', 'C03_src_check_next_time', 'C03_src_skip_loop']}
THEOREMS = ['C03_rows_exact', 'C03_loop_exit_no_record', 'C03_time_step_records', 'C03_default_step']
STATEMENTS = {
    'C03_src_iterate': 'SOURCE TIE, WHOLE LOOP BODY: the model function iterate (one iteration of the integration loop: wind update, atmosphere, recording, step, limit check) equals Src.loop_body, the entire body of the while loop of _integrate executed symbolically from the Python source on every run, for every loop state (hypotheses: atmosphere look-up answers, the speeds of sound entering velocity/mach are non-zero, the sock horizon is the class constant); C03_src_loop: one unfolding of the model loop = the source while-condition + iterate',
    'C03_src_should_record': 'SOURCE TIE (all C03_src_*): _TrajectoryDataFilter.__init__/should_record/check_next_time and the skip loop, executed symbolically from the Python source on every run (attribute stores collected into the new filter state, check_zero_crossing/check_mach_crossing composed), equal TFilter.init / TFilter.shouldRecord of the model for every filter state and input',
    'C03_rows_exact': 'for EVERY state sequence moving forward with per-step advance <= min(calc_step, step) (any physics), 0 < step <= range: a completed plain '
                      'request returns exactly the rows at 0, step, ..., K*step, one each, in order, flag RANGE, with range < (K+1)*step and K*step <= range + '
                      'min(calc_step, step); times strictly increase; row 0 is the muzzle state',
    'C03_loop_exit_no_record': 'the loop returns unchanged (no row) as soon as the current state lies beyond the bound: the advance hypothesis is genuinely needed',
    'C03_time_step_records': 'time step tau > 0: when more than tau elapsed since the last record and the distance trigger does not fire, the current state is recorded (flag RANGE)',
    'C03_default_step': 'step = range/10 with calc_step < range/10: exactly 11 rows at k*range/10',
}
TRUSTED = [
    'Lean 4.33.0 kernel; Mathlib; axioms propext, Classical.choice, Quot.sound',
    'hand-written model BC/Model/Traj.lean (integrate, loop, recordStep, shouldRecord) tied to the implementation by bit-exact correspondence of whole plain '
    'trajectories (op fire: head, tail and cross winds, steps dividing and not dividing the range, time steps)',
    'the theorem\'s advance hypothesis (x-advance per step <= min(calc_step, record step)) is a property of the physics that holds when the down-range ground '
    'speed does not exceed the air-relative speed; the search probes the real code where it fails (tail winds)',
]
ASSUME = ['"to float rounding": k*step is accumulated by repeated addition; distances are compared to 1e-9 relative',
          'a request with step > range returns 2 rows (muzzle + end state) by design (tests require >= 2 rows); the oracle uses step <= range']
RULE = ('forward shots with head / tail / cross winds (incl. strong tail winds), ranges 100 ft .. 2 miles, steps dividing and not dividing the range given as '
        'float or in any distance unit, default step, time steps; distinct_nontrivial = distinct fire lines with >= 3 rows')


def correspondence(chk, drv):
    pbc = import_repo()
    n = 40 if chk.tier == 'quick' else 3000

    def req(rng):
        R = rng.choice([100.0, 300.0, 1000.0, 3000.0, rng.uniform(50, 5000)])
        step = rng.choice([R / 10, R / 7, 100.0, rng.uniform(5, 300)])
        return R, step, False, rng.choice([0.0, 0.0, 0.0, 0.01, 0.2])
    trajcorr.corr_fire(chk, drv, pbc, n, gen_kwargs={'flat': True}, cfg_default=0.7, requests=req, label='fire-plain')


def search(chk, broken):
    pbc = import_repo()
    U = pbc.Unit
    rng = chk.rng
    n = 40 if (chk.tier == 'quick' and not broken) else 3000
    evals = 0
    # regression corpus: minimized past failures run first (tail wind: one step jumps over [range, range + min_step])
    for bc, mv, wv, R in [(0.26592724361031905, 1198.2945371113894, 32.089245104178815, 300.0),
                          (0.272190906526506, 1085.64933697706, 76.5795857067341, 567.564902203866),
                          (0.5573974201669962, 2240.5223099489885, 28.592721495112276, 1000.0)]:
        shot = pbc.Shot(pbc.Weapon(2, 0), pbc.Ammo(pbc.DragModel(bc, pbc.TableG7), U.FPS(mv)), winds=[pbc.Wind(U.MPH(wv), U.Degree(0))])
        rows = pbc.Calculator().fire(shot, U.Foot(R), U.Foot(R / 10)).trajectory
        evals += 1
        if len(rows) != 11:
            chk.failures.append(Failure('missing-row:tail-wind', f'{len(rows)} rows for range {R} ft step {R / 10} ft with a {wv:.0f} mph tail wind: the row at the range is missing',
                                        {'op': 'rows', 'bc': bc, 'mv_fps': mv, 'wind_mph': wv, 'range_ft': R,
                                         'python': f'from py_ballisticcalc import *; len(Calculator().fire(Shot(Weapon(2,0), Ammo(DragModel({bc!r}, TableG7), Unit.FPS({mv!r})), '
                                                   f'winds=[Wind(Unit.MPH({wv!r}), Unit.Degree(0))]), Unit.Foot({R!r}), Unit.Foot({R / 10!r})).trajectory)'}))
    # round METRIC ranges with the default step under tail winds: the accumulated record distance (ten additions of range/10 in feet)
    # may round one ulp above the range, and a tail wind lengthens the steps over the ground - the row AT the range must still be there
    calc0 = pbc.Calculator()
    for it in range(60 if (chk.tier == 'quick' and not broken) else 1500):
        if chk.over():
            break
        Rm = rng.choice([150.0, 300.0, 450.0, 150.0, 750.0, rng.choice([50.0, 100.0, 200.0, 250.0, 350.0, 600.0])])
        wv = rng.uniform(5, 25)
        shot = pbc.Shot(pbc.Weapon(U.Inch(2), 0), pbc.Ammo(pbc.DragModel(rng.uniform(0.1, 0.5), pbc.TableG7), U.MPS(rng.uniform(280, 900))),
                        winds=[pbc.Wind(U.MPS(wv), U.Degree(rng.choice([0.0, 0.0, rng.uniform(-30, 30)])))])
        try:
            rows = calc0.fire(shot, U.Meter(Rm), 0 if rng.random() < 0.7 else U.Meter(Rm / 10)).trajectory
        except pbc.RangeError:
            continue
        evals += 1
        last = rows[-1].distance >> U.Meter
        if len(rows) < 11 or abs((rows[10].distance >> U.Meter) - Rm) > 1e-9 * Rm:
            chk.failures.append(Failure('missing-row:tail-wind', f'range {Rm} m, default step, tail wind {wv:.1f} m/s: {len(rows)} rows, the last one at {last:.6f} m - the row at the '
                                                                 f'requested range is missing',
                                        {'op': 'rows-metric', 'range_m': Rm, 'tail_wind_mps': wv, 'mv_mps': shot.ammo.mv >> U.MPS, 'bc': shot.ammo.dm.BC, 'rows': len(rows)}))
            break
    # one long-lived calculator, the SAME numbers for range and step while the preferred distance unit changes between the cards (bare numbers
    # mean the preferred unit in force at the call; explicit quantities mean themselves): rows at the multiples of the step in THAT unit
    calc_l = pbc.Calculator()
    shot_l = pbc.Shot(pbc.Weapon(U.Inch(2), 0), pbc.Ammo(pbc.DragModel(0.3, pbc.TableG7), U.FPS(2700)))
    try:
        for it in range(6 if (chk.tier == 'quick' and not broken) else 60):
            if chk.over():
                break
            pu = rng.choice([U.Yard, U.Meter, U.Foot])
            pbc.PreferredUnits.distance = pu
            Rn, stn = rng.choice([(400, 100), (300, 50), (400, 100)])
            bare = rng.random() < 0.6
            rows = calc_l.fire(shot_l, Rn if bare else pu(Rn), stn if bare else pu(stn)).trajectory
            evals += 1
            ds = [r.distance >> pu for r in rows]
            nexp = Rn // stn + 1
            bad = next((k for k in range(min(len(ds), nexp)) if abs(ds[k] - k * stn) > 1e-6 * max(1.0, k * stn)), None)
            if bad is not None or len(ds) < nexp:
                chk.failures.append(Failure('rows-at-multiples:preferred-unit-history',
                                            f'a calculator used for several cards: fire(shot, {Rn}, {stn}) as {"bare numbers" if bare else pu.name + " quantities"} under preferred '
                                            f'distance unit {pu.name} gives {len(ds)} rows' + (f', row {bad} at {ds[bad]:.4f} {pu.name} instead of {bad * stn}' if bad is not None else ''),
                                            {'op': 'rows-unit-history', 'preferred': pu.name, 'range': Rn, 'step': stn, 'bare': bare, 'rows': len(ds), 'first_bad_row': bad}))
                break
    finally:
        pbc.PreferredUnits.defaults()
    # the bottom of the admitted domain: recording steps AT or just above the maximum integration step (0.5 ft by default), where one
    # integration advance over the ground (0.25 ft x ground speed / air speed) is a large part of a recording step — tail winds make it more
    # than half of it.  Exactly one row per multiple of the step, each at its multiple.
    for it in range(12 if (chk.tier == 'quick' and not broken) else 400):
        if chk.over():
            break
        st = rng.choice([0.5, 0.5, 0.505, 0.52, rng.uniform(0.5, 0.56)])
        R = st * rng.randint(40, 160)
        wv = rng.uniform(10, 45)
        shot = pbc.Shot(pbc.Weapon(U.Inch(2), 0), pbc.Ammo(pbc.DragModel(rng.uniform(0.1, 0.5), rng.choice([pbc.TableG1, pbc.TableG7])), U.FPS(rng.uniform(700, 3000))),
                        winds=[pbc.Wind(U.MPH(wv), U.Degree(rng.choice([0.0, 0.0, 180.0, rng.uniform(-40, 40)])))])
        try:
            rows = calc0.fire(shot, U.Foot(R), U.Foot(st)).trajectory
        except pbc.RangeError:
            continue
        evals += 1
        ds = [r.distance >> U.Foot for r in rows]
        nexp = int(round(R / st)) + 1
        bad = next((k for k in range(min(len(ds), nexp)) if abs(ds[k] - k * st) > 1e-7), None)
        if bad is not None or len(ds) < nexp or len(ds) > nexp + 1:
            chk.failures.append(Failure('rows-at-multiples:step-near-integration-step',
                                        f'range {R:.3f} ft, recording step {st:.4f} ft (integration step 0.25 ft, maximum 0.5 ft), wind {wv:.0f} mph from {shot.winds[0].direction_from >> U.Degree:.0f} deg: '
                                        f'{len(ds)} rows for {nexp} multiples' + (f'; row {bad} is at {ds[bad]:.4f} ft instead of {bad * st:.4f} ft' if bad is not None else ''),
                                        {'op': 'rows-small-step', 'range_ft': R, 'step_ft': st, 'wind_mph': wv, 'wind_from_deg': shot.winds[0].direction_from >> U.Degree,
                                         'mv_fps': shot.ammo.mv >> U.FPS, 'bc': shot.ammo.dm.BC, 'rows': len(ds), 'first_bad_row': bad}))
            break
    for it in range(n):
        if chk.over():
            break
        cfg = sg.gen_config(rng, 0.7)
        for k in ('cMinimumVelocity', 'cMaximumDrop', 'cMinimumAltitude'):
            cfg.pop(k, None)
        calc = pbc.Calculator(_config=cfg)
        max_step = pbc.interface_config.create_interface_config(cfg).max_calc_step_size_feet
        # wind: head, tail (strong ones too), cross, none
        wk = it % 4
        wv = rng.choice([5.0, 20.0, 60.0, rng.uniform(0, 100)])
        wd = {0: 0.0, 1: 180.0, 2: rng.choice([90.0, 270.0]), 3: rng.uniform(0, 360)}[wk]
        winds = [pbc.Wind(U.MPH(wv), U.Degree(wd))] if rng.random() < 0.85 else []
        shot, _ = sg.gen_shot(pbc, rng, flat=True, winds=winds, max_look=20, table=getattr(pbc, rng.choice(sg.TABLE_NAMES)))
        R_ft = rng.choice([300.0, 600.0, 1500.0, 3000.0, rng.uniform(100, 6000)])
        du = rng.choice([U.Foot, U.Yard, U.Meter])
        steps = [None, R_ft / rng.choice([3, 7, 10, 12]), rng.uniform(max_step, R_ft / 2), 100.0]
        step_ft = rng.choice(steps)
        rng_arg = du(U.Foot(R_ft) >> du) if rng.random() < 0.7 else (U.Foot(R_ft) >> pbc.PreferredUnits.distance)
        if step_ft is None:
            step_arg = 0
        else:
            step_arg = du(U.Foot(step_ft) >> du) if rng.random() < 0.7 else (U.Foot(step_ft) >> pbc.PreferredUnits.distance)
        ts = rng.choice([0.0, 0.0, 0.0, rng.choice([0.002, 0.01, 0.1])])
        try:
            rows = calc.fire(shot, rng_arg, step_arg, False, ts).trajectory
        except pbc.RangeError:
            continue   # does not reach the range: out of this property's scope (C04)
        evals += 1
        R_in = pbc.PreferredUnits.distance(rng_arg).raw_value
        s_in = R_in / 10.0 if step_ft is None else pbc.PreferredUnits.distance(step_arg).raw_value
        if s_in > R_in or s_in < max_step * 12:
            continue
        desc = {'op': 'rows', 'range_ft': R_in / 12, 'step_ft': s_in / 12, 'time_step': ts, 'wind_mph': wv if winds else 0, 'wind_from_deg': wd,
                'mv_fps': shot.ammo.mv >> U.FPS, 'look_deg': shot.look_angle >> U.Degree, 'max_step_ft': max_step, 'default_step': step_ft is None}
        d = [r.distance.raw_value for r in rows]
        t = [r.time for r in rows]
        if ts == 0.0:
            K = len(rows) - 1
            need = math.floor(R_in / s_in * (1 + 1e-12))          # multiples up to and including the range
            ok_dist = all(abs(d[k] - k * s_in) <= 1e-9 * max(1.0, k * s_in) for k in range(len(rows)))
            if not ok_dist:
                chk.failures.append(Failure('row-distance', f'row distances {[round(x / 12, 3) for x in d[:6]]}... are not the multiples of the step {s_in / 12}', desc))
            elif K < need:
                kind = 'tail' if (winds and math.cos(math.radians(wd)) > 0.3) else 'other'
                chk.failures.append(Failure(f'missing-row:{kind}-wind',
                                            f'{len(rows)} rows for range {R_in / 12:.2f} ft step {s_in / 12:.3f} ft: the row at {need * s_in / 12:.2f} ft is missing '
                                            f'(wind {wv if winds else 0:.0f} mph from {wd:.0f} deg)', desc))
            elif K > need + 1 or (K == need + 1 and K * s_in > R_in + max_step * 12):
                chk.failures.append(Failure('extra-row', f'{len(rows)} rows: more than one multiple beyond the range, or one further than an integration step beyond it', desc))
            if step_ft is None and K != 10:
                chk.failures.append(Failure('default-step', f'default step gave {len(rows)} rows, not 11', desc))
        else:
            v_min = min(r.velocity >> U.FPS for r in rows)
            dt_max = (max_step / 2) / max(1.0, v_min - (wv * 1.47 if winds else 0)) * 1.2
            gaps = [b - a for a, b in zip(t, t[1:])]
            if gaps and max(gaps) > ts + 2 * dt_max + 1e-9:
                chk.failures.append(Failure('time-gap', f'successive rows {max(gaps):.5f} s apart with time_step {ts} (+2 steps = {2 * dt_max:.5f})', desc))
        if any(b <= a for a, b in zip(t, t[1:])) or any(b < a for a, b in zip(d, d[1:])) or (ts == 0.0 and any(b <= a for a, b in zip(d, d[1:]))):
            chk.failures.append(Failure('not-increasing', 'distance/time not strictly increasing', desc))
        r0 = rows[0]
        sh = shot.weapon.sight_height >> U.Foot
        ca = shot.cant_angle >> U.Radian
        mv = shot.ammo.get_velocity_for_temp(shot.atmo.powder_temp) >> U.FPS
        if not (r0.time == 0 and r0.distance.raw_value == 0 and abs((r0.velocity >> U.FPS) - mv) <= 1e-9 * mv
                and abs((r0.height >> U.Foot) + math.cos(ca) * sh) <= 1e-12 + 1e-12 * abs(sh)
                and abs((r0.windage >> U.Foot) + math.sin(ca) * sh) <= 1e-12 + 1e-12 * abs(sh)):
            chk.failures.append(Failure('muzzle-row', 'first row is not the muzzle state', desc))
    chk.search_evals += evals
