"""C04 — every call terminates, and an incomplete trajectory is reported truthfully."""
import signal

from vlib.common import Failure, import_repo
from vlib import shotgen as sg
from vlib import trajcorr

ID = 'C04'
GENS = ['units', 'consts']
TARGETS = ['BC.Props.C04']
PROP_FILES = ['BC/Props/C04.lean', 'BC/Lemmas/Loop.lean', 'BC/Lemmas/C04Term.lean']
# source ties: function bodies regenerated from the Python source by translate/t_funcs.py, proved equal to the model functions
SRC = {'module': 'BC.Props.C04Src', 'file': 'BC/Props/C04Src.lean',
       'theorems': ['C04_src_limit_reason', 'C04_src_loop_condition', 'C04_src_min_step']}
THEOREMS = ['C04_limit_reason_spec', 'C04_reason_truthful', 'C04_ok_respects_limits', 'C04_limits_only_stop', 'C04_prefix_unperturbed',
            'C04_loop_outcomes', 'C04_vertical_velocity_step', 'C04_terminates_partial', 'C04_below_floor_stops']
STATEMENTS = {
    'C04_src_limit_reason': 'SOURCE TIE (all C04_src_*): the limit check of the loop body of _integrate (three limits, reason chain, raise RangeError(reason, rows)), the while condition and min_step, executed symbolically from the Python source on every run, equal limitReason / the guard of loop / minOf of the model',
    'C04_limit_reason_spec': 'limitReason = first violated limit in the order velocity, drop, altitude; none iff all three respected',
    'C04_reason_truthful': 'iterate = error(range reason rows) -> the post-step state violates exactly that limit (first in precedence) and the '
                           'last row of rows is the row of that state (distance, height, speed, time)',
    'C04_ok_respects_limits': 'every state the loop carries on with respects all three limits',
    'C04_limits_only_stop': 'one iteration under other limit values: identical loop state, or one of the two stops; rows minus the last = the other run\'s rows',
    'C04_prefix_unperturbed': 'induction over iterations: all rows of the incomplete trajectory except the last are identical to the rows of the run without that limit',
    'C04_loop_outcomes': 'a run ends in a result, the range error, ZeroDivisionError, math domain error, or (model only) exhausted fuel; never a zero-finding error',
    'C04_terminates_partial': 'PARTIAL (a positive lower bound on the time step, i.e. a speed bound along the run, is a hypothesis): with g<0, the vertical-velocity inequality and '
                              'y\' = y + v_y\' dt, the height falls below ANY floor after finitely many steps',
    'C04_below_floor_stops': 'a state below the maximum drop cannot be carried on by the loop (so the run stops there at the latest)',
    'C04_vertical_velocity_step': 'g<0, 0 <= drag*dt <= 1, no vertical wind: v_y\' <= max(v_y,0) + g*dt (arithmetic core of termination)',
}
TRUSTED = [
    'Lean 4.33.0 kernel; Mathlib; axioms propext, Classical.choice, Quot.sound',
    'hand-written model BC/Model/Traj.lean tied to _integrate by the bit-exact correspondence op fire on limit configurations '
    '(velocity/drop/altitude limits, vertical, downward, slow and zero-velocity launches, plain and extra): identical rows, identical reason',
    'termination is proved only conditionally (C04_terminates_partial needs a speed bound along the run; the model loop takes fuel): for arbitrary inputs it is '
    'watched by a wall-clock watchdog in the search',
]
ASSUME = ['finite inputs, downward gravity', 'exceptions.RangeError stores reason / incomplete_trajectory / last_distance as written (checked by the search)']
RULE = ('shots under random limit configurations incl. vertical (+-90 deg), downward, very slow and zero-velocity launches, ranges beyond reach, '
        'station altitudes, vacuum; distinct_nontrivial = distinct fire lines ending in a range error with >= 2 rows')


class Timeout(Exception):
    pass


def _alarm(signum, frame):
    raise Timeout()


def limit_cfg(rng):
    c = {}
    r = rng.random()
    if r < 0.35:
        c['cMinimumVelocity'] = rng.choice([100.0, 500.0, 1200.0, rng.uniform(60, 2500)])
    elif r < 0.65:
        c['cMaximumDrop'] = rng.choice([-1.0, -10.0, -100.0, -rng.uniform(0.5, 500)])
    elif r < 0.9:
        c['cMinimumAltitude'] = rng.choice([0.0, -5.0, 100.0, rng.uniform(-200, 3000)])
    if rng.random() < 0.3:
        c['cMinimumVelocity'] = rng.uniform(60, 1500)
    if rng.random() < 0.3:
        c['max_calc_step_size_feet'] = rng.choice([0.25, 1.0, 2.0])
    return c


def odd_shot(pbc, rng):
    U = pbc.Unit
    r = rng.random()
    kw = {}
    if r < 0.25:
        kw['mv'] = rng.choice([0.0, 1.0, 20.0, 49.0, 60.0, 120.0])
    shot, table = sg.gen_shot(pbc, rng, **kw)
    r = rng.random()
    if r < 0.15:
        shot.look_angle = U.Degree(rng.choice([90.0, 89.0, 85.0]))
    elif r < 0.3:
        shot.look_angle = U.Degree(rng.choice([-90.0, -89.0, -60.0]))
    elif r < 0.4:
        shot.relative_angle = U.Degree(rng.uniform(20, 80))
    return shot


def correspondence(chk, drv):
    pbc = import_repo()
    U = pbc.Unit
    n = 40 if chk.tier == 'quick' else 3000
    from vlib.common import Corr
    from collections import Counter
    rng = chk.rng
    c = Corr('fire-limits')
    dist = Counter()
    nontriv = set()
    for _ in range(n):
        cfg = limit_cfg(rng)
        calc = pbc.Calculator(_config=cfg)
        shot = odd_shot(pbc, rng)
        if rng.random() < 0.2:
            # the altitude floor and the drop floor (and sometimes the velocity floor) within a fraction of one step of each other: the
            # stopping step crosses several limits at once
            d = rng.choice([5.0, 30.0, rng.uniform(1, 200)])
            cfg = {k: v for k, v in cfg.items() if k == 'max_calc_step_size_feet'}
            cfg['cMaximumDrop'] = -d
            cfg['cMinimumAltitude'] = (shot.atmo.altitude >> U.Foot) - d + rng.choice([0.0, 1e-3, -1e-3, rng.uniform(-0.05, 0.05)])
            calc = pbc.Calculator(_config=cfg)
            full = dict(pbc.interface_config.create_interface_config(cfg)._asdict())
        R = rng.choice([300.0, 1500.0, 6000.0])
        step = rng.choice([R / 10, 100.0, R])
        extra = rng.random() < 0.4
        ans = sg.py_fire(pbc, calc, shot, R, step, extra, 0.0)
        line = sg.fire_line(pbc, calc, shot, R, step, extra, 0.0)
        c.add(line, ans, {'config': cfg, 'range_ft': R, 'look_deg': shot.look_angle >> pbc.Unit.Degree, 'mv_fps': shot.ammo.mv >> pbc.Unit.FPS,
                          'outcome': ans[:24]})
        dist[' '.join(ans.split()[:2]) if ans.startswith('err:range') else ans.split()[0]] += 1
        if ans.startswith('err:range') and int(ans.split()[3]) >= 2:
            nontriv.add(line)
    r = c.finish(drv)
    chk.corr.append(r)
    chk.oblige('corr:fire-limits', 'correspondence', r['mismatch'] == 0,
               f"{r['cases']} shots, {r['bit_identical']} bit-identical, {r['mismatch']} mismatches; outcomes {dict(dist)}")
    chk.stats['distribution'] = {'fire-limits': dict(dist)}
    chk.stats['distinct_nontrivial'] = len(nontriv)
    chk.samples.append({'corr_op': c.lines[0][:200] + ' ...', 'python': c.py[0][:120] + ' ...', 'meta': c.meta[0]})


def rowkey(r):
    return (r.time, r.distance.raw_value, r.velocity.raw_value, r.mach, r.height.raw_value, r.windage.raw_value, r.energy.raw_value, r.flag)


def search(chk, broken):
    pbc = import_repo()
    U = pbc.Unit
    rng = chk.rng
    n = 25 if (chk.tier == 'quick' and not broken) else 2000
    evals = 0
    signal.signal(signal.SIGALRM, _alarm)
    for _ in range(n):
        if chk.over():
            break
        cfg = limit_cfg(rng)
        calc = pbc.Calculator(_config=cfg)
        full = dict(pbc.interface_config.create_interface_config(cfg)._asdict())
        shot = odd_shot(pbc, rng)
        if rng.random() < 0.2:
            # the altitude floor and the drop floor (and sometimes the velocity floor) within a fraction of one step of each other: the
            # stopping step crosses several limits at once
            d = rng.choice([5.0, 30.0, rng.uniform(1, 200)])
            cfg = {k: v for k, v in cfg.items() if k == 'max_calc_step_size_feet'}
            cfg['cMaximumDrop'] = -d
            cfg['cMinimumAltitude'] = (shot.atmo.altitude >> U.Foot) - d + rng.choice([0.0, 1e-3, -1e-3, rng.uniform(-0.05, 0.05)])
            calc = pbc.Calculator(_config=cfg)
            full = dict(pbc.interface_config.create_interface_config(cfg)._asdict())
        R = rng.choice([300.0, 1500.0, 6000.0])
        step = rng.choice([R / 10, 100.0])
        extra = rng.random() < 0.4
        alt0 = shot.atmo.altitude >> U.Foot
        evals += 1
        desc = {'config': cfg, 'range_ft': R, 'step_ft': step, 'extra': extra, 'look_deg': shot.look_angle >> U.Degree,
                'rel_deg': shot.relative_angle >> U.Degree, 'mv_fps': shot.ammo.mv >> U.FPS, 'bc': shot.ammo.dm.BC,
                'atmo': type(shot.atmo).__name__, 'alt_ft': alt0}
        signal.alarm(120)
        try:
            try:
                calc.fire(shot, U.Foot(R), U.Foot(step), extra)
                continue
            except pbc.RangeError as e:
                err = e
            except Timeout:
                chk.failures.append(Failure('no-termination', 'fire did not terminate within 120 s', {'op': 'terminate', **desc}))
                continue
            except Exception as e:  # noqa
                kind = f'{type(e).__name__}: {e}'
                key = 'crash:math-domain' if 'math domain' in str(e) else 'crash:' + type(e).__name__
                chk.failures.append(Failure(key, f'fire raised {kind} instead of returning a trajectory or a range error '
                                                 f'({desc["atmo"]}, mv {desc["mv_fps"]:.0f} fps, look {desc["look_deg"]:.1f} deg, rel {desc["rel_deg"]:.1f} deg)',
                                            {'op': 'crash', **desc,
                                             'python': 'from py_ballisticcalc import *; Calculator().fire(Shot(Weapon(), Ammo(DragModel(0.3, TableG7), Unit.FPS(3500)), '
                                                       'look_angle=Unit.Degree(80), atmo=Vacuum()), Unit.Foot(100000))'}))
                continue
        finally:
            signal.alarm(0)
        rows = err.incomplete_trajectory
        last = rows[-1]
        v, y = last.velocity >> U.FPS, last.height >> U.Foot
        tol = 1e-9
        viol = {'Minimum velocity reached': v < full['cMinimumVelocity'] * (1 + tol) + tol,
                'Maximum drop reached': y < full['cMaximumDrop'] + abs(full['cMaximumDrop']) * tol + tol,
                'Minimum altitude reached': alt0 + y < full['cMinimumAltitude'] + (abs(alt0) + abs(y)) * tol + tol}
        strict = {'Minimum velocity reached': v < full['cMinimumVelocity'] * (1 - tol) - tol,
                  'Maximum drop reached': y < full['cMaximumDrop'] - abs(full['cMaximumDrop']) * tol - tol}
        order = ['Minimum velocity reached', 'Maximum drop reached', 'Minimum altitude reached']
        bad = None
        if err.reason not in order:
            bad = f'unknown reason {err.reason!r}'
        elif not viol[err.reason]:
            bad = f'reason {err.reason!r} but the last row (v={v:.3f} fps, y={y:.3f} ft, alt0={alt0:.1f}) does not violate that limit ({full})'
        else:
            for earlier in order[:order.index(err.reason)]:
                if strict.get(earlier):
                    bad = f'reason {err.reason!r} although {earlier!r} is violated too and comes first in the order of precedence'
        if bad is None and (err.last_distance is None or err.last_distance.raw_value != last.distance.raw_value):
            bad = 'last_distance is not the distance of the last row'
        if bad:
            chk.failures.append(Failure('reason', bad, {'op': 'reason', **desc, 'reason': err.reason}))
        # earlier rows: within limits, and identical to the run without limits
        for r in rows[1:-1]:
            rv, ry = r.velocity >> U.FPS, r.height >> U.Foot
            if rv < full['cMinimumVelocity'] * (1 - 1e-3) - 1e-6 or ry < full['cMaximumDrop'] - 1e-6 or alt0 + ry < full['cMinimumAltitude'] - 1e-6:
                chk.failures.append(Failure('earlier-row-limit', f'an earlier row (x={r.distance >> U.Foot:.1f} ft, v={rv:.2f}, y={ry:.2f}) violates a limit',
                                            {'op': 'earlier', **desc}))
                break
        # the same shot without the limit that fired (the other limits stay, so the reference run terminates too)
        relaxed = dict(cfg)
        relaxed.update({'Minimum velocity reached': {'cMinimumVelocity': 0.0}, 'Maximum drop reached': {'cMaximumDrop': -1e12},
                        'Minimum altitude reached': {'cMinimumAltitude': -1e12}}.get(err.reason, {}))
        signal.alarm(120)
        try:
            ref = pbc.Calculator(_config=relaxed).fire(shot, U.Foot(R), U.Foot(step), extra).trajectory
        except pbc.RangeError as e2:
            ref = e2.incomplete_trajectory
        except Exception:  # noqa  (e.g. the math-domain crash, reported above when met directly; or the watchdog)
            ref = None
        finally:
            signal.alarm(0)
        if ref is not None:
            a = [rowkey(r) for r in rows[:-1]]
            b = [rowkey(r) for r in ref[:len(a)]]
            if a != b:
                chk.failures.append(Failure('prefix-perturbed', 'rows before the last differ from the same shot computed without the limit',
                                            {'op': 'prefix', **desc, 'rows': len(rows)}))
    chk.search_evals += evals
