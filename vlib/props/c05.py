"""C05 — each row's derived columns are the documented functions of its state."""
import copy
import math

from vlib.common import Corr, Failure, f2b, import_repo
from vlib import shotgen as sg

ID = 'C05'
GENS = ['units', 'consts']
TARGETS = ['BC.Props.C05']
PROP_FILES = ['BC/Props/C05.lean', 'BC/Lemmas/Row.lean']
# source ties: function bodies regenerated from the Python source by translate/t_funcs.py, proved equal to the model functions
SRC = {'module': 'BC.Props.C05Src', 'file': 'BC/Props/C05Src.lean', 'lemma_files': ['BC/Lemmas/SrcTac.lean'],
       'theorems': ['C05_src_get_correction', 'C05_src_energy', 'C05_src_ogw', 'C05_src_spin_drift', 'C05_src_stability', 'C05_src_row']}
THEOREMS = ['C05_columns', 'C05_mach_zero_rejected', 'C05_sight_line_geometry', 'C05_adjustments', 'C05_angle', 'C05_energy_is_kinetic',
            'C05_spin_drift', 'C05_stability']
STATEMENTS = {
    'C05_src_row': 'SOURCE TIE (all C05_src_*): create_trajectory_row (with the _new_feet family inlined), get_correction, calculate_energy, calculate_ogw, spin_drift, calc_stability_coefficient as regenerated from the Python source equal the model functions',
    'C05_columns': 'every column of createRow is the stated function: mach = v/c, energy = w v^2/450400, ogw = w^2 v^3 1.5e-12 lb, windage = z + spin, '
                   'target_drop = (y - x tan L) cos L, look_distance = x / cos L, density_factor = rho - 1, angle = arg(vx + i vy)',
    'C05_mach_zero_rejected': 'createRow = none iff the speed of sound passed in is 0 (ZeroDivisionError)',
    'C05_sight_line_geometry': 'cos L != 0: (y - x tan L) cos L = y cos L - x sin L (signed distance from the sight line); look_distance * cos L = x',
    'C05_adjustments': 'x != 0: drop_adj = atan(y/x) - L, windage_adj = atan(windage/x); x = 0: both 0',
    'C05_angle': 'vx > 0: angle = atan(vy/vx)',
    'C05_energy_is_kinetic': '|450400 - 2*7000*32.17405| <= 1e-4 relative',
    'C05_spin_drift': 'sign(twist) * 1.25 (Sg + 1.2) t^1.83 / 12 ft; 0 when Sg = 0 or twist = 0',
    'C05_stability': 'Miller Sg with velocity (v/2800)^(1/3) and atmosphere ((T_F+460)/519)(29.92/P_inHg) corrections; 0 when twist, length, diameter or pressure is 0',
}
TRUSTED = [
    'Lean 4.33.0 kernel; Mathlib (arctan, Complex.arg, rpow); axioms propext, Classical.choice, Quot.sound',
    'hand-written model BC/Model/Row.lean tied to create_trajectory_row / spin_drift / calc_stability_coefficient by bit-exact correspondence '
    '(ops row, spin: random state straight into the real function, every field) and by the whole-trajectory op fire (incl. event and terminal rows)',
]
ASSUME = ['Fn.atan2 over R is Complex.arg; glibc atan2/atan/tan/cos approximate them']
RULE = ('random (time, position, velocity, speed, mach, spin, look, density, drag, weight, flag) tuples incl. x = 0, negative x, look +-80 deg; '
        'random (twist, length, diameter, weight, mv, pressure, temperature) incl. zeros and left twist; rows of real shots (plain, extra, '
        'terminal); distinct_nontrivial = distinct row op lines with x != 0')


def correspondence(chk, drv):
    pbc = import_repo()
    from py_ballisticcalc.trajectory_calc import _trajectory_calc as tc
    U = pbc.Unit
    rng = chk.rng
    n = 1500 if chk.tier == 'quick' else 100000
    cr, cs = Corr('row'), Corr('spin')
    nontriv = set()
    for _ in range(n):
        x = rng.choice([0.0, rng.uniform(0, 5000), rng.uniform(-10, 10), 1e-9])
        r = pbc.Vector(x, rng.uniform(-500, 500), rng.uniform(-50, 50))
        v = pbc.Vector(rng.uniform(-100, 4000), rng.uniform(-2000, 2000), rng.uniform(-50, 50))
        vel = rng.choice([v.magnitude(), rng.uniform(0, 4000)])
        mach = rng.choice([rng.uniform(900, 1300), rng.uniform(0.5, 5), 0.0 if rng.random() < 0.02 else 1116.0])
        time = rng.uniform(0, 10)
        spin = rng.choice([0, 0.0, rng.uniform(-1, 1)])
        look = rng.choice([0.0, rng.uniform(-1.4, 1.4), rng.uniform(-0.2, 0.2)])
        dens, drag, weight = rng.uniform(0, 1.3), rng.uniform(0, 2), rng.choice([0.0, rng.uniform(20, 800)])
        flag = rng.choice([0, 1, 2, 4, 8, 9, 12, 10, 31])
        line = ('row ' + ' '.join(str(f2b(float(t))) for t in [time, r.x, r.y, r.z, v.x, v.y, v.z, vel, mach, spin, look, dens, drag, weight])
                + f' {flag}')
        try:
            row = tc.create_trajectory_row(time, r, v, vel, mach, spin, look, dens, drag, weight, flag)
            ans = 'ok ' + sg.enc_row(row)
        except ZeroDivisionError:
            ans = 'err:zerodiv'
        cr.add(line, ans)
        if x != 0:
            nontriv.add(line)
    calc = pbc.TrajectoryCalc(pbc.interface_config.create_interface_config())
    for _ in range(n // 5):
        twist = rng.choice([0.0, rng.uniform(6, 15), -rng.uniform(6, 15)])
        ln, dia, w = rng.choice([0.0, rng.uniform(0.5, 2)]), rng.choice([0.0, rng.uniform(0.17, 0.6)]), rng.uniform(30, 800)
        mv = rng.uniform(300, 4000)
        atmo = pbc.Atmo(U.Foot(rng.uniform(0, 8000)), U.hPa(rng.uniform(600, 1100)), U.Celsius(rng.uniform(-40, 50)), rng.uniform(0, 1))
        if rng.random() < 0.05:
            atmo = pbc.Vacuum()
        dm = pbc.DragModel(0.3, pbc.TableG7, U.Grain(w), U.Inch(dia), U.Inch(ln))
        shot = pbc.Shot(pbc.Weapon(2, twist), pbc.Ammo(dm, U.FPS(mv)), atmo=atmo)
        calc._init_trajectory(shot)
        ts = [0.0, rng.uniform(0, 3), rng.uniform(0, 30)]
        cs.add('spin ' + ' '.join(str(f2b(float(t))) for t in [calc.twist, calc.length, calc.diameter, calc.weight, calc.muzzle_velocity,
                                                               atmo.pressure.raw_value, atmo.temperature.raw_value]) +
               f' {len(ts)} ' + ' '.join(str(f2b(t)) for t in ts),
               'f%d ' % f2b(float(calc.stability_coefficient)) + ' '.join('f%d' % f2b(float(calc.spin_drift(t))) for t in ts))
    for c in (cr, cs):
        r = c.finish(drv)
        chk.corr.append(r)
        chk.oblige(f'corr:{c.op}', 'correspondence', r['mismatch'] == 0,
                   f"{r['cases']} cases, {r['bit_identical']} bit-identical, {r['within_tolerance']} within tolerance, {r['mismatch']} mismatches")
    chk.samples.append({'corr_op': cr.lines[0], 'python': cr.py[0]})
    chk.stats['distinct_nontrivial'] = len(nontriv)


def search(chk, broken):
    """oracle written from the property text, applied to rows of real shots (incl. event rows and the terminal row of a range error)"""
    pbc = import_repo()
    U = pbc.Unit
    rng = chk.rng
    n = 12 if (chk.tier == 'quick' and not broken) else 400
    evals = 0

    def close(a, b, rel, abs_=1e-12):
        return abs(a - b) <= rel * max(abs(a), abs(b)) + abs_
    for _ in range(n):
        if chk.over():
            break
        cfg = sg.gen_config(rng, 0.7)
        calc = pbc.Calculator(_config=cfg)
        shot, _ = sg.gen_shot(pbc, rng, flat=rng.random() < 0.6, allow_cant=False)
        if shot.atmo.density_ratio == 0:
            continue
        R = rng.choice([300.0, 900.0, 2400.0])
        hist = ''
        if rng.random() < 0.5:
            # a session: the same shot was just fired at the same place in OTHER weather (another atmosphere object of the same station
            # altitude, built before any firing) — nothing of that flight may show in the rows of this one
            other = copy.copy(shot)
            other.atmo = pbc.Atmo(shot.atmo.altitude, U.hPa(rng.uniform(700, 1050)), U.Celsius((shot.atmo.temperature >> U.Celsius) + rng.choice([-25, 20])),
                                  rng.choice([0, 60]))
            try:
                (calc if rng.random() < 0.6 else pbc.Calculator(_config=cfg)).fire(other, U.Foot(R), U.Foot(R / 12))
            except Exception:  # noqa
                pass
            hist = ' [right after the same shot was fired at the same station in other weather]'
        try:
            rows = calc.fire(shot, U.Foot(R), U.Foot(R / 12), extra_data=rng.random() < 0.5).trajectory
        except pbc.RangeError as e:
            rows = e.incomplete_trajectory
        except Exception:  # noqa
            continue
        if any(r.drag < 0 for r in rows):
            # a random custom table whose fitted curve goes NEGATIVE somewhere: negative drag accelerates the projectile without bound
            # (speeds of 1e19 fps, steps of 1e9 ft); not a drag table, and the one-step lag of the Mach column is then unbounded
            continue
        L = shot.look_angle >> U.Radian
        w = shot.ammo.dm.weight >> U.Grain
        alt0 = shot.atmo.altitude >> U.Foot
        for i, r in enumerate(rows):
            evals += 1
            x, y, v = r.distance >> U.Foot, r.height >> U.Foot, r.velocity >> U.FPS
            wd = r.windage >> U.Foot
            bad = []
            # local speed of sound from the documented model, independently of the library's atmosphere functions: the station value
            # within 30 ft of the station, else 20.0467 sqrt(T) m/s at the lapse-rate temperature (floored at -130 F)
            t0c = shot.atmo.temperature >> U.Celsius
            if abs(y) < 30:
                c_local = math.sqrt((shot.atmo.temperature >> U.Fahrenheit) + 459.67) * 49.0223
            else:
                tk = max(t0c + y * -0.0019812, (-130.0 - 32) * 5 / 9) + 273.15
                c_local = math.sqrt(tk) * 20.0467 * 3.2808399
            if not close(r.mach * c_local, v, 1e-3):
                bad.append(f'mach {r.mach} * local speed of sound {c_local} != speed {v}{hist}')
            if not close(r.energy >> U.FootPound, (w / 7000.0) * v * v / (2 * 32.17405), 2e-4):
                bad.append(f'energy {r.energy >> U.FootPound} is not the kinetic energy')
            if not close(r.ogw >> U.Pound, w * w * v ** 3 * 1.5e-12, 1e-6):
                bad.append('ogw')
            if not close(r.target_drop >> U.Foot, y * math.cos(L) - x * math.sin(L), 1e-9, 1e-9):
                bad.append(f'target_drop {r.target_drop >> U.Foot} vs sight-line geometry {y * math.cos(L) - x * math.sin(L)}')
            if not close((r.look_distance >> U.Foot) * math.cos(L), x, 1e-9, 1e-9):
                bad.append('look_distance')
            if x == 0:
                if (r.drop_adj >> U.Radian) != 0 or (r.windage_adj >> U.Radian) != 0:
                    bad.append('adjustments not zero at the muzzle')
            else:
                if not close(r.drop_adj >> U.Radian, math.atan(y / x) - L, 1e-9, 1e-12):
                    bad.append('drop_adj')
                if not close(r.windage_adj >> U.Radian, math.atan(wd / x), 1e-9, 1e-12):
                    bad.append('windage_adj')
            # angle = direction of the velocity: compare with the chord to the next row (coarse, second order)
            if i + 1 < len(rows) and (rows[i + 1].distance >> U.Foot) - x > 1.0 and rows[i + 1].flag == r.flag == 8:
                nx, ny = rows[i + 1].distance >> U.Foot, rows[i + 1].height >> U.Foot
                chord = math.atan2(ny - y, nx - x)
                a0, a1 = r.angle >> U.Radian, rows[i + 1].angle >> U.Radian
                lo, hi = min(a0, a1), max(a0, a1)
                if not (lo - 1e-3 <= chord <= hi + 1e-3):
                    bad.append(f'angle column {a0}..{a1} does not bracket the direction of travel {chord}')
            if bad:
                chk.failures.append(Failure('column:' + bad[0].split()[0], f'row at {x:.1f} ft (flag {r.flag}): ' + '; '.join(bad),
                                            {'op': 'row-columns', 'x_ft': x, 'y_ft': y, 'v_fps': v, 'look_rad': L, 'flag': int(r.flag)}))
                break
        # the same rifle under another atmosphere on the SAME calculator: rows must still follow that shot's own atmosphere
        if (shot.ammo.dm.length >> U.Inch) > 0 and (shot.ammo.dm.diameter >> U.Inch) > 0 and (shot.weapon.twist >> U.Inch) != 0:
            import copy as _copy
            s2 = _copy.copy(shot)
            s2.atmo = pbc.Atmo(U.Foot(rng.uniform(0, 9000)), U.hPa(rng.uniform(650, 1050)), U.Celsius(rng.uniform(-25, 40)), rng.uniform(0, 1))
            try:
                used = calc.fire(s2, U.Foot(R), U.Foot(R / 4)).trajectory
                fresh = pbc.Calculator(_config=cfg).fire(s2, U.Foot(R), U.Foot(R / 4)).trajectory
                evals += 1
                if [r.windage.raw_value for r in used] != [r.windage.raw_value for r in fresh]:
                    chk.failures.append(Failure('stale-per-shot-state', 'windage (spin drift) of a shot depends on the shot previously fired with the same calculator: '
                                                                        f'{used[-1].windage.raw_value} vs {fresh[-1].windage.raw_value} in on a fresh calculator',
                                                {'op': 'reuse', 'R': R}))
            except Exception:  # noqa
                pass
        # spin drift: same shot with and without twist
        if (shot.ammo.dm.length >> U.Inch) > 0 and (shot.ammo.dm.diameter >> U.Inch) > 0:
            tw = rng.choice([10.0, -9.0, 12.5])
            s0, s1 = copy.deepcopy(shot), copy.deepcopy(shot)
            s0.weapon.twist, s1.weapon.twist = U.Inch(0), U.Inch(tw)
            try:
                r0 = calc.fire(s0, U.Foot(R), U.Foot(R / 4)).trajectory
                r1 = calc.fire(s1, U.Foot(R), U.Foot(R / 4)).trajectory
            except Exception:  # noqa
                continue
            d, ln, wt = shot.ammo.dm.diameter >> U.Inch, shot.ammo.dm.length >> U.Inch, w
            mv = shot.ammo.get_velocity_for_temp(shot.atmo.powder_temp) >> U.FPS
            tF, pI = shot.atmo.temperature >> U.Fahrenheit, shot.atmo.pressure >> U.InHg
            l_ = ln / d
            sg_ = 30 * wt / ((abs(tw) / d) ** 2 * d ** 3 * l_ * (1 + l_ ** 2)) * (mv / 2800) ** (1 / 3) * ((tF + 460) / 519) * (29.92 / pI)
            for a, b in zip(r0, r1):
                evals += 1
                exp = (1 if tw > 0 else -1) * 1.25 * (sg_ + 1.2) * a.time ** 1.83
                got = (b.windage >> U.Inch) - (a.windage >> U.Inch)
                if not close(got, exp, 1e-6, 1e-9):
                    chk.failures.append(Failure('spin-drift', f'spin drift {got} in at t={a.time}, Litz/Miller gives {exp} in',
                                                {'op': 'spin', 'twist_in': tw, 'observed': got, 'expected': exp}))
                    break
    # the angle column is the DIRECTION of the velocity - in all four quadrants (a projectile blown or falling backwards has vx <= 0):
    # rows built directly from explicit velocity vectors
    from py_ballisticcalc.trajectory_calc import _trajectory_calc as tcm
    for _ in range(200 if (chk.tier == 'quick' and not broken) else 5000):
        vx = rng.choice([rng.uniform(-400, 3000), rng.uniform(-400, 0), 0.0])
        vy = rng.choice([rng.uniform(-2000, 2000), 0.0]) if vx != 0 else rng.choice([-120.0, 90.0, rng.uniform(-500, 500)])
        if vx == 0 and vy == 0:
            continue
        v = pbc.Vector(vx, vy, rng.uniform(-20, 20))
        try:
            row = tcm.create_trajectory_row(1.0, pbc.Vector(100.0, 5.0, 0.0), v, v.magnitude(), 1116.0, 0.0, 0.0, 1.0, 0.5, 150.0, 8)
        except Exception:  # noqa
            continue
        evals += 1
        ang = row.angle >> U.Radian
        hyp = math.hypot(vx, vy)
        if abs(math.cos(ang) - vx / hyp) > 1e-9 or abs(math.sin(ang) - vy / hyp) > 1e-9:
            chk.failures.append(Failure('angle-not-velocity-direction',
                                        f'a row built from the velocity ({vx}, {vy}) fps reports angle {math.degrees(ang):.3f} deg; the direction of that velocity is '
                                        f'{math.degrees(math.atan2(vy, vx)):.3f} deg',
                                        {'op': 'angle', 'vx': vx, 'vy': vy, 'observed_rad': ang, 'expected_rad': math.atan2(vy, vx)}))
            break
    chk.search_evals += evals
