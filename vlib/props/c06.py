"""C06 — unit conversions agree with the SI definitions and invert exactly."""
import math
from fractions import Fraction as Fr

from vlib.common import Corr, Failure, f2b, b2f, ulps, import_repo

ID = 'C06'
GENS = ['units']
TARGETS = ['BC.Props.C06']
PROP_FILES = ['BC/Props/C06.lean']
# the rounded interpretation (BC/Rounded.lean): the 'few ulps' clause as a theorem over the REGENERATED chains under the standard model of
# floating-point arithmetic; built and audited as its own module
SRC = {'module': 'BC.Props.C06Rounded', 'file': 'BC/Props/C06Rounded.lean', 'lemma_files': ['BC/Rounded.lean'], 'funcs': False, 'kind': 'theorem',
       'theorems': ['C06_round_trip_rounded']}
THEOREMS = ['C06_dim_consistent', 'C06_si_ratio', 'C06_angular_linear', 'C06_tangent', 'C06_temperature',
            'C06_round_trip', 'C06_raw_stable', 'C06_transitive']
STATEMENTS = {
    'C06_round_trip_rounded': 'ROUNDED ARITHMETIC (interpretation E): for ANY rounding of relative error u < 1 applied after every operation and to every literal (standard model of floating point; binary64 u = 2^-53), converting a value to any of the 31 units of Distance/Energy/Pressure/Velocity/Weight and back over the regenerated chains returns x(1+e) with |e| <= (1+u)^4 - 1 (at most four roundings: within a few ulps)',
    'C06_dim_consistent': 'a dimension class converts exactly the units Unit.__call__ routes to it; every other unit is an error',
    'C06_si_ratio': 'forall d in the 5 multiplicative dimensions, u v x: conv d u v x = some y -> |y - x*SI u/SI v| <= 1e-6*|x*SI u/SI v|',
    'C06_angular_linear': 'for the 7 linear angular units within one turn: stored radian value = x*SI u exactly, read-back = r/SI u',
    'C06_tangent': 'inch/100yd and cm/100m: tan(stored) = x/3600 (x/10000), stored in (-pi/2,pi/2), read-back = tan r * 3600 (10000)',
    'C06_temperature': 'conv Temperature u v x = some y -> kelvin(v,y) = kelvin(u,x) (exact affine maps)',
    'C06_round_trip': 'toRaw d x u = some r -> (angles within one turn) -> fromRaw d r u = some x, all 41 units',
    'C06_raw_stable': 'fromRaw d r u = some y -> toRaw d y u = some r (angular: no wrap / inside (-pi/2,pi/2))',
    'C06_transitive': 'conv u v x = y -> conv v w y = z -> conv u w x = z',
}
TRUSTED = [
    'Lean 4.33.0 kernel; Mathlib v4.33.0 (real numbers, arctan/tan, pi bounds); axioms propext, Classical.choice, Quot.sound',
    'translate/t_units.py (Python AST -> Lean), validated on every run by running the translated chains (Float) against unit.py bit for bit',
    'BC/Ref/SI.lean: hand-written SI definitions of the 41 units (the specification)',
    'theorems are over exact real arithmetic; binary64 rounding of the 1-4 operation chains is covered by the ulp-level search on the real code',
]
ASSUME = ['all magnitudes finite; angles within one turn (the wrap branch of Angular.to_raw is excluded, as the property says)',
          'Python float arithmetic is IEEE-754 binary64 and math.atan/tan are glibc libm (same libm as the Lean driver)']

DIMS = ['Angular', 'Distance', 'Energy', 'Pressure', 'Temperature', 'Velocity', 'Weight']

# independent SI table (exact rationals; angular in units of pi)
G0 = Fr('9.80665')
LB = Fr('0.45359237')
IN = Fr('0.0254')
SI = {
    'Inch': IN, 'Foot': 12 * IN, 'Yard': 36 * IN, 'Mile': 63360 * IN, 'NauticalMile': Fr(1852), 'Millimeter': Fr(1, 1000),
    'Centimeter': Fr(1, 100), 'Meter': Fr(1), 'Kilometer': Fr(1000), 'Line': IN / 10,
    'FootPound': LB * G0 * 12 * IN, 'Joule': Fr(1),
    'MmHg': Fr('133.322387415'), 'InHg': Fr('133.322387415') * Fr('25.4'), 'Bar': Fr(100000), 'hPa': Fr(100),
    'PSI': LB * G0 / (IN * IN),
    'MPS': Fr(1), 'KMH': Fr(1000, 3600), 'FPS': 12 * IN, 'MPH': 63360 * IN / 3600, 'KT': Fr(1852, 3600),
    'Grain': Fr('0.00006479891'), 'Ounce': LB / 16, 'Gram': Fr(1, 1000), 'Pound': LB, 'Kilogram': Fr(1), 'Newton': 1 / G0,
}
ANG_PI = {'Degree': Fr(1, 180), 'MOA': Fr(1, 180 * 60), 'Mil': Fr(2, 6400), 'Thousandth': Fr(2, 6000), 'OClock': Fr(2, 12)}
TAN = {'InchesPer100Yd': 3600.0, 'CmPer100m': 10000.0}


def to_kelvin(u, x):
    return {'Kelvin': x, 'Celsius': x + 273.15, 'Fahrenheit': (x + 459.67) * 5 / 9, 'Rankin': x * 5 / 9}[u]


def ang_rad(u, x):
    """angle in radians that x units denote (float, reference)"""
    if u == 'Radian':
        return x
    if u == 'MRad':
        return x / 1000
    if u in ANG_PI:
        return x * float(ANG_PI[u]) * math.pi
    return math.atan(x / TAN[u])


def units_by_dim(pbc):
    out = {d: [] for d in DIMS}
    for u in pbc.Unit:
        c = int(u)
        d = ('Angular' if c < 10 else 'Distance' if c < 20 else 'Energy' if 30 <= c < 40 else 'Pressure' if 40 <= c < 50
             else 'Temperature' if 50 <= c < 60 else 'Velocity' if 60 <= c < 70 else 'Weight' if 70 <= c < 80 else None)
        if d:
            out[d].append(u)
    return out


def magnitudes(rng, dim, unit_name, n):
    base = [0.0, 1.0, -1.0, 3.0, 0.1, 100.0, 2.5e-7, 1e6, -273.15, 59.0, 1e-12, 12345.678]
    xs = base + [rng.uniform(-1000, 1000) for _ in range(n)] + [10 ** rng.uniform(-9, 9) * rng.choice([1, -1]) for _ in range(n)]
    if dim == 'Angular':
        # keep within one turn
        lim = {'Radian': 6.2, 'Degree': 359.0, 'MOA': 21000.0, 'Mil': 6300.0, 'MRad': 6200.0, 'Thousandth': 5900.0,
               'InchesPer100Yd': 36000.0, 'CmPer100m': 100000.0, 'OClock': 11.9}[unit_name]
        xs = [x for x in xs if abs(x) <= lim] + [rng.uniform(-lim, lim) for _ in range(n)]
    return xs


def py_conv(pbc, dim, u, v, x):
    cls = getattr(pbc, dim)
    try:
        q = cls(x, u)
        return 'ok f%d' % f2b(q.get_in(v))
    except pbc.UnitConversionError:
        return 'err:unitconv'
    except Exception as e:  # noqa
        return 'err:' + type(e).__name__


def correspondence(chk, drv):
    pbc = import_repo()
    n = 4 if chk.tier == 'quick' else 40
    ubd = units_by_dim(pbc)
    allu = list(pbc.Unit)
    c_conv = Corr('conv')
    c_raw = Corr('toraw/fromraw')
    c_dim = Corr('udim')
    for di, d in enumerate(DIMS):
        cls = getattr(pbc, d)
        # every unit (own and foreign) through both chains
        for u in allu:
            for x in [1.0, -2.5, chk.rng.uniform(-50, 50)]:
                try:
                    a = 'ok f%d' % f2b(cls(1.0, ubd[d][0]).to_raw(x, u))
                except pbc.UnitConversionError:
                    a = 'err:unitconv'
                c_raw.add(f'toraw {di} {int(u)} {f2b(x)}', a)
                try:
                    a = 'ok f%d' % f2b(cls(1.0, ubd[d][0]).from_raw(x, u))
                except pbc.UnitConversionError:
                    a = 'err:unitconv'
                c_raw.add(f'fromraw {di} {int(u)} {f2b(x)}', a)
        for u in ubd[d]:
            for v in ubd[d]:
                for x in magnitudes(chk.rng, d, u.name, n):
                    c_conv.add(f'conv {di} {int(u)} {int(v)} {f2b(x)}', py_conv(pbc, d, u, v, x), [d, u.name, v.name, x])
    for u in allu:
        try:
            q = u(1.0)
            a = 'ok %d' % DIMS.index(type(q).__name__)
        except pbc.UnitTypeError:
            a = 'err:unittype'
        c_dim.add(f'udim {int(u)}', a)
    for c in (c_conv, c_raw, c_dim):
        r = c.finish(drv)
        chk.corr.append(r)
        chk.oblige(f'corr:{c.op}', 'correspondence', r['mismatch'] == 0,
                   f"{r['cases']} cases, {r['bit_identical']} bit-identical, {r['mismatch']} mismatches")
    chk.samples.append({'corr_op': c_conv.lines[7], 'python': c_conv.py[7], 'meaning': c_conv.meta[7]})
    chk.stats['distinct_nontrivial'] = len(set(c_conv.lines))


def search(chk, broken):
    """Property-level oracle on the real code, written against the SI definitions (not the model)."""
    pbc = import_repo()
    ubd = units_by_dim(pbc)
    n = 3 if (chk.tier == 'quick' and not broken) else 25
    evals = 0
    for d in DIMS:
        if chk.over():
            break
        for u in ubd[d]:
            for v in ubd[d]:
                for x in magnitudes(chk.rng, d, u.name, n):
                    if d == 'Angular' and (u.name in TAN or v.name in TAN) and abs(ang_rad(u.name, x)) > 1.4:
                        continue  # tangent-defined units only denote angles inside (-pi/2, pi/2)
                    evals += 1
                    y = u(x) >> v
                    # --- SI ratio / affine / tangent
                    if d == 'Temperature':
                        ref = to_kelvin(u.name, x)
                        got = to_kelvin(v.name, y)
                        bad = abs(got - ref) > 1e-6 * max(abs(ref), 273.15)
                        exp = ref
                    elif d == 'Angular':
                        ref = ang_rad(u.name, x)
                        got = ang_rad(v.name, y)
                        bad = abs(got - ref) > 1e-6 * abs(ref) + 1e-300
                        exp = ref
                    else:
                        ref = Fr(x) * SI[u.name] / SI[v.name]
                        bad = abs(Fr(y) - ref) > Fr(1, 10 ** 6) * abs(ref)
                        exp = float(ref)
                    if bad:
                        key = 'si-ratio:' + '/'.join(sorted({u.name, v.name} & {'Newton'}) or [d])
                        chk.failures.append(Failure(key, f'{u.name}({x!r}) >> {v.name} = {y!r}, SI definition gives {exp!r}',
                                                    {'op': 'conv', 'dimension': d, 'from': u.name, 'to': v.name, 'x': x, 'observed': y,
                                                     'expected': exp,
                                                     'python': f'from py_ballisticcalc import Unit; Unit.{u.name}({x!r}) >> Unit.{v.name}'}))
                    # --- round trip through v and back, a few ulps
                    back = v(y) >> u
                    scale = max(abs(x), 491.67) if d == 'Temperature' else abs(x)
                    tol = 16 * scale * 2.0 ** -52
                    if d == 'Angular' and (u.name in TAN or v.name in TAN):
                        tol *= 8 * (1 + (x / TAN.get(u.name, 1e9)) ** 2 + (y / TAN.get(v.name, 1e9)) ** 2)
                    if abs(back - x) > tol + 1e-300:
                        chk.failures.append(Failure(f'round-trip:{d}', f'{u.name}({x!r}) -> {v.name} -> {u.name} = {back!r}',
                                                    {'op': 'round-trip', 'from': u.name, 'via': v.name, 'x': x, 'observed': back,
                                                     'tolerance': tol}))
                # --- transitivity on one magnitude per triple
                for w in ubd[d]:
                    x = magnitudes(chk.rng, d, u.name, 0)[3 if d != 'Angular' else 0] if d != 'Angular' else 0.5
                    evals += 1
                    a = w(u(x) >> w) >> v if False else v(u(x) >> v) >> w
                    b = u(x) >> w
                    scale = max(abs(b), 491.67) if d == 'Temperature' else abs(b)
                    if abs(a - b) > 32 * scale * 2.0 ** -52 + 1e-300:
                        chk.failures.append(Failure(f'transitive:{d}', f'{u.name}({x})->{v.name}->{w.name} = {a!r} but ->{w.name} = {b!r}',
                                                    {'op': 'transitive', 'units': [u.name, v.name, w.name], 'x': x, 'observed': a, 'expected': b}))
    # foreign units must raise a conversion error
    for d in DIMS:
        if chk.over():
            break
        for u in pbc.Unit:
            if u in ubd[d]:
                continue
            evals += 1
            try:
                r = ubd[d][0](1.0) >> u
                chk.failures.append(Failure(f'foreign:{d}', f'{d} read in {u.name} returned {r!r}', {'op': 'foreign', 'dim': d, 'unit': u.name}))
            except pbc.UnitConversionError:
                pass
    chk.search_evals += evals
