"""C07 — preferred units only choose how bare numbers and output are read."""
import copy

from vlib.common import Corr, Failure, f2b, import_repo
from vlib import shotgen as sg
from vlib import trajcorr

ID = 'C07'
GENS = ['units', 'sites']
TARGETS = ['BC.Props.C07']
PROP_FILES = ['BC/Props/C07.lean']
THEOREMS = ['C07_quantity_keeps_raw', 'C07_bare_means_preferred', 'C07_orOther_swallows_zero', 'C07_no_default_swallows_zero', 'C07_sites_known',
            'C07_bare_zero_celsius']
STATEMENTS = {
    'C07_quantity_keeps_raw': 'an explicit quantity is stored with its own raw magnitude at every coercion site, whatever the slot prefers',
    'C07_bare_means_preferred': 'at a site whose idiom is not `p or <non-zero default>`, a bare x (EVERY x, 0 included) is stored as x in the slot\'s unit = the explicit quantity slot(x)',
    'C07_orOther_swallows_zero': 'the `p or default` idiom replaces a bare 0 by the default (why the next theorem matters)',
    'C07_no_default_swallows_zero': 'REGENERATED over every PreferredUnits.<slot>(arg) call of the API modules, kernel-checked: no site uses `p or <non-zero default>`',
    'C07_sites_known': 'regenerated: the sites with an unrecognised argument shape are exactly the two that pass a library-built quantity/literal',
    'C07_bare_zero_celsius': 'a bare 0 in an affine dimension is not raw 0 (0 C = raw 32 F)',
}
TRUSTED = [
    'Lean 4.33.0 kernel; Mathlib; axioms propext, Classical.choice, Quot.sound',
    'translate/t_sites.py: Python-AST extraction of every PreferredUnits.<slot>(arg) call with the idiom of its argument, re-run on every check',
    'INDEPENDENCE of results from the settings: no model function takes the preferred units (they are not an input of Run.ofShot, integrate, zeroAngle, Atmo.new, '
    'multiBCTable, dangerSpace, Sight.adjustment ...), and the bit-exact correspondence below is run under RANDOMISED assignments of all 15 slots and the shipped presets: '
    'agreement with a model that never sees the slots is independence',
]
ASSUME = ['output formatting (formatted(), in_def_units(), __str__) legitimately depends on the settings and is excluded']
RULE = ('every correspondence case runs under a fresh random assignment of the 15 slots (units of the right dimension) or a shipped preset; search: each computation under two '
        'assignments, compared bit for bit; every public float-or-quantity parameter with a bare number (0, negatives, random) vs the explicit quantity; '
        'distinct_nontrivial = distinct op lines')

SLOT_DIM = {'angular': 'Angular', 'distance': 'Distance', 'velocity': 'Velocity', 'pressure': 'Pressure', 'temperature': 'Temperature', 'diameter': 'Distance',
            'length': 'Distance', 'weight': 'Weight', 'adjustment': 'Angular', 'drop': 'Distance', 'energy': 'Energy', 'ogw': 'Weight', 'sight_height': 'Distance',
            'target_height': 'Distance', 'twist': 'Distance'}


def random_prefs(pbc, rng):
    r = rng.random()
    if r < 0.1:
        pbc.loadMetricUnits()
    elif r < 0.2:
        pbc.loadImperialUnits()
    elif r < 0.3:
        pbc.loadMixedUnits()
    else:
        by_dim = {}
        for u in pbc.Unit:
            by_dim.setdefault(type(u(1.0)).__name__, []).append(u)
        for slot, d in SLOT_DIM.items():
            setattr(pbc.PreferredUnits, slot, rng.choice(by_dim[d]))
    import py_ballisticcalc.trajectory_calc as tcm
    tcm.reset_globals()     # the presets also set the global step; keep that out of the picture


def correspondence(chk, drv):
    pbc = import_repo()
    rng = chk.rng
    n = 30 if chk.tier == 'quick' else 2000
    U = pbc.Unit
    try:
        c = Corr('fire@random-prefs')
        cz = Corr('zero@random-prefs')
        ca = Corr('atmo_new@random-prefs')
        nontriv = set()
        for i in range(n):
            random_prefs(pbc, rng)
            calc = pbc.Calculator(_config=sg.gen_config(rng, 0.8))
            shot, _ = sg.gen_shot(pbc, rng, flat=True)
            R, step = rng.choice([300.0, 900.0]), rng.choice([100.0, 150.0])
            extra = rng.random() < 0.3
            ans = sg.py_fire(pbc, calc, shot, R, step, extra, 0.0)
            line = sg.fire_line(pbc, calc, shot, R, step, extra, 0.0)
            c.add(line, ans, {'prefs': {f: getattr(pbc.PreferredUnits, f).name for f in SLOT_DIM}})
            nontriv.add(line)
            if i % 3 == 0:
                D = rng.choice([100.0, 300.0, 600.0])
                cz.add(f'zero {sg.enc_config(calc._calc._config)} {sg.enc_shot(pbc, shot)} {f2b(U.Foot(D) >> U.Foot)}', trajcorr.zero_answer(pbc, calc, shot, D))
            # Atmo constructor with BARE numbers (0 included) under these settings
            alt = rng.choice([None, 0, rng.uniform(0, 3000)])
            t = rng.choice([None, 0, rng.uniform(-20, 60)])
            hum = rng.choice([0, 0.4, 55])
            try:
                a = pbc.Atmo(alt, None, t, hum)
            except (ValueError, ZeroDivisionError, OverflowError):
                continue     # e.g. a bare 0 under Kelvin: absolute zero
            ca.add(_atmo_line(pbc, alt, None, t, hum), 'ok ' + ' '.join('f' + x for x in sg.enc_atmo(a).split()),
                   {'temperature': t, 'preferred': pbc.PreferredUnits.temperature.name})
        for cc in (c, cz, ca):
            r = cc.finish(drv)
            chk.corr.append(r)
            chk.oblige(f'corr:{cc.op}', 'correspondence', r['mismatch'] == 0, f"{r['cases']} cases under random preferred units, {r['bit_identical']} bit-identical, {r['mismatch']} mismatches")
        chk.samples.append({'corr_op': c.lines[0][:160] + ' ...', 'python': c.py[0][:100] + ' ...', 'meta': c.meta[0]})
        chk.stats['distinct_nontrivial'] = len(nontriv)
    finally:
        pbc.PreferredUnits.defaults()


def _atmo_line(pbc, alt, p, t, hum):
    """after the `is None` fix: only None is absent; a bare number (0 included) is that number in the preferred unit"""
    def opt(x, slot):
        if x is None:
            return '-'
        return str(f2b(getattr(pbc.PreferredUnits, slot)(x).raw_value))
    a = 0.0 if (alt is None or (not isinstance(alt, pbc.AbstractDimension) and not alt)) else pbc.PreferredUnits.distance(alt).raw_value
    return f'atmo_new {f2b(a)} {opt(p, "pressure")} {opt(t, "temperature")} - {f2b(float(hum))}'


def results(pbc, rng_seed, explicit):
    """one battery of computations with explicit-unit inputs -> list of raw numbers"""
    import random
    rng = random.Random(rng_seed)
    U = pbc.Unit
    out = []
    calc = pbc.Calculator()
    dm = pbc.DragModelMultiBC([pbc.BCPoint(0.31, V=U.MPS(800)), pbc.BCPoint(0.28, Mach=1.2)], pbc.TableG7, U.Grain(175), U.Inch(0.308), U.Inch(1.2))
    out += [p.CD for p in dm.drag_table] + [dm.BC]
    atmo = pbc.Atmo(U.Meter(300), U.hPa(980), U.Celsius(rng.uniform(-5, 30)), 40, U.Celsius(10))
    out += [atmo._t0, atmo._p0, atmo._a0, atmo._mach, atmo.density_ratio]
    ammo = pbc.Ammo(dm, U.MPS(790), U.Celsius(15), 0.01, True)
    ammo.calc_powder_sens(U.MPS(770), U.Celsius(-5))
    out.append(ammo.get_velocity_for_temp(U.Celsius(30)).raw_value)
    # every OPTIONAL argument left out: what the library supplies itself must not depend on the settings either
    ammo_d = pbc.Ammo(dm, U.MPS(790), temp_modifier=0.015, use_powder_sensitivity=True)
    out += [ammo_d.powder_temp.raw_value, ammo_d.get_velocity_for_temp(U.Celsius(30)).raw_value]
    atmo_d, weapon_d, wind_d = pbc.Atmo(), pbc.Weapon(), pbc.Wind()
    out += [atmo_d.altitude.raw_value, atmo_d.pressure.raw_value, atmo_d.temperature.raw_value, atmo_d.powder_temp.raw_value, atmo_d.density_ratio, atmo_d._mach,
            weapon_d.sight_height.raw_value, weapon_d.twist.raw_value, weapon_d.zero_elevation.raw_value,
            wind_d.velocity.raw_value, wind_d.direction_from.raw_value, wind_d.until_distance.raw_value]
    shot_d = pbc.Shot(weapon_d, ammo_d)
    out += [shot_d.look_angle.raw_value, shot_d.relative_angle.raw_value, shot_d.cant_angle.raw_value, shot_d.atmo.temperature.raw_value]
    out += [float(v) if not hasattr(v, 'raw_value') else v.raw_value for r in calc.fire(shot_d, U.Meter(300), U.Meter(100)).trajectory for v in r]
    dm_d = pbc.DragModel(0.3, pbc.TableG1)
    out += [dm_d.weight.raw_value, dm_d.diameter.raw_value, dm_d.length.raw_value]
    sight = pbc.Sight('SFP', U.Meter(100), U.Mil(0.1), U.MOA(0.25))
    weapon = pbc.Weapon(U.Centimeter(5), U.Inch(11), U.Mil(0.5), sight)
    shot = pbc.Shot(weapon, ammo, U.Degree(3), U.Mil(0.2), U.Degree(2), atmo, [pbc.Wind(U.MPS(4), U.Degree(70), U.Meter(200)), pbc.Wind(U.KMH(9), U.Degree(250), U.Meter(900))])
    z = calc.set_weapon_zero(shot, U.Meter(200))
    out.append(z.raw_value)
    hit = calc.fire(shot, U.Meter(600), U.Meter(50), extra_data=True)
    for r in hit.trajectory:
        out += [float(x) if not hasattr(x, 'raw_value') else x.raw_value for x in r]
    ds = hit.danger_space(U.Meter(400), U.Centimeter(50))
    out += [ds.begin.distance.raw_value, ds.end.distance.raw_value, ds.at_range.distance.raw_value]
    adj = sight.get_trajectory_adjustment(hit.trajectory[5], 8.0)
    out += [adj.vertical, adj.horizontal]
    return out


BARE_SITES = [
    # (description, slot, build(x) -> object, read(object) -> quantity)
    ('Weapon.sight_height', 'sight_height', lambda pbc, x: pbc.Weapon(sight_height=x), lambda o: o.sight_height),
    ('Weapon.twist', 'twist', lambda pbc, x: pbc.Weapon(twist=x), lambda o: o.twist),
    ('Weapon.zero_elevation', 'angular', lambda pbc, x: pbc.Weapon(zero_elevation=x), lambda o: o.zero_elevation),
    ('Atmo.altitude', 'distance', lambda pbc, x: pbc.Atmo(altitude=x), lambda o: o.altitude),
    ('Atmo.temperature', 'temperature', lambda pbc, x: pbc.Atmo(temperature=x), lambda o: o.temperature),
    ('Atmo.powder_t', 'temperature', lambda pbc, x: pbc.Atmo(powder_t=x), lambda o: o.powder_temp),
    ('Ammo.mv', 'velocity', lambda pbc, x: pbc.Ammo(pbc.DragModel(0.3, pbc.TableG7), x), lambda o: o.mv),
    ('Ammo.powder_temp', 'temperature', lambda pbc, x: pbc.Ammo(pbc.DragModel(0.3, pbc.TableG7), 800, x), lambda o: o.powder_temp),
    ('Wind.velocity', 'velocity', lambda pbc, x: pbc.Wind(x, 90), lambda o: o.velocity),
    ('Wind.direction_from', 'angular', lambda pbc, x: pbc.Wind(5, x), lambda o: o.direction_from),
    ('Wind.until_distance', 'distance', lambda pbc, x: pbc.Wind(5, 90, x), lambda o: o.until_distance),
    ('Shot.look_angle', 'angular', lambda pbc, x: pbc.Shot(pbc.Weapon(), pbc.Ammo(pbc.DragModel(0.3, pbc.TableG7), 800), look_angle=x), lambda o: o.look_angle),
    ('Shot.relative_angle', 'angular', lambda pbc, x: pbc.Shot(pbc.Weapon(), pbc.Ammo(pbc.DragModel(0.3, pbc.TableG7), 800), relative_angle=x), lambda o: o.relative_angle),
    ('Shot.cant_angle', 'angular', lambda pbc, x: pbc.Shot(pbc.Weapon(), pbc.Ammo(pbc.DragModel(0.3, pbc.TableG7), 800), cant_angle=x), lambda o: o.cant_angle),
    ('DragModel.weight', 'weight', lambda pbc, x: pbc.DragModel(0.3, pbc.TableG7, x, 0.3, 1.0), lambda o: o.weight),
    ('DragModel.diameter', 'diameter', lambda pbc, x: pbc.DragModel(0.3, pbc.TableG7, 150, x, 1.0), lambda o: o.diameter),
    ('DragModel.length', 'length', lambda pbc, x: pbc.DragModel(0.3, pbc.TableG7, 150, 0.3, x), lambda o: o.length),
    ('Sight.scale_factor', 'distance', lambda pbc, x: pbc.Sight('FFP', x, pbc.Unit.Mil(0.1), pbc.Unit.Mil(0.1)), lambda o: o.scale_factor),
    ('Sight.h_click_size', 'adjustment', lambda pbc, x: pbc.Sight('FFP', None, x, pbc.Unit.Mil(0.1)), lambda o: o.h_click_size),
    ('Ammo.get_velocity_for_temp', 'temperature',
     lambda pbc, x: pbc.Ammo(pbc.DragModel(0.3, pbc.TableG7), pbc.Unit.MPS(800), pbc.Unit.Celsius(15), 0.02, True).get_velocity_for_temp(x), lambda o: o),
]


def _rows(hit):
    return [float(v) if not hasattr(v, 'raw_value') else v.raw_value for r in hit for v in r]


def _std_shot(pbc):
    U = pbc.Unit
    dm = pbc.DragModel(0.3, pbc.TableG7, U.Grain(168), U.Inch(0.308), U.Inch(1.2))
    return pbc.Shot(pbc.Weapon(U.Inch(2), U.Inch(11)), pbc.Ammo(dm, U.MPS(800)), winds=[pbc.Wind(U.MPS(3), U.Degree(90))])


# bare numbers as CALL arguments: run(pbc, q) where q(slot, x) is either the bare x or PreferredUnits.<slot>(x); values are
# (range, step) factors chosen per site - incl. a step beyond the range and numbers that are large when read as inches
CALL_SITES = [
    ('Calculator.fire(range, step)', lambda pbc, q, a, b: _rows(pbc.Calculator().fire(_std_shot(pbc), q('distance', a), q('distance', b)))),
    ('Calculator.fire(range=Quantity, step)', lambda pbc, q, a, b: _rows(pbc.Calculator().fire(_std_shot(pbc), pbc.PreferredUnits.distance(a), q('distance', b)))),
    ('Calculator.set_weapon_zero(distance)', lambda pbc, q, a, b: [pbc.Calculator().set_weapon_zero(_std_shot(pbc), q('distance', a)).raw_value]),
    ('Calculator.barrel_elevation_for_target(distance)', lambda pbc, q, a, b: [pbc.Calculator().barrel_elevation_for_target(_std_shot(pbc), q('distance', a)).raw_value]),
    ('HitResult.danger_space(at_range, height)',
     lambda pbc, q, a, b: (lambda ds: [ds.begin.distance.raw_value, ds.end.distance.raw_value])(
         pbc.Calculator().fire(_std_shot(pbc), pbc.Unit.Meter(500), pbc.Unit.Meter(10)).danger_space(q('distance', a), q('target_height', b)))),
    # (drop and windage are typed Angular there - quantities only; the target distance accepts a bare number)
    ('Sight.get_adjustment(target_distance)',
     lambda pbc, q, a, b: (lambda r: [r.vertical, r.horizontal])(
         pbc.Sight('SFP', pbc.Unit.Meter(100), pbc.Unit.Mil(0.1), pbc.Unit.Mil(0.1)).get_adjustment(q('distance', a), pbc.Unit.Mil(b), pbc.Unit.Mil(b / 2), 4.0))),
    ('Atmo.icao(altitude)', lambda pbc, q, a, b: [pbc.Atmo.icao(q('distance', a))._t0, pbc.Atmo.icao(q('distance', a))._p0]),
    ('BCPoint(V)', lambda pbc, q, a, b: [pbc.BCPoint(0.3, V=q('velocity', a)).Mach]),
    ('Ammo.calc_powder_sens(v, t)', lambda pbc, q, a, b: [pbc.Ammo(pbc.DragModel(0.3, pbc.TableG7), pbc.Unit.MPS(800), pbc.Unit.Celsius(15)).calc_powder_sens(
        q('velocity', a), q('temperature', b))]),
]


def search(chk, broken):
    pbc = import_repo()
    U = pbc.Unit
    rng = chk.rng
    evals = 0
    try:
        # 1. results with explicit units are bit-for-bit independent of the settings
        n = 3 if (chk.tier == 'quick' and not broken) else 60
        for k in range(n):
            seed = rng.randrange(10 ** 9)
            pbc.PreferredUnits.defaults()
            base = results(pbc, seed, True)
            for _ in range(2):
                random_prefs(pbc, rng)
                got = results(pbc, seed, True)
                evals += 1
                if len(got) != len(base) or any(f2b(float(a)) != f2b(float(b)) for a, b in zip(base, got)):
                    idx = next((i for i, (a, b) in enumerate(zip(base, got)) if f2b(float(a)) != f2b(float(b))), -1)
                    chk.failures.append(Failure('result-depends-on-prefs', f'result #{idx} differs bit-wise under other preferred units: {base[idx]!r} vs {got[idx]!r}',
                                                {'op': 'independence', 'index': idx, 'prefs': {f: getattr(pbc.PreferredUnits, f).name for f in SLOT_DIM}}))
        # 2. a bare number means exactly that number in the preferred unit - zero included
        m = 4 if (chk.tier == 'quick' and not broken) else 60
        for _ in range(m):
            random_prefs(pbc, rng)
            for name, slot, build, read in BARE_SITES:
                for x in (0, 0.0, 1.5, -2.0, rng.uniform(-30, 30)):
                    if name in ('Sight.h_click_size',) and x <= 0:
                        continue
                    if name in ('Ammo.mv',) and False:
                        continue
                    unit = getattr(pbc.PreferredUnits, slot)
                    evals += 1
                    try:
                        a = read(build(pbc, x))
                    except Exception as e:  # noqa
                        a = type(e).__name__
                    try:
                        b = read(build(pbc, unit(x)))
                    except Exception as e:  # noqa
                        b = type(e).__name__
                    ra = a if isinstance(a, str) else f2b(a.raw_value)
                    rb = b if isinstance(b, str) else f2b(b.raw_value)
                    if ra != rb:
                        key = f'bare-not-preferred:{name}' + (':zero' if x == 0 else '')
                        chk.failures.append(Failure(key, f'{name}={x!r} (bare, preferred unit {unit.name}) gives {a!r} but the explicit quantity {unit.name}({x!r}) gives {b!r}',
                                                    {'op': 'bare', 'site': name, 'x': x, 'unit': unit.name}))
        # 2b. bare numbers as call arguments (range, step, zero distance, danger-space arguments, sight arguments, ...)
        for _ in range(2 if (chk.tier == 'quick' and not broken) else 30):
            random_prefs(pbc, rng)
            # keep the ranges shootable: a preferred distance unit up to a metre (sub-inch units included on purpose)
            pbc.PreferredUnits.distance = rng.choice([U.Yard, U.Meter, U.Foot, U.Centimeter, U.Inch, U.Millimeter, U.Line])
            for name, run in CALL_SITES:
                if chk.over():
                    break
                for a, b in ((100.0, 10.0), (120.0, 300.0), (150.0, 246.06), (rng.uniform(50, 400), rng.uniform(1, 900)), (400.0, 0.5)):
                    outs = []
                    for mode in ('bare', 'explicit'):
                        q = (lambda slot, x: x) if mode == 'bare' else (lambda slot, x: getattr(pbc.PreferredUnits, slot)(x))
                        try:
                            outs.append([f2b(float(v)) for v in run(pbc, q, a, b)])
                        except Exception as e:  # noqa
                            outs.append(type(e).__name__)
                    evals += 1
                    if outs[0] != outs[1]:
                        prefs = {f: getattr(pbc.PreferredUnits, f).name for f in SLOT_DIM}
                        chk.failures.append(Failure(f'bare-call-argument:{name}', f'{name} with bare numbers ({a!r}, {b!r}) differs from the same call with the explicit '
                                                                                   f'quantities PreferredUnits.<slot>(x) under {prefs}',
                                                    {'op': 'bare-call', 'site': name, 'a': a, 'b': b, 'prefs': prefs,
                                                     'bare': str(outs[0])[:200], 'explicit': str(outs[1])[:200]}))
                        break
        # known open finding: BCPoint(V=0) is rejected while BCPoint(V=Unit(0)) is accepted
        pbc.PreferredUnits.defaults()
        try:
            pbc.BCPoint(0.3, V=0)
            ok_bare = True
        except ValueError:
            ok_bare = False
        try:
            pbc.BCPoint(0.3, V=pbc.PreferredUnits.velocity(0))
            ok_q = True
        except ValueError:
            ok_q = False
        evals += 1
        if ok_bare != ok_q:
            chk.failures.append(Failure('bare-not-preferred:BCPoint.V:zero',
                                        'BCPoint(0.3, V=0) raises ValueError but BCPoint(0.3, V=<explicit zero velocity>) is accepted (truthiness test on the argument)',
                                        {'op': 'bare', 'site': 'BCPoint.V', 'x': 0, 'python': 'from py_ballisticcalc import *; BCPoint(0.3, V=Unit.MPS(0)).Mach, BCPoint(0.3, V=0)'}))
    finally:
        pbc.PreferredUnits.defaults()
    chk.search_evals += evals
