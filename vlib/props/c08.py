"""C08 — the atmosphere reproduces the ISA and is self-consistent across altitude."""
import math

from vlib.common import Corr, Failure, f2b, import_repo
from vlib import shotgen as sg

ID = 'C08'
GENS = ['units', 'consts']
TARGETS = ['BC.Props.C08']
PROP_FILES = ['BC/Props/C08.lean', 'BC/Lemmas/Atmo.lean']
THEOREMS = ['C08_vacuum_stays_zero', 'C08_unit_reads', 'C08_isa_temperature', 'C08_isa_exponent', 'C08_isa_pressure', 'C08_isa_sound', 'C08_dry_density',
            'C08_standard_station', 'C08_extrapolation_law', 'C08_shortcut', 'C08_outside_shortcut', 'C08_pressure_base_clamped',
            'C08_vacuum_zero', 'C08_humidity', 'C08_density_falls_with_vapour_partial']
STATEMENTS = {
    'C08_unit_reads': 'the unit reads the atmosphere performs, over the regenerated chains',
    'C08_isa_temperature': 'standard temperature = 15 C - 6.5 K/km exactly, every altitude',
    'C08_isa_exponent': '|5.255876 - g0 M/(R* L)| <= 2e-7',
    'C08_isa_pressure': 'base in [0.74, 1.02] (-1400..36000 ft): |p_code / p_ISA - 1| <= 1e-4',
    'C08_isa_sound': 'machF(F) = 49.0223 sqrt(F + 459.67), and 49.0223 within 1e-4 of sqrt(1.4 R*/M) in fps per sqrt(R)',
    'C08_dry_density': 'dry air, t in [-73.15, 46.85] C, p <= 1100 hPa: |rho_code / (p M/(R* T)) - 1| <= 5e-5',
    'C08_standard_station': 'a station built without pressure/temperature has the standard values of its altitude',
    'C08_extrapolation_law': 'standard station: temperatureAt z / pressureAt z = standard temperature / pressure OF z (barometric composition)',
    'C08_shortcut': '|z - a0| < 30 ft: the prediction is the station pair',
    'C08_outside_shortcut': 'beyond 30 ft: density = station ratio * (T0 p(z))/(p0 T(z)), Mach 1 = 20.0467 sqrt(T(z)) m/s in fps, at EVERY altitude',
    'C08_pressure_base_clamped': 'the base of the pressure power law is >= 0 and the prediction always answers',
    'C08_vacuum_zero': 'Vacuum: density ratio = 0 at every altitude',
    'C08_vacuum_stays_zero': 'the humidity setter (the only mutator of an atmosphere) leaves a vacuum\'s density ratio untouched (still 0 at every altitude); on an ordinary '
                             'atmosphere it recomputes the density from the station values and changes nothing else',
    'C08_humidity': 'h < 0 or h > 100 rejected; 1 < h <= 100 means h/100; 0 <= h <= 1 taken as is',
    'C08_density_falls_with_vapour_partial': 'PARTIAL (Z and enhancement factor frozen): density decreases as the vapour mole fraction rises',
}
TRUSTED = [
    'Lean 4.33.0 kernel; Mathlib (rpow, exp, log, sqrt); axioms propext, Classical.choice, Quot.sound',
    'hand-written model BC/Model/Atmo.lean tied to conditions.py by bit-exact correspondence (ops atmo_new, vacuum_new, atmo_at, atmo_std, '
    'air_density: all constructor paths, station x query altitude pairs on both sides of the 30-ft threshold, above 36089 ft, below the floor)',
    'constants regenerated from constants.py (translate/t_consts.py); ISA-1976 constants in BC/Props/C08.lean are the specification',
    'monotonicity of moist-air density in pressure, temperature and humidity with Z and f live has no theorem: covered by the grid search only',
]
ASSUME = ['glibc pow/exp/sqrt approximate the real functions; altitudes -1400 .. 36000 ft for the ISA clauses']
RULE = ('constructor arguments absent / bare / quantities in every unit, humidity in both conventions and out of range; 40+ query altitudes per '
        'station incl. a0 +- 29.99/30/30.01 ft, 36089 +- 1, 60000, 150000 ft; distinct_nontrivial = distinct (station, altitude) pairs beyond the shortcut')


def atmo_line(pbc, alt, p, t, pw, hum):
    def opt(x, slot):
        if x is None:       # only None means "not given" (a bare 0 is the number 0 in the preferred unit)
            return '-'
        return str(f2b(getattr(pbc.PreferredUnits, slot)(x).raw_value))
    a = 0.0 if (alt is None or (not isinstance(alt, pbc.AbstractDimension) and not alt)) else pbc.PreferredUnits.distance(alt).raw_value
    return f'atmo_new {f2b(a)} {opt(p, "pressure")} {opt(t, "temperature")} {opt(pw, "temperature")} {f2b(float(hum))}'


def correspondence(chk, drv):
    pbc = import_repo()
    U = pbc.Unit
    rng = chk.rng
    n = 300 if chk.tier == 'quick' else 20000
    cn, cv, ca, cs, cd = Corr('atmo_new'), Corr('vacuum_new'), Corr('atmo_at'), Corr('atmo_std'), Corr('air_density')
    ch = Corr('atmo_sethum')
    pairs = set()
    DU, PU, TU = [U.Foot, U.Meter, U.Yard], [U.hPa, U.InHg, U.MmHg, U.PSI, U.Bar], [U.Celsius, U.Fahrenheit, U.Kelvin, U.Rankin]
    for _ in range(n):
        du, pu, tu = rng.choice(DU), rng.choice(PU), rng.choice(TU)
        alt = rng.choice([None, 0, du(U.Foot(rng.uniform(-1400, 15000)) >> du), rng.uniform(0, 3000)])
        p = rng.choice([None, pu(U.hPa(rng.uniform(500, 1100)) >> pu), rng.uniform(20, 31)])
        t = rng.choice([None, 0, tu(U.Celsius(rng.uniform(-60, 60)) >> tu), rng.uniform(-20, 110)])
        pw = rng.choice([None, None, 0, U.Celsius(rng.uniform(-30, 40)), rng.uniform(10, 90)])
        hum = rng.choice([0.0, 0, rng.uniform(0, 1), rng.uniform(1, 100), 1.0, 100.0, 50, -0.1, 100.5, 101])
        try:
            a = pbc.Atmo(alt, p, t, hum, pw)
            ans = 'ok ' + ' '.join('f' + x for x in sg.enc_atmo(a).split())
        except ValueError:
            a, ans = None, 'err:humidity'
        cn.add(atmo_line(pbc, alt, p, t, pw, hum), ans, repr((alt, p, t, hum, pw)))
        if a is None:
            continue
        a0 = a._a0
        zs = [a0, a0 + 29.99, a0 - 29.99, a0 + 30.0, a0 - 30.0, a0 + 30.01, 36088.0, 36090.0, 60000.0, 150000.0, a0 + 200000.0, -2000.0] + \
             [rng.uniform(-1400, 40000) for _ in range(8)] + [a0 + rng.uniform(-500, 500) for _ in range(6)]
        outs = []
        for z in zs:
            d, m = a.get_density_factor_and_mach_for_altitude(z)
            outs.append('f%d f%d' % (f2b(float(d)), f2b(float(m))))
            if abs(a0 - z) >= 30:
                pairs.add((round(a0, 3), round(z, 3)))
        ca.add('atmo_at ' + sg.enc_atmo(a) + f' {len(zs)} ' + ' '.join(str(f2b(z)) for z in zs), ' '.join(outs))
        # the humidity setter on an existing atmosphere (and on a vacuum)
        for obj, vac in ((a, 'F'), (pbc.Vacuum(U.Foot(rng.uniform(0, 9000))), 'T')):
            h2 = rng.choice([0, 0.0, 0.3, 1, 45, 100, -1, 100.5])
            line = f'atmo_sethum {sg.enc_atmo(obj)} {vac} {f2b(float(h2))}'
            try:
                obj.humidity = h2
                ans2 = 'ok ' + ' '.join('f' + x for x in sg.enc_atmo(obj).split())
            except ValueError:
                ans2 = 'err:humidity'
            ch.add(line, ans2)
            if vac == 'F' and ans2.startswith('ok'):
                # the SAME object after the setter, asked for the SAME altitudes again (and once more): what it predicts follows its present state
                for _rep in range(2):
                    outs = []
                    for z in zs:
                        d, m = obj.get_density_factor_and_mach_for_altitude(z)
                        outs.append('f%d f%d' % (f2b(float(d)), f2b(float(m))))
                    ca.add('atmo_at ' + sg.enc_atmo(obj) + f' {len(zs)} ' + ' '.join(str(f2b(z)) for z in zs), ' '.join(outs))
        st = U.Foot(rng.uniform(-1400, 40000))
        cs.add(f'atmo_std {f2b(st.raw_value)}', 'f%d f%d' % (f2b(pbc.Atmo.standard_temperature(st).raw_value),
                                                            f2b(pbc.Atmo.standard_pressure(st).raw_value)))
        tt, pp, hh = rng.uniform(-60, 60), rng.uniform(300, 1100), rng.uniform(0, 1)
        cd.add(f'air_density {f2b(tt)} {f2b(pp)} {f2b(hh)}', 'f%d' % f2b(pbc.Atmo.calculate_air_density(tt, pp, hh)))
        if rng.random() < 0.2:
            va, vt = rng.choice([None, U.Foot(rng.uniform(0, 9000))]), rng.choice([None, U.Celsius(rng.uniform(-30, 40))])
            v = pbc.Vacuum(va, vt)
            cv.add(f'vacuum_new {f2b(0.0 if va is None else va.raw_value)} {"-" if vt is None else f2b(vt.raw_value)}',
                   'ok ' + ' '.join('f' + x for x in sg.enc_atmo(v).split()))
    for c in (cn, cv, ca, cs, cd, ch):
        r = c.finish(drv)
        chk.corr.append(r)
        chk.oblige(f'corr:{c.op}', 'correspondence', r['mismatch'] == 0,
                   f"{r['cases']} cases, {r['bit_identical']} bit-identical, {r['within_tolerance']} within tolerance, {r['mismatch']} mismatches")
    chk.samples.append({'corr_op': cn.lines[0], 'python': cn.py[0], 'args': cn.meta[0]})
    chk.stats['distinct_nontrivial'] = len(pairs)
    chk.stats['atmo_new_outcomes'] = {'ok': sum(a.startswith('ok') for a in cn.py), 'err:humidity': sum(a.startswith('err') for a in cn.py)}


def isa(z_ft):
    """ISA-1976 troposphere: T [K], p [hPa], rho/rho0, a [fps]"""
    z = z_ft * 0.3048
    T = 288.15 - 0.0065 * z
    p = 1013.25 * (T / 288.15) ** (9.80665 * 0.0289644 / (8.31432 * 0.0065))
    rho = p * 100 * 0.0289644 / (8.31432 * T)
    a = math.sqrt(1.4 * 8.31432 * T / 0.0289644) / 0.3048
    return T, p, rho / 1.225, a


def search(chk, broken):
    pbc = import_repo()
    U = pbc.Unit
    rng = chk.rng
    n = 200 if (chk.tier == 'quick' and not broken) else 20000
    evals = 0
    for k in range(n):
        if chk.over():
            break
        z = rng.uniform(-1400, 36000) if k > 2 else [-1400.0, 0.0, 36000.0][k]
        T, p, rr, a = isa(z)
        at = pbc.Atmo.icao(U.Foot(z))
        evals += 1
        got = ((at.temperature >> U.Kelvin), (at.pressure >> U.hPa), at.density_ratio, at.mach >> U.FPS)
        for name, g, e in zip(['temperature', 'pressure', 'density ratio', 'speed of sound'], got, (T, p, rr, a)):
            if abs(g - e) > 1e-4 * e:
                chk.failures.append(Failure(f'isa:{name}', f'standard atmosphere at {z:.0f} ft: {name} {g} vs ISA {e}',
                                            {'op': 'isa', 'alt_ft': z, 'quantity': name, 'observed': g, 'expected': e}))
        # a standard station predicts the standard atmosphere of another altitude
        z2 = rng.uniform(-1400, 36000)
        d2, m2 = at.get_density_factor_and_mach_for_altitude(z2)
        other = pbc.Atmo.icao(U.Foot(z2))
        tol = 1e-4 if abs(z2 - z) >= 30 else 1.3e-3   # inside the shortcut the station pair is returned: off by up to the 30-ft lapse
        if abs(d2 - other.density_ratio) > tol * other.density_ratio or abs(m2 - (other.mach >> U.FPS)) > tol * m2:
            chk.failures.append(Failure('pair-consistency', f'standard station at {z:.0f} ft predicts ({d2}, {m2}) at {z2:.0f} ft; a standard station there '
                                                            f'has ({other.density_ratio}, {other.mach >> U.FPS})',
                                        {'op': 'pair', 'a0_ft': z, 'z_ft': z2}))
        d0, m0 = at.get_density_factor_and_mach_for_altitude(at.altitude >> U.Foot)
        if d0 != at.density_ratio or m0 != at._mach:
            chk.failures.append(Failure('own-values', 'prediction at the station altitude is not the station pair', {'op': 'own', 'a0_ft': z}))
        # the shortcut jumps by no more than the 30-ft lapse - for the standard station and for any station of the domain (-60..60 C)
        a0 = at.altitude >> U.Foot
        cold = pbc.Atmo(U.Foot(rng.uniform(-1400, 12000)), U.hPa(rng.uniform(500, 1100)), U.Celsius(rng.choice([-60.0, -58.0, -57.0, rng.uniform(-60, 60)])), 0)
        ac = cold.altitude >> U.Foot
        for sgn in (1, -1):
            din, _ = cold.get_density_factor_and_mach_for_altitude(ac + sgn * 29.999)
            dout, mout = cold.get_density_factor_and_mach_for_altitude(ac + sgn * 30.001)
            d60, _ = cold.get_density_factor_and_mach_for_altitude(ac + sgn * 60.0)
            if abs(dout - din) > 1.05 * abs(d60 - dout) + 2e-5 * din or abs(mout - cold._mach) > 3e-4 * cold._mach:
                chk.failures.append(Failure('shortcut-jump', f'station at {ac:.0f} ft, {cold.temperature >> U.Celsius:.1f} C: density jumps by {abs(dout - din)} across the 30-ft shortcut (the next '
                                                             f'30 ft change it by {abs(d60 - dout)}), speed of sound {cold._mach} -> {mout}',
                                            {'op': 'jump', 'a0_ft': ac, 't_C': cold.temperature >> U.Celsius}))
        for sgn in (1, -1):
            din, _ = at.get_density_factor_and_mach_for_altitude(a0 + sgn * 29.999)
            dout, _ = at.get_density_factor_and_mach_for_altitude(a0 + sgn * 30.001)
            d60, _ = at.get_density_factor_and_mach_for_altitude(a0 + sgn * 60.0)
            if abs(dout - din) > 1.05 * abs(d60 - dout) + 2e-5 * din:
                chk.failures.append(Failure('shortcut-jump', f'density jumps by {abs(dout - din)} across the 30-ft shortcut, the next 30 ft change it by {abs(d60 - dout)}',
                                            {'op': 'jump', 'a0_ft': a0}))
        # monotone: rises with pressure, falls with temperature and humidity; percent == fraction
        t, pr, h = rng.uniform(-60, 60), rng.uniform(500, 1090), rng.uniform(0.02, 0.98)
        base = pbc.Atmo(0, U.hPa(pr), U.Celsius(t), h).density_ratio
        if not pbc.Atmo(0, U.hPa(pr + 10), U.Celsius(t), h).density_ratio > base:
            chk.failures.append(Failure('monotone:pressure', 'density ratio does not rise with pressure', {'op': 'mono', 't': t, 'p': pr, 'h': h}))
        if not pbc.Atmo(0, U.hPa(pr), U.Celsius(t + 2), h).density_ratio < base:
            chk.failures.append(Failure('monotone:temperature', 'density ratio does not fall with temperature', {'op': 'mono', 't': t, 'p': pr, 'h': h}))
        if not pbc.Atmo(0, U.hPa(pr), U.Celsius(t), h + 0.02).density_ratio <= base:
            chk.failures.append(Failure('monotone:humidity', 'density ratio does not fall with humidity', {'op': 'mono', 't': t, 'p': pr, 'h': h}))
        if pbc.Atmo(0, U.hPa(pr), U.Celsius(t), h * 100 if h * 100 > 1 else h).density_ratio != pbc.Atmo(0, U.hPa(pr), U.Celsius(t), (h * 100) / 100.0 if h * 100 > 1 else h).density_ratio:
            chk.failures.append(Failure('humidity-convention', 'percent and fraction differ', {'op': 'hum', 'h': h}))
        # a station asked, edited through the humidity setter and asked again predicts what a FRESH station with its present
        # conditions predicts (self-consistent with its own current state, whatever it was asked before)
        st = pbc.Atmo(U.Foot(rng.uniform(0, 9000)), U.hPa(pr), U.Celsius(t), h)
        zq = [rng.uniform(-1000, 30000) for _ in range(3)] + [(st.altitude >> U.Foot) + 10.0]
        for zz in zq:
            st.get_density_factor_and_mach_for_altitude(zz)
        for h_new in (rng.uniform(0, 1), 0.0, rng.uniform(1, 100)):
            st.humidity = h_new
            fresh = pbc.Atmo(st.altitude, st.pressure, st.temperature, h_new)
            evals += 1
            for zz in zq:
                got_, exp_ = st.get_density_factor_and_mach_for_altitude(zz), fresh.get_density_factor_and_mach_for_altitude(zz)
                if got_ != exp_:
                    chk.failures.append(Failure('stale-after-humidity', f'a station at {st.altitude >> U.Foot:.0f} ft asked about {zz:.1f} ft, then set to humidity {h_new!r}, '
                                                                        f'predicts {got_} there; a fresh station with the same present conditions predicts {exp_}',
                                                {'op': 'history', 'station_ft': st.altitude >> U.Foot, 'p_hPa': pr, 't_C': t, 'h0': h, 'h_new': h_new, 'z_ft': zz,
                                                 'observed': list(got_), 'expected': list(exp_)}))
                    break
        v = pbc.Vacuum(U.Foot(rng.uniform(0, 9000)))
        if any(v.get_density_factor_and_mach_for_altitude(zz)[0] != 0 for zz in (0.0, z, z2, 1e5)):
            chk.failures.append(Failure('vacuum', 'vacuum density not zero', {'op': 'vacuum'}))
        # ... and stays zero whatever is done to it afterwards (humidity is the only thing a user can assign)
        for hv in (0, 0.5, 50, 100):
            v.humidity = hv
        try:
            v.humidity = 101
        except ValueError:
            pass
        if v.density_ratio != 0 or any(v.get_density_factor_and_mach_for_altitude(zz)[0] != 0 for zz in (0.0, z, z2, 1e5)):
            chk.failures.append(Failure('vacuum-after-humidity', f'a vacuum has density ratio {v.density_ratio} after its humidity was assigned',
                                        {'op': 'vacuum-humidity', 'python': 'from py_ballisticcalc import *; v=Vacuum(); v.humidity=0; v.density_ratio'}))
        # an ordinary atmosphere after a humidity assignment equals one constructed with that humidity
        a1 = pbc.Atmo(U.Foot(z), U.hPa(pr), U.Celsius(t), 0)
        a1.humidity = h
        a2 = pbc.Atmo(U.Foot(z), U.hPa(pr), U.Celsius(t), h)
        if a1.density_ratio != a2.density_ratio:
            chk.failures.append(Failure('humidity-setter', 'density after assigning humidity differs from construction with it', {'op': 'hum-setter', 'h': h}))
    for bad in (-0.001, 100.001, 1000):
        if chk.over():
            break
        evals += 1
        try:
            pbc.Atmo(humidity=bad)
            chk.failures.append(Failure('humidity-range', f'humidity {bad} accepted', {'op': 'hum-range', 'h': bad}))
        except ValueError:
            pass
    chk.search_evals += evals
