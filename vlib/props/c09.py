"""C09 — drag used by the solver is faithful to the drag table and BC definition."""
import copy
import math
from fractions import Fraction as Fr

from vlib.common import Corr, Failure, f2b, b2f, import_repo

ID = 'C09'
GENS = ['tables']
TARGETS = ['BC.Props.C09']
PROP_FILES = ['BC/Props/C09.lean', 'BC/Lemmas/C09.lean']
# source ties: function bodies regenerated from the Python source by translate/t_funcs.py, proved equal to the model functions
SRC = {'module': 'BC.Props.C09Src', 'file': 'BC/Props/C09Src.lean',
       'theorems': ['C09_src_curve', 'C09_src_loop_bounds', 'C09_src_bsearch_init', 'C09_src_bsearch_step', 'C09_src_select', 'C09_src_value']}
THEOREMS = ['C09_curve_interpolates', 'C09_select_range', 'C09_select_between', 'C09_select_node', 'C09_select_beyond',
            'C09_value_at_nodes', 'C09_value_between', 'C09_cd_homogeneous', 'C09_retardation', 'C09_tables_are_reference',
            'C09_within_5pct']
STATEMENTS = {
    'C09_src_curve': 'SOURCE TIE (all C09_src_*): calculate_curve (first entry, loop bounds, loop body, closing entry) and _calculate_by_curve_and_mach_list (initial bracket, loop condition and body, nearest-node selection, evaluation) as slices executed symbolically from the Python source on every run equal curveAt / bsearch / selectIdx / cdAt of the model',
    'C09_curve_interpolates': 'n>=3, strictly ascending Mach: curve entry k<=n-2 passes through each of its points ({0,1} for k=0, {k-1,k,k+1} else)',
    'C09_select_range': 'the selected entry is <= n-2 (never the closing line)',
    'C09_select_between': 'x_i < m < x_{i+1}: the selected entry is built from points including both i and i+1',
    'C09_select_node': 'm = x_i: the selected entry is built from node i',
    'C09_select_beyond': 'm >= x_{n-1} -> entry n-2 (last three points); m <= x_0 -> entry 0',
    'C09_value_at_nodes': 'cdAt(x_i) = y_i for every node incl. first and last',
    'C09_value_between': 'between neighbours the value lies on an entry interpolating both neighbours (a = 0 for the first-interval line)',
    'C09_cd_homogeneous': 'scaling the CD column scales cdAt',
    'C09_retardation': 'drag_by_mach = cd*2.08551e-4/bc and |2.08551e-4 - 0.076474*pi/(8*144)| <= 1e-5 relative',
    'C09_tables_are_reference': 'the nine regenerated tables = committed reference copy, start at Mach 0, strictly ascending, CD > 0',
    'C09_within_5pct': 'each shipped table: between neighbouring entries cd > 0 and |cd - linear interpolant| <= 5% (decide +kernel certificate over Q, lifted)',
}
TRUSTED = [
    'Lean 4.33.0 kernel (decide +kernel evaluates the rational certificates in the kernel, no extra axiom); Mathlib; axioms propext, Classical.choice, Quot.sound',
    'translate/t_tables.py regenerates BC/Gen/Tables.lean from drag_tables.py on every run (validated: op `table` returns the regenerated '
    'rows as bits and they are compared with the live module lists)',
    'BC/Ref/Tables.lean: committed reference copy (published McCoy/JBM tables cannot be fetched offline; cross-checked against '
    'examples/core/drag_model/drag_tables.py for eight tables)',
    'hand-written model BC/Model/Drag.lean tied to calculate_curve / _calculate_by_curve_and_mach_list / TrajectoryCalc.drag_by_mach by '
    'bit-exact correspondence at every node, both sides of every node and mid-point, beyond both ends',
]
ASSUME = ['theorems over exact reals/rationals; binary64 rounding of the curve evaluation is covered by the bit-exact Float run and the '
          'Fraction-exact oracle (1e-9 relative)']
RULE = ('nine shipped tables + random custom tables (3-40 strictly ascending points); queries: every node, +-1 ulp and +-1e-9 of every node, '
        'every mid-point +-1 ulp, below the first and beyond the last node, random; distinct_nontrivial = distinct (table, query) pairs')


def next_up(x):
    return math.nextafter(x, math.inf)


def next_down(x):
    return math.nextafter(x, -math.inf)


def query_points(rng, xs, dense):
    q = [xs[0] - 0.1, xs[0] - 1e-9, xs[-1] + 1e-9, xs[-1] + 0.5, xs[-1] * 2 + 1]
    idx = range(len(xs)) if dense else sorted(rng.sample(range(len(xs)), min(len(xs), 12)))
    for i in idx:
        x = xs[i]
        q += [x, next_up(x), next_down(x), x + 1e-9, x - 1e-9]
        if i + 1 < len(xs):
            m = (x + xs[i + 1]) / 2
            q += [m, next_up(m), next_down(m), rng.uniform(x, xs[i + 1])]
    return q


def custom_table(rng):
    n = rng.choice([3, 3, 4, 5, rng.randint(6, 40)])
    xs = sorted({round(rng.uniform(0, 5), 3) for _ in range(n * 2)})[:n]
    while len(xs) < 3:
        xs.append(xs[-1] + 0.5)
    return [{'Mach': x, 'CD': round(rng.uniform(0.05, 0.9), 4)} for x in xs]


def tab_line(rows):
    return f'{len(rows)} ' + ' '.join(f'{f2b(m)} {f2b(c)}' for m, c in rows)


def shipped(pbc):
    names = ['TableG1', 'TableG7', 'TableG2', 'TableG5', 'TableG6', 'TableG8', 'TableGI', 'TableGS', 'TableRA4']
    return [(n, getattr(pbc, n)) for n in names]


def correspondence(chk, drv):
    pbc = import_repo()
    from py_ballisticcalc.trajectory_calc import _trajectory_calc as tc
    rng = chk.rng
    dense = chk.tier != 'quick'
    c_cd, c_curve, c_dbm, c_tab = Corr('cd'), Corr('curve'), Corr('dbm'), Corr('table')
    tabs = shipped(pbc) + [(f'custom{i}', custom_table(rng)) for i in range(12 if not dense else 300)]
    pairs = set()
    calc = pbc.TrajectoryCalc(pbc.interface_config.create_interface_config())
    for name, table in tabs:
        rows = [(float(p['Mach']), float(p['CD'])) for p in table]
        pts = [pbc.DragDataPoint(m, c) for m, c in rows]
        curve = tc.calculate_curve(pts)
        c_curve.add(f'curve {tab_line(rows)}', ' '.join(f'f{f2b(float(v))}' for cp in curve for v in (cp.a, cp.b, cp.c)), name)
        qs = query_points(rng, [m for m, _ in rows], dense or name.startswith('Table') and rng.random() < 0.35)
        ml = [m for m, _ in rows]
        c_cd.add(f'cd {tab_line(rows)} {len(qs)} ' + ' '.join(str(f2b(q)) for q in qs),
                 ' '.join('f%d' % f2b(tc._calculate_by_curve_and_mach_list(ml, curve, q)) for q in qs), name)
        for q in qs:
            pairs.add((name, q))
        # through the solver object, as the property's observe_at says
        bc = rng.uniform(0.05, 1.2)
        dm = pbc.DragModel(bc, table)
        shot = pbc.Shot(pbc.Weapon(), pbc.Ammo(dm, 800))
        calc._init_trajectory(shot)
        qs2 = qs[:: max(1, len(qs) // 40)]
        c_dbm.add(f'dbm {f2b(bc)} {tab_line(rows)} {len(qs2)} ' + ' '.join(str(f2b(q)) for q in qs2),
                  ' '.join('f%d' % f2b(calc.drag_by_mach(q)) for q in qs2), name)
        # the user TRUES the model's own table in place (the very list the solver has already seen: coefficients scaled from some Mach
        # number up, a point replaced) and shoots again with the same calculator and the same model: the drag is that of the table NOW
        if rng.random() < 0.5:
            tab = dm.drag_table
            m0, f = rng.choice([0.0, 0.9, 1.0, 1.5]), rng.uniform(1.02, 1.1)
            for i, pt in enumerate(tab):
                if pt.Mach >= m0:
                    tab[i] = pbc.DragDataPoint(pt.Mach, pt.CD * f)
            calc._init_trajectory(shot)
            rows_now = [(pt.Mach, pt.CD) for pt in tab]
            c_dbm.add(f'dbm {f2b(dm.BC)} {tab_line(rows_now)} {len(qs2)} ' + ' '.join(str(f2b(q)) for q in qs2),
                      ' '.join('f%d' % f2b(calc.drag_by_mach(q)) for q in qs2), name + ' (trued in place)')
        if name.startswith('Table'):
            c_tab.add(f'table {name}', ' '.join(f'f{f2b(m)} f{f2b(c)}' for m, c in rows))
    for c in (c_cd, c_curve, c_dbm, c_tab):
        r = c.finish(drv)
        chk.corr.append(r)
        chk.oblige(f'corr:{c.op}', 'correspondence', r['mismatch'] == 0,
                   f"{r['cases']} tables, {r['bit_identical']} bit-identical, {r['within_tolerance']} within tolerance, {r['mismatch']} mismatches")
    chk.samples.append({'corr_op': c_dbm.lines[0][:200] + ' ...', 'python': c_dbm.py[0][:160] + ' ...', 'table': c_dbm.meta[0]})
    chk.stats['distinct_nontrivial'] = len(pairs)
    chk.stats['queries'] = len(pairs)


def parabola(p0, p1, p2):
    """exact quadratic through three points -> callable on Fractions"""
    (x0, y0), (x1, y1), (x2, y2) = [(Fr(a), Fr(b)) for a, b in (p0, p1, p2)]

    def f(x):
        x = Fr(x)
        return (y0 * (x - x1) * (x - x2) / ((x0 - x1) * (x0 - x2)) + y1 * (x - x0) * (x - x2) / ((x1 - x0) * (x1 - x2)) +
                y2 * (x - x0) * (x - x1) / ((x2 - x0) * (x2 - x1)))
    return f


def line(p0, p1):
    (x0, y0), (x1, y1) = [(Fr(a), Fr(b)) for a, b in (p0, p1)]
    return lambda x: y0 + (y1 - y0) * (Fr(x) - x0) / (x1 - x0)


def search(chk, broken):
    """oracle written from the property text with exact rational arithmetic, on TrajectoryCalc.drag_by_mach"""
    pbc = import_repo()
    rng = chk.rng
    dense = chk.tier != 'quick' or broken
    calc = pbc.TrajectoryCalc(pbc.interface_config.create_interface_config())
    before = copy.deepcopy([t for _, t in shipped(pbc)])
    tabs = shipped(pbc) + [(f'custom{i}', custom_table(rng)) for i in range(6 if not dense else 150)]
    K = 0.076474 * math.pi / (8 * 144)
    evals = 0
    for name, table in tabs:
        if chk.over():
            break
        rows = [(float(p['Mach']), float(p['CD'])) for p in table]
        n = len(rows)
        bc = rng.uniform(0.1, 1.0)
        calc._init_trajectory(pbc.Shot(pbc.Weapon(), pbc.Ammo(pbc.DragModel(bc, table), 800)))

        def cd(m):
            return calc.drag_by_mach(m) * bc / 2.08551e-04
        # the model's own table trued in place between two shots with the SAME calculator and model: node values are those of the table now
        dm_t = pbc.DragModel(bc, table)
        shot_t = pbc.Shot(pbc.Weapon(), pbc.Ammo(dm_t, 800))
        calc._init_trajectory(shot_t)
        f_t = rng.uniform(1.03, 1.1)
        for i, pt in enumerate(dm_t.drag_table):
            dm_t.drag_table[i] = pbc.DragDataPoint(pt.Mach, pt.CD * f_t)
        calc._init_trajectory(shot_t)
        for pt in dm_t.drag_table[:: max(1, len(dm_t.drag_table) // 6)]:
            evals += 1
            got_t = calc.drag_by_mach(pt.Mach) * bc / 2.08551e-04
            if abs(got_t - pt.CD) > 1e-9 * max(abs(pt.CD), max(abs(c) for _, c in rows)):
                chk.failures.append(Failure('stale-curve', f'{name}: after the model\'s table was scaled by {f_t:.3f} in place, the same calculator uses cd({pt.Mach}) = {got_t}; '
                                                           f'the table now says {pt.CD}',
                                            {'op': 'cd-after-edit', 'table': name, 'mach': pt.Mach, 'observed': got_t, 'expected': pt.CD, 'factor': f_t}))
                break
        calc._init_trajectory(pbc.Shot(pbc.Weapon(), pbc.Ammo(pbc.DragModel(bc, table), 800)))
        xs = [m for m, _ in rows]
        for q in query_points(rng, xs, dense or rng.random() < 0.3):
            evals += 1
            got = cd(q)
            j = max((i for i in range(n) if xs[i] <= q), default=-1)   # left neighbour
            cands = []
            if q in xs:
                i = xs.index(q)
                exp = rows[i][1]
                if abs(got - exp) > 1e-9 * max(abs(exp), max(abs(c) for _, c in rows)):
                    chk.failures.append(Failure('node-value', f'{name}: cd({q}) = {got}, table says {exp}',
                                                {'op': 'cd-node', 'table': name, 'mach': q, 'observed': got, 'expected': exp}))
                continue
            if j < 0:
                cands = [line(rows[0], rows[1])]
            elif j >= n - 1:
                cands = [parabola(rows[n - 3], rows[n - 2], rows[n - 1])]
            else:
                # consecutive points that include both neighbours j, j+1
                if j == 0:
                    cands.append(line(rows[0], rows[1]))
                if j >= 1:
                    cands.append(parabola(rows[j - 1], rows[j], rows[j + 1]))
                if j + 2 <= n - 1:
                    cands.append(parabola(rows[j], rows[j + 1], rows[j + 2]))
            vals = [float(f(q)) for f in cands]
            # tolerance relative to the size of the table's coefficients: a*M^2 + b*M + c cancels to near zero for some custom tables,
            # and the float evaluation then carries an ABSOLUTE error of a few ulps of the (much larger) terms
            cd_scale = max(abs(c) for _, c in rows)
            if not any(abs(got - v) <= 1e-9 * max(abs(v), cd_scale, 1e-3) for v in vals):
                chk.failures.append(Failure('not-on-parabola', f'{name}: cd({q!r}) = {got} is on none of the parabolas through consecutive points '
                                                               f'that include both neighbours ({vals})',
                                            {'op': 'cd-between', 'table': name, 'mach': q, 'observed': got, 'candidates': vals}))
            if name.startswith('Table') and 0 <= j < n - 1:
                lin = float(line(rows[j], rows[j + 1])(q))
                if not (got > 0 and abs(got - lin) <= 0.05 * lin):
                    chk.failures.append(Failure('five-percent', f'{name}: cd({q}) = {got} vs linear interpolant {lin}',
                                                {'op': 'cd-5pct', 'table': name, 'mach': q, 'observed': got, 'linear': lin}))
        # retardation constant
        q = rng.uniform(0.5, 3)
        if abs(calc.drag_by_mach(q) - cd(q) * K / bc) > 1e-5 * abs(cd(q) * K / bc):
            chk.failures.append(Failure('retardation', 'drag_by_mach is not cd*rho0*pi/(8*144)/BC', {'op': 'retardation', 'mach': q, 'bc': bc}))
    # the shipped tables are unchanged by library use (also exercised: multi-BC construction, firing)
    pbc.DragModelMultiBC([pbc.BCPoint(0.3, Mach=1.0), pbc.BCPoint(0.25, Mach=2.0)], pbc.TableG7)
    pbc.Calculator().fire(pbc.Shot(pbc.Weapon(), pbc.Ammo(pbc.DragModel(0.3, pbc.TableG1), 800)), pbc.Unit.Meter(50))
    after = [t for _, t in shipped(pbc)]
    if after != before:
        chk.failures.append(Failure('table-changed', 'a shipped table changed during library use', {'op': 'table-snapshot'}))
    chk.search_evals += evals
