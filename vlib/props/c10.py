"""C10 — results depend only on the arguments: deterministic, isolated, non-mutating."""
import copy
import gc
import random
import sys
import threading
import time

from vlib.common import Corr, Failure, f2b, import_repo
from vlib import shotgen as sg
from vlib import trajcorr

ID = 'C10'
GENS = ['rw']
TARGETS = ['BC.Props.C10']
PROP_FILES = ['BC/Props/C10.lean']
# source ties: function bodies regenerated from the Python source by translate/t_funcs.py, proved equal to the model functions
SRC = {'module': 'BC.Props.C10Src', 'file': 'BC/Props/C10Src.lean', 'lemma_files': ['BC/Props/C17Src.lean'],
       'theorems': ['C10_src_init_trajectory']}
THEOREMS = ['C10_init_overwrites', 'C10_no_hidden_state', 'C10_history_independent', 'C10_deterministic', 'C10_interleaving', 'C10_interleaving_fresh']
STATEMENTS = {
    'C10_src_init_trajectory': 'SOURCE TIE: _init_trajectory(shot_info), executed symbolically from the Python source on every run, assigns every scalar attribute as the corresponding field of Run.ofShot: a function of the configuration and the raw values of the shot alone (no earlier state of the calculator enters)',
    'C10_init_overwrites': 'REGENERATED from the current source, kernel-checked: every self attribute read by trajectory/zero_angle/_integrate and their callees is assigned by '
                           '_init_trajectory (first statement of both public computations) or by the constructor; the only attribute they assign is re-initialised too',
    'C10_no_hidden_state': 'REGENERATED: the only global writers are the two global-step setters; the only stores into non-self objects are set_weapon_zero\'s zero_elevation and '
                           'fresh result quantities; the only self-mutators of argument classes outside construction are the documented ones (convert = display unit only)',
    'C10_history_independent': 'abstract calculator with `frame` (= init overwrites all that compute reads): induction over ANY history, incl. failing calls: every outcome = the '
                               'outcome of that call on a fresh calculator',
    'C10_deterministic': 'repeating a call after any intermediate history gives the same outcome',
    'C10_interleaving': 'induction over ANY schedule of calls of calculators owned by distinct threads: each calculator produces exactly the outcomes of its own sequence run alone',
    'C10_interleaving_fresh': 'hence under any interleaving every outcome equals that of the same call on a fresh calculator',
}
TRUSTED = [
    'Lean 4.33.0 kernel; axioms propext, Classical.choice, Quot.sound (or none)',
    'translate/t_rw.py: Python-AST extraction of read/write sets, `global` statements, foreign attribute stores and self-mutators, re-run on every check; '
    'the `frame` premise of the abstract theorems is tied to the code by C10_init_overwrites (syntactic, same-module) and dynamically by the history correspondence',
    'the solver model itself is stateless (Run.ofShot re-derives everything): the correspondence op `hist` replays random operation histories on long-used real calculators and '
    'compares EVERY outcome bit for bit with the history-free model, with deep snapshots of all argument objects before/after each call',
    'real thread scheduling, C-level races and the GIL are outside any theorem: the thread run (sys.setswitchinterval(1e-6)) only samples them',
]
ASSUME = ['CPython: an exception aborts the enclosing assignment; each calculator object is used by one thread at a time (the property quantifies over calculators owned by distinct threads)']
RULE = ('random histories over pools of 3 shots x 2 calculators: fire (plain/extra), zero, set_weapon_zero, danger space, re-construction, incl. calls that raise RangeError / '
        'ZeroFindingError; 4 threads with own calculators vs the sequential run; distinct_nontrivial = distinct history op lines')


def snapshot(pbc, shot):
    return sg.enc_shot(pbc, shot) + ' | ' + ' '.join(str(f2b(p['CD'])) for p in pbc.TableG7[:5])


HEAVY = False     # thorough tier: also the slow operations (zeroing at 9000 / 30000 ft: seconds each)


def make_pool(pbc, rng):
    U = pbc.Unit
    if rng.random() < 0.5:
        # one station for the whole pool and a ground level 5 ft below its muzzles: long flat shots end on the altitude limit
        alt = rng.uniform(0, 6000)
        shots = [sg.gen_shot(pbc, rng, flat=True, max_look=0.0,
                             atmo=pbc.Atmo(U.Foot(alt), U.hPa(rng.uniform(700, 1050)), U.Celsius(rng.uniform(-20, 35)), rng.uniform(0, 1)))[0] for _ in range(3)]
        floor = (shots[0].atmo.altitude >> U.Foot) - 5.0
        cfgs = [{}, rng.choice([{'cMinimumVelocity': 1500.0, 'cMinimumAltitude': floor}, {'cMinimumAltitude': floor},
                                {'cMinimumVelocity': 800.0, 'cMinimumAltitude': floor, 'cMaximumDrop': -40.0}])]
    else:
        shots = [sg.gen_shot(pbc, rng, flat=rng.random() < 0.8)[0] for _ in range(3)]
        cfgs = [{}, rng.choice([{'cMinimumVelocity': 1500.0}, {'cMaximumDrop': -2.0}, {'max_calc_step_size_feet': 1.0}, {'cMaxIterations': 2}])]
    calcs = [pbc.Calculator(_config=c) for c in cfgs]
    for calc, c in zip(calcs, cfgs):
        # the configuration the calculator was BUILT with: what its results may depend on (not whatever it holds later)
        calc._verif_cfg0 = pbc.interface_config.create_interface_config(c)
        calc._verif_cfgdict = dict(c)
    return shots, calcs


def one_op(pbc, rng, shots, calcs, corr_fire=None, corr_zero=None, violations=None):
    """performs one random operation; returns its canonical outcome string"""
    U = pbc.Unit
    i, j = rng.randrange(len(shots)), rng.randrange(len(calcs))
    shot, calc = shots[i], calcs[j]
    before = [snapshot(pbc, s) for s in shots]
    r = rng.random()
    allowed_change = None
    if r < 0.45:
        R, step, extra = rng.choice([300.0, 900.0, 2400.0, 9000.0 if HEAVY else 2400.0, 15000.0 if HEAVY else 900.0]), rng.choice([100.0, 150.0]), rng.random() < 0.3
        out = sg.py_fire(pbc, calc, shot, R, step, extra, 0.0)
        if corr_fire is not None:
            corr_fire.add(sg.fire_line(pbc, calc, shot, R, step, extra, 0.0, calc._verif_cfg0), out, {'op': 'fire', 'shot': i, 'calc': j})
    elif r < 0.65:
        D = rng.choice([100.0, 300.0, 3000.0, 9000.0 if HEAVY else 1500.0, 30000.0 if HEAVY else 3000.0])
        line = f'zero {sg.enc_config(calc._verif_cfg0)} {sg.enc_shot(pbc, shot)} {f2b(U.Foot(D) >> U.Foot)}'
        out = trajcorr.zero_answer(pbc, calc, shot, D)
        if corr_zero is not None:
            corr_zero.add(line, out, {'op': 'zero', 'shot': i, 'calc': j})
    elif r < 0.8:
        D = rng.choice([100.0, 300.0, 3000.0, 9000.0 if HEAVY else 1500.0])
        old = shot.weapon.zero_elevation.raw_value
        try:
            z = calc.set_weapon_zero(shot, U.Foot(D))
            out = 'ok f%d' % f2b(z.raw_value)
            allowed_change = i
        except (pbc.ZeroFindingError, pbc.RangeError) as e:
            out = 'raise:' + type(e).__name__
            if shot.weapon.zero_elevation.raw_value != old and violations is not None:
                violations.append(('failed-zero-changed-weapon', 'a failed set_weapon_zero changed weapon.zero_elevation'))
    elif r < 0.9:
        try:
            hit = calc.fire(shot, U.Foot(900), U.Foot(90), True)
            ds = hit.danger_space(U.Foot(450), U.Inch(20))
            out = 'ok f%d f%d' % (f2b(ds.begin.distance.raw_value), f2b(ds.end.distance.raw_value))
        except (pbc.RangeError, ArithmeticError) as e:
            out = 'raise:' + type(e).__name__
    elif r < 0.97:
        # the user changes the conditions of an existing shot (same rifle and ammunition): a new atmosphere or new winds
        r2 = rng.random()
        if r2 < 0.4:
            sg.edit_in_place(pbc, rng, shot)
        elif r2 < 0.75:
            shot.atmo = pbc.Atmo(U.Foot(rng.uniform(0, 9000)), U.hPa(rng.uniform(650, 1050)), U.Celsius(rng.uniform(-25, 40)), rng.uniform(0, 1))
        else:
            shot.winds = [sg.gen_wind(pbc, rng) for _ in range(rng.randint(0, 3))]
        out = 'new-conditions'
        before = None
    else:
        shots[i] = sg.gen_shot(pbc, rng, flat=True)[0]
        out = 'new-shot'
        before = None
    if before is not None and violations is not None:
        after = [snapshot(pbc, s) for s in shots]
        for k, (a, b) in enumerate(zip(before, after)):
            if a != b:
                if k == allowed_change:
                    # only the stored zero may differ
                    tb, ta = a.split(), b.split()
                    if [x for n, x in enumerate(tb) if n != 3] == [x for n, x in enumerate(ta) if n != 3]:
                        continue
                violations.append(('argument-mutated', f'operation {out[:20]!r} changed a field of shot #{k} (other than the stored zero of the shot being zeroed)'))
    return out


def correspondence(chk, drv):
    global HEAVY
    HEAVY = chk.tier != 'quick'
    pbc = import_repo()
    rng = chk.rng
    n_hist = 5 if chk.tier == 'quick' else 300
    cf, cz = Corr('hist:fire'), Corr('hist:zero')
    viol = []
    ops = 0
    t0 = time.time()
    for _ in range(n_hist):
        if time.time() - t0 > 900:       # thorough tier: the slow operations (seconds each) bound the number of histories
            break
        shots, calcs = make_pool(pbc, rng)
        for _ in range(12):
            one_op(pbc, rng, shots, calcs, cf, cz, viol)
            ops += 1
    for c in (cf, cz):
        r = c.finish(drv)
        chk.corr.append(r)
        chk.oblige(f'corr:{c.op}', 'correspondence', r['mismatch'] == 0,
                   f"{r['cases']} calls inside random histories on long-used calculators vs the history-free model: {r['bit_identical']} bit-identical, {r['mismatch']} mismatches")
    chk.oblige('corr:arguments-intact', 'correspondence', not viol, f'{ops} operations with deep snapshots of all argument objects; violations: {viol[:3]}')
    for key, what in viol[:3]:
        chk.failures.append(Failure(key, what, {'op': 'hist-snapshot'}))
    chk.samples.append({'history_ops': ops, 'first_fire_in_history': cf.lines[0][:160] + ' ...' if cf.lines else None, 'meta': cf.meta[0] if cf.meta else None})
    chk.stats['distinct_nontrivial'] = len(set(cf.lines)) + len(set(cz.lines))
    chk.stats['history_outcomes'] = {'fire_err': sum(a.startswith('err') for a in cf.py), 'fire_ok': sum(a.startswith('ok') for a in cf.py),
                                     'zero_err': sum(a.startswith('err') for a in cz.py), 'zero_ok': sum(a.startswith('ok') for a in cz.py)}


def thread_script(pbc, seed, n_ops, chk=None):
    rng = random.Random(seed)
    shots, calcs = make_pool(pbc, rng)
    out = []
    for _ in range(n_ops):
        if chk is not None and chk.over():
            break
        out.append(one_op(pbc, rng, shots, calcs))
    return out


def search(chk, broken):
    global HEAVY
    pbc = import_repo()
    rng = chk.rng
    evals = 0
    # 1. long-used vs fresh: every call of a history, incl. the ones after a RAISING call, is repeated on a brand-new
    #    calculator built from the same configuration with a deep copy of the arguments (python only, bit-exact)
    n = 5 if chk.tier == 'quick' else 200
    if broken:
        n *= 6
    U = pbc.Unit
    for _ in range(n):
        if chk.over():
            break
        shots, calcs = make_pool(pbc, rng)
        hist = []
        raised_on = None
        last_j = last_i = 0
        for k in range(10):
            if chk.over():
                break
            i, j = rng.randrange(len(shots)), rng.randrange(len(calcs))
            if rng.random() < 0.3:
                # the user drops a shot and builds another (other bullet, other table): objects of earlier calls die, their
                # addresses are handed to new ones
                shots[i] = None
                gc.collect()
                shots[i] = sg.gen_shot(pbc, rng, flat=True, atmo=shots[(i + 1) % len(shots)].atmo)[0]
            elif rng.random() < 0.3:
                # the same rifle and load under other conditions (the weather changes, the user moves on): a NEW atmosphere object on the
                # same shot — everything a calculator derived from the previous atmosphere must be derived again
                if k > 0 and shots[last_i] is not None and rng.random() < 0.7:
                    i = last_i       # the rifle of the previous call
                shots[i].atmo = (pbc.Vacuum(U.Foot(rng.uniform(0, 3000)), U.Celsius(rng.uniform(-20, 35))) if rng.random() < 0.2 else
                                 pbc.Atmo(U.Foot(rng.uniform(-500, 9000)), U.hPa(rng.uniform(650, 1060)), U.Celsius(rng.uniform(-35, 45)),
                                          rng.choice([0, 50, 0.8])))
                if rng.random() < 0.5 and k > 0:
                    j = last_j       # ... on the calculator that has just served this rifle
            if raised_on is not None and rng.random() < 0.7:
                j = raised_on          # what does a calculator do right after one of its calls raised?
            shot, calc = shots[i], calcs[j]
            last_j, last_i = j, i
            if rng.random() < 0.25:
                # the user edits the shot he keeps IN PLACE (wind speed / direction / extent, angles, sight height, twist, load data, ...)
                sg.edit_in_place(pbc, rng, shot)
            elif len(shot._winds) >= 2 and rng.random() < 0.3:
                # ... in particular the EXTENT of wind segments, so that the order in which they act changes (no wind object added or removed)
                wa, wb = shot._winds[0], shot._winds[-1]
                wa.until_distance, wb.until_distance = wb.until_distance, wa.until_distance
            fresh = pbc.Calculator(_config=calc._verif_cfgdict)
            if rng.random() < 0.5:
                shot2 = copy.deepcopy(shot)
            else:
                # ... an EQUAL shot built anew from the present field values (nothing a long-lived shot object may have memoised comes along)
                shot2 = pbc.Shot(copy.deepcopy(shot.weapon), copy.deepcopy(shot.ammo), copy.deepcopy(shot.look_angle), copy.deepcopy(shot.relative_angle),
                                 copy.deepcopy(shot.cant_angle), copy.deepcopy(shot.atmo), [copy.deepcopy(w) for w in shot._winds])
            if rng.random() < 0.6:
                R, step, extra = rng.choice([300.0, 900.0, 2400.0, 9000.0 if HEAVY else 2400.0, 15000.0 if HEAVY else 900.0]), rng.choice([100.0, 150.0, 1500.0]), rng.random() < 0.3
                what = f'fire(shot#{i}, {R} ft, step {step} ft, extra={extra}) on calculator#{j}'
                a = sg.py_fire(pbc, calc, shot, R, step, extra, 0.0)
                b = sg.py_fire(pbc, fresh, shot2, R, step, extra, 0.0)
            else:
                D = rng.choice([100.0, 300.0, 3000.0, 9000.0 if HEAVY else 1500.0, 30000.0 if HEAVY else 3000.0])
                what = f'zero_angle(shot#{i}, {D} ft) on calculator#{j}'
                a = trajcorr.zero_answer(pbc, calc, shot, D)
                b = trajcorr.zero_answer(pbc, fresh, shot2, D)
            evals += 2
            raised_on = j if a.startswith('err') else None
            hist.append(f'{what} -> {a[:28]}')
            if a != b:
                chk.failures.append(Failure('history-dependent',
                                            f'operation {k} of a history ({what}) gives {a[:40]!r}... on the long-used calculator and {b[:40]!r}... on a fresh '
                                            f'calculator with the same configuration {calc._verif_cfgdict} and equal arguments',
                                            {'op': 'fresh-vs-used', 'history': hist, 'config': calc._verif_cfgdict, 'used': a[:400], 'fresh': b[:400]}))
                break
            if snapshot(pbc, shot) != snapshot(pbc, shot2):
                chk.failures.append(Failure('argument-mutated', f'{what} changed its shot argument', {'op': 'fresh-vs-used', 'history': hist}))
                break
        if any(f.key in ('history-dependent', 'argument-mutated') for f in chk.failures):
            break
    for t in range(3 if chk.tier == 'quick' else 40):
        if chk.over():
            break
        seed = rng.randrange(10 ** 9)
        a = thread_script(pbc, seed, 8)
        b = thread_script(pbc, seed, 8)
        evals += 16
        if a != b:
            k = next(i for i, (x, y) in enumerate(zip(a, b)) if x != y)
            chk.failures.append(Failure('not-deterministic', f'the same history from identical arguments gave different outcomes at operation {k}', {'op': 'repeat', 'seed': seed}))
    # 2. calculators owned by distinct threads
    HEAVY = False          # the thread runs use the fast operations only (they sample scheduling, not long flights)
    n_threads, n_ops = 4, (6 if chk.tier == 'quick' else 20)
    rounds = 2 if chk.tier == 'quick' else 6
    old = sys.getswitchinterval()
    try:
        sys.setswitchinterval(1e-6)
        for _ in range(rounds):
            seeds = [rng.randrange(10 ** 9) for _ in range(n_threads)]
            expected = [thread_script(pbc, s, n_ops) for s in seeds]
            got = [None] * n_threads
            errs = []

            def work(k):
                try:
                    got[k] = thread_script(pbc, seeds[k], n_ops)
                except Exception as e:  # noqa
                    errs.append(repr(e))
            ths = [threading.Thread(target=work, args=(k,)) for k in range(n_threads)]
            for th in ths:
                th.start()
            for th in ths:
                th.join()
            evals += n_threads * n_ops
            if errs or got != expected:
                chk.failures.append(Failure('threads', f'calculators run concurrently in {n_threads} threads gave results different from the sequential run ({errs[:1]})',
                                            {'op': 'threads', 'seeds': seeds}))
    finally:
        sys.setswitchinterval(old)
    chk.search_evals += evals
