"""C11 — what is recorded never changes what is computed."""
from vlib.common import Failure, import_repo
from vlib import shotgen as sg
from vlib import trajcorr

ID = 'C11'
GENS = ['units', 'consts']
TARGETS = ['BC.Props.C11']
PROP_FILES = ['BC/Props/C11.lean', 'BC/Lemmas/Filter.lean', 'BC/Lemmas/C11.lean', 'BC/Lemmas/C02.lean']
# source ties: function bodies regenerated from the Python source by translate/t_funcs.py, proved equal to the model functions
SRC = {'module': 'BC.Props.C11Src', 'file': 'BC/Props/C11Src.lean', 'lemma_files': ['BC/Lemmas/SrcFilter.lean'],
       'theorems': ['C11_src_should_record', 'C11_src_clear_current_flag']}
THEOREMS = ['C11_iterate_state', 'C11_loop_on_physical_sequence', 'C11_limit_is_physical', 'C11_range_record', 'C11_extra_superset_step',
            'C11_time_step_keeps_distance_rows', 'C11_extra_superset_iterate', 'C11_extra_superset', 'C11_start_sim', 'C11_extra_superset_rows_tail',
            'C11_extra_superset_rows']
STATEMENTS = {
    'C11_src_should_record': 'SOURCE TIE (all C11_src_*): should_record and clear_current_flag as regenerated from the Python source equal the model functions',
    'C11_iterate_state': 'state, wind sock and step by-products after one iteration = the physical step alone, whatever flags / steps / filter state / rows',
    'C11_loop_on_physical_sequence': 'induction over the loop: a completed run ends on physIter of the shot at the first state beyond the bound; only the prefix LENGTH depends on the request',
    'C11_limit_is_physical': 'whether and why a run stops at a limit is decided by the physical step alone',
    'C11_range_record': 'a distance-trigger row = linear interpolation between previous and current state at the record distance; independent of mask, time step, event bookkeeping',
    'C11_extra_superset_step': 'plain (mask RANGE) and extra (mask ALL) filters side by side: equal but for the mask, same flags, same row whenever the plain one records; '
                               'a row recorded only by the extra one has no RANGE bit and a ZERO_UP/ZERO_DOWN/MACH bit (hypothesis: APEX bit clear on entry, as the loop guarantees)',
    'C11_extra_superset_iterate': 'one loop iteration preserves the plain/extra simulation (or the extra run alone stops with ZeroDivisionError)',
    'C11_extra_superset': 'induction over the loop: the plain rows are exactly the extra rows flagged RANGE, every other extra row is an event row',
    'C11_start_sim': 'the two initial loop states of the same request are in the simulation',
    'C11_extra_superset_rows_tail': 'whole results of integrate(fRANGE) vs integrate(fALL), closing row accounted for',
    'C11_extra_superset_rows': 'plain run with >= 2 recorded rows: rows(plain) = rows(extra) filtered by RANGE, all other extra rows are ZERO_UP/ZERO_DOWN/MACH rows',
    'C11_time_step_keeps_distance_rows': 'a time step only adds records: same distance bookkeeping and event flags, same row whenever the filter without time step records',
}
TRUSTED = [
    'Lean 4.33.0 kernel; Mathlib; axioms propext, Classical.choice, Quot.sound',
    'hand-written model BC/Model/Traj.lean tied to _integrate/_TrajectoryDataFilter by bit-exact correspondence of whole trajectories (op fire) over '
    'random (range, step, time_step, extra) requests',
    'the row-level statements are one-step theorems; their lift to whole row LISTS is exercised by the search (pairs of requests on the real code)',
]
ASSUME = ['"to float rounding": the record distance k*step is accumulated by repeated addition, so rows of two requests are matched when their distances agree to 1e-9 relative']
RULE = ('shots x pairs of requests (range, step, time_step, extra_data) sharing recording distances: shorter vs longer range, step vs multiple of step, '
        'plain vs extra, with vs without time step; distinct_nontrivial = distinct fire lines with >= 3 rows')


def correspondence(chk, drv):
    pbc = import_repo()
    n = 40 if chk.tier == 'quick' else 3000
    trajcorr.corr_fire(chk, drv, pbc, n, cfg_default=0.7)
    # range rows in (nearly) every integration step across the zero and the sonic crossings, plain and extra: an event that falls
    # into the very step that also produces a range row
    trajcorr.corr_fire(chk, drv, pbc, 10 if chk.tier == 'quick' else 500, cfg_default=0.8, label='fire-dense',
                       gen_kwargs=lambda rng: {'flat': True, 'allow_cant': False, 'max_look': 10.0,
                                               'mv': rng.choice([rng.uniform(1125, 1190), rng.uniform(1125, 1190), rng.uniform(1500, 3000)])},   # half of them go subsonic within the range
                       requests=lambda rng: (rng.choice([300.0, 600.0]), rng.choice([0.5, 1.0, 1.5]), rng.random() < 0.7, 0.0))


def fire(pbc, calc, shot, R, step, extra=False, ts=0.0):
    U = pbc.Unit
    try:
        return calc.fire(shot, U.Foot(R), U.Foot(step), extra, ts).trajectory, None
    except pbc.RangeError as e:
        return e.incomplete_trajectory, e.reason


def vals(r):
    return (r.time, r.distance.raw_value, r.velocity.raw_value, r.mach, r.height.raw_value, r.target_drop.raw_value, r.drop_adj.raw_value,
            r.windage.raw_value, r.windage_adj.raw_value, r.look_distance.raw_value, r.angle.raw_value, r.density_factor, r.drag,
            r.energy.raw_value, r.ogw.raw_value)


def close_rows(a, b, rel=1e-7):
    return all(abs(x - y) <= rel * max(abs(x), abs(y)) + 1e-9 for x, y in zip(vals(a), vals(b)))


def search(chk, broken):
    pbc = import_repo()
    rng = chk.rng
    n = 12 if (chk.tier == 'quick' and not broken) else 500
    evals = 0
    # ordinary long-range rifle fire, requested to a ladder of ranges: the rows a shorter request shares with a longer one are the same
    # rows, bit for bit (wherever the request ends: inside or beyond the band around the station altitude, before or after the
    # transonic zone, ...)
    U = pbc.Unit
    for _ in range(3 if (chk.tier == 'quick' and not broken) else 40):
        if chk.over():
            break
        calc = pbc.Calculator()
        shot = pbc.Shot(pbc.Weapon(U.Inch(rng.uniform(1.5, 3)), 12), pbc.Ammo(pbc.DragModel(rng.uniform(0.2, 0.5), rng.choice([pbc.TableG7, pbc.TableG1])),
                                                                            U.FPS(rng.uniform(2400, 3000))))
        try:
            calc.set_weapon_zero(shot, U.Yard(rng.choice([100, 200])))
        except Exception:  # noqa
            continue
        step = 150.0
        R = step * rng.randint(22, 30)
        base, why = fire(pbc, calc, shot, R, step)
        if why or len(base) < 3:
            continue
        evals += 1
        for frac in (0.55, 0.6, 0.65, 0.7, 0.75, 0.8, 0.85, 0.9, 0.95):
            R2 = step * max(2, int(frac * R / step))
            short, _ = fire(pbc, calc, shot, R2, step)
            k = sum(1 for r in short if r.distance.raw_value <= R2 * 12 * (1 + 1e-12))
            if [vals(r) for r in short[:k]] != [vals(r) for r in base[:k]]:
                j = next(i for i in range(k) if vals(short[i]) != vals(base[i]))
                chk.failures.append(Failure('range-changes-rows', f'the row at {short[j].distance.raw_value / 12:.1f} ft differs between a request to {R2} ft and one to {R} ft '
                                                                  f'(same zeroed rifle shot, same step {step} ft)',
                                            {'op': 'range-ladder', 'R': R, 'R2': R2, 'step': step, 'row_ft': short[j].distance.raw_value / 12,
                                             'bc': shot.ammo.dm.BC, 'mv_fps': shot.ammo.mv >> U.FPS}))
                break
    for _ in range(n):
        if chk.over():
            break
        calc = pbc.Calculator(_config=sg.gen_config(rng, 0.7))
        shot, _ = sg.gen_shot(pbc, rng, flat=True)
        R = rng.choice([600.0, 1500.0, 2400.0])
        step = rng.choice([50.0, 100.0, R / 10, rng.uniform(20, 200)])
        if rng.random() < 0.3:      # a recording step below the maximum integration step vs a multiple of it
            R, step = 48.0, rng.choice([0.25, 0.375, 0.125])
        elif rng.random() < 0.4:    # range rows in (nearly) every step across the sonic crossing: an event in the step that also records a range row
            shot, _ = sg.gen_shot(pbc, rng, flat=True, allow_cant=False, max_look=10.0, mv=rng.uniform(1125, 1190))
            calc = pbc.Calculator()
            R, step = 600.0, rng.choice([0.5, 1.0, 1.5])
        ladder = rng.random() < 0.35
        if ladder:
            # long flat fire: the same shot requested to a ladder of ranges (the rows a shorter request shares with a longer one must not
            # depend on where the request ends — e.g. on whether the whole flight stays near the station altitude)
            R, step = 150.0 * rng.randint(20, 30), 150.0
        base, why = fire(pbc, calc, shot, R, step)
        if why or len(base) < 3:
            continue
        evals += 1
        if ladder:
            for frac in (0.55, 0.7, 0.8, 0.9):
                R2 = step * max(2, int(frac * R / step))
                short, _ = fire(pbc, calc, shot, R2, step)
                k = sum(1 for r in short if r.distance.raw_value <= R2 * 12 * (1 + 1e-12))
                if [vals(r) for r in short[:k]] != [vals(r) for r in base[:k]]:
                    j = next(i for i in range(k) if vals(short[i]) != vals(base[i]))
                    chk.failures.append(Failure('range-changes-rows', f'the row at {short[j].distance.raw_value / 12:.1f} ft differs between a request to {R2} ft and one to {R} ft '
                                                                      f'(same shot, same step {step} ft)', {'op': 'range-ladder', 'R': R, 'R2': R2, 'step': step, 'row_ft': short[j].distance.raw_value / 12}))
                    break
        # shorter range: prefix, bit for bit
        R2 = step * rng.randint(2, max(2, int(R / step) - 1))
        short, _ = fire(pbc, calc, shot, R2, step)
        k = sum(1 for r in short if r.distance.raw_value <= R2 * 12 * (1 + 1e-12))
        if [vals(r) for r in short[:k]] != [vals(r) for r in base[:k]]:
            chk.failures.append(Failure('range-changes-rows', f'rows up to {R2} ft differ between a request to {R2} ft and one to {R} ft',
                                        {'op': 'range', 'R': R, 'R2': R2, 'step': step}))
        # coarser step: subset (to float rounding)
        m = rng.choice([2, 3, 5])
        coarse, _ = fire(pbc, calc, shot, R, step * m)
        for r in coarse:
            match = [b for b in base if abs(b.distance.raw_value - r.distance.raw_value) <= 1e-9 * max(1.0, abs(r.distance.raw_value))]
            if match and not close_rows(match[0], r):
                chk.failures.append(Failure('step-changes-rows', f'row at {r.distance.raw_value / 12:.2f} ft differs between step {step} and step {step * m}',
                                            {'op': 'step', 'R': R, 'step': step, 'm': m}))
                break
        # extra data: every plain row present bit for bit; the rest are event rows
        extra, why2 = fire(pbc, calc, shot, R, step, True)
        if not why2:
            ev = [vals(r) + (int(r.flag),) for r in extra]
            for r in base:
                if vals(r) + (int(r.flag),) not in ev:
                    chk.failures.append(Failure('extra-not-superset', f'plain row at {r.distance.raw_value / 12:.2f} ft is not in the extra-data output',
                                                {'op': 'extra', 'R': R, 'step': step}))
                    break
            pv = {vals(r) for r in base}
            for r in extra:
                if vals(r) not in pv and not (int(r.flag) & 7):
                    chk.failures.append(Failure('extra-unflagged-row', f'extra-data row at {r.distance.raw_value / 12:.2f} ft (flag {int(r.flag)}) is neither a plain row nor an event row',
                                                {'op': 'extra-rows', 'R': R, 'step': step, 'flag': int(r.flag)}))
                    break
        # time step: only adds rows
        ts = rng.choice([0.001, 0.01, 0.05])
        timed, why3 = fire(pbc, calc, shot, R, step, False, ts)
        if not why3:
            tv = {vals(r) for r in timed}
            for r in base:
                if vals(r) not in tv:
                    chk.failures.append(Failure('time-step-changes-rows', f'row at {r.distance.raw_value / 12:.2f} ft changes or disappears with time_step={ts}',
                                                {'op': 'time-step', 'R': R, 'step': step, 'ts': ts}))
                    break
            # time step AND extra data: the time rows of the plain run are still there (event rows do not move the time clock)
            timed_extra, why4 = fire(pbc, calc, shot, R, step, True, ts)
            if not why4:
                tev = {vals(r) for r in timed_extra}
                for r in timed:
                    if vals(r) not in tev:
                        chk.failures.append(Failure('extra-changes-time-rows', f'with time_step={ts} the plain row at t={r.time:.5f} s, {r.distance.raw_value / 12:.2f} ft is missing '
                                                                               f'from the extra-data output of the same request',
                                                    {'op': 'time-step-extra', 'R': R, 'step': step, 'ts': ts}))
                        break
    chk.search_evals += evals * 6
