"""C12 — wind acts by segment, in order of distance, symmetrically and causally."""
import copy

from vlib.common import Failure, import_repo
from vlib import shotgen as sg
from vlib import trajcorr

ID = 'C12'
GENS = ['units']
TARGETS = ['BC.Props.C12']
PROP_FILES = ['BC/Props/C12.lean', 'BC/Lemmas/C12.lean', 'BC/Lemmas/Vec.lean']
# source ties: function bodies regenerated from the Python source by translate/t_funcs.py, proved equal to the model functions
SRC = {'module': 'BC.Props.C12Src', 'file': 'BC/Props/C12Src.lean',
       'theorems': ['C12_src_wind_vector', 'C12_src_sock_init', 'C12_src_sock_vector_for_range', 'C12_src_sock_current_vector', 'C12_src_winds_sort_key']}
THEOREMS = ['C12_mirror_wind', 'C12_mirror_step', 'C12_mirror_run', 'C12_zero_wind', 'C12_zero_winds_sock', 'C12_sock_invariant',
            'C12_sorted_any_order', 'C12_causal', 'C12_crosswind_step']
STATEMENTS = {
    'C12_src_sock_vector_for_range': 'SOURCE TIE (all C12_src_*): _WindSock.__init__ (with update_cache), vector_for_range, current_vector and Wind.vector, executed symbolically from the Python source on every run, equal WindSock.init / update / windVector of the model',
    'C12_mirror_wind': 'windVector v (-d) = mirror (windVector v d)',
    'C12_mirror_step': 'step commutes with z -> -z (wind mirrored, state mirrored); drag and speed equal',
    'C12_mirror_run': 'induction over the steps: the whole physical state sequence of the mirrored shot is the mirror image',
    'C12_zero_wind': 'windVector 0 d = 0 for every direction',
    'C12_zero_winds_sock': 'all-zero wind list: the sock delivers the zero vector initially and after every update',
    'C12_sock_invariant': 'sock cache = segment `current` (or zero vector / max distance beyond the last); update moves on by exactly one '
                          'segment iff x >= current until-distance, else unchanged',
    'C12_sorted_any_order': 'sortWinds is a permutation, ascending in until-distance, and order-independent for distinct until-distances',
    'C12_causal': 'two wind lists agreeing on segments 0..k give identical state sequences while the sock is in a segment <= k',
    'C12_crosswind_step': 'wind from the left (w_z >= 0), 0 <= drag*dt <= 1, 0 <= v_z <= w_z  ==>  0 <= v_z\' <= w_z and z\' >= z',
}
TRUSTED = [
    'Lean 4.33.0 kernel; Mathlib; axioms propext, Classical.choice, Quot.sound',
    'hand-written model BC/Model/Traj.lean (WindSock, sortWinds, windVector, step, physIter) tied to the implementation by the bit-exact '
    'correspondence ops fire (whole trajectories with 0-4 wind segments incl. duplicates, unsorted, zero speed) and init (sorted wind vectors)',
    'head/tail-wind monotonicity (drop and time of flight change in opposite senses) has no theorem: it is covered by the search only',
]
ASSUME = ['sorted() is stable; cos(-x) = cos(x), sin(-x) = -sin(x) bit-exactly in glibc libm']
RULE = ('shots with 0-4 wind segments (any speed incl. 0, any direction, until-distances incl. duplicates and unsorted order); related '
        'requests: permutations, zero-wind variants, appended/changed far segments, mirrored directions, left/head/tail winds; '
        'distinct_nontrivial = distinct fire lines with >= 3 rows')


def rows_of(pbc, calc, shot, rng_ft, step_ft):
    U = pbc.Unit
    try:
        return calc.fire(shot, U.Foot(rng_ft), U.Foot(step_ft)).trajectory
    except pbc.RangeError as e:
        return e.incomplete_trajectory


def key(r):
    return (r.time, r.distance.raw_value, r.velocity.raw_value, r.mach, r.height.raw_value, r.windage.raw_value, r.angle.raw_value,
            r.drop_adj.raw_value, r.energy.raw_value)


def correspondence(chk, drv):
    pbc = import_repo()
    n = 40 if chk.tier == 'quick' else 3000

    def gen_kwargs_winds():
        return {}
    trajcorr.corr_fire(chk, drv, pbc, n, gen_kwargs={'flat': True}, cfg_default=0.8)
    trajcorr.corr_init(chk, drv, pbc, n * 2)


def search(chk, broken):
    pbc = import_repo()
    U = pbc.Unit
    rng = chk.rng
    n = 12 if (chk.tier == 'quick' and not broken) else 600
    calc = pbc.Calculator()
    evals = 0
    for _ in range(n):
        if chk.over():
            break
        # shipped tables only: a random custom table can interpolate to a NEGATIVE drag coefficient, for which the
        # physical sign clauses (deflection with the wind) do not hold - the theorem has 0 <= drag*dt <= 1 as hypothesis
        shot, _ = sg.gen_shot(pbc, rng, flat=True, allow_cant=False, winds=[], table=getattr(pbc, rng.choice(sg.TABLE_NAMES)))
        shot.weapon.twist = U.Inch(0)     # spin drift aside
        vacuum = shot.atmo.density_ratio == 0   # no drag: wind cannot act at all
        R, step = rng.choice([600.0, 1500.0, 2400.0]), rng.choice([100.0, 150.0])
        k = rng.randint(2, 4)
        untils = sorted(rng.sample(range(100, int(R), 50), k))
        ws = [pbc.Wind(U.MPH(rng.uniform(2, 25)), U.Degree(rng.uniform(0, 360)), U.Foot(float(u))) for u in untils]

        def fire(winds):
            s = copy.copy(shot)
            s.winds = winds
            return rows_of(pbc, calc, s, R, step)
        base = fire(ws)
        evals += 1
        # 1. order of the list does not matter
        perm = ws[:]
        rng.shuffle(perm)
        if [key(r) for r in fire(perm)] != [key(r) for r in base]:
            chk.failures.append(Failure('order', 'permuting the wind list changes the trajectory', {'op': 'wind-order', 'untils_ft': untils}))
        # 1b. how the wind quantities are DISPLAYED does not matter: the same wind objects after their until-distances, speeds and
        #     directions were shown in other units (`q << unit` re-labels in place, magnitudes untouched) give the same rows
        sg.scramble_units(pbc, rng, *ws)
        if [key(r) for r in fire(ws)] != [key(r) for r in base]:
            chk.failures.append(Failure('display-units-of-winds', 'the trajectory changes after the quantities of the wind segments were displayed in other units '
                                                                  f'(until-distances now shown as {[str(w.until_distance) for w in ws]})',
                                        {'op': 'wind-display', 'untils_ft': untils, 'shown_as': [str(w.until_distance) for w in ws]}))
        # 2. zero-speed winds / empty list are no wind
        a, b, c = fire([]), fire([pbc.Wind()]), fire([pbc.Wind(U.MPH(0), U.Degree(rng.uniform(0, 360)), U.Foot(float(u))) for u in untils])
        if not ([key(r) for r in a] == [key(r) for r in b] == [key(r) for r in c]):
            chk.failures.append(Failure('zero-wind', 'empty list, [Wind()] and zero-speed winds differ', {'op': 'zero-wind'}))
        # 2b. a CALM first segment is a segment like any other: up to its end the trajectory is the no-wind one, whatever blows beyond
        u1 = float(untils[0])
        calm_first = fire([pbc.Wind(U.MPH(0), U.Degree(rng.uniform(0, 360)), U.Foot(u1))] + ws[1:])
        for r1, r2 in zip(a, calm_first):
            if (r1.distance >> U.Foot) <= u1 - 1.0 and key(r1) != key(r2):
                chk.failures.append(Failure('calm-segment-skipped', f'with a zero-speed wind up to {u1} ft followed by other winds the row at {r1.distance >> U.Foot} ft differs from '
                                                                    f'the no-wind row: the wind of a later segment acts before its segment begins',
                                            {'op': 'wind-calm-first', 'untils_ft': untils, 'row_ft': r1.distance >> U.Foot}))
                break
        # 3. causality: change / add segments beginning beyond until[j]
        j = rng.randrange(k - 1)
        D = float(untils[j])
        changed = ws[:j + 1] + [pbc.Wind(U.MPH(rng.uniform(2, 30)), U.Degree(rng.uniform(0, 360)), U.Foot(float(u) + 7.0)) for u in untils[j + 1:]]
        changed.append(pbc.Wind(U.MPH(10), U.Degree(45), U.Foot(R * 2)))
        c_rows = fire(changed)
        for r1, r2 in zip(base, c_rows):
            if (r1.distance >> U.Foot) <= D and key(r1) != key(r2):
                chk.failures.append(Failure('causal', f'changing segments that begin beyond {D} ft changed the row at {r1.distance >> U.Foot} ft',
                                            {'op': 'wind-causal', 'untils_ft': untils, 'D': D, 'row_ft': r1.distance >> U.Foot}))
                break
        # 3b. the segments really switch: the far segments must matter beyond their start (non-vacuity of the causal check)
        far_differs = any(key(r1) != key(r2) for r1, r2 in zip(base, c_rows) if (r1.distance >> U.Foot) > D + step)
        if not far_differs and not vacuum and len(base) > 2 and (base[-1].distance >> U.Foot) > D + 2 * step:
            chk.failures.append(Failure('never-switches', f'changing every segment beyond {D} ft changed no row at all: segments do not switch',
                                        {'op': 'wind-switch', 'untils_ft': untils, 'D': D}))
        # 4. mirror: negate every direction
        mir = [pbc.Wind(w.velocity, U.Radian(-w.direction_from.raw_value), w.until_distance) for w in ws]
        m_rows = fire(mir)
        for r1, r2 in zip(base, m_rows):
            same = (r1.time, r1.distance.raw_value, r1.velocity.raw_value, r1.height.raw_value, r1.mach) == \
                   (r2.time, r2.distance.raw_value, r2.velocity.raw_value, r2.height.raw_value, r2.mach)
            if not same or r1.windage.raw_value != -r2.windage.raw_value:
                chk.failures.append(Failure('mirror', 'mirroring all wind directions does not mirror the trajectory',
                                            {'op': 'wind-mirror', 'row_ft': r1.distance >> U.Foot, 'windage': [r1.windage.raw_value, r2.windage.raw_value]}))
                break
        # 4b. the same laws when the user edits the ALREADY FIRED wind objects in place instead of building new ones
        for w in ws:
            w.direction_from = U.Radian(-w.direction_from.raw_value)
        if [key(r) for r in fire(ws)] != [key(r) for r in m_rows]:
            chk.failures.append(Failure('mirror-in-place', 'wind objects already used by a shot and then mirrored IN PLACE give a trajectory different from newly built '
                                                           'mirrored winds (stale data kept from the earlier shot)', {'op': 'wind-mirror-in-place', 'untils_ft': untils}))
        for w in ws:
            w.velocity = U.MPH(0)
        if [key(r) for r in fire(ws)] != [key(r) for r in a]:
            chk.failures.append(Failure('zero-wind-in-place', 'wind objects already used by a shot and then set to zero speed IN PLACE differ from no wind',
                                        {'op': 'zero-wind-in-place', 'untils_ft': untils}))
        # 4b. a bare-number direction means that number in the PREFERRED angular unit (whatever it is, negative numbers and numbers beyond
        #     one turn of degrees included): the wind built from the bare number is the wind built from the explicit quantity
        try:
            pu = rng.choice([U.Radian, U.Mil, U.MOA, U.Degree, U.MRad])
            pbc.PreferredUnits.angular = pu
            num = rng.choice([-1, 1]) * (U.Degree(rng.uniform(20, 160)) >> pu) * rng.choice([1, 1, 3])
            wb = [pbc.Wind(U.MPH(12), num, U.Foot(1e7))]
            wq = [pbc.Wind(U.MPH(12), pu(num), U.Foot(1e7))]
        finally:
            pbc.PreferredUnits.defaults()
        if [key(r) for r in fire(wb)] != [key(r) for r in fire(wq)]:
            chk.failures.append(Failure('bare-direction', f'Wind(direction_from={num!r}) under preferred angular unit {pu.name} differs from Wind(direction_from={pu.name}({num!r}))',
                                        {'op': 'wind-bare-direction', 'preferred': pu.name, 'number': num}))
        # 5. wind from the left deflects to the right; head and tail winds act in opposite senses
        v = U.MPH(rng.uniform(5, 20))
        none_ = fire([])
        left = fire([pbc.Wind(v, U.Degree(90))])
        head, tail = fire([pbc.Wind(v, U.Degree(180))]), fire([pbc.Wind(v, U.Degree(0))])
        # (all four runs complete: the last rows are then rows at the SAME distance; the terminal rows of range errors are not)
        complete = all(abs((rr[-1].distance >> U.Foot) - (none_[-1].distance >> U.Foot)) < 1e-6 and (rr[-1].distance >> U.Foot) >= R - 1e-6
                       for rr in (none_, left, head, tail) if rr)
        if complete and len(none_) == len(left) == len(head) == len(tail) and len(none_) > 2 and not vacuum:
            if not all(r.windage.raw_value > 0 for r in left[1:]):
                chk.failures.append(Failure('left-wind', 'a wind from the left does not deflect to the right', {'op': 'left-wind'}))
            nl, hl, tl = none_[-1], head[-1], tail[-1]
            dh_h, dh_t = hl.height.raw_value - nl.height.raw_value, tl.height.raw_value - nl.height.raw_value
            dt_h, dt_t = hl.time - nl.time, tl.time - nl.time
            # time of flight: opposite senses on every sight line.  Height at a fixed distance: opposite senses for flat fire only - on a
            # steep sight line a horizontal wind also moves the projectile ALONG its inclined path (reaching the distance earlier in a steep
            # climb means lower), which can outweigh the change in gravity drop, so both winds may lower it (seen at +57 deg, 6 s of flight)
            flat_fire = abs(shot.look_angle >> U.Degree) <= 10.0
            # ... and only where the change of height is an effect, not noise: on a short flight that is still climbing at the distance,
            # arriving later (head wind) means both more gravity drop and more climb, the two cancel to ~1e-6 in and either sign can
            # win (seen: +7.5e-6 in / +4.9e-7 in after 0.185 s) — the statement is about the drop, which needs a measurable change
            measurable = min(abs(dh_h), abs(dh_t)) > 1e-3
            if not (dt_h * dt_t < 0 and (dh_h * dh_t < 0 or not flat_fire or not measurable)):
                chk.failures.append(Failure('head-tail', 'head and tail wind do not change drop and time of flight in opposite senses',
                                            {'op': 'head-tail', 'heights_in': [hl.height.raw_value, nl.height.raw_value, tl.height.raw_value],
                                             'times': [hl.time, nl.time, tl.time]}))
    chk.search_evals += evals * 12
