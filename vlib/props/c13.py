"""C13 — a quantity's magnitude is immutable and comparisons follow magnitude."""
import math

from vlib.common import Corr, Failure, f2b, import_repo

ID = 'C13'
GENS = ['units']
TARGETS = ['BC.Props.C13']
PROP_FILES = ['BC/Props/C13.lean']
THEOREMS = ['C13_value_invariant', 'C13_read_stable', 'C13_compare_by_magnitude', 'C13_compare_ignores_units',
            'C13_foreign_unit_raises', 'C13_hash', 'C13_truthy']
STATEMENTS = {
    'C13_value_invariant': 'for every finite op sequence (convert/<</Unit.X(q)/get_in/>>/unit_value/raw/str/compare/hash/units) the '
                           'list of (dimension, raw magnitude) of all quantities on the heap is unchanged (induction over the sequence)',
    'C13_read_stable': 'after any history, get_in(u) of quantity i = fromRaw of its original magnitude (or the conversion error)',
    'C13_compare_by_magnitude': 'the six comparisons are exactly <,<=,>,>=,=,!= on the raw magnitudes',
    'C13_compare_ignores_units': 'comparison results do not depend on the display units of either operand',
    'C13_foreign_unit_raises': 'U.dim u != dimension of q -> reading q in u is errUnitConv (over the regenerated chains)',
    'C13_hash': '__hash__ reads only _value (regenerated read-set); equal magnitudes hash equally; hash invariant under unit change',
    'C13_truthy': 'AbstractDimension defines neither __bool__ nor __len__ (regenerated list of dunders)',
}
TRUSTED = [
    'Lean 4.33.0 kernel; Mathlib; axioms propext, Classical.choice, Quot.sound',
    'hand-written heap model BC/Model/Quantity.lean tied to unit.py by the correspondence op qops (random operation histories, every output compared)',
    'translate/t_units.py: regenerated chains, the attribute read-set of __hash__, the list of dunder methods',
    'CPython: hash(float) is a function of the value; objects without __bool__/__len__ are truthy',
]
ASSUME = ['hash collisions between different floats are not distinguished (the check compares equal/unequal patterns)',
          'str/repr are modelled only as "raises or not" (their text is formatting, not magnitude)']
RULE = ('random histories of 5-30 operations over 1-3 quantities of every dimension and unit (own and foreign units in convert/get_in, '
        'comparisons with quantities and numbers, hash pairs, Unit.X(q) and PreferredUnits.slot(q) calls); '
        'distinct_nontrivial = distinct histories containing at least one convert and one read')

DIMS = ['Angular', 'Distance', 'Energy', 'Pressure', 'Temperature', 'Velocity', 'Weight']
CMPS = {'eq': lambda a, b: a == b, 'ne': lambda a, b: a != b, 'lt': lambda a, b: a < b, 'le': lambda a, b: a <= b,
        'gt': lambda a, b: a > b, 'ge': lambda a, b: a >= b}


def units_by_dim(pbc):
    out = {d: [] for d in DIMS}
    for u in pbc.Unit:
        out[type(u(1.0)).__name__].append(u)
    return out


def run_history(pbc, rng, ubd, allu, length):
    """Builds a random history, runs it on the real objects, returns (op line, python answer)."""
    k = rng.randint(1, 3)
    qs = []
    hdr = []
    for _ in range(k):
        d = rng.choice(DIMS)
        u = rng.choice(ubd[d])
        x = rng.choice([0.0, 1.0, 3.0, -2.0, rng.uniform(-100, 100), rng.uniform(0, 6)])
        if rng.random() < 0.4 and qs:   # same magnitude as an earlier quantity, other unit: exercises ==/hash
            p = qs[rng.randrange(len(qs))]
            d = type(p).__name__
            u = rng.choice(ubd[d])
            q = u(p >> u)
        else:
            q = u(x)
        qs.append(q)
        hdr.append(f'{DIMS.index(type(q).__name__)} {f2b(q.raw_value)} {int(q.units)}')
    ops, outs = [], []
    has_c = has_r = False
    for _ in range(length):
        i = rng.randrange(k)
        q = qs[i]
        d = type(q).__name__
        r = rng.random()
        own = rng.random() < 0.8
        u = rng.choice(ubd[d]) if own else rng.choice(allu)
        try:
            if r < 0.2:
                how = rng.randrange(4)
                if how == 0:
                    res = q.convert(u)
                elif how == 1:
                    res = q << u
                elif how == 2:
                    res = u(q)
                else:
                    res = pbc.PreferredUnits.distance(q) if False else u(q)
                assert res is q
                ops.append(f'c {i} {int(u)}'); outs.append('ok'); has_c = True
            elif r < 0.4:
                ops.append(f'g {i} {int(u)}')
                outs.append('f%d' % f2b(q.get_in(u) if rng.random() < 0.5 else q >> u)); has_r = True
            elif r < 0.5:
                ops.append(f'v {i}'); outs.append('f%d' % f2b(q.unit_value)); has_r = True
            elif r < 0.55:
                ops.append(f'r {i}'); outs.append('f%d' % f2b(float(q) if rng.random() < 0.5 else q.raw_value))
            elif r < 0.65:
                ops.append(f's {i}')
                (str(q) if rng.random() < 0.5 else repr(q)); outs.append('ok')
            elif r < 0.8:
                j = rng.randrange(k)
                op = rng.choice(list(CMPS))
                ops.append(f'q {op} {i} {j}'); outs.append('T' if CMPS[op](q, qs[j]) else 'F')
            elif r < 0.9:
                op = rng.choice(list(CMPS))
                x = rng.choice([q.raw_value, 0.0, 1.0, rng.uniform(-100, 100)])
                ops.append(f'n {op} {i} {f2b(x)}'); outs.append('T' if CMPS[op](q, x) else 'F')
            elif r < 0.97:
                j = rng.randrange(k)
                ops.append(f'h {i} {j}'); outs.append('T' if hash(q) == hash(qs[j]) else 'F')
            else:
                ops.append(f'u {i}'); outs.append('u%d' % int(q.units))
        except pbc.UnitConversionError:
            outs.append('E')
    tail = ' '.join(f'f{f2b(q.raw_value)} u{int(q.units)}' for q in qs)
    line = f'qops {k} ' + ' '.join(hdr) + f' {len(ops)} ' + ' '.join(ops)
    return line, ' '.join(outs) + ' | ' + tail, has_c and has_r


def correspondence(chk, drv):
    pbc = import_repo()
    ubd = units_by_dim(pbc)
    allu = list(pbc.Unit)
    n = 500 if chk.tier == 'quick' else 30000
    c = Corr('qops')
    nontriv = set()
    for _ in range(n):
        line, ans, nt = run_history(pbc, chk.rng, ubd, allu, chk.rng.randint(5, 30))
        c.add(line, ans)
        if nt:
            nontriv.add(line)
    r = c.finish(drv)
    chk.corr.append(r)
    chk.oblige('corr:qops', 'correspondence', r['mismatch'] == 0,
               f"{r['cases']} histories, {r['bit_identical']} identical, {r['mismatch']} mismatches")
    chk.samples.append({'corr_op': c.lines[0][:600], 'python': c.py[0][:600]})
    chk.stats['distinct_nontrivial'] = len(nontriv)
    chk.stats['ops_total'] = sum(int(l.split()[1 + 3 * int(l.split()[1]) + 1]) for l in c.lines)


def search(chk, broken):
    """property-level oracle on the real objects: magnitudes stable, comparisons by magnitude, hash law, foreign units raise"""
    pbc = import_repo()
    ubd = units_by_dim(pbc)
    allu = list(pbc.Unit)
    rng = chk.rng
    n = 300 if (chk.tier == 'quick' and not broken) else 10000
    evals = 0
    for _ in range(n):
        if chk.over():
            break
        d = rng.choice(DIMS)
        u, v, w = rng.choice(ubd[d]), rng.choice(ubd[d]), rng.choice(ubd[d])
        x = rng.uniform(-50, 50) if d != 'Angular' else rng.uniform(-1, 1)
        if d == 'Angular' and rng.random() < 0.5:
            # real angles, on both sides of 90 and 270 degrees (wind directions, steep shots): given in degrees whatever unit displays them
            x = (pbc.Unit.Degree(rng.choice([80.0, 100.0, 260.0, 280.0, rng.uniform(-360, 360)])) >> u) if u.name not in ('InchesPer100Yd', 'CmPer100m') \
                else rng.uniform(-1, 1)
        q = u(x)
        before = {t: q.get_in(t) for t in ubd[d]}
        raw0 = q.raw_value
        # a history of conversions / formatting / comparisons / hashing / passing as argument
        for _ in range(rng.randint(1, 8)):
            t = rng.choice(ubd[d])
            rng.choice([lambda: q.convert(t), lambda: q << t, lambda: t(q), lambda: str(q), lambda: repr(q), lambda: hash(q),
                        lambda: q == 1.0, lambda: q < t(2.0), lambda: q >> t, lambda: pbc.PreferredUnits.distance(q) if d == 'Distance' else None])()
        # ... and handing the quantity to the library: every constructor / call that accepts a quantity of this dimension receives the
        # caller's own object (PreferredUnits.<slot>(q) returns q itself) and must leave its magnitude alone
        handed = ''
        if rng.random() < 0.6:
            U = pbc.Unit
            dm0 = pbc.DragModel(0.3, pbc.TableG7)
            sinks = {
                'Angular': [lambda: pbc.Wind(U.MPS(3), q, U.Meter(100)), lambda: pbc.Weapon(U.Inch(2), 12, q),
                            # ... and a later call that REPLACES the weapon's zero must bind a new quantity, not write into the caller's
                            lambda: pbc.Calculator().set_weapon_zero(pbc.Shot(pbc.Weapon(U.Inch(2), 12, q), pbc.Ammo(dm0, U.MPS(800))), U.Yard(rng.choice([100, 300]))),
                            lambda: pbc.Shot(pbc.Weapon(), pbc.Ammo(dm0, U.MPS(800)), look_angle=q),
                            lambda: pbc.Shot(pbc.Weapon(), pbc.Ammo(dm0, U.MPS(800)), relative_angle=q, cant_angle=q),
                            lambda: pbc.Sight('FFP', None, abs(q.raw_value) and type(q)(abs(q.unit_value) + 0.1, q.units), U.Mil(0.1))],
                'Distance': [lambda: pbc.Wind(U.MPS(3), U.Degree(90), q), lambda: pbc.Weapon(q, q), lambda: pbc.Atmo(altitude=q),
                             lambda: pbc.DragModel(0.3, pbc.TableG7, U.Grain(150), q, q)],
                'Velocity': [lambda: pbc.Wind(q, U.Degree(90)), lambda: pbc.Ammo(dm0, q), lambda: pbc.BCPoint(0.3, V=q)],
                'Temperature': [lambda: pbc.Atmo(temperature=q), lambda: pbc.Ammo(dm0, U.MPS(800), q), lambda: pbc.Atmo(powder_t=q)],
                'Pressure': [lambda: pbc.Atmo(pressure=q)],
                'Weight': [lambda: pbc.DragModel(0.3, pbc.TableG7, q, U.Inch(0.3), U.Inch(1.2))],
                'Energy': [],
            }.get(d, [])
            for sink in rng.sample(sinks, min(len(sinks), 3)):
                try:
                    sink()
                    handed = ' and being passed to library constructors'
                except Exception:  # noqa  (a value the constructor rejects: still must not touch the quantity)
                    handed = ' and being passed to library constructors'
        evals += 1
        after = {t: q.get_in(t) for t in ubd[d]}
        if before != after or q.raw_value != raw0:
            chk.failures.append(Failure('magnitude-changed' + (':handed-to-library' if handed else ''), f'{d} {u.name}({x}) changed after a history of conversions{handed}',
                                        {'op': 'history', 'before': {k.name: v for k, v in before.items()}, 'after': {k.name: v for k, v in after.items()}}))
        # equality / ordering by magnitude, hash law
        r = v(q >> v)
        r_same = (r.raw_value == q.raw_value)
        if r_same:
            if not (q == r) or hash(q) != hash(r):
                chk.failures.append(Failure('hash-equal', f'{u.name}({x!r}) and the same magnitude in {v.name}: == is {q == r}, hashes '
                                                          f'{"equal" if hash(q) == hash(r) else "differ"}',
                                            {'op': 'hash', 'a': f'Unit.{u.name}({x!r})', 'b_unit': v.name, 'eq': q == r,
                                             'python': f'from py_ballisticcalc import Unit; a=Unit.{q.units.name}({q.unit_value!r}); b=Unit.{v.name}(a >> Unit.{v.name}); '
                                                       f'(a == b, hash(a) == hash(b))'}))
        h0 = hash(q)
        q << w
        if hash(q) != h0:
            chk.failures.append(Failure('hash-display-unit', f'hash of {d} quantity changes when its display unit changes ({u.name} -> {w.name})',
                                        {'op': 'hash-convert', 'dim': d, 'from': u.name, 'to': w.name, 'x': x,
                                         'python': f'from py_ballisticcalc import Unit; a=Unit.{u.name}({x!r}); h=hash(a); a << Unit.{w.name}; hash(a) == h'}))
        y = rng.uniform(-50, 50)
        if d == 'Angular' and w.name not in ('InchesPer100Yd', 'CmPer100m'):
            y = pbc.Unit.Degree(rng.choice([80.0, 100.0, 260.0, 280.0, rng.uniform(-360, 360)])) >> w
        s = w(y)
        q << rng.choice(ubd[d])      # whatever unit the left operand displays in
        for name, f in CMPS.items():
            if f(q, s) != f(q.raw_value, s.raw_value) or f(q, y) != f(q.raw_value, y):
                chk.failures.append(Failure('compare', f'{name} between {q!r} and {s!r} / {y} does not follow raw magnitude',
                                            {'op': 'compare', 'cmp': name}))
        # near-equal but distinct magnitudes (neighbouring floats, the same nominal value written in two units): == / != / hash / ordering
        # must still follow the magnitudes exactly (no tolerance), trichotomy must hold, equal quantities must hash alike
        k = rng.choice([1.0, 3.0, 7.0, 25.0, float(rng.randint(1, 59)), rng.uniform(0.1, 50)])
        near = [(u(k), v(u(k) >> v)), (u(k), u(math.nextafter(k, math.inf))), (v(k), v(math.nextafter(k, -math.inf)))]
        if d == 'Distance':
            near.append((pbc.Unit.Meter(k), pbc.Unit.Centimeter(k * 100)))
        for a, b in near:
            evals += 1
            ra, rb = a.raw_value, b.raw_value
            bad = [name for name, f in CMPS.items() if f(a, b) != f(ra, rb) or f(a, rb) != f(ra, rb)]
            tri = sum([bool(a < b), bool(a == b), bool(a > b)])
            if bad or tri != 1 or (a == b and hash(a) != hash(b)):
                chk.failures.append(Failure('compare-near-equal', f'{a!r} (raw {ra!r}) vs {b!r} (raw {rb!r}): comparisons {bad} do not follow the magnitudes; '
                                                                  f'{tri} of (<, ==, >) hold; equal={a == b}, hashes equal={hash(a) == hash(b)}',
                                            {'op': 'compare-near', 'a': repr(a), 'b': repr(b), 'raw_a': ra, 'raw_b': rb, 'wrong': bad, 'trichotomy_count': tri}))
        # a quantity of ANOTHER dimension with the same magnitude, read in a unit this one was just read in, must still raise
        d2 = rng.choice([x for x in DIMS if x != d])
        raw_u = next((t for t in ubd[d2] if t(1.0).raw_value == 1.0 and t(0.0).raw_value == 0.0), None)
        if raw_u is not None:
            own = rng.choice(ubd[d])
            q >> own
            q.get_in(own)
            twin = raw_u(q.raw_value)
            evals += 1
            for how, f in (('>>', lambda: twin >> own), ('get_in', lambda: twin.get_in(own))):
                try:
                    val = f()
                    chk.failures.append(Failure('foreign-unit-after-read', f'{d2} quantity {twin!r} read with {how} in {own.name} (a {d} unit) returned {val!r} after a {d} quantity '
                                                                           f'of the same magnitude had been read in that unit',
                                                {'op': 'foreign-after-read', 'first': repr(q), 'second': repr(twin), 'unit': own.name, 'returned': val}))
                    break
                except pbc.UnitConversionError:
                    pass
        # foreign unit
        f_u = rng.choice([t for t in allu if t not in ubd[d]])
        try:
            val = q >> f_u
            chk.failures.append(Failure('foreign-unit', f'{d} read in {f_u.name} returned {val!r}', {'op': 'foreign', 'dim': d, 'unit': f_u.name}))
        except pbc.UnitConversionError:
            pass
    chk.search_evals += evals
