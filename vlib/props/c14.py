"""C14 — multi-BC drag models realise the interpolated BC and leave inputs intact."""
import copy
import math

from vlib.common import Corr, Failure, f2b, import_repo

ID = 'C14'
GENS = []
TARGETS = ['BC.Props.C14']
PROP_FILES = ['BC/Props/C14.lean']
# source ties: function bodies regenerated from the Python source by translate/t_funcs.py, proved equal to the model functions
SRC = {'module': 'BC.Props.C14Src', 'file': 'BC/Props/C14Src.lean',
       'theorems': ['C14_src_sectional_density', 'C14_src_machC', 'C14_src_bcpoint_mach_of_v', 'C14_src_lin_interp', 'C14_src_interp_loop']}
THEOREMS = ['C14_interp_correct', 'C14_interp_homogeneous', 'C14_effective_bc', 'C14_sort_sorted', 'C14_order_independent',
            'C14_single_point', 'C14_bcpoint']
STATEMENTS = {
    'C14_src_interp_loop': 'SOURCE TIE (all C14_src_*): linear_interpolation (clamps, bracket, loop condition, in-segment test, value, moves), sectional_density, BCPoint._machC and the Mach of a velocity point, executed symbolically from the Python source on every run, are the pieces of linInterp / interpLoop / sectionalDensity / bcMachC / bcPoint; the glue statements of DragModelMultiBC are matched structurally',
    'C14_interp_correct': 'strictly ascending xp: linear_interpolation clamps outside and is the linear interpolant on the bracketing interval',
    'C14_interp_homogeneous': 'interp(yp/c) = interp(yp)/c',
    'C14_effective_bc': 'at every table Mach: CD_std*BC_model/CD_model = interpolated BC of the sorted points; Mach column unchanged',
    'C14_sort_sorted': 'the points used are a permutation of those given, ascending in Mach',
    'C14_order_independent': 'distinct Mach values: result independent of the order the points are given in',
    'C14_single_point': 'one BC point: CD column divided by BC0/bc, i.e. the plain single-BC model',
    'C14_bcpoint': 'BCPoint validation (BC<=0, both, neither) and Mach = V[m/s]/(sqrt(288.15)*20.0467)',
}
TRUSTED = [
    'Lean 4.33.0 kernel; Mathlib; axioms propext, Classical.choice, Quot.sound',
    'hand-written by-value model BC/Model/MultiBC.lean tied to drag_model.py by the bit-exact correspondence ops mbc / bcpoint / interp / secdens',
    'input non-mutation (object identity, in-place scaling) cannot be expressed in the by-value model: it is decided by deep snapshots of '
    'the inputs before/after every construction in the correspondence harness and the search oracle',
]
ASSUME = ['list.sort / sorted are stable; finite inputs']
RULE = ('1-6 BC points in random order by Mach or by velocity (any velocity unit), all nine shipped tables as dict lists or as data-point '
        'lists taken from another model, with/without weight+diameter, repeated construction; distinct_nontrivial = distinct mbc op lines '
        'with >= 2 points')


def gen_points(pbc, rng):
    U = pbc.Unit
    k = rng.choice([1, 1, 2, 3, 4, 6])
    pts = []
    for _ in range(k):
        bc = rng.uniform(0.1, 0.9)
        if rng.random() < 0.5:
            pts.append(pbc.BCPoint(bc, Mach=rng.uniform(0.3, 4.0)))
        else:
            u = rng.choice([U.MPS, U.FPS, U.KMH])
            pts.append(pbc.BCPoint(bc, V=u(U.MPS(rng.uniform(100, 1300)) >> u)))
    rng.shuffle(pts)
    return pts


def correspondence(chk, drv):
    pbc = import_repo()
    from py_ballisticcalc.drag_model import linear_interpolation, sectional_density
    U = pbc.Unit
    rng = chk.rng
    n = 60 if chk.tier == 'quick' else 3000
    tables = [getattr(pbc, t) for t in pbc.get_drag_tables_names() if hasattr(pbc, t)] + [pbc.TableRA4]
    cm, cb, ci, cs = Corr('mbc'), Corr('bcpoint'), Corr('interp'), Corr('secdens')
    nontriv = set()
    mutated = 0
    for _ in range(n):
        pts = gen_points(pbc, rng)
        table = rng.choice(tables)
        wd = rng.random() < 0.5
        w, d = (U.Grain(rng.uniform(50, 300)), U.Inch(rng.uniform(0.2, 0.5))) if wd else (0, 0)
        src_model = None
        if rng.random() < 0.5:
            src_model = pbc.DragModel(0.3, table)
            tab_in = src_model.drag_table            # data points borrowed from another model
        else:
            tab_in = copy.deepcopy(table)
        snap_tab = [(p.Mach, p.CD) if hasattr(p, 'Mach') else (p['Mach'], p['CD']) for p in tab_in]
        snap_pts = [(p.BC, p.Mach) for p in pts]
        dm = pbc.DragModelMultiBC(pts, tab_in, w, d)
        after_tab = [(p.Mach, p.CD) if hasattr(p, 'Mach') else (p['Mach'], p['CD']) for p in tab_in]
        after_pts = [(p.BC, p.Mach) for p in pts]
        if after_tab != snap_tab or after_pts != snap_pts:
            mutated += 1
        line = (f'mbc {f2b(dm.BC)} {len(snap_pts)} ' + ' '.join(f'{f2b(b)} {f2b(m)}' for b, m in snap_pts) +
                f' {len(snap_tab)} ' + ' '.join(f'{f2b(m)} {f2b(c)}' for m, c in snap_tab))
        cm.add(line, ' '.join('f%d' % f2b(p.CD) for p in dm.drag_table), {'points': snap_pts, 'borrowed': src_model is not None})
        if len(pts) >= 2:
            nontriv.add(line)
        if wd:
            cs.add(f'secdens {f2b(w >> U.Grain)} {f2b(d >> U.Inch)}', 'f%d' % f2b(sectional_density(w >> U.Grain, d >> U.Inch)))
        # interpolation on its own, incl. queries on the nodes
        xp = sorted({round(rng.uniform(0, 5), 2) for _ in range(rng.randint(1, 7))})
        yp = [rng.uniform(0.1, 1) for _ in xp]
        for xi in [xp[0], xp[-1], xp[0] - 1, xp[-1] + 1, rng.choice(xp), rng.uniform(xp[0], xp[-1])]:
            ci.add(f'interp {f2b(xi)} {len(xp)} ' + ' '.join(f'{f2b(a)} {f2b(b)}' for a, b in zip(xp, yp)),
                   'f%d' % f2b(linear_interpolation([xi], xp, yp)[0]))
    # BCPoint constructor
    VU = [U.FPS, U.MPS, U.KMH, U.MPH, U.KT]
    for _ in range(n * 3):
        if rng.random() < 0.3:
            pbc.PreferredUnits.velocity = rng.choice(VU)      # the settings change in the course of a session
        bc = rng.choice([0.0, -0.1, rng.uniform(0.05, 1)])
        mach = rng.choice([None, 0, rng.uniform(0.2, 4)])
        v = rng.choice([None, 0, rng.uniform(100, 4000), U.MPS(rng.uniform(100, 1200)), U.FPS(0)])
        try:
            p = pbc.BCPoint(bc, mach, v)
            ans = 'ok f%d f%d' % (f2b(p.BC), f2b(p.Mach))
        except ValueError as e:
            s = str(e)
            ans = 'err:bc' if 'positive' in s else 'err:both' if 'both' in s else 'err:none'
        mo = '-' if not mach else str(f2b(mach))
        vo = '-' if (v is None or (not isinstance(v, pbc.AbstractDimension) and not v)) else str(f2b(pbc.PreferredUnits.velocity(v).raw_value))
        cb.add(f'bcpoint {f2b(bc)} {mo} {vo}', ans)
    pbc.PreferredUnits.defaults()
    for c in (cm, cb, ci, cs):
        r = c.finish(drv)
        chk.corr.append(r)
        chk.oblige(f'corr:{c.op}', 'correspondence', r['mismatch'] == 0,
                   f"{r['cases']} cases, {r['bit_identical']} bit-identical, {r['within_tolerance']} within tolerance, {r['mismatch']} mismatches")
    chk.samples.append({'corr_op': cm.lines[0][:300] + ' ...', 'python': cm.py[0][:200] + ' ...', 'meta': cm.meta[0]})
    chk.stats['distinct_nontrivial'] = len(nontriv)
    chk.stats['constructions_that_mutated_inputs'] = mutated
    chk.oblige('corr:inputs-intact', 'correspondence', mutated == 0,
               f'{mutated} of {n} constructions changed the table rows or BC points passed in (deep snapshot before/after)')


def search(chk, broken):
    pbc = import_repo()
    U = pbc.Unit
    rng = chk.rng
    n = 40 if (chk.tier == 'quick' and not broken) else 1500
    tables = [pbc.TableG1, pbc.TableG7, pbc.TableG2, pbc.TableG5, pbc.TableG6, pbc.TableG8, pbc.TableGI, pbc.TableGS, pbc.TableRA4]
    evals = 0
    for _ in range(n):
        if chk.over():
            break
        table = rng.choice(tables)
        if rng.random() < 0.3:
            pbc.PreferredUnits.velocity = rng.choice([U.FPS, U.MPS, U.KMH, U.MPH])     # the settings change in the course of a session
        pts = gen_points(pbc, rng)
        # a point given by velocity sits at that velocity over the standard sea-level speed of sound (340.29 m/s), whatever the settings
        for p in pts:
            if getattr(p, 'V', None) is not None and (p.V >> U.MPS) > 0:
                indep = (p.V >> U.MPS) / (math.sqrt(15.0 + 273.15) * 20.0467)
                if abs(p.Mach - indep) > 1e-9 * indep:
                    chk.failures.append(Failure('bcpoint-mach', f'BCPoint(V={p.V!r}) under preferred velocity {pbc.PreferredUnits.velocity.name} sits at Mach {p.Mach}; '
                                                                f'{p.V >> U.MPS} m/s over the standard speed of sound is Mach {indep}',
                                                {'op': 'bcpoint-mach', 'v_mps': p.V >> U.MPS, 'observed': p.Mach, 'expected': indep, 'preferred': pbc.PreferredUnits.velocity.name}))
                    break
        spec = sorted([(p.Mach, p.BC) for p in pts])
        wd = rng.random() < 0.5
        w, d = (U.Grain(rng.uniform(50, 300)), U.Inch(rng.uniform(0.2, 0.5))) if wd else (0, 0)
        borrowed = rng.random() < 0.6
        other = pbc.DragModel(0.25, table)
        tab_in = other.drag_table if borrowed else copy.deepcopy(table)
        snap = copy.deepcopy(tab_in)
        snap_pts = [(p.BC, p.Mach) for p in pts]
        order_in = [id(p) for p in pts]
        hist = ''
        if rng.random() < 0.5:
            # a session builds several models: the previous one shared the table, the projectile data and the Mach positions of the points
            # with this one and differed only in the BC values (a re-fit) — it must not influence this one
            decoy = [pbc.BCPoint(p.BC * rng.uniform(0.5, 1.5), Mach=p.Mach) for p in pts]
            pbc.DragModelMultiBC(decoy, copy.deepcopy(table), w, d)
            hist = ' (built right after a model with the same table and Mach positions but other BC values)'
        dm = pbc.DragModelMultiBC(pts, tab_in, w, d)
        evals += 1
        # --- inputs intact
        if tab_in != snap or [(p.BC, p.Mach) for p in sorted(pts, key=lambda p: order_in.index(id(p)))] != snap_pts:
            chk.failures.append(Failure('inputs-mutated' + (':borrowed-points' if borrowed else ''),
                                        'DragModelMultiBC changed the CD values of the data points passed in' +
                                        (' (taken from another model, whose drag table changed with them)' if borrowed else ''),
                                        {'op': 'mbc-inputs', 'borrowed': borrowed, 'first_rows_before': [(p.Mach, p.CD) for p in snap[:3]] if borrowed else None,
                                         'first_rows_after': [(p.Mach, p.CD) for p in tab_in[:3]] if borrowed else None,
                                         'python': 'from py_ballisticcalc import *; dm1=DragModel(0.25,TableG7); c0=dm1.drag_table[0].CD; '
                                                   'DragModelMultiBC([BCPoint(0.5,Mach=1.0)], dm1.drag_table); dm1.drag_table[0].CD == c0'}))
        if [id(p) for p in pts] != order_in:
            chk.failures.append(Failure('inputs-reordered', 'DragModelMultiBC reordered the caller\'s bc_points list in place',
                                        {'op': 'mbc-order', 'python': 'from py_ballisticcalc import *; pts=[BCPoint(0.5,Mach=2.0),BCPoint(0.4,Mach=1.0)]; '
                                                                      'DragModelMultiBC(pts, TableG7); pts[0].Mach == 2.0'}))
        # --- building twice gives the same model
        dm2 = pbc.DragModelMultiBC([pbc.BCPoint(b, Mach=m) for b, m in snap_pts], tab_in, w, d)
        if [(p.Mach, p.CD) for p in dm2.drag_table] != [(p.Mach, p.CD) for p in dm.drag_table] or dm2.BC != dm.BC:
            chk.failures.append(Failure('rebuild-differs', 'building the model twice from the same inputs gives different models',
                                        {'op': 'mbc-twice', 'borrowed': borrowed}))
        # --- effective BC law at every table Mach
        std = [(p['Mach'], p['CD']) for p in table]
        for (m, cd), row in zip(std, dm.drag_table):
            if m <= spec[0][0]:
                exp = spec[0][1]
            elif m >= spec[-1][0]:
                exp = spec[-1][1]
            else:
                j = max(i for i in range(len(spec) - 1) if spec[i][0] <= m)
                (x0, y0), (x1, y1) = spec[j], spec[j + 1]
                exp = y0 + (y1 - y0) * (m - x0) / (x1 - x0) if x1 > x0 else y1
            if cd == 0:
                continue
            eff = cd * dm.BC / row.CD
            if row.Mach != m or abs(eff - exp) > 1e-9 * exp:
                if len({x for x, _ in spec}) < len(spec):
                    continue  # duplicate Mach values: the interpolant is not defined by the statement
                chk.failures.append(Failure('effective-bc', f'Mach {m}: effective BC {eff} but interpolated BC {exp}{hist}',
                                            {'op': 'mbc-law', 'points': spec, 'mach': m, 'observed': eff, 'expected': exp, 'history': hist.strip()}))
                break
        # --- the caller edits his table (a list of dicts) IN PLACE — interior rows only, same length, same end rows — and builds again:
        #     the new model realises the law for the table as it is NOW
        if not borrowed and rng.random() < 0.5 and len(tab_in) > 4 and isinstance(tab_in[0], dict):
            g = rng.choice([0.7, 1.25])
            for row_ in tab_in[1:-1]:
                row_['CD'] = row_['CD'] * g
            dm3 = pbc.DragModelMultiBC([pbc.BCPoint(b, Mach=m) for b, m in snap_pts], tab_in, w, d)
            for row_in, row in list(zip(tab_in, dm3.drag_table))[1:-1]:
                m, cd = row_in['Mach'], row_in['CD']
                if cd == 0 or len({x for x, _ in spec}) < len(spec):
                    continue
                if m <= spec[0][0]:
                    exp = spec[0][1]
                elif m >= spec[-1][0]:
                    exp = spec[-1][1]
                else:
                    j = max(i for i in range(len(spec) - 1) if spec[i][0] <= m)
                    (x0, y0), (x1, y1) = spec[j], spec[j + 1]
                    exp = y0 + (y1 - y0) * (m - x0) / (x1 - x0) if x1 > x0 else y1
                eff = cd * dm3.BC / row.CD
                if abs(eff - exp) > 1e-9 * exp:
                    chk.failures.append(Failure('effective-bc', f'Mach {m}: effective BC {eff} but interpolated BC {exp} for a model built from a table the caller '
                                                                f'had edited in place (interior CD values x {g}) after an earlier build from the same list',
                                                {'op': 'mbc-law-edited-table', 'points': spec, 'mach': m, 'observed': eff, 'expected': exp, 'factor': g}))
                    break
        # --- single point == plain model
        if len(pts) == 1 and not wd:
            plain = pbc.DragModel(pts[0].BC, table)
            for a, b in zip(plain.drag_table, dm.drag_table):
                if abs(a.CD / plain.BC - b.CD / dm.BC) > 1e-12 * abs(a.CD / plain.BC):
                    chk.failures.append(Failure('single-point', 'single-BC multi model differs from the plain model', {'op': 'mbc-single'}))
                    break
    pbc.PreferredUnits.defaults()
    chk.search_evals += evals
