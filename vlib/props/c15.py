"""C15 — event rows mark each sight-line and sonic crossing once, within one step."""
import math

from vlib.common import Failure, import_repo
from vlib import shotgen as sg
from vlib import trajcorr

ID = 'C15'
GENS = ['units', 'consts']
TARGETS = ['BC.Props.C15']
PROP_FILES = ['BC/Props/C15.lean', 'BC/Lemmas/Filter.lean']
# source ties: function bodies regenerated from the Python source by translate/t_funcs.py, proved equal to the model functions
SRC = {'module': 'BC.Props.C15Src', 'file': 'BC/Props/C15Src.lean', 'lemma_files': ['BC/Lemmas/SrcFilter.lean'],
       'theorems': ['C15_src_setup_seen_zero', 'C15_src_check_zero_crossing', 'C15_src_check_mach_crossing', 'C15_src_should_record']}
THEOREMS = ['C15_zero_up_step', 'C15_zero_down_step', 'C15_at_most_once', 'C15_zero_up_exact', 'C15_zero_down_exact', 'C15_setup_seen_zero',
            'C15_mach_step', 'C15_event_row', 'C15_record_time_between', 'C15_bookkeeping']
STATEMENTS = {
    'C15_src_check_zero_crossing': 'SOURCE TIE (all C15_src_*): setup_seen_zero, check_zero_crossing, check_mach_crossing, should_record as regenerated from the Python source equal TFilter.setupSeenZero / checkZero / checkMach / shouldRecord',
    'C15_zero_up_step': 'ZERO_UP raised on a state iff not seen before and the state is beyond the muzzle on/above the sight line; then marked seen',
    'C15_zero_down_step': 'ZERO_DOWN raised iff ZERO_UP seen before this state, ZERO_DOWN not yet, state beyond the muzzle below the line',
    'C15_at_most_once': 'induction over ANY state sequence: each of ZERO_UP, ZERO_DOWN raised on at most one state; never when pre-marked',
    'C15_zero_up_exact': 'ZERO_UP is raised exactly on the FIRST state on/above the line (so the state before was below: crossing within that step)',
    'C15_zero_down_exact': 'ZERO_DOWN exactly on the first state below the line strictly after ZERO_UP was seen',
    'C15_setup_seen_zero': 'pre-marking: height >= 0 marks ZERO_UP seen; height < 0 and barrel below the sight line marks ZERO_DOWN; nothing else',
    'C15_mach_step': 'MACH raised iff speed/sound-speed was > 1 on the previous state and <= 1 now: each time, and only then',
    'C15_event_row': 'an event flag in the mask => a row is recorded for that step: the state itself or the interpolated distance record of the same step',
    'C15_record_time_between': 'a recorded row\'s time lies between the previous state\'s time and this state\'s (rows in time order)',
    'C15_bookkeeping': 'prevPos.x <= nextRecordDistance is preserved; the previous-state fields become this state',
}
TRUSTED = [
    'Lean 4.33.0 kernel; Mathlib; axioms propext, Classical.choice, Quot.sound',
    'hand-written model of _TrajectoryDataFilter (BC/Model/Traj.lean) tied to the implementation by bit-exact correspondence of whole extra-data '
    'trajectories (op fire with flags ALL): sight above/on/below bore, barrel above/below the sight line, inclined sight lines, super/trans/subsonic',
]
ASSUME = ['an interpolated distance record flagged with an event may lie just BEFORE the crossing (same step); the oracle accepts either side within one step']
RULE = ('extra-data shots over sight heights (-3..5 in incl. 0), zero/relative angles putting the barrel above or below the sight line, look angles, muzzle '
        'velocities from subsonic to 3500 fps; distinct_nontrivial = distinct extra-data fire lines with at least one event row')


def correspondence(chk, drv):
    pbc = import_repo()
    n = 40 if chk.tier == 'quick' else 3000
    trajcorr.corr_fire(chk, drv, pbc, n, want_extra=True, cfg_default=0.7, label='fire-extra')
    trajcorr.corr_lob(chk, drv, pbc, 2 if chk.tier == 'quick' else 60)
    # dense range rows (every 1-3 integration steps) across the crossings: events that fall into the very step that also
    # produces a range row
    trajcorr.corr_fire(chk, drv, pbc, 12 if chk.tier == 'quick' else 600, want_extra=True, cfg_default=0.8, label='fire-extra-dense',
                       gen_kwargs=lambda rng: {'flat': True, 'allow_cant': False, 'max_look': 10.0,
                                               'mv': rng.choice([rng.uniform(1125, 1190), rng.uniform(1125, 1190), rng.uniform(1500, 3000)])},   # half of them go subsonic within the range
                       requests=lambda rng: (rng.choice([150.0, 300.0, 600.0]), rng.choice([0.5, 1.0, 1.5]), True, 0.0))


def search(chk, broken):
    pbc = import_repo()
    U = pbc.Unit
    rng = chk.rng
    n = 15 if (chk.tier == 'quick' and not broken) else 600
    evals = 0
    for _ in range(n):
        if chk.over():
            break
        cfg = sg.gen_config(rng, 0.7)
        cfg.pop('cMinimumVelocity', None)
        calc = pbc.Calculator(_config=cfg)
        max_step = pbc.interface_config.create_interface_config(cfg).max_calc_step_size_feet
        mv = rng.choice([rng.uniform(900, 1300), rng.uniform(1500, 3400), rng.uniform(400, 1000)])
        shot, _ = sg.gen_shot(pbc, rng, flat=True, allow_cant=False, mv=mv, max_look=30, table=getattr(pbc, rng.choice(sg.TABLE_NAMES)))
        if shot.atmo.density_ratio == 0:
            continue
        R = rng.choice([900.0, 2400.0, 4500.0])
        rec = R / 7
        if rng.random() < 0.4:
            R, rec = rng.choice([300.0, 600.0]), rng.choice([0.5, 1.0, 1.5])    # range rows in (nearly) every step, also in the step of a crossing
        if rng.random() < 0.5:
            # a long-used calculator: it has just served another rifle (a fast one, fired or zeroed at short range — that flight ends
            # supersonic); the events of the next shot are those of the next shot alone
            warm = pbc.Shot(pbc.Weapon(U.Inch(2), 12), pbc.Ammo(pbc.DragModel(0.3, pbc.TableG7), U.FPS(rng.uniform(2400, 3000))))
            try:
                if rng.random() < 0.5:
                    calc.fire(warm, U.Foot(rng.choice([150.0, 300.0])), U.Foot(50.0), rng.random() < 0.5)
                else:
                    calc.set_weapon_zero(warm, U.Yard(100))
            except Exception:  # noqa
                pass
        try:
            rows = calc.fire(shot, U.Foot(R), U.Foot(rec), True).trajectory
            dense = calc.fire(shot, U.Foot(R), U.Foot(2.0), False).trajectory
        except pbc.RangeError as e:
            continue
        evals += 1
        L = shot.look_angle >> U.Radian
        ups = [r for r in rows if int(r.flag) & 1]
        downs = [r for r in rows if int(r.flag) & 2]
        machs = [r for r in rows if int(r.flag) & 4]
        desc = {'op': 'events', 'sight_in': shot.weapon.sight_height >> U.Inch, 'look_deg': shot.look_angle >> U.Degree, 'mv_fps': mv,
                'zero_mil': shot.weapon.zero_elevation >> U.Mil, 'rel_mil': shot.relative_angle >> U.Mil, 'R': R}
        if len(ups) > 1 or len(downs) > 1:
            chk.failures.append(Failure('more-than-once', f'{len(ups)} ZERO_UP and {len(downs)} ZERO_DOWN rows', desc))
        ts = [r.time for r in rows]
        if any(b < a for a, b in zip(ts, ts[1:])):
            chk.failures.append(Failure('time-order', 'rows are not in time order', desc))
        # true crossings on the dense (2-ft) trace, beyond the muzzle
        td = [(r.distance >> U.Foot, r.target_drop >> U.Foot) for r in dense]
        up_true = next((x for (x0, d0), (x, d) in zip(td, td[1:]) if d0 < 0 <= d and x > 0), None)
        started_above = td[0][1] >= 0
        first_above = up_true is not None or started_above
        if up_true is not None and not started_above and not ups:
            chk.failures.append(Failure('zero-up-missing', f'trajectory crosses the sight line upward near {up_true:.1f} ft but no ZERO_UP row', desc))
        if ups and up_true is None and len(td) > 3 and not any(abs(d) < 1e-6 for _, d in td):
            chk.failures.append(Failure('zero-up-spurious', f'ZERO_UP row at {ups[0].distance >> U.Foot:.1f} ft but no upward crossing', desc))
        for r in ups + downs:
            slope = abs(math.tan((r.angle >> U.Radian) - L))
            miss = abs(r.target_drop >> U.Foot)
            if miss > max_step * max(slope, 1e-4) * 1.5 + 1e-6:
                chk.failures.append(Failure('event-far-from-line', f'flagged row (flag {int(r.flag)}) at {r.distance >> U.Foot:.2f} ft is {miss:.5f} ft from the sight line; '
                                                                   f'one step ({max_step} ft) x slope {slope:.5f} = {max_step * slope:.5f} ft', desc))
        # sonic crossings
        mtrue = sum(1 for a, b in zip(dense, dense[1:]) if a.mach > 1 >= b.mach)
        if mtrue != len(machs) and abs(mtrue - len(machs)) > 0:
            # the dense trace samples every 2 ft only: a double crossing inside 2 ft is not resolved; require presence/absence to agree
            if (mtrue == 0) != (len(machs) == 0):
                chk.failures.append(Failure('mach-rows', f'{len(machs)} MACH rows but {mtrue} sonic crossings on the dense trace', desc))
        # a MACH row is the state just below Mach 1 or - when the same step also produced a range row - that interpolated row, which may
        # lie just BEFORE the crossing: within one step's change of the Mach number either way (slope taken from the dense trace)
        near = [(a, b) for a, b in zip(dense, dense[1:]) if 0.9 < a.mach < 1.1 and (b.distance >> U.Foot) > (a.distance >> U.Foot)]
        dmdx = max([abs(b.mach - a.mach) / ((b.distance >> U.Foot) - (a.distance >> U.Foot)) for a, b in near] + [0.002])
        for r in machs:
            if not (1.0 - max(0.02, 1.5 * max_step * dmdx) <= r.mach <= 1.0 + 1.5 * max_step * dmdx + 1e-9):
                chk.failures.append(Failure('mach-row-value', f'MACH row has Mach {r.mach}', desc))
        # HitResult.zeros()
        hit = pbc.HitResult(shot, rows, True)
        try:
            z = hit.zeros()
            if [id(r) for r in z] != [id(r) for r in rows if int(r.flag) & 3]:
                chk.failures.append(Failure('zeros-accessor', 'HitResult.zeros() is not the list of zero-flagged rows', desc))
        except ArithmeticError:
            if ups or downs:
                chk.failures.append(Failure('zeros-accessor', 'zeros() raised although zero rows exist', desc))
    # lobbed low-drag projectiles: the speed may fall through the speed of sound more than once - a MACH row EACH time
    calc = pbc.Calculator()
    for _ in range(3 if (chk.tier == 'quick' and not broken) else 80):
        if chk.over():
            break
        shot = sg.gen_lob(pbc, rng)
        try:
            rows = calc.fire(shot, U.Foot(60000), U.Foot(6000), True, 0.25).trajectory
        except pbc.RangeError as e:
            rows = e.incomplete_trajectory
        evals += 1
        # robust falls on the row stream (hysteresis 1.002 / 0.998): each implies a distinct step-level fall through Mach 1
        falls, state = 0, None
        for r in rows:
            if r.mach > 1.002:
                state = 'super'
            elif r.mach < 0.998:
                if state == 'super':
                    falls += 1
                state = 'sub'
        machs = [r for r in rows if int(r.flag) & 4]
        if len(machs) < falls:
            chk.failures.append(Failure('mach-row-each-time', f'a projectile (BC {shot.ammo.dm.BC:.2f}, {shot.ammo.mv >> U.FPS:.0f} fps) lobbed at '
                                                              f'{shot.relative_angle >> U.Degree:.1f} deg falls through the speed of sound {falls} times but has {len(machs)} MACH rows',
                                        {'op': 'lob', 'bc': shot.ammo.dm.BC, 'mv_fps': shot.ammo.mv >> U.FPS, 'elevation_deg': shot.relative_angle >> U.Degree,
                                         'falls': falls, 'mach_rows': len(machs)}))
        chk.stats.setdefault('lob_falls', []).append(falls)
    chk.search_evals += evals
