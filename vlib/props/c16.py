"""C16 — danger space is the contiguous stretch of trajectory within the target."""
from vlib.common import Corr, Failure, f2b, import_repo

ID = 'C16'
GENS = []
TARGETS = ['BC.Props.C16']
PROP_FILES = ['BC/Props/C16.lean']
# source ties: function bodies regenerated from the Python source by translate/t_funcs.py, proved equal to the model functions
SRC = {'module': 'BC.Props.C16Src', 'file': 'BC/Props/C16Src.lean',
       'theorems': ['C16_src_begin_scan', 'C16_src_end_scan', 'C16_src_half']}
THEOREMS = ['C16_out_of_range', 'C16_brackets', 'C16_inside_within_half', 'C16_bounds', 'C16_monotone_height']
STATEMENTS = {
    'C16_src_begin_scan': 'SOURCE TIE (all C16_src_*): half the target height and the two scan tests of danger_space, executed symbolically from the Python source on every run, are those of beginScan / endScan / dangerSpace; the scan shapes, fall-back rows, argument coercions, out-of-range guard and returned record are matched structurally by the translator',
    'C16_out_of_range': 'dangerSpace = none (ArithmeticError) iff every row is short of the requested range',
    'C16_brackets': 'target row = first row at/after the range; begin <= target <= end < n',
    'C16_inside_within_half': 'every row strictly between the bounds (other than the target row) has |drop - drop_target| < h/2',
    'C16_bounds': 'begin = row 0 or |drop_begin - drop_target| >= h/2; end = last row or |drop_end - drop_target| >= h/2',
    'C16_monotone_height': 'h <= h\' -> same target row, begin\' <= begin, end <= end\'',
}
TRUSTED = [
    'Lean 4.33.0 kernel; Mathlib; axioms propext, Classical.choice, Quot.sound',
    'hand-written model BC/Model/Danger.lean tied to HitResult.danger_space by the correspondence op danger '
    '(row indices compared exactly, on synthetic row lists and on real extra-data trajectories)',
]
ASSUME = ['finite drops/distances; rows identified by object identity in the trajectory list']
RULE = ('synthetic (distance, drop) lists (arcing, monotone, with plateaus, length 1-60) and real extra-data trajectories with level and '
        'inclined sight lines; target ranges on the rising and falling branch, beyond the trajectory; heights 0 .. large, float and '
        'quantity; distinct_nontrivial = distinct op lines whose target row is neither first nor last')


def synth_rows(pbc, rng):
    U = pbc.Unit
    n = rng.choice([1, 2, 3, rng.randint(4, 60)])
    apex = rng.uniform(0, n)
    k = rng.uniform(0.001, 0.2)
    rows = []
    x = 0.0
    for i in range(n):
        drop = -k * (i - apex) ** 2 + rng.choice([0, 0, rng.uniform(-0.05, 0.05)])
        z = U.Foot(0)
        rows.append(pbc.TrajectoryData(i * 0.01, U.Foot(x), U.FPS(2000), 1.5, U.Foot(drop), U.Foot(drop), U.Radian(0), z, U.Radian(0),
                                       U.Foot(x), U.Radian(0), 0.0, 0.0, U.FootPound(1), U.Pound(1),
                                       rng.choice([8, 8, 8, 1, 2, 4, 16, 9, 10, 12, 0])))   # event rows count like any other row
        x += rng.choice([1.0, 3.0, rng.uniform(0.5, 10)])
    return rows


def real_hits(pbc, rng, count):
    U = pbc.Unit
    out = []
    calc = pbc.Calculator()
    for _ in range(count):
        dm = pbc.DragModel(rng.uniform(0.15, 0.6), rng.choice([pbc.TableG1, pbc.TableG7]))
        w = pbc.Weapon(U.Inch(rng.uniform(0, 4)), 12)
        a = pbc.Ammo(dm, U.FPS(rng.uniform(800, 3200)))
        shot = pbc.Shot(w, a, look_angle=U.Degree(rng.choice([0, 0, rng.uniform(-15, 15)])))
        try:
            calc.set_weapon_zero(shot, U.Yard(rng.choice([50, 100, 300, 500])))
            out.append(calc.fire(shot, U.Yard(rng.uniform(200, 800)), U.Yard(rng.choice([10, 25, 50])), extra_data=True))
        except Exception:  # noqa  (zero not reachable etc.)
            pass
    return out


def one(pbc, hit, at, h):
    try:
        ds = hit.danger_space(at, h)
        idx = {id(r): i for i, r in enumerate(hit.trajectory)}
        # identity: first occurrence
        idx = {}
        for i, r in enumerate(hit.trajectory):
            idx.setdefault(id(r), i)
        return 'ok %d %d %d' % (idx[id(ds.at_range)], idx[id(ds.begin)], idx[id(ds.end)])
    except ArithmeticError:
        return 'err:arith'


def correspondence(chk, drv):
    pbc = import_repo()
    U = pbc.Unit
    rng = chk.rng
    n = 250 if chk.tier == 'quick' else 8000
    c = Corr('danger')
    nontriv = set()
    hits = [pbc.HitResult(None, synth_rows(pbc, rng), True) for _ in range(n)]
    hits += real_hits(pbc, rng, 6 if chk.tier == 'quick' else 150)
    by_dim = {}
    for u in U:
        by_dim.setdefault(type(u(1.0)).__name__, []).append(u)
    for hit in hits:
        rows = hit.trajectory
        # all arguments below carry explicit units: the preferred units in force (drop, distance, target height, angle) are not an input
        if rng.random() < 0.5:
            pbc.PreferredUnits.drop = rng.choice(by_dim['Distance'])
            pbc.PreferredUnits.distance = rng.choice(by_dim['Distance'])
            pbc.PreferredUnits.target_height = rng.choice(by_dim['Distance'])
            pbc.PreferredUnits.angular = rng.choice(by_dim['Angular'])
        else:
            pbc.PreferredUnits.defaults()
        for _ in range(4):
            at = U.Foot(rng.choice([rows[rng.randrange(len(rows))].distance >> U.Foot, rng.uniform(0, (rows[-1].distance >> U.Foot) * 1.2), 0.0]))
            h = rng.choice([U.Inch(rng.choice([0.0, 2.0, 10.0, rng.uniform(0, 200)])), U.Centimeter(rng.uniform(1, 100))])
            if hit.shot is None:
                # danger_space reads self.shot.look_angle only when look_angle is None: pass it explicitly
                ans = None
                try:
                    ds = hit.danger_space(at, h, U.Degree(0))
                    idx = {}
                    for i, r in enumerate(rows):
                        idx.setdefault(id(r), i)
                    ans = 'ok %d %d %d' % (idx[id(ds.at_range)], idx[id(ds.begin)], idx[id(ds.end)])
                except ArithmeticError:
                    ans = 'err:arith'
            else:
                ans = one(pbc, hit, at, h)
            line = f'danger {f2b(at.raw_value)} {f2b(h.raw_value)} {len(rows)} ' + ' '.join(
                f'{f2b(r.distance.raw_value)} {f2b(r.target_drop.raw_value)}' for r in rows)
            c.add(line, ans)
            if ans.startswith('ok') and 0 < int(ans.split()[1]) < len(rows) - 1:
                nontriv.add(line)
    pbc.PreferredUnits.defaults()
    r = c.finish(drv)
    chk.corr.append(r)
    chk.oblige('corr:danger', 'correspondence', r['mismatch'] == 0, f"{r['cases']} cases, {r['bit_identical']} identical, {r['mismatch']} mismatches")
    chk.samples.append({'corr_op': c.lines[0][:300] + ' ...', 'python': c.py[0]})
    chk.stats['distinct_nontrivial'] = len(nontriv)
    chk.stats['real_trajectories'] = len(hits) - n


def search(chk, broken):
    """oracle from the property text, on the real HitResult"""
    pbc = import_repo()
    U = pbc.Unit
    rng = chk.rng
    n = 150 if (chk.tier == 'quick' and not broken) else 5000
    hits = [pbc.HitResult(None, synth_rows(pbc, rng), True) for _ in range(n)]
    hits += real_hits(pbc, rng, 5 if (chk.tier == 'quick' and not broken) else 100)
    evals = 0
    for hit in hits:
        if chk.over():
            break
        rows = hit.trajectory
        idx = {}
        for i, r in enumerate(rows):
            idx.setdefault(id(r), i)
        # explicit quantities are passed below, so the preferred units (display settings) must not matter: change them between hits
        if rng.random() < 0.5:
            DU = [U.Inch, U.Centimeter, U.Foot, U.Meter, U.Yard, U.Millimeter]
            pbc.PreferredUnits.drop, pbc.PreferredUnits.distance = rng.choice(DU), rng.choice(DU)
            pbc.PreferredUnits.target_height = rng.choice(DU)
        else:
            pbc.PreferredUnits.defaults()
        prefs = f'preferred drop={pbc.PreferredUnits.drop.name} distance={pbc.PreferredUnits.distance.name} target_height={pbc.PreferredUnits.target_height.name}'
        for _ in range(3):
            at = U.Foot(rng.uniform(0, (rows[-1].distance >> U.Foot) * 1.1))
            h1, h2 = sorted([rng.uniform(0, 30), rng.uniform(0, 300)])
            evals += 1
            first = next((i for i, r in enumerate(rows) if r.distance.raw_value >= at.raw_value), -1)
            try:
                d1 = hit.danger_space(at, U.Inch(h1), U.Degree(0))
                d2 = hit.danger_space(at, U.Inch(h2), U.Degree(0))
            except ArithmeticError:
                if first >= 0:
                    chk.failures.append(Failure('range-error', 'ArithmeticError although the trajectory reaches the range', {'op': 'danger'}))
                continue
            if first < 0:
                chk.failures.append(Failure('range-error', 'no error beyond the computed trajectory', {'op': 'danger', 'at_ft': at >> U.Foot}))
                continue
            for ds, h in ((d1, h1), (d2, h2)):
                a, b, e = idx[id(ds.at_range)], idx[id(ds.begin)], idx[id(ds.end)]
                c = rows[a].target_drop.raw_value
                half = h / 2.0
                bad = None
                if a != first or not (b <= a <= e):
                    bad = f'bounds do not bracket the target row (begin {b}, target {a}, end {e}, first row at range {first})'
                else:
                    for j in range(b + 1, e):
                        if j != a and not abs(rows[j].target_drop.raw_value - c) < half:
                            bad = (f'row {j} strictly inside the danger space deviates by {abs(rows[j].target_drop.raw_value - c):.3f} in '
                                   f'from the drop at the target row, more than half the target height {half:.3f} in')
                            break
                    if bad is None and not (b == 0 or abs(rows[b].target_drop.raw_value - c) >= half):
                        bad = f'begin row {b} is neither the first row nor {half} in away'
                    if bad is None and not (e == len(rows) - 1 or abs(rows[e].target_drop.raw_value - c) >= half):
                        bad = f'end row {e} is neither the last row nor {half} in away'
                if bad:
                    branch = 'rising' if a + 1 < len(rows) and rows[a + 1].target_drop.raw_value > c else 'falling'
                    chk.failures.append(Failure(f'inside:{branch}', f'target at {at >> U.Foot:.1f} ft ({branch} branch), height {h:.2f} in, {prefs}: {bad}',
                                                {'op': 'danger', 'preferred': prefs, 'at_ft': at >> U.Foot, 'height_in': h,
                                                 'rows': [[r.distance >> U.Foot, r.target_drop.raw_value] for r in rows][:80],
                                                 'observed': [b, a, e]}))
            b1, e1, b2, e2 = idx[id(d1.begin)], idx[id(d1.end)], idx[id(d2.begin)], idx[id(d2.end)]
            if not (b2 <= b1 and e1 <= e2):
                chk.failures.append(Failure('monotone-height', f'height {h1:.2f} -> {h2:.2f} in shrinks the danger space ({b1},{e1}) -> ({b2},{e2})',
                                            {'op': 'danger-monotone', 'at_ft': at >> U.Foot, 'h1': h1, 'h2': h2}))
    pbc.PreferredUnits.defaults()
    chk.search_evals += evals
