"""C17 — powder temperature sensitivity is linear, anchored and reproduces calibration."""
from vlib import shotgen as sg
from vlib.common import Corr, Failure, f2b, import_repo

ID = 'C17'
GENS = ['units']
TARGETS = ['BC.Props.C17']
PROP_FILES = ['BC/Props/C17.lean']
# source ties: function bodies regenerated from the Python source by translate/t_funcs.py, proved equal to the model functions
SRC = {'module': 'BC.Props.C17Src', 'file': 'BC/Props/C17Src.lean',
       'theorems': ['C17_src_velocity_disabled', 'C17_src_velocity_for_temp', 'C17_src_calc_powder_sens']}
THEOREMS = ['C17_disabled', 'C17_linear_anchored', 'C17_anchored', 'C17_calibration_reproduces', 'C17_calibration_rejects']
STATEMENTS = {
    'C17_src_calc_powder_sens': "SOURCE TIE (all C17_src_*): Ammo.get_velocity_for_temp and Ammo.calc_powder_sens, executed symbolically from the Python source on every run, equal the model functions (non-zero baseline velocity: 15/v0 is where Python raises ZeroDivisionError, which the model guards explicitly); the guard `if v_delta == 0 or t_delta == 0: raise` is the model's ValueError branch",
    'C17_disabled': 'usePowderSens = false -> velocityForTemp a T = a.mv for every T',
    'C17_linear_anchored': 'usePowderSens = true -> velocityForTemp a T = mv + modifier*(mv/15)*(C(T) - C(T0))',
    'C17_anchored': 'usePowderSens = true -> velocityForTemp a a.powderTemp = a.mv',
    'C17_calibration_reproduces': 'mv != 0 -> calcPowderSens a v1 T1 = ok m -> velocityForTemp {a with modifier := m, on} T1 = v1 '
                                  '(no hypothesis on which measurement is faster or warmer)',
    'C17_calibration_rejects': 'v1 = mv or T1 = T0 -> calcPowderSens = error value (ValueError)',
}
TRUSTED = [
    'Lean 4.33.0 kernel; Mathlib; axioms propext, Classical.choice, Quot.sound',
    'hand-written model BC/Model/Ammo.lean tied to munition.py by the bit-exact correspondence ops ammo_v / ammo_cal',
    'Fahrenheit->Celsius read goes through the regenerated unit chain (translate/t_units.py)',
    'exact real arithmetic in the theorems; binary64 rounding covered by the search oracle on the real code (1e-9 relative)',
]
ASSUME = ['finite inputs; stated muzzle velocity non-zero for the calibration theorem (zero velocity returns 0 by the ZeroDivisionError branch, modelled)']
RULE = ('random Ammo objects (velocity / temperature in random units incl. zero, negative modifier, on/off) x query temperatures; '
        'calibration pairs in all four orderings (faster/slower x warmer/colder) plus degenerate (equal) ones; '
        'distinct_nontrivial = distinct op lines with sensitivity enabled or a calibration')


def gen_ammo(pbc, rng):
    VU = [pbc.Unit.MPS, pbc.Unit.FPS, pbc.Unit.KMH, pbc.Unit.MPH, pbc.Unit.KT]
    TU = [pbc.Unit.Celsius, pbc.Unit.Fahrenheit, pbc.Unit.Kelvin, pbc.Unit.Rankin]
    dm = pbc.DragModel(0.3, pbc.TableG7)
    mv = rng.choice(VU)(rng.choice([0.0, rng.uniform(100, 1500), rng.uniform(1, 50)]))
    tu = rng.choice(TU)
    pt = tu(rng.uniform(250, 330) if tu in (pbc.Unit.Kelvin,) else rng.uniform(450, 600) if tu == pbc.Unit.Rankin
            else rng.uniform(-40, 120))
    mod = rng.choice([0.0, rng.uniform(-0.05, 0.05), rng.uniform(0, 2)])
    use = rng.random() < 0.8
    a = pbc.Ammo(dm, mv, pt, mod, use)
    return a, VU, TU


def temp_in(pbc, rng, TU):
    tu = rng.choice(TU)
    return tu(rng.uniform(230, 340) if tu == pbc.Unit.Kelvin else rng.uniform(420, 620) if tu == pbc.Unit.Rankin
              else rng.uniform(-50, 130))


def correspondence(chk, drv):
    pbc = import_repo()
    n = 400 if chk.tier == 'quick' else 20000
    cv, cc = Corr('ammo_v'), Corr('ammo_cal')
    nontriv = set()
    for _ in range(n):
        a, VU, TU = gen_ammo(pbc, chk.rng)
        t = temp_in(pbc, chk.rng, TU)
        line = f'ammo_v {f2b(a.mv.raw_value)} {f2b(a.powder_temp.raw_value)} {f2b(a.temp_modifier)} {"T" if a.use_powder_sensitivity else "F"} {f2b(t.raw_value)}'
        cv.add(line, 'f%d' % f2b(a.get_velocity_for_temp(t).raw_value), str(a))
        if a.use_powder_sensitivity:
            nontriv.add(line)
        # calibration
        r = chk.rng.random()
        v1 = a.mv if r < 0.05 else chk.rng.choice(VU)(chk.rng.uniform(50, 1600))
        t1 = a.powder_temp if 0.05 <= r < 0.1 else temp_in(pbc, chk.rng, TU)
        line = f'ammo_cal {f2b(a.mv.raw_value)} {f2b(a.powder_temp.raw_value)} {f2b(v1.raw_value)} {f2b(t1.raw_value)}'
        try:
            ans = 'ok f%d' % f2b(a.calc_powder_sens(v1, t1))
        except ValueError:
            ans = 'err:value'
        except ZeroDivisionError:
            ans = 'err:zerodiv'
        cc.add(line, ans)
        nontriv.add(line)
    for c in (cv, cc):
        r = c.finish(drv)
        chk.corr.append(r)
        chk.oblige(f'corr:{c.op}', 'correspondence', r['mismatch'] == 0,
                   f"{r['cases']} cases, {r['bit_identical']} bit-identical, {r['within_tolerance']} within tolerance, {r['mismatch']} mismatches")
    chk.samples.append({'corr_op': cv.lines[0], 'python': cv.py[0], 'ammo': cv.meta[0]})
    chk.samples.append({'corr_op': cc.lines[0], 'python': cc.py[0]})
    chk.stats['distinct_nontrivial'] = len(nontriv)


def search(chk, broken):
    pbc = import_repo()
    U = pbc.Unit
    n = 300 if (chk.tier == 'quick' and not broken) else 20000
    rng = chk.rng
    dm = pbc.DragModel(0.3, pbc.TableG7)
    evals = 0
    VU = [U.MPS, U.FPS, U.KMH]
    TU = [U.Celsius, U.Fahrenheit, U.Kelvin]

    def T(c):  # a temperature of c Celsius in a random unit
        u = rng.choice(TU)
        return u(U.Celsius(c) >> u)

    def V(m):
        u = rng.choice(VU)
        return u(U.MPS(m) >> u)

    for k in range(n):
        if chk.over():
            break
        v0 = rng.uniform(200, 1300)
        t0 = rng.uniform(-30, 40)
        # all four orderings, cyclically
        dv = rng.uniform(5, 80) * (1 if k & 1 else -1)
        dt = rng.uniform(3, 40) * (1 if k & 2 else -1)
        v1, t1 = v0 + dv, t0 + dt
        evals += 1
        # --- disabled
        a = pbc.Ammo(dm, V(v0), T(t0), rng.uniform(0, 1), False)
        tq = rng.uniform(-40, 50)
        got = a.get_velocity_for_temp(T(tq)) >> U.MPS
        if abs(got - v0) > 1e-9 * v0:
            chk.failures.append(Failure('disabled', f'sensitivity off but v({tq} C) = {got} != {v0}',
                                        {'op': 'disabled', 'v0': v0, 't0': t0, 'tq': tq, 'observed': got, 'expected': v0}))
        # --- linear & anchored
        m = rng.uniform(-0.03, 0.06)
        a = pbc.Ammo(dm, V(v0), T(t0), m, True)
        got0 = a.get_velocity_for_temp(T(t0)) >> U.MPS
        got = a.get_velocity_for_temp(T(tq)) >> U.MPS
        exp = v0 + m * v0 / 15 * (tq - t0)
        if abs(got0 - v0) > 1e-9 * v0 or abs(got - exp) > 1e-9 * max(abs(exp), v0):
            chk.failures.append(Failure('linear', f'v0={v0} T0={t0} modifier={m}: v(T0)={got0}, v({tq})={got}, expected {exp}',
                                        {'op': 'linear', 'v0': v0, 't0': t0, 'modifier': m, 'tq': tq, 'observed': got, 'expected': exp}))
        # --- calibration reproduces the second measurement
        a = pbc.Ammo(dm, V(v0), T(t0), 0, True)
        hist = ''
        r = rng.random()
        if r < 0.2:
            # a long-lived ammunition: its quantities were displayed in other units (in-place <<) before the calibration
            sg.scramble_units(pbc, rng, a)
            hist = ' [quantities of the ammo re-labelled with << before the calibration]'
        elif r < 0.35:
            a.mv = V(v0)
            a.powder_temp = T(t0)
            hist = ' [mv / powder_temp re-assigned (same magnitudes, other units) before the calibration]'
        elif r < 0.5:
            pbc.PreferredUnits.velocity, pbc.PreferredUnits.temperature = rng.choice(VU), rng.choice(TU)
            hist = f' [preferred units changed to {pbc.PreferredUnits.velocity.name}/{pbc.PreferredUnits.temperature.name} after construction]'
        a.calc_powder_sens(V(v1), T(t1))
        got = a.get_velocity_for_temp(T(t1)) >> U.MPS
        gotb = a.get_velocity_for_temp(T(t0)) >> U.MPS
        pbc.PreferredUnits.defaults()
        if abs(got - v1) > 1e-9 * v1 or abs(gotb - v0) > 1e-9 * v0:
            order = ('faster' if dv > 0 else 'slower') + '+' + ('warmer' if dt > 0 else 'colder') + ('+history' if hist else '')
            chk.failures.append(Failure(f'calibration:{order}',
                                        f'baseline {v0:.3f} m/s @ {t0:.2f} C (reproduced as {gotb:.4f}){hist}, second {v1:.3f} m/s @ {t1:.2f} C ({order}): '
                                        f'calibrated ammo predicts {got:.4f} m/s at the second temperature',
                                        {'op': 'calibration', 'v0': v0, 't0': t0, 'v1': v1, 't1': t1, 'observed': got, 'expected': v1,
                                         'python': f'from py_ballisticcalc import *; a=Ammo(DragModel(0.3,TableG7),Unit.MPS({v0!r}),Unit.Celsius({t0!r}),0,True); '
                                                   f'a.calc_powder_sens(Unit.MPS({v1!r}),Unit.Celsius({t1!r})); a.get_velocity_for_temp(Unit.Celsius({t1!r})) >> Unit.MPS'}))
    # --- bare numbers mean the preferred unit (C07 for this API): incl. numbers that coincide with a stored raw value
    try:
        for pu in (U.Celsius, U.Kelvin, U.Fahrenheit, U.Rankin):
            pbc.PreferredUnits.temperature = pu
            v0, t0c = rng.uniform(300, 1000), rng.uniform(-20, 30)
            a = pbc.Ammo(dm, U.MPS(v0), U.Celsius(t0c), rng.uniform(0.005, 0.03), True)
            base_raw = a.powder_temp.raw_value               # the baseline as stored (Fahrenheit)
            for x in (base_raw, a.powder_temp >> pu, 0.0, round(base_raw), rng.uniform(-30, 120)):
                evals += 1
                try:
                    got = a.get_velocity_for_temp(x).raw_value
                    exp = a.get_velocity_for_temp(pu(x)).raw_value
                except Exception:  # noqa
                    continue
                if got != exp:
                    chk.failures.append(Failure('bare-temperature-query', f'get_velocity_for_temp({x!r}) with preferred unit {pu.name} gives {got} m/s, the explicit quantity {pu.name}({x!r}) gives {exp} m/s',
                                                {'op': 'bare-query', 'preferred': pu.name, 'x': x, 'observed': got, 'expected': exp}))
    finally:
        pbc.PreferredUnits.defaults()
    # --- the solver launches with the velocity for the atmosphere's powder temperature
    calc = pbc.Calculator()
    for k in range(8 if chk.tier == 'quick' else 60):
        if chk.over():
            break
        v0, t0, m = rng.uniform(300, 1000), rng.uniform(0, 30), rng.uniform(0.005, 0.03)
        a = pbc.Ammo(dm, U.MPS(v0), U.Celsius(t0), m, True)
        air = rng.uniform(-20, 35)
        pw = rng.choice([None, rng.uniform(-20, 35), 0.0, 0])
        bare = ''
        if pw is not None and rng.random() < 0.5:
            # the powder temperature as a BARE number: that number in the preferred temperature unit — zero included
            pu = rng.choice([U.Celsius, U.Fahrenheit])
            pbc.PreferredUnits.temperature = pu
            num = pw if pu == U.Celsius else rng.choice([0, 0.0, rng.uniform(0, 90)])
            pw = U.Celsius(pu(num) >> U.Celsius).unit_value if pu != U.Celsius else pw
            atmo = pbc.Atmo(0, 29.92, U.Celsius(air), 0, num)
            pbc.PreferredUnits.defaults()
            bare = f' (powder_t given as the bare number {num!r} under preferred unit {pu.name})'
        else:
            atmo = pbc.Atmo(0, 29.92, U.Celsius(air), 0, None if pw is None else U.Celsius(pw))
        shot = pbc.Shot(pbc.Weapon(), a, atmo=atmo)
        row0 = calc.fire(shot, U.Meter(20), U.Meter(10)).trajectory[0]
        exp = a.get_velocity_for_temp(U.Celsius(air if pw is None else pw)) >> U.MPS
        got = row0.velocity >> U.MPS
        evals += 1
        if abs(got - exp) > 1e-9 * exp:
            chk.failures.append(Failure('solver-launch', f'launch velocity {got} != velocity for powder temperature {exp}{bare}',
                                        {'op': 'solver-launch', 'v0': v0, 't0': t0, 'modifier': m, 'air': air, 'powder': pw,
                                         'observed': got, 'expected': exp}))
        # the SAME shot object on the SAME calculator after the user changed what the launch velocity depends on
        for step in range(3):
            kind = rng.choice(['new-atmosphere', 'calibrate', 'toggle-sensitivity', 'new-baseline'])
            if kind == 'new-atmosphere':
                air = rng.uniform(-20, 35)
                pw = rng.choice([None, rng.uniform(-20, 35)])
                shot.atmo = pbc.Atmo(0, 29.92, U.Celsius(air), 0, None if pw is None else U.Celsius(pw))
            elif kind == 'calibrate':
                a.calc_powder_sens(U.MPS(v0 * rng.uniform(0.9, 0.99)), U.Celsius(t0 - rng.uniform(5, 30)))
            elif kind == 'toggle-sensitivity':
                a.use_powder_sensitivity = not a.use_powder_sensitivity
            else:
                a.mv = U.MPS(rng.uniform(300, 1000))
            exp = a.get_velocity_for_temp(shot.atmo.powder_temp) >> U.MPS
            try:
                got = calc.fire(shot, U.Meter(20), U.Meter(10)).trajectory[0].velocity >> U.MPS
            except pbc.RangeError as e:      # (an extreme calibration can give a velocity too low, or negative, to reach 20 m: the muzzle row still shows it)
                if not e.incomplete_trajectory:
                    continue
                got = e.incomplete_trajectory[0].velocity >> U.MPS
            evals += 1
            if abs(got - abs(exp)) > 1e-9 * abs(exp):      # the row's velocity column is a speed
                chk.failures.append(Failure('solver-launch-refired', f'the same Shot re-fired on the same Calculator after {kind}: launch velocity {got} m/s, the ammunition '
                                                                     f'gives {exp} m/s for the atmosphere\'s powder temperature',
                                            {'op': 'solver-launch-refired', 'after': kind, 'observed': got, 'expected': exp}))
                break
    chk.search_evals += evals
