"""C18 — configuration is honoured, local to its calculator, and parsed faithfully."""
import math

from vlib.common import Corr, Failure, f2b, import_repo
from vlib import shotgen as sg
from vlib import trajcorr

ID = 'C18'
GENS = ['units', 'consts']
TARGETS = ['BC.Props.C18']
PROP_FILES = ['BC/Props/C18.lean']
THEOREMS = ['C18_config_merge', 'C18_defaults', 'C18_set_rejects_nonpositive', 'C18_global_step_history', 'C18_global_step_last', 'C18_step_bound',
            'C18_lower_tables', 'C18_names_resolve', 'C18_aliases_resolve', 'C18_case_blind', 'C18_unknown_safe', 'C18_set_pref', 'C18_radian']
STATEMENTS = {
    'C18_config_merge': 'each of the 8 settings = override if given, else the default read off the current source (regenerated module constants; max step default = the CURRENT global step)',
    'C18_defaults': 'regenerated: initial global step 0.5, gravity -32.17405, and which module constant feeds which configuration field',
    'C18_set_rejects_nonpositive': 'set_global_max_calc_step_size(v <= 0) is a ValueError and changes nothing',
    'C18_global_step_history': 'induction over ANY history of set/reset/create: a calculator is built from its overrides and the global step in force when created; no later operation changes it',
    'C18_global_step_last': 'the global step after a history is the last successfully set / reset value; creating calculators and rejected sets leave it',
    'C18_step_bound': 'air-relative advance |v - w| dt <= calc_step = max_step/2 <= max_step for every step',
    'C18_lower_tables': 'regenerated, kernel-evaluated: the lower-cased look-up tables = lower-casing of the enumeration names / alias table',
    'C18_names_resolve': 'kernel-evaluated over the whole enumeration: every name, as written and upper-cased with blanks, resolves to its unit (radian included)',
    'C18_aliases_resolve': 'kernel-evaluated over the whole alias table: every alias, as written and upper-cased with blanks, resolves to its unit',
    'C18_case_blind': 'for ALL character lists: upper-/lower-casing leaves the normalised name (all the look-up reads) unchanged',
    'C18_unknown_safe': 'a name resolves only to the unit of a slot of that name, the unit with that name, or an alias group containing it; otherwise none',
    'C18_set_pref': 'PreferredUnits.set with a string stores exactly the parsed unit; unknown slot / unparsable value leaves everything unchanged',
    'C18_radian': 'regression: set(angular="radian"), "1rad", " -2.5 MoA", "12.", "ft", "3 parsecs", "set" behave as specified',
}
TRUSTED = [
    'Lean 4.33.0 kernel (decide +kernel evaluates the table theorems in the kernel; no extra axiom); Mathlib/Batteries; axioms propext, Classical.choice, Quot.sound',
    'translate/t_units.py (enumeration, alias table incl. its str.lower() image, preferred-unit slots) and translate/t_consts.py, re-run on every check',
    'hand-written models BC/Model/Parse.lean (regexes of _parse_value modelled by a recogniser) and BC/Model/Config.lean tied to the implementation by exact '
    'correspondence: parse_unit / parse_value exhaustively over all names and aliases x case patterns x blanks x numeric prefixes, setpref, cfgops histories',
    'that each configured setting GOVERNS the computation is shown by the solver model taking its limits, gravity, accuracy, iteration cap and step from the '
    'Config record (C01, C02, C04 theorems) plus the behavioural search below',
]
ASSUME = ['ASCII letter case and U+0020 blanks (str.lower/strip/replace on other characters are not modelled); TOML file discovery on disk is not modelled']
RULE = ('all 41 names + all aliases x {as written, lower, upper, title, random case} x {no blank, leading/trailing, inner for value strings} x numeric prefixes; '
        'unknown / slot / attribute names; histories of set/reset/create with random overrides; distinct_nontrivial = distinct parse op lines')


def hx(s):
    return s.encode('utf-8').hex() if s else '-'


def prefs_codes(pbc):
    return ' '.join(str(int(getattr(pbc.PreferredUnits, f))) for f in pbc.PreferredUnits.__dataclass_fields__)


def case_variants(rng, s):
    """letter-case variants; only ASCII letters are changed (the model's case handling is ASCII, as documented)"""
    def up(c):
        return c.upper() if c.isascii() else c

    def lo(c):
        return c.lower() if c.isascii() else c
    out = {s, ''.join(map(lo, s)), ''.join(map(up, s)), ''.join(up(c) if i == 0 else lo(c) for i, c in enumerate(s))}
    for _ in range(2):
        out.add(''.join(up(c) if rng.random() < 0.5 else lo(c) for c in s))
    return sorted(v for v in out if v.lower() == s.lower())


def correspondence(chk, drv):
    pbc = import_repo()
    from py_ballisticcalc.unit import _parse_unit, _parse_value
    import py_ballisticcalc.trajectory_calc as tcm
    U = pbc.Unit
    rng = chk.rng
    pbc.PreferredUnits.defaults()
    cu, cv, cs_, cc = Corr('parse_unit'), Corr('parse_value'), Corr('setpref'), Corr('cfgops')
    names = [u.name for u in U] + [a for g in pbc.UnitAliases for a in g]
    junk = ['set', 'defaults', 'distance', 'angular', 'sight_height', 'parsec', '', ' ', 'foo', 'inchesper', 'mete', 'rr', '__class__', 'mro']
    pc = prefs_codes(pbc)
    for n in names + junk:
        for v in case_variants(rng, n):
            for pad in ('', ' ', '  '):
                s = pad + v + pad[::-1] + (' ' if pad else '')
                try:
                    r = _parse_unit(s)
                    ans = f'ok {int(r)}' if isinstance(r, U) else ('none' if r is None else 'garbage:' + type(r).__name__)
                except Exception as e:  # noqa
                    ans = 'raise:' + type(e).__name__
                cu.add(f'parse_unit {pc} {hx(s)}', ans, s)
    prefixes = ['1', '-2.5', '12.', '.5', '007', '-0.0', '3.14159']
    for n in (names if chk.tier != 'quick' else rng.sample(names, 60)) + ['parsec', 'set', '']:
        for v in case_variants(rng, n)[:3]:
            for pre in rng.sample(prefixes, 3):
                for s in (pre + v, f' {pre} {v} ', pre + '  ' + v):
                    try:
                        q = _parse_value(s, U.Meter)
                        ans = ('q', int(q.units), f2b(q.raw_value))
                    except pbc.UnitAliasError as e:
                        ans = ('err', "alias" if ('Unsupported unit' in str(e) or 'Unsupported' in str(e)) else 'parse')
                        if "Can't parse" in str(e):
                            ans = ('err', 'parse')
                    except Exception as e:  # noqa
                        ans = ('raise', type(e).__name__)
                    cv.add(f'parse_value {pc} {hx(s)}', ans, s)
    for s in ['', '-', '.', '1e5m', '12.5.3m', 'm', '--1m', '1 2 m', '5 yd', '.5.5']:
        try:
            q = _parse_value(s, U.Meter)
            ans = ('q', int(q.units), f2b(q.raw_value))
        except pbc.UnitAliasError as e:
            ans = ('err', 'parse' if "Can't parse" in str(e) else 'alias')
        except Exception as e:  # noqa
            ans = ('raise', type(e).__name__)
        cv.add(f'parse_value {pc} {hx(s)}', ans, s)
    # PreferredUnits.set with strings
    slots = list(pbc.PreferredUnits.__dataclass_fields__)
    for _ in range(150 if chk.tier == 'quick' else 3000):
        pbc.PreferredUnits.defaults()
        for f in rng.sample(slots, 3):
            dimu = [u for u in U if type(u(1.0)) is type(getattr(pbc.PreferredUnits, f)(1.0))]
            setattr(pbc.PreferredUnits, f, rng.choice(dimu))
        before = prefs_codes(pbc)
        slot = rng.choice(slots + ['nosuchslot', 'set'])
        val = rng.choice(names + junk)
        val = rng.choice(case_variants(rng, val))
        try:
            pbc.PreferredUnits.set(**{slot: val})
            cur = [getattr(pbc.PreferredUnits, f) for f in slots]
            ans = ' '.join(str(int(u)) for u in cur) if all(isinstance(u, U) for u in cur) else 'garbage-stored'
        except Exception as e:  # noqa
            ans = 'raise:' + type(e).__name__
        cs_.add(f'setpref {before} {hx(slot)} {hx(val)}', ans, (slot, val))
    pbc.PreferredUnits.defaults()
    # global step / calculator histories
    for _ in range(60 if chk.tier == 'quick' else 2000):
        tcm.reset_globals()
        ops, outs, calcs = [], [], []
        for _ in range(rng.randint(1, 8)):
            r = rng.random()
            if r < 0.35:
                v = rng.choice([0.0, -1.0, 0.25, 1.0, rng.uniform(0.01, 5)])
                q = rng.choice([pbc.Unit.Foot, pbc.Unit.Inch, pbc.Unit.Meter])(v)
                try:
                    tcm.set_global_max_calc_step_size(q)
                    outs.append('ok')
                except ValueError:
                    outs.append('err:value')
                ops.append(f's {f2b(q.raw_value)}')
            elif r < 0.45:
                tcm.reset_globals()
                ops.append('r')
                outs.append('ok')
            else:
                cfg = sg.gen_config(rng, 0.3)
                calcs.append(pbc.Calculator(_config=cfg))
                ov = [cfg.get(k) for k in sg.CFG_FIELDS]
                ops.append('n ' + ' '.join('-' if x is None else (str(int(x)) if k == 'cMaxIterations' else str(f2b(x))) for k, x in zip(sg.CFG_FIELDS, ov)))
                outs.append('ok')
        gl = tcm._globalMaxCalcStepSizeFeet
        ans = ' '.join(outs) + ' | ' + 'f%d' % f2b(gl) + ' | ' + ' ; '.join(
            ' '.join(['f' + x if i != 5 else x for i, x in enumerate(sg.enc_config(c._calc._config).split())]) for c in calcs)
        cc.add(f'cfgops {len(ops)} ' + ' '.join(ops), ans)
    tcm.reset_globals()
    # every solver setting governs the computation: whole trajectories under random overrides (winds included) vs the model, bit for bit
    trajcorr.corr_fire(chk, drv, pbc, 12 if chk.tier == 'quick' else 600, cfg_default=0.2, label='fire-config')
    # finish: parse_value needs post-processing of the model's answer (prefix text -> float -> raw value through the real constructor)
    for c in (cu, cs_, cc):
        r = c.finish(drv)
        chk.corr.append(r)
        chk.oblige(f'corr:{c.op}', 'correspondence', r['mismatch'] == 0, f"{r['cases']} cases, {r['bit_identical']} identical, {r['mismatch']} mismatches")
    out = drv.run(cv.lines)
    mism = []
    for line, py, ml, meta in zip(cv.lines, cv.py, out, cv.meta):
        t = ml.split()
        if t[0] == 'num':
            txt = bytes.fromhex(t[1]).decode() if t[1] != '-' else ''
            exp = ('q', int(U.Meter), f2b(U.Meter(float(txt)).raw_value))
        elif t[0] == 'unit':
            txt = bytes.fromhex(t[2]).decode()
            exp = ('q', int(t[1]), f2b(U(int(t[1]))(float(txt)).raw_value))
        else:
            exp = ('err', t[0].split(':')[1])
        if exp != py:
            mism.append({'string': meta, 'python': py, 'model': ml})
    r = {'op': 'parse_value', 'cases': len(cv.lines), 'bit_identical': len(cv.lines) - len(mism), 'within_tolerance': 0, 'mismatch': len(mism), 'mismatches': mism[:5]}
    chk.corr.append(r)
    chk.oblige('corr:parse_value', 'correspondence', not mism, f"{r['cases']} strings, {r['mismatch']} mismatches")
    chk.samples.append({'corr_op': cu.lines[3], 'string': cu.meta[3], 'python': cu.py[3]})
    chk.samples.append({'corr_op': cc.lines[0][:200], 'python': cc.py[0][:200]})
    chk.stats['distinct_nontrivial'] = len(set(cu.lines)) + len(set(cv.lines))
    chk.stats['parse_unit_outcomes'] = {'resolved': sum(a.startswith('ok') for a in cu.py), 'none': cu.py.count('none'),
                                        'other': sum(not (a.startswith('ok') or a == 'none') for a in cu.py)}


def search(chk, broken):
    """behavioural oracle on the real code: settings govern their calculator only; step bound; names/aliases parse back"""
    pbc = import_repo()
    from py_ballisticcalc.unit import _parse_unit, _parse_value
    import py_ballisticcalc.trajectory_calc as tcm
    import py_ballisticcalc.trajectory_calc._trajectory_calc as tc
    U = pbc.Unit
    rng = chk.rng
    evals = 0
    pbc.PreferredUnits.defaults()
    # --- names and aliases, any case, with numeric prefix, radian included
    for u in U:
        if chk.over():
            break
        for s in case_variants(rng, u.name):
            evals += 1
            if _parse_unit(' ' + s) is not u:
                chk.failures.append(Failure(f'name:{u.name}', f'_parse_unit({s!r}) = {_parse_unit(s)!r}, expected {u!r}', {'op': 'name', 'string': s}))
                break
        try:
            q = _parse_value(f'2 {u.name.upper()}', None)
            okq = q.units == u and abs(q.unit_value - 2) < 1e-9
        except Exception as e:  # noqa
            okq = False
        if not okq:
            chk.failures.append(Failure(f'value-string:{u.name}', f'"2 {u.name.upper()}" does not parse to 2 {u.name}', {'op': 'value', 'unit': u.name}))
    for group, u in pbc.UnitAliases.items():
        if chk.over():
            break
        for a in group:
            evals += 1
            if _parse_unit(a.upper()) is not u or _parse_unit(a) is not u:
                chk.failures.append(Failure(f'alias:{a}', f'alias {a!r} does not resolve to {u!r}', {'op': 'alias', 'alias': a}))
    slots = list(pbc.PreferredUnits.__dataclass_fields__)
    for bad in ('set', 'defaults', 'parsec', '', 'mro'):
        if chk.over():
            break
        before = [getattr(pbc.PreferredUnits, f) for f in slots]
        try:
            pbc.PreferredUnits.set(distance=bad)
        except Exception:  # noqa
            pass
        after = [getattr(pbc.PreferredUnits, f) for f in slots]
        if after != before:
            chk.failures.append(Failure('unknown-name-changes-settings', f'PreferredUnits.set(distance={bad!r}) changed the settings to {after[1]!r}', {'op': 'unknown', 'value': bad}))
        pbc.PreferredUnits.defaults()
    pbc.PreferredUnits.set(angular='RADIAN')
    if pbc.PreferredUnits.angular is not U.Radian:
        chk.failures.append(Failure('radian-ignored', "PreferredUnits.set(angular='RADIAN') left angular = %r" % pbc.PreferredUnits.angular, {'op': 'radian'}))
    pbc.PreferredUnits.defaults()
    # --- settings govern this calculator and no other; defaults; global step history
    tcm.reset_globals()
    n = 6 if (chk.tier == 'quick' and not broken) else 200
    dm = pbc.DragModel(0.3, pbc.TableG7)
    for _ in range(n):
        if chk.over():
            break
        evals += 1
        shot = pbc.Shot(pbc.Weapon(2), pbc.Ammo(dm, U.FPS(rng.uniform(1500, 3000))), look_angle=U.Degree(rng.uniform(0, 5)))
        steps = {}
        orig = tc._TrajectoryDataFilter.should_record

        def spy(self, position, velocity, mach, time, _rec=steps):
            _rec.setdefault('x', []).append((position.x, position.y, position.z, velocity.magnitude(), time))
            return orig(self, position, velocity, mach, time)
        ms = rng.choice([0.1, 0.5, 1.3, 2.0])
        tcm.set_global_max_calc_step_size(U.Foot(rng.choice([0.3, 0.7])))
        gl = tcm._globalMaxCalcStepSizeFeet
        c_def = pbc.Calculator()
        c_set = pbc.Calculator(_config={'max_calc_step_size_feet': ms, 'cMinimumVelocity': 1200.0, 'cGravityConstant': -16.0})
        tcm.set_global_max_calc_step_size(U.Foot(5.0))      # must not affect the two calculators above
        c_late = pbc.Calculator()
        if c_def._calc._config.max_calc_step_size_feet != gl or c_late._calc._config.max_calc_step_size_feet != 5.0 \
                or c_set._calc._config.max_calc_step_size_feet != ms or c_def._calc._config.cGravityConstant != -32.17405:
            chk.failures.append(Failure('config-values', 'calculator configuration is not override-else-default / not local', {'op': 'config'}))
        tc._TrajectoryDataFilter.should_record = spy
        try:
            for calc, lim in ((c_def, gl), (c_set, ms)):
                steps.clear()
                try:
                    calc.fire(shot, U.Foot(400), U.Foot(100))
                    reason = None
                except pbc.RangeError as e:
                    reason = e.reason
                pts = steps.get('x', [])
                adv = max((math.dist(a[:3], b[:3]) for a, b in zip(pts, pts[1:])), default=0)
                if adv > lim * 1.000001:
                    chk.failures.append(Failure('step-exceeds-max', f'an integration step advanced {adv} ft with max step {lim} ft', {'op': 'step', 'max_step': lim, 'advance': adv}))
                if calc is c_set:
                    if pts and lim > 0.2 and adv < lim / 2 * 0.5:
                        chk.failures.append(Failure('step-setting-ignored', f'max step {lim} configured but steps advance only {adv} ft', {'op': 'step-ignored', 'max_step': lim}))
                    if reason != pbc.RangeError.MinimumVelocityReached and (shot.ammo.mv >> U.FPS) < 1200:
                        chk.failures.append(Failure('limit-ignored', 'cMinimumVelocity override did not stop the shot', {'op': 'limit'}))
                elif reason is not None:
                    chk.failures.append(Failure('limit-leaked', 'a limit configured on another calculator stopped this one', {'op': 'leak'}))
        finally:
            tc._TrajectoryDataFilter.should_record = orig
        # gravity override changes the drop of that calculator only
        a = c_def.fire(shot, U.Foot(300), U.Foot(300)).trajectory[-1].height.raw_value
        b = pbc.Calculator(_config={'cGravityConstant': -16.0}).fire(shot, U.Foot(300), U.Foot(300)).trajectory[-1].height.raw_value
        a2 = c_def.fire(shot, U.Foot(300), U.Foot(300)).trajectory[-1].height.raw_value
        if not (b > a and a2 == a):
            chk.failures.append(Failure('gravity-setting', 'gravity override not honoured or leaked', {'op': 'gravity', 'heights': [a, b, a2]}))
        # ... through the AIR (the statement of C18_step_bound: air speed at the start of the step x duration of the step <= max step):
        # a lobbed projectile that slows below the speed of a head or tail wind - the wind is then faster than the ground speed
        ms2 = rng.choice([0.5, 1.0, 2.0])
        w = pbc.Wind(U.MPH(rng.uniform(15, 35)), U.Degree(rng.choice([0.0, 180.0])))
        cfg2 = {'cMinimumVelocity': 0.0, 'cMaximumDrop': -5.0, 'max_calc_step_size_feet': ms2}
        lob = pbc.Shot(pbc.Weapon(2, 0), pbc.Ammo(dm, U.FPS(rng.uniform(300, 600))), relative_angle=U.Degree(rng.uniform(80, 88)), winds=[w])
        try:
            rows2 = pbc.Calculator(_config=cfg2).fire(lob, U.Foot(3000), U.Foot(3000), False, 1e-9).trajectory
        except pbc.RangeError as e:
            rows2 = e.incomplete_trajectory
        wx = w.vector.x
        worst = 0.0
        for a, b in zip(rows2, rows2[1:]):
            dt = b.time - a.time
            if dt <= 0 or int(a.flag) != 8 or int(b.flag) != 8:
                continue
            sp, ang = a.velocity >> U.FPS, a.angle >> U.Radian
            air = math.hypot(sp * math.cos(ang) - wx, sp * math.sin(ang))      # (wind along the line of fire, no lateral motion)
            worst = max(worst, air * dt)
        evals += 1
        if worst > ms2 * (1 + 1e-6):
            chk.failures.append(Failure('air-step-too-long', f'a {lob.relative_angle >> U.Degree:.0f} deg lob into a {w.velocity >> U.MPH:.0f} mph wind with maximum step {ms2} ft: in one integration step '
                                                             f'air speed x duration = {worst:.4f} ft',
                                        {'op': 'air-step', 'max_step_ft': ms2, 'observed_ft': worst, 'wind_mph': w.velocity >> U.MPH, 'elevation_deg': lob.relative_angle >> U.Degree}))
        # zero accuracy / iteration cap
        try:
            pbc.Calculator(_config={'cMaxIterations': 1, 'cZeroFindingAccuracy': 1e-9}).set_weapon_zero(
                pbc.Shot(pbc.Weapon(2), pbc.Ammo(dm, U.FPS(2600))), U.Yard(300))
            chk.failures.append(Failure('iteration-cap-ignored', 'cMaxIterations=1 with accuracy 1e-9 still returned a zero', {'op': 'itercap'}))
        except pbc.ZeroFindingError as e:
            if e.iterations_count > 1:
                chk.failures.append(Failure('iteration-cap-ignored', f'{e.iterations_count} iterations with cMaxIterations=1', {'op': 'itercap'}))
        good = rng.choice([0.3, 0.7, 1.25])
        tcm.set_global_max_calc_step_size(U.Foot(good))
        in_force = tcm.get_global_max_calc_step_size() >> U.Foot
        in_force_built = pbc.Calculator()._calc._config.max_calc_step_size_feet
        bad = rng.choice([0, -1.0, U.Foot(0), U.Inch(-3)])
        try:
            tcm.set_global_max_calc_step_size(bad)
            chk.failures.append(Failure('nonpositive-step-accepted', 'a non-positive global step was accepted', {'op': 'set'}))
        except ValueError:
            pass
        # a REJECTED value leaves the setting as it was: for the getter and for calculators built afterwards
        now = tcm.get_global_max_calc_step_size() >> U.Foot
        built = pbc.Calculator()._calc._config.max_calc_step_size_feet
        if now != in_force or built != in_force_built:
            chk.failures.append(Failure('rejected-step-stored', f'after the rejected set_global_max_calc_step_size({bad!r}) the global step reads {now} ft and a new calculator '
                                                                f'gets {built} ft; the value in force before was {in_force} ft',
                                        {'op': 'rejected-set', 'in_force_ft': in_force, 'rejected': repr(bad), 'global_after_ft': now, 'new_calculator_ft': built}))
        tcm.reset_globals()
        if pbc.Calculator()._calc._config.max_calc_step_size_feet != 0.5:
            chk.failures.append(Failure('default-step', 'default step after reset is not 0.5 ft', {'op': 'default'}))
    chk.search_evals += evals
