"""C19 — sight click counts are the angular correction divided by the click value."""
import copy

from vlib.common import Corr, Failure, f2b, import_repo
from vlib import shotgen as sg

ID = 'C19'
GENS = []
TARGETS = ['BC.Props.C19']
PROP_FILES = ['BC/Props/C19.lean']
# source ties: function bodies regenerated from the Python source by translate/t_funcs.py, proved equal to the model functions
SRC = [{'module': 'BC.Props.C19Src', 'file': 'BC/Props/C19Src.lean',
       'theorems': ['C19_src_adjustment_SFP', 'C19_src_adjustment_FFP', 'C19_src_adjustment_LWIR']},
       # the click law under rounded arithmetic (interpretation E)
       {'module': 'BC.Props.C19Rounded', 'file': 'BC/Props/C19Rounded.lean', 'lemma_files': ['BC/Rounded.lean', 'BC/Props/C06Rounded.lean'], 'funcs': False,
        'kind': 'theorem', 'theorems': ['C19_clicks_rounded']}]
THEOREMS = ['C19_clicks', 'C19_ffp_independent', 'C19_linear', 'C19_sign', 'C19_validation']
STATEMENTS = {
    'C19_clicks_rounded': 'ROUNDED ARITHMETIC (interpretation E): for ANY rounding of relative error u with (1+u)^3 < 2 applied after every operation, the SFP click count computed by Sight.adjustment is within (1+u)/(2-(1+u)^3) - 1 (about 4u: a few ulps) of correction / (click * calibration / target * magnification), for every sight and correction',
    'C19_src_adjustment_SFP': 'SOURCE TIE (all C19_src_*): Sight.get_adjustment with _adjust_sfp_reticle_steps/get_sfp_step inlined, executed symbolically per focal plane from the Python source on every run, equals the model click law',
    'C19_clicks': 'adjustment = (drop / effClick(fp, vClick), wind / effClick(fp, hClick)); effClick: FFP nominal, '
                  'SFP nominal*(calibration/target)*mag, LWIR nominal/mag',
    'C19_ffp_independent': 'FFP: result independent of target distance and magnification',
    'C19_linear': 'adjustment(c*d1+d2, c*w1+w2) = c*adjustment(d1,w1) + adjustment(d2,w2), componentwise',
    'C19_sign': 'positive effective clicks: sign of each click count = sign of the correction',
    'C19_validation': 'unknown focal plane / SFP without calibration distance / click of wrong type / non-positive click are '
                      'rejected in that order; otherwise the sight stores the given values',
}
TRUSTED = [
    'Lean 4.33.0 kernel; Mathlib; axioms propext, Classical.choice, Quot.sound',
    'hand-written model BC/Model/Sight.lean tied to munition.py by the correspondence ops sight_new / sight_adj (bit-exact expected)',
    'exact real arithmetic in the theorems; the search oracle re-checks the click law on the real code to 1e-9 relative',
]
ASSUME = ['finite inputs; bool click sizes (accepted by isinstance(.., int)) are not generated']
RULE = ('random sights: 3 focal planes + invalid names, calibration distance absent / bare 0 / bare number / Distance in any unit, '
        'click sizes absent / bare / Angular in any linear or tangent unit / zero / negative / wrong type, h != v in most cases; '
        'corrections of both signs directly and via a TrajectoryData row; distinct_nontrivial = distinct op lines')


def make_sight_args(pbc, rng):
    U = pbc.Unit
    AU = [U.Mil, U.MOA, U.MRad, U.Radian, U.Degree, U.Thousandth, U.InchesPer100Yd, U.CmPer100m]
    DU = [U.Meter, U.Yard, U.Foot, U.Inch, U.Kilometer, U.Centimeter]
    fp = rng.choice(['FFP', 'SFP', 'LWIR', 'SFP', 'SFP', 'XFP', 'ffp'])
    r = rng.random()
    sc = None if r < 0.15 else 0 if r < 0.22 else rng.uniform(10, 300) if r < 0.4 else rng.choice(DU)(rng.uniform(10, 300))

    def click():
        r = rng.random()
        if r < 0.05:
            return None
        if r < 0.09:
            return 'x'
        if r < 0.14:
            return rng.choice([0.0, -0.1])
        if r < 0.2:
            return rng.choice(AU)(rng.choice([0.0, -0.2]))
        if r < 0.4:
            return rng.uniform(0.05, 1.0)
        u = rng.choice(AU)
        return u(rng.uniform(0.05, 1.0))
    return fp, sc, click(), click()


def sight_new_answer(pbc, args):
    fp, sc, h, v = args
    try:
        s = pbc.Sight(fp, sc, h, v)
        return 'ok f%d f%d f%d' % (f2b(s.scale_factor.raw_value), f2b(s.h_click_size.raw_value), f2b(s.v_click_size.raw_value)), s
    except ValueError as e:
        return ('err:focalplane' if 'focal' in str(e).lower() else 'err:scale'), None
    except TypeError as e:
        return ('err:clickpos' if 'positive' in str(e) else 'err:clicktype'), None


def opt_raw(pbc, x, slot):
    """raw value the model receives for an optional float-or-quantity argument (None / falsy -> absent)"""
    if x is None or isinstance(x, str):
        return '-'
    if isinstance(x, pbc.AbstractDimension):
        return str(f2b(x.raw_value))
    return str(f2b(getattr(pbc.PreferredUnits, 'distance' if slot == 'scale' else slot)(x).raw_value))


def correspondence(chk, drv):
    pbc = import_repo()
    U = pbc.Unit
    rng = chk.rng
    n = 600 if chk.tier == 'quick' else 30000
    cn, ca = Corr('sight_new'), Corr('sight_adj', max_ulps=0)
    AU = [U.Mil, U.MOA, U.MRad, U.Radian, U.Degree, U.InchesPer100Yd, U.CmPer100m]
    DU = [U.Meter, U.Yard, U.Foot, U.Kilometer]
    sights = []
    for _ in range(n):
        args = make_sight_args(pbc, rng)
        ans, s = sight_new_answer(pbc, args)
        fp, sc, h, v = args
        sc1 = f2b(pbc.PreferredUnits.distance(1).raw_value)
        hh = '-' if (h is None or isinstance(h, str)) else opt_raw(pbc, h, 'adjustment')
        vv = '-' if (v is None or isinstance(v, str)) else opt_raw(pbc, v, 'adjustment')
        cn.add(f'sight_new {fp} {opt_raw(pbc, sc, "scale") if sc is not None else "-"} {sc1} {hh} {vv}', ans, repr(args))
        if s is not None:
            sights.append(s)
    by_dim = {}
    for u in U:
        by_dim.setdefault(type(u(1.0)).__name__, []).append(u)
    for s in sights:
        # between construction and use: the settings may change and the owner of the quantities may re-label them
        if rng.random() < 0.5:
            pbc.PreferredUnits.distance = rng.choice(by_dim['Distance'])
            pbc.PreferredUnits.adjustment = rng.choice(by_dim['Angular'])
        if rng.random() < 0.5:
            sg.scramble_units(pbc, rng, s)
        for _ in range(2):
            td = rng.choice(DU)(rng.uniform(20, 2000))
            drop = rng.choice(AU)(rng.uniform(-20, 20))
            wind = rng.choice(AU)(rng.uniform(-20, 20))
            mag = rng.choice([1.0, 2.0, 10.0, rng.uniform(1, 25)])
            r = s.get_adjustment(td, drop, wind, mag)
            ca.add(f'sight_adj {s.focal_plane} {f2b(s.scale_factor.raw_value)} {f2b(s.h_click_size.raw_value)} '
                   f'{f2b(s.v_click_size.raw_value)} {f2b(td.raw_value)} {f2b(drop.raw_value)} {f2b(wind.raw_value)} {f2b(mag)}',
                   'f%d f%d' % (f2b(r.vertical), f2b(r.horizontal)), str(s))
        # a long-lived sight: re-tuned through its public fields (or copied and re-tuned), then asked again at the SAME distance and
        # magnification — the model is stateless and receives the raw values read at call time
        if rng.random() < 0.5:
            t = copy.copy(s) if rng.random() < 0.3 else s
            which = rng.randrange(1, 8)
            if which & 1:
                t.v_click_size = rng.choice(AU[:5])(rng.uniform(0.05, 1.0))
            if which & 2:
                t.h_click_size = rng.choice(AU[:5])(rng.uniform(0.05, 1.0))
            if which & 4:
                t.scale_factor = rng.choice(DU)(rng.uniform(20, 400))
            for q in ([s, t] if t is not s else [s]):
                r = q.get_adjustment(td, drop, wind, mag)
                ca.add(f'sight_adj {q.focal_plane} {f2b(q.scale_factor.raw_value)} {f2b(q.h_click_size.raw_value)} '
                       f'{f2b(q.v_click_size.raw_value)} {f2b(td.raw_value)} {f2b(drop.raw_value)} {f2b(wind.raw_value)} {f2b(mag)}',
                       'f%d f%d' % (f2b(r.vertical), f2b(r.horizontal)), 're-tuned ' + str(q))
    pbc.PreferredUnits.defaults()
    for c in (cn, ca):
        r = c.finish(drv)
        chk.corr.append(r)
        chk.oblige(f'corr:{c.op}', 'correspondence', r['mismatch'] == 0,
                   f"{r['cases']} cases, {r['bit_identical']} bit-identical, {r['within_tolerance']} within tolerance, {r['mismatch']} mismatches")
    chk.samples.append({'corr_op': cn.lines[0], 'python': cn.py[0], 'args': cn.meta[0]})
    if ca.lines:
        chk.samples.append({'corr_op': ca.lines[0], 'python': ca.py[0], 'sight': ca.meta[0]})
    chk.stats['distinct_nontrivial'] = len(set(cn.lines)) + len(set(ca.lines))
    chk.stats['sight_new_outcomes'] = {k: cn.py.count(k) for k in set(a.split()[0] for a in cn.py)}


def search(chk, broken):
    pbc = import_repo()
    U = pbc.Unit
    rng = chk.rng
    n = 400 if (chk.tier == 'quick' and not broken) else 20000
    AU = [U.Mil, U.MOA, U.MRad, U.Degree, U.Thousandth]
    DU = [U.Meter, U.Yard, U.Foot]
    evals = 0
    for k in range(n):
        if chk.over():
            break
        fp = ['FFP', 'SFP', 'LWIR'][k % 3]
        hu, vu = rng.choice(AU), rng.choice(AU)
        h, v = hu(rng.uniform(0.05, 1)), vu(rng.uniform(0.05, 1))
        cal = rng.choice(DU)(rng.uniform(50, 300))
        s = pbc.Sight(fp, cal, h, v)
        cal_raw = cal.raw_value
        if rng.random() < 0.5:     # a multi-step history: settings change / the caller re-labels its own quantities after construction
            pbc.PreferredUnits.distance = rng.choice([U.Meter, U.Yard, U.Foot, U.Kilometer])
            sg.scramble_units(pbc, rng, s, cal)
        td = rng.choice(DU)(rng.uniform(30, 1500))
        mag = rng.uniform(1, 20)
        drop, wind = rng.choice(AU)(rng.uniform(-10, 10)), rng.choice(AU)(rng.uniform(-10, 10))
        hr, vr = h.raw_value, v.raw_value   # nominal clicks in radians, read before the call
        if rng.random() < 0.3:
            # a row of an inclined shot: its look_distance (range along the sight line) differs from its distance
            row = pbc.TrajectoryData(0.1, td, U.MPS(800), 2.0, U.Meter(0), U.Meter(0), drop, U.Meter(0), wind,
                                     U.Inch(td.raw_value * rng.choice([1.0, 1.1034, 0.8])), U.Radian(0), 0, 0, U.Joule(1), U.Pound(1), 0)
            r = s.get_trajectory_adjustment(row, mag)
        else:
            r = s.get_adjustment(td, drop, wind, mag)
        evals += 1
        retuned = ''
        if rng.random() < 0.35:
            # the same sight re-tuned through its public fields after it has answered once, asked again at the same distance and
            # magnification (the answer must follow the values the sight holds NOW)
            h, v = rng.choice(AU)(rng.uniform(0.05, 1)), rng.choice(AU)(rng.uniform(0.05, 1))
            cal = rng.choice(DU)(rng.uniform(50, 300))
            s.h_click_size, s.v_click_size, s.scale_factor = h, v, cal
            cal_raw, hr, vr = cal.raw_value, h.raw_value, v.raw_value
            r = s.get_adjustment(td, drop, wind, mag)
            retuned = ' (asked once, re-tuned through its fields, asked again)'
            evals += 1
        k_eff = {'FFP': 1.0, 'SFP': cal_raw / td.raw_value * mag, 'LWIR': 1.0 / mag}[fp]
        ev, eh = drop.raw_value / (vr * k_eff), wind.raw_value / (hr * k_eff)
        if abs(r.vertical - ev) > 1e-9 * abs(ev) + 1e-300 or abs(r.horizontal - eh) > 1e-9 * abs(eh) + 1e-300:
            chk.failures.append(Failure(f'clicks:{fp}',
                                        f'{fp} sight{retuned} h_click={h} v_click={v} calibration={cal} target={td} mag={mag:.3f}: '
                                        f'clicks ({r.vertical:.6f}, {r.horizontal:.6f}) expected ({ev:.6f}, {eh:.6f})',
                                        {'op': 'clicks', 'fp': fp, 'history': retuned.strip(), 'h_click_rad': hr, 'v_click_rad': vr, 'cal_in': cal.raw_value,
                                         'td_in': td.raw_value, 'mag': mag, 'drop_rad': drop.raw_value, 'wind_rad': wind.raw_value,
                                         'observed': [r.vertical, r.horizontal], 'expected': [ev, eh]}))
    pbc.PreferredUnits.defaults()
    # validation
    for args, exc in [(('XXX', U.Meter(100), U.Mil(0.1), U.Mil(0.1)), ValueError), (('SFP', None, U.Mil(0.1), U.Mil(0.1)), ValueError),
                      (('FFP', None, U.Mil(0), U.Mil(0.1)), TypeError), (('FFP', None, U.Mil(0.1), U.Mil(-1)), TypeError),
                      (('LWIR', None, None, U.Mil(0.1)), TypeError)]:
        evals += 1
        try:
            pbc.Sight(*args)
            chk.failures.append(Failure('validation', f'Sight{args} accepted', {'op': 'validation', 'args': repr(args)}))
        except exc:
            pass
    chk.search_evals += evals
